(* Props/C15.v -- property C15: ToUnicode CMaps decode text as the CMap defines.
   Statements only; proofs live in Proofs/CMapProofs*.v.
   Models: Model/CMap.v (repaired code; *_v0 = the code as pinned), Model/RangeMap.v,
   Model/CMapParser.v.  Spec: Spec/CMapSpec.v. *)
From LV Require Import Base.Bytes Model.RangeMap Model.CMap Model.CMapParser Spec.CMapSpec Gen.CMapC
  Proofs.CMapProofs Proofs.CMapProofsText Proofs.CMapParserProofs.

Local Open Scope N_scope.

(* (1) For EVERY list of sections (any mix, order, overlap, adjacency, 1-4 byte codes, single,
   incrementing and array targets) that from_sections accepts, and every code and code length,
   get returns the target of the last definition covering the code: last unit + offset for a
   range, the offset-th entry for an array.  Hypothesis secs_u32: the first code of every
   definition fits its Rust type u32 (a typing fact, not a restriction). *)
Theorem C15_get_eq_spec :
  forall secs cm, secs_u32 secs -> from_sections secs = FsOk cm ->
  forall code len, get cm code len = lookup secs len code.
Proof. exact get_eq_spec. Qed.

(* from_sections rejects exactly the section lists with a backwards range or an empty target list *)
Theorem C15_from_sections_ok_iff :
  forall secs, (exists cm, from_sections secs = FsOk cm) <-> forallb section_ok secs = true.
Proof. exact from_sections_ok_iff. Qed.

(* (2) Segmentation: a byte string that is a concatenation of codes, each mapped at its own length
   and at none of its proper prefixes (prefix-freeness, which codespace ranges give), is cut into
   exactly those codes. *)
Theorem C15_segmentation :
  forall cm codes, Forall (clean_code cm) codes ->
  units_of_text cm (concat codes) = concat (map (code_target cm) codes).
Proof. exact segmentation_units. Qed.

(* (3) UTF-16: a surrogate pair becomes one scalar value, in the supplementary range; the decoder
   computes the UTF-16 relation of the spec. *)
Theorem C15_surrogates_pair :
  forall h l rest, high h -> low l ->
  utf16_units_decode (h :: l :: rest) = scalar_of_pair h l :: utf16_units_decode rest /\
  65536 <= scalar_of_pair h l <= 1114111.
Proof. intros h l rest Hh Hl. split; [apply surrogates_pair | apply scalar_of_pair_range]; assumption. Qed.

Theorem C15_decode_utf16 : forall us cs, utf16 us cs -> utf16_units_decode us = cs.
Proof. exact decode_utf16. Qed.

(* (4) The property as a whole, stated against the spec only: for a CMap given by its sections and
   a text made of defined codes, bytes_to_string returns the concatenation of the scalar values of
   the targets the CMap defines. *)
Theorem C15_decodes :
  forall secs cm (codes : list (bytes * list N * list N)),
  secs_u32 secs -> from_sections secs = FsOk cm ->
  Forall (defined_code secs) codes ->
  bytes_to_string cm (concat (map (fun x => fst (fst x)) codes)) = concat (map snd codes).
Proof. exact decodes_as_defined. Qed.

(* (5) The model of the CMap grammar (Model/CMapParser.v) never answers "out of fuel": its loops
   (many0 / many1 / separated_list1 / the PDF dictionary after /CIDSystemInfo) are started with
   fuel = length of their input + 1, which is enough for EVERY byte string, well-formed, malformed
   or truncated.  So the correspondence runs compare a real outcome of the model on every case. *)
Theorem C15_parser_fuel_sufficient : forall bs, cmap_parse bs <> ParseOutOfFuel.
Proof. exact cmap_parse_fuel. Qed.

Theorem C15_parser_stream_fuel_sufficient : forall bs, cmap_stream bs <> POutOfFuel.
Proof. exact cmap_stream_fuel. Qed.

(* ... and every element parser of a repetition consumes at least one byte when it succeeds, so the
   guards of nom's many0 / many1 / separated_list1 against a parser that succeeds without
   consuming can never fire; the model has no such branch. *)
Theorem C15_parser_repetitions_consume :
  consumes cmap_section /\ consumes cs_range_line /\ consumes bf_char_line /\ consumes bf_range_line /\
  consumes space1 /\ consumes target_string /\ consumes hex_char /\ consumes hex_u16 /\ consumes name.
Proof. exact repetition_elements_consume. Qed.

(* non-vacuity / regression: the input on which the model used to run out of fuel (an array target
   cut off right after its first string: separated_list1 meets the end of input) is a parse error *)
Theorem C15_example_truncated_array :
  range_target_array (bs "[ <0041>") = PErr /\ target_list_rest 1 [] = POk [] [].
Proof. split; vm_compute; reflexivity. Qed.

(* ---------- the pinned code (before the fix: commits) violates (1) and (4) ---------- *)

Definition gres_of (o : option (list N)) : gres := match o with Some v => GSome v | None => GNone end.

(* a bfchar inside a multi-unit bfrange: the codes after it restart at offset 0 *)
Theorem C15_pinned_split_refuted :
  exists secs cm code len,
    secs_u32 secs /\ from_sections_v0 secs = FsOk cm /\ get_v0 cm code len <> gres_of (lookup secs len code).
Proof.
  exists [BfRange [((16, 31, 1), [[55357; 56832]])]; BfChar [((21, 1), [65])]].
  eexists. exists 22, 1. split; [|split; [vm_compute; reflexivity|vm_compute; discriminate]].
  repeat constructor; vm_compute; discriminate.
Qed.

(* adjacent ranges with equal targets coalesce: the second is offset by the length of the first *)
Theorem C15_pinned_coalesce_refuted :
  exists secs cm code len,
    secs_u32 secs /\ from_sections_v0 secs = FsOk cm /\ get_v0 cm code len <> gres_of (lookup secs len code).
Proof.
  exists [BfRange [((16, 18, 1), [[55357; 56832]]); ((19, 21, 1), [[55357; 56832]])]].
  eexists. exists 19, 1. split; [|split; [vm_compute; reflexivity|vm_compute; discriminate]].
  repeat constructor; vm_compute; discriminate.
Qed.

(* ... and with equal array targets the lookup panics on a well-formed CMap *)
Theorem C15_pinned_coalesce_array_panics :
  exists secs cm code len,
    secs_u32 secs /\ from_sections_v0 secs = FsOk cm /\ lookup secs len code = Some [65] /\ get_v0 cm code len = GPanic.
Proof.
  exists [BfRange [((16, 17, 1), [[65]; [66]]); ((18, 19, 1), [[65]; [66]])]].
  eexists. exists 18, 1. split; [|split; [vm_compute; reflexivity|split; vm_compute; reflexivity]].
  repeat constructor; vm_compute; discriminate.
Qed.

(* last unit + offset beyond 0xFFFF panics (overflow checks on) *)
Theorem C15_pinned_overflow_panics :
  exists secs cm code len, from_sections_v0 secs = FsOk cm /\ get_v0 cm code len = GPanic.
Proof.
  exists [BfRange [((16, 31, 1), [[65; 65534]])]]. eexists. exists 18, 1.
  split; vm_compute; reflexivity.
Qed.

(* a text whose first code maps to U+FEFF loses it (byte order mark sniffing) *)
Theorem C15_pinned_bom_refuted :
  exists secs cm text cs,
    from_sections_v0 secs = FsOk cm /\
    Forall (defined_code secs) [([x01], [65279], [65279]); ([x02], [65], [65])] /\
    text = [x01; x02] /\ cs = [65279; 65] /\
    bytes_to_string_v0 cm text = SOk [65] /\ SOk [65] <> SOk cs.
Proof.
  exists [BfChar [((1, 1), [65279]); ((2, 1), [65])]]. eexists. exists [x01; x02], [65279; 65].
  split; [vm_compute; reflexivity|]. split.
  - repeat constructor; try (cbn; lia); try (vm_compute; reflexivity); try (intros k Hk; cbn in Hk; lia);
      unfold high, low; lia.
  - repeat split; try reflexivity. discriminate.
Qed.

(* ---------- non-vacuity ---------- *)

(* the first witness above on the repaired model: code 0x16 is U+1F606, 0x15 is "A" *)
Definition ex_secs : list csection := [BfRange [((16, 31, 1), [[55357; 56832]])]; BfChar [((21, 1), [65])]].
Definition ex_codes : list (bytes * list N * list N) :=
  [([x16], [55357; 56838], [128518]); ([x15], [65], [65])].

Theorem C15_example :
  exists cm, secs_u32 ex_secs /\ from_sections ex_secs = FsOk cm /\
             Forall (defined_code ex_secs) ex_codes /\
             Forall (clean_code cm) [[x16]; [x15]] /\
             get cm 22 1 = Some [55357; 56838] /\
             bytes_to_string cm [x16; x15] = [128518; 65].
Proof.
  eexists. split; [repeat constructor; vm_compute; discriminate|]. split; [vm_compute; reflexivity|].
  split.
  - repeat constructor; try (cbn; lia); try (vm_compute; reflexivity); try (intros k Hk; cbn in Hk; lia);
      unfold high, low, scalar_of_pair; lia.
  - split; [|split; vm_compute; reflexivity].
    repeat constructor; try (cbn; lia); try (vm_compute; discriminate); intros k Hk; cbn in Hk; lia.
Qed.

Print Assumptions C15_get_eq_spec.
Print Assumptions C15_from_sections_ok_iff.
Print Assumptions C15_segmentation.
Print Assumptions C15_surrogates_pair.
Print Assumptions C15_decode_utf16.
Print Assumptions C15_decodes.
Print Assumptions C15_parser_fuel_sufficient.
Print Assumptions C15_parser_stream_fuel_sufficient.
Print Assumptions C15_parser_repetitions_consume.
Print Assumptions C15_example_truncated_array.
Print Assumptions C15_pinned_split_refuted.
Print Assumptions C15_pinned_coalesce_refuted.
Print Assumptions C15_pinned_coalesce_array_panics.
Print Assumptions C15_pinned_overflow_panics.
Print Assumptions C15_pinned_bom_refuted.
Print Assumptions C15_example.
