(* Props/C15.v -- property C15: ToUnicode CMaps decode text as the CMap defines.
   Statements only; proofs live in Proofs/CMapProofs*.v.
   Models: Model/CMap.v (repaired code; *_v0 = the code as pinned), Model/RangeMap.v,
   Model/CMapParser.v.  Specs: Spec/CMapSpec.v (what a CMap defines), Spec/CMapRender.v (the text of a
   CMap, written from the syntax of the standard). *)
From LV Require Import Base.Bytes Model.RangeMap Model.CMap Model.CMapParser Spec.CMapSpec Spec.CMapRender Gen.CMapC
  Proofs.CMapProofs Proofs.CMapProofsText Proofs.CMapParserProofs Proofs.CMapRenderProofs Proofs.CMapTextProofs.

Local Open Scope N_scope.

(* (1) For EVERY list of sections (any mix, order, overlap, adjacency, 1-4 byte codes, single,
   incrementing and array targets) that from_sections accepts, and every code and code length,
   get returns the target of the last definition covering the code: last unit + offset for a
   range, the offset-th entry for an array.  Hypothesis secs_u32: the first code of every
   definition fits its Rust type u32 (a typing fact, not a restriction). *)
Theorem C15_get_eq_spec :
  forall secs cm, secs_u32 secs -> from_sections secs = FsOk cm ->
  forall code len, get cm code len = lookup secs len code.
Proof. exact get_eq_spec. Qed.

(* from_sections rejects exactly the section lists with a backwards range or an empty target list *)
Theorem C15_from_sections_ok_iff :
  forall secs, (exists cm, from_sections secs = FsOk cm) <-> forallb section_ok secs = true.
Proof. exact from_sections_ok_iff. Qed.

(* (2) Segmentation: a byte string that is a concatenation of codes, each mapped at its own length
   and at none of its proper prefixes (prefix-freeness, which codespace ranges give), is cut into
   exactly those codes. *)
Theorem C15_segmentation :
  forall cm codes, Forall (clean_code cm) codes ->
  units_of_text cm (concat codes) = concat (map (code_target cm) codes).
Proof. exact segmentation_units. Qed.

(* (3) UTF-16: a surrogate pair becomes one scalar value, in the supplementary range; the decoder
   computes the UTF-16 relation of the spec. *)
Theorem C15_surrogates_pair :
  forall h l rest, high h -> low l ->
  utf16_units_decode (h :: l :: rest) = scalar_of_pair h l :: utf16_units_decode rest /\
  65536 <= scalar_of_pair h l <= 1114111.
Proof. intros h l rest Hh Hl. split; [apply surrogates_pair | apply scalar_of_pair_range]; assumption. Qed.

Theorem C15_decode_utf16 : forall us cs, utf16 us cs -> utf16_units_decode us = cs.
Proof. exact decode_utf16. Qed.

(* (4) The property as a whole, stated against the spec only: for a CMap given by its sections and
   a text made of defined codes, bytes_to_string returns the concatenation of the scalar values of
   the targets the CMap defines. *)
Theorem C15_decodes :
  forall secs cm (codes : list (bytes * list N * list N)),
  secs_u32 secs -> from_sections secs = FsOk cm ->
  Forall (defined_code secs) codes ->
  bytes_to_string cm (concat (map (fun x => fst (fst x)) codes)) = concat (map snd codes).
Proof. exact decodes_as_defined. Qed.

(* (5) The model of the CMap grammar (Model/CMapParser.v) never answers "out of fuel": its loops
   (many0 / many1 / separated_list1 / the PDF dictionary after /CIDSystemInfo) are started with
   fuel = length of their input + 1, which is enough for EVERY byte string, well-formed, malformed
   or truncated.  So the correspondence runs compare a real outcome of the model on every case. *)
Theorem C15_parser_fuel_sufficient : forall bs, cmap_parse bs <> ParseOutOfFuel.
Proof. exact cmap_parse_fuel. Qed.

Theorem C15_parser_stream_fuel_sufficient : forall bs, cmap_stream bs <> POutOfFuel.
Proof. exact cmap_stream_fuel. Qed.

(* ... and every element parser of a repetition consumes at least one byte when it succeeds, so the
   guards of nom's many0 / many1 / separated_list1 against a parser that succeeds without
   consuming can never fire; the model has no such branch. *)
Theorem C15_parser_repetitions_consume :
  consumes cmap_section /\ consumes cs_range_line /\ consumes bf_char_line /\ consumes bf_range_line /\
  consumes space1 /\ consumes target_string /\ consumes hex_char /\ consumes hex_u16 /\ consumes name.
Proof. exact repetition_elements_consume. Qed.

(* non-vacuity / regression: the input on which the model used to run out of fuel (an array target
   cut off right after its first string: separated_list1 meets the end of input) is a parse error *)
Theorem C15_example_truncated_array :
  range_target_array (bs "[ <0041>") = PErr /\ target_list_rest 1 [] = POk [] [].
Proof. split; vm_compute; reflexivity. Qed.

(* ---------- (6) from the CMap TEXT ---------- *)

(* The parser round trip.  [render lay secs] (Spec/CMapRender.v) is the text of a ToUnicode CMap
   written from the syntax of the standard: the frame (/CIDInit ProcSet, dict, begincmap, the
   CIDSystemInfo dictionary, CMapName, CMapType ... endcmap, defineresource, end end) around the
   sections [secs] in their order, each with its entry count; the layout [lay] decides every
   blank (spaces / tabs, any number) inside a line, every line break (any non-empty mix of blanks,
   CR, LF, CR LF and comments), the case of every hexadecimal digit, the white space inside target
   strings, bare or bracketed single targets of one-code ranges, the white space after [, between
   the strings of an array and before ] (any, also none, also line breaks and comments).
   For EVERY layout and EVERY well-formed section list (at least one section, at least one entry
   per section, codes of 1 to 4 bytes, targets of 1 to 256 UTF-16 units, arrays not empty) the
   model of the grammar of cmap_parser.rs returns exactly the sections, with nothing left over.
   Normalisation: none is needed -- the section type already is the grammar's own normal form
   (a code is its (value, length) pair, a single target is the one-element list of targets).
   Domain of [layout]: line oriented up to the [ of an array (the tokens <code> <target>,
   <lo> <hi> <target>, <lo> <hi> [ of one entry are separated by blanks only), which is how both
   documents write every CMap; see C15_grammar_is_line_oriented below. *)
Theorem C15_parse_render :
  forall lay secs, wf_sections secs -> cmap_stream (render lay secs) = POk secs [].
Proof. exact cmap_stream_render. Qed.

(* ToUnicodeCMap::parse of the text is from_sections of the sections *)
Theorem C15_parse_render_cmap :
  forall lay secs, wf_sections secs ->
  cmap_parse (render lay secs) = match from_sections secs with FsOk cm => ParseOk cm | FsInvalidCodeRange => ParseErrRange end.
Proof. exact cmap_parse_render. Qed.

(* a well-formed text whose ranges run forwards is accepted; one with a backwards range is refused
   as an invalid code range -- whatever the layout *)
Theorem C15_text_accepted :
  forall lay secs, wf_sections secs -> forward_sections secs ->
  exists cm, from_sections secs = FsOk cm /\ cmap_parse (render lay secs) = ParseOk cm.
Proof. exact parse_render_cmap. Qed.

Theorem C15_text_backwards_range :
  forall lay secs, wf_sections secs -> ~ forward_sections secs -> cmap_parse (render lay secs) = ParseErrRange.
Proof. exact parse_render_backwards. Qed.

(* every lookup in the CMap parsed from the text is the spec's: last definition wins, offset on
   the last unit, arrays indexed (no typing hypothesis left: 1-4 byte codes fit u32) *)
Theorem C15_text_get_eq_spec :
  forall lay secs cm, wf_sections secs -> cmap_parse (render lay secs) = ParseOk cm ->
  forall code len, get cm code len = lookup secs len code.
Proof. exact get_of_text. Qed.

(* THE PROPERTY END TO END, from the text: for every layout, every well-formed table (section list
   with forward ranges) and every byte string made of defined codes, the text parses and
   bytes_to_string on the parsed CMap gives the scalar values the CMap defines. *)
Theorem C15_decodes_text :
  forall lay secs (codes : list (bytes * list N * list N)),
  wf_sections secs -> forward_sections secs -> Forall (defined_code secs) codes ->
  exists cm, cmap_parse (render lay secs) = ParseOk cm /\
             bytes_to_string cm (concat (map (fun x => fst (fst x)) codes)) = concat (map snd codes).
Proof. exact decodes_text. Qed.

(* non-vacuity: the example of ISO 32000-1 9.10.3 / TN 5411.  With the default layout the renderer
   writes it as printed there (lower-case digits, the dictionary on one line); the hypotheses of
   C15_decodes_text hold for it and <0021> <005F> <3A51> decode to "A", "ff", U+2003E. *)
Definition iso_secs : list csection :=
  [CsRange [(0, 65535, 2)];
   BfRange [((0, 94, 2), [[32]]); ((95, 97, 2), [[102; 102]; [102; 105]; [102; 102; 108]])];
   BfChar [((14929, 2), [55360; 56382])]].
Definition iso_codes : list (bytes * list N * list N) :=
  [([x00; x21], [65], [65]); ([x00; x5f], [102; 102], [102; 102]); ([x3a; x51], [55360; 56382], [131134])].
Definition lay_default : layout := mkLayout [] [] [] [] [] 12 [] [].

Ltac wf_solve :=
  repeat constructor; try discriminate; try (cbn [length]; lia); try (vm_compute; first [reflexivity | discriminate]).
Ltac defined_solve :=
  repeat constructor; try (cbn [length]; lia); try (vm_compute; reflexivity);
  try (intros k Hk; cbn [length] in Hk; assert (k = 1%nat) by lia; subst k; vm_compute; reflexivity);
  try (unfold high, low; lia).

Theorem C15_example_text :
  render lay_default iso_secs = bs
"/CIDInit /ProcSet findresource begin
12 dict begin
begincmap
/CIDSystemInfo << /Registry (Adobe) /Ordering (UCS) /Supplement 0 >> def
/CMapName /Adobe-Identity-UCS def
/CMapType 2 def
1 begincodespacerange
<0000> <ffff>
endcodespacerange
2 beginbfrange
<0000> <005e> <0020>
<005f> <0061> [<00660066> <00660069> <00660066006c>]
endbfrange
1 beginbfchar
<3a51> <d840dc3e>
endbfchar
endcmap
CMapName currentdict /CMap defineresource pop
end
end" /\
  wf_sections iso_secs /\ forward_sections iso_secs /\ Forall (defined_code iso_secs) iso_codes /\
  exists cm, cmap_parse (render lay_default iso_secs) = ParseOk cm /\
             bytes_to_string cm [x00; x21; x00; x5f; x3a; x51] = [65; 102; 102; 131134].
Proof.
  split; [vm_compute; reflexivity|]. split; [split; [discriminate|wf_solve]|]. split; [wf_solve|]. split; [defined_solve|].
  eexists. split; [vm_compute; reflexivity|vm_compute; reflexivity].
Qed.

(* ... and an unfriendly layout of the same table: tabs, CR alone, CR LF, comments (one holding
   keywords and a %), upper and mixed case, white space inside a target string, an array whose
   strings touch (<0066 0066><00660069>) and which runs over three lines with a comment in between,
   short layout lists (defaults) -- the text begins as stated, and it parses to the same CMap *)
Definition lay_odd : layout :=
  mkLayout [WComment (bs "!PS-Adobe-3.0 Resource-CMap") CRLF; WEol LF]
           [[]; [Tab; Space]]
           [(Tab, []); (Space, [Space])]
           [(WEol CR, []); (WBlank Space, [WComment (bs " endcmap % <00>") LF; WBlank Tab]); (WEol CRLF, [WEol CRLF])]
           [[]; []; []; []; [WEol LF]; []; [WEol CR]]
           7
           [mkSecLay (Tab, [Tab]) (WEol CR, [])
              [mkLineLay [true; false; true] [] [true; true; true; true] [] false [] [] [] (WBlank Space, [WEol LF])]
              (WEol LF, []);
            mkSecLay (Space, []) (WEol LF, [WBlank Space; WBlank Space])
              [mkLineLay [] [Tab] [true] [] false [] [([], [mkUlay [true; true; true; true] [SEol LF; SBlank Space]])] []
                         (WComment (bs "incrementing") CR, []);
               mkLineLay [] [] [] [Space; Space] false [WBlank Tab]
                         [([], [mkUlay [] [SBlank Space]]); ([], []);
                          ([WEol CRLF; WComment (bs " fl ]") LF; WBlank Space], [mkUlay [] []; mkUlay [false; true] [SEol CRLF]])]
                         [WEol LF] (WEol LF, [])]
              (WEol LF, [])]
           [WEol LF; WComment (bs "%EOF") LF].

Theorem C15_example_text_odd :
  prefixb (bs "%!PS-Adobe-3.0 Resource-CMap" ++ [x0d; x0a; x0a] ++ bs "/CIDInit/ProcSet" ++ [x09] ++ bs "findresource  begin"
             ++ [x0d] ++ bs "7 dict begin % endcmap % <00>" ++ [x0a; x09] ++ bs "begincmap" ++ [x0d; x0a; x0d; x0a]
             ++ bs "/CIDSystemInfo<</Registry(Adobe)/Ordering" ++ [x0a] ++ bs "(UCS)/Supplement 0" ++ [x0d] ++ bs ">> def")
          (render lay_odd iso_secs) = true /\
  cmap_stream (render lay_odd iso_secs) = POk iso_secs [] /\
  cmap_parse (render lay_odd iso_secs) = cmap_parse (render lay_default iso_secs).
Proof. split; [vm_compute; reflexivity|]. split; vm_compute; reflexivity. Qed.

(* What the grammar of cmap_parser.rs does NOT accept, stated on the example: PostScript would let
   any white space or a comment stand between any two tokens and would allow further entries in the
   dictionary; the crate's grammar is line oriented (blanks only between the tokens of an entry up
   to the [ of an array, fixed set of metadata entries).  [layout] is restricted to what the two
   documents themselves write; these three texts are outside it and are parse errors (replayed on
   the crate: (res (err parse)); notes/C15.md).  Before fix: commit 2c2ca77 the strings of an array
   also had to be separated by blanks on one line; that was a defect ([<0041><0042>] is common in
   real files) and is repaired, see the last line. *)
Definition iso_text (meta range_line : bytes) : bytes :=
  bs "/CIDInit /ProcSet findresource begin
12 dict begin
begincmap
/CIDSystemInfo << /Registry (Adobe) /Ordering (UCS) /Supplement 0 >> def
/CMapName /Adobe-Identity-UCS def
/CMapType 2 def
" ++ meta ++ bs "1 begincodespacerange
<0000> <ffff>
endcodespacerange
2 beginbfrange
" ++ range_line ++ bs "
<005f> <0061> [<00660066> <00660069> <00660066006c>]
endbfrange
1 beginbfchar
<3a51> <d840dc3e>
endbfchar
endcmap
CMapName currentdict /CMap defineresource pop
end
end".

Theorem C15_grammar_is_line_oriented :
  iso_text [] (bs "<0000> <005e> <0020>") = render lay_default iso_secs /\
  cmap_parse (iso_text [] (bs "<0000>
<005e> <0020>")) = ParseErrParse /\
  cmap_parse (iso_text [] (bs "<0000> <005e> % incrementing
<0020>")) = ParseErrParse /\
  cmap_parse (iso_text (bs "/WMode 0 def
") (bs "<0000> <005e> <0020>")) = ParseErrParse /\
  cmap_parse (iso_text [] (bs "<0000> <005e> <0020>
<0100> <0102> [<0041><0042>
<0043>]")) = cmap_parse (iso_text [] (bs "<0000> <005e> <0020>
<0100> <0102> [<0041> <0042> <0043>]")).
Proof. repeat split; vm_compute; reflexivity. Qed.

(* ---------- the pinned code (before the fix: commits) violates (1) and (4) ---------- *)

Definition gres_of (o : option (list N)) : gres := match o with Some v => GSome v | None => GNone end.

(* a bfchar inside a multi-unit bfrange: the codes after it restart at offset 0 *)
Theorem C15_pinned_split_refuted :
  exists secs cm code len,
    secs_u32 secs /\ from_sections_v0 secs = FsOk cm /\ get_v0 cm code len <> gres_of (lookup secs len code).
Proof.
  exists [BfRange [((16, 31, 1), [[55357; 56832]])]; BfChar [((21, 1), [65])]].
  eexists. exists 22, 1. split; [|split; [vm_compute; reflexivity|vm_compute; discriminate]].
  repeat constructor; vm_compute; discriminate.
Qed.

(* adjacent ranges with equal targets coalesce: the second is offset by the length of the first *)
Theorem C15_pinned_coalesce_refuted :
  exists secs cm code len,
    secs_u32 secs /\ from_sections_v0 secs = FsOk cm /\ get_v0 cm code len <> gres_of (lookup secs len code).
Proof.
  exists [BfRange [((16, 18, 1), [[55357; 56832]]); ((19, 21, 1), [[55357; 56832]])]].
  eexists. exists 19, 1. split; [|split; [vm_compute; reflexivity|vm_compute; discriminate]].
  repeat constructor; vm_compute; discriminate.
Qed.

(* ... and with equal array targets the lookup panics on a well-formed CMap *)
Theorem C15_pinned_coalesce_array_panics :
  exists secs cm code len,
    secs_u32 secs /\ from_sections_v0 secs = FsOk cm /\ lookup secs len code = Some [65] /\ get_v0 cm code len = GPanic.
Proof.
  exists [BfRange [((16, 17, 1), [[65]; [66]]); ((18, 19, 1), [[65]; [66]])]].
  eexists. exists 18, 1. split; [|split; [vm_compute; reflexivity|split; vm_compute; reflexivity]].
  repeat constructor; vm_compute; discriminate.
Qed.

(* last unit + offset beyond 0xFFFF panics (overflow checks on) *)
Theorem C15_pinned_overflow_panics :
  exists secs cm code len, from_sections_v0 secs = FsOk cm /\ get_v0 cm code len = GPanic.
Proof.
  exists [BfRange [((16, 31, 1), [[65; 65534]])]]. eexists. exists 18, 1.
  split; vm_compute; reflexivity.
Qed.

(* a text whose first code maps to U+FEFF loses it (byte order mark sniffing) *)
Theorem C15_pinned_bom_refuted :
  exists secs cm text cs,
    from_sections_v0 secs = FsOk cm /\
    Forall (defined_code secs) [([x01], [65279], [65279]); ([x02], [65], [65])] /\
    text = [x01; x02] /\ cs = [65279; 65] /\
    bytes_to_string_v0 cm text = SOk [65] /\ SOk [65] <> SOk cs.
Proof.
  exists [BfChar [((1, 1), [65279]); ((2, 1), [65])]]. eexists. exists [x01; x02], [65279; 65].
  split; [vm_compute; reflexivity|]. split.
  - repeat constructor; try (cbn; lia); try (vm_compute; reflexivity); try (intros k Hk; cbn in Hk; lia);
      unfold high, low; lia.
  - repeat split; try reflexivity. discriminate.
Qed.

(* ---------- non-vacuity ---------- *)

(* the first witness above on the repaired model: code 0x16 is U+1F606, 0x15 is "A" *)
Definition ex_secs : list csection := [BfRange [((16, 31, 1), [[55357; 56832]])]; BfChar [((21, 1), [65])]].
Definition ex_codes : list (bytes * list N * list N) :=
  [([x16], [55357; 56838], [128518]); ([x15], [65], [65])].

Theorem C15_example :
  exists cm, secs_u32 ex_secs /\ from_sections ex_secs = FsOk cm /\
             Forall (defined_code ex_secs) ex_codes /\
             Forall (clean_code cm) [[x16]; [x15]] /\
             get cm 22 1 = Some [55357; 56838] /\
             bytes_to_string cm [x16; x15] = [128518; 65].
Proof.
  eexists. split; [repeat constructor; vm_compute; discriminate|]. split; [vm_compute; reflexivity|].
  split.
  - repeat constructor; try (cbn; lia); try (vm_compute; reflexivity); try (intros k Hk; cbn in Hk; lia);
      unfold high, low, scalar_of_pair; lia.
  - split; [|split; vm_compute; reflexivity].
    repeat constructor; try (cbn; lia); try (vm_compute; discriminate); intros k Hk; cbn in Hk; lia.
Qed.

Print Assumptions C15_get_eq_spec.
Print Assumptions C15_from_sections_ok_iff.
Print Assumptions C15_segmentation.
Print Assumptions C15_surrogates_pair.
Print Assumptions C15_decode_utf16.
Print Assumptions C15_decodes.
Print Assumptions C15_parser_fuel_sufficient.
Print Assumptions C15_parser_stream_fuel_sufficient.
Print Assumptions C15_parser_repetitions_consume.
Print Assumptions C15_example_truncated_array.
Print Assumptions C15_parse_render.
Print Assumptions C15_parse_render_cmap.
Print Assumptions C15_text_accepted.
Print Assumptions C15_text_backwards_range.
Print Assumptions C15_text_get_eq_spec.
Print Assumptions C15_decodes_text.
Print Assumptions C15_example_text.
Print Assumptions C15_example_text_odd.
Print Assumptions C15_grammar_is_line_oriented.
Print Assumptions C15_pinned_split_refuted.
Print Assumptions C15_pinned_coalesce_refuted.
Print Assumptions C15_pinned_coalesce_array_panics.
Print Assumptions C15_pinned_overflow_panics.
Print Assumptions C15_pinned_bom_refuted.
Print Assumptions C15_example.
