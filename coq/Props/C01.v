(* Props/C01.v -- property C01: save then load returns the same document.
   Rung 1: theorems about the save model (Model/Save.v) that hold for EVERY document.
   Statements only; proofs live in Proofs/SaveProofs.v. *)
From LV Require Import Base.Bytes Base.Sx Model.Obj Model.Writer Model.Save Proofs.SaveProofs.

Local Open Scope N_scope.

(* (1) offsets_exact, soundness.  Whatever the document: every entry of the cross-reference map
   built while saving names an object of the document that was written, and its offset is the
   position (mod 2^32, the `as u32` of the code) of that object's "id gen obj" header in the file. *)
Theorem C01_offsets_sound :
  forall d id off g,
    xget (xmap_of d) id = Some (XNormal off g) ->
    exists o pre post,
      In ((id, g), o) (d_objects d) /\ skipped o = false /\
      body_of d = pre ++ write_indirect_object id g o ++ post /\
      off = blen pre mod u32_mod.
Proof. exact offsets_sound. Qed.

(* (2) offsets_exact, completeness.  With pairwise distinct object numbers every object that is
   not dropped by the skip rule is in the file and is recorded at exactly its own offset. *)
Theorem C01_offsets_complete :
  forall d id g o,
    NoDup (obj_numbers (d_objects d)) -> In ((id, g), o) (d_objects d) -> skipped o = false ->
    exists pre post,
      body_of d = pre ++ write_indirect_object id g o ++ post /\
      xget (xmap_of d) id = Some (XNormal (blen pre mod u32_mod) g).
Proof. exact offsets_complete. Qed.

(* (3) startxref_exact.  A successful save is  body ++ cross-reference part ++ "\nstartxref\n<n>\n%%EOF"
   where n is the length of body, i.e. the offset at which the cross-reference part starts: the
   keyword "xref" for the table format, the header of the cross-reference stream object otherwise. *)
Theorem C01_startxref_exact :
  forall xt d,
    so_status (save xt d) = SaveOk ->
    exists mid,
      so_bytes (save xt d) = body_of d ++ mid ++ startxref_bytes (blen (body_of d)) /\
      match xt with
      | XTable => mid = write_xref (xmap_of d) (d_max_id d + 1) ++ trailer_bytes (trailer_table d)
      | XStream =>
        let p := xstream_parts d (xmap_of d) (blen (body_of d) mod u32_mod) in
        mid = write_indirect_object (d_max_id d + 1) 0 (OStream (fst (fst p)) (snd (fst p)))
      end.
Proof. exact save_ok_shape. Qed.

(* (4) Cross-reference table entries are 20 bytes, "nnnnnnnnnn ggggg k \n". *)
Theorem C01_xref_entry_20 :
  forall e, xentry_in_range e -> length (write_xref_entry e) = 20%nat.
Proof. exact xref_entry_20. Qed.

(* (5) Which entry the table prints for which object number: entry 0 is the unusable free entry,
   a number below Size is printed iff the map has it, nothing at or above Size.  (6) The same for
   the cross-reference stream, whose range is 1..Size with Size the stream object itself. *)
Theorem C01_table_sections :
  forall x size j,
    1 <= size ->
    sections_get (table_sections x size) j =
      if j =? 0 then Some XUnusable
      else if j <? size then option_map table_conv (xget x j) else None.
Proof. exact table_sections_get. Qed.

Theorem C01_stream_sections :
  forall x size j,
    sections_get (stream_sections x size) j = if (1 <=? j) && (j <=? size) then xget x j else None.
Proof. exact stream_sections_get. Qed.

(* non-vacuity: a two-object document (a dictionary and a stream with generation 2, sparse
   numbers) and the exact file the model writes for it *)
Definition ex_doc : doc :=
  {| d_version := bs "1.5"; d_binary_mark := [xbb; xad; xc0; xde];
     d_trailer := [(K_Root, ORef 1 0)];
     d_objects := [((1, 0), ODict [(K_Type, OName (bs "Catalog"))]);
                   ((3, 2), OStream [(K_Length, OInt 3)] (bs "abc"))];
     d_max_id := 4 |}.

Theorem C01_example :
  so_status (save XTable ex_doc) = SaveOk /\ NoDup (obj_numbers (d_objects ex_doc)) /\
  xmap_of ex_doc = [(1, XNormal 15 0); (3, XNormal 48 2)] /\
  save_table ex_doc =
    bs "%PDF-1.5" ++ [x0a; x25; xbb; xad; xc0; xde; x0a] ++
    bs "1 0 obj
<</Type/Catalog>>
endobj
3 2 obj
<</Length 3>>stream
abc
endstream 
endobj
xref
0 2
0000000000 65535 f 
0000000015 00000 n 
3 1
0000000048 00002 n 
trailer
<</Root 1 0 R/Size 5>>
startxref
98
%%EOF".
Proof.
  split; [vm_compute; reflexivity|]. split.
  - cbn. repeat constructor; cbn; intuition discriminate.
  - split; vm_compute; reflexivity.
Qed.

Print Assumptions C01_offsets_sound.
Print Assumptions C01_offsets_complete.
Print Assumptions C01_startxref_exact.
Print Assumptions C01_xref_entry_20.
Print Assumptions C01_table_sections.
Print Assumptions C01_stream_sections.
Print Assumptions C01_example.
