(* Props/C01.v -- property C01: save then load returns the same document.
   Part A (rung 1): theorems about the save model (Model/Save.v) that hold for EVERY document.
   Part B (rung 2/3, partial): the loader model (Model/Loader.v) reads back what the save model wrote --
   per object, at the recorded offset, and for the frame of the file (header, binary mark, startxref).
   The whole-file statement is C01_full below; what is missing for it is said there.
   Statements only; proofs live in Proofs/SaveProofs.v, LoadProofs.v, LoadProofsFile.v (and, for the
   object level, in C14's LexProofs / LitStringProofs / RealProofs / ObjectRtProofs). *)
From LV Require Import Base.Bytes Base.Sx Model.Obj Model.Writer Model.Parser Model.Save Model.Xref Model.Loader
  Model.Utf Gen.Lex Proofs.LexProofs Proofs.ObjectRtProofs Proofs.SaveProofs Spec.SaveSpec Proofs.LoadProofs
  Proofs.LoadProofsFile Proofs.LoadProofsXref Proofs.LoadProofsTable Proofs.LoadProofsAgain Proofs.LoadProofsStream
  Proofs.LoadProofsFull Spec.XrefSpec Gen.SaveFmt Model.LoaderExt Proofs.LoaderExtProofs
  Model.LoaderEnc Proofs.LoaderEncProofs.

Local Open Scope N_scope.

(* (1) offsets_exact, soundness.  Whatever the document: every entry of the cross-reference map
   built while saving names an object of the document that was written, and its offset is the
   position (mod 2^32, the `as u32` of the code) of that object's "id gen obj" header in the file. *)
Theorem C01_offsets_sound :
  forall d id off g,
    Save.xget (xmap_of d) id = Some (Save.XNormal off g) ->
    exists o pre post,
      In ((id, g), o) (d_objects d) /\ skipped o = false /\
      body_of d = pre ++ write_indirect_object id g o ++ post /\
      off = Save.blen pre mod u32_mod.
Proof. exact offsets_sound. Qed.

(* (2) offsets_exact, completeness.  With pairwise distinct object numbers every object that is
   not dropped by the skip rule is in the file and is recorded at exactly its own offset. *)
Theorem C01_offsets_complete :
  forall d id g o,
    NoDup (obj_numbers (d_objects d)) -> In ((id, g), o) (d_objects d) -> skipped o = false ->
    exists pre post,
      body_of d = pre ++ write_indirect_object id g o ++ post /\
      Save.xget (xmap_of d) id = Some (Save.XNormal (blen pre mod u32_mod) g).
Proof. exact offsets_complete. Qed.

(* (3) startxref_exact.  A successful save is  body ++ cross-reference part ++ "\nstartxref\n<n>\n%%EOF"
   where n is the length of body, i.e. the offset at which the cross-reference part starts: the
   keyword "xref" for the table format, the header of the cross-reference stream object otherwise. *)
Theorem C01_startxref_exact :
  forall xt d,
    so_status (save xt d) = SaveOk ->
    exists mid,
      so_bytes (save xt d) = body_of d ++ mid ++ startxref_bytes (Save.blen (body_of d)) /\
      match xt with
      | XTable => mid = write_xref (xmap_of d) (d_max_id (raise_max_id d) + 1) ++ trailer_bytes (trailer_table (raise_max_id d))
      | XStream =>
        let p := xstream_parts (raise_max_id d) (xmap_of d) (Save.blen (body_of d) mod u32_mod) in
        mid = write_indirect_object (d_max_id (raise_max_id d) + 1) 0 (OStream (fst (fst p)) (snd (fst p)))
      end.
Proof. exact save_ok_shape. Qed.

(* (4) Cross-reference table entries are 20 bytes, "nnnnnnnnnn ggggg k \n". *)
Theorem C01_xref_entry_20 :
  forall e : Save.xentry, xentry_in_range e -> length (write_xref_entry e) = 20%nat.
Proof. exact xref_entry_20. Qed.

(* (5) Which entry the table prints for which object number: entry 0 is the unusable free entry,
   a number below Size is printed iff the map has it, nothing at or above Size.  (6) The same for
   the cross-reference stream, whose range is 1..Size with Size the stream object itself. *)
Theorem C01_table_sections :
  forall (x : Save.xmap) size j,
    1 <= size ->
    sections_get (table_sections x size) j =
      if j =? 0 then Some XUnusable
      else if j <? size then option_map table_conv (Save.xget x j) else None.
Proof. exact table_sections_get. Qed.

Theorem C01_stream_sections :
  forall (x : Save.xmap) size j,
    sections_get (stream_sections x size) j = if (1 <=? j) && (j <=? size) then Save.xget x j else None.
Proof. exact stream_sections_get. Qed.

(* non-vacuity: a two-object document (a dictionary and a stream with generation 2, sparse
   numbers) and the exact file the model writes for it *)
Definition ex_doc : doc :=
  {| d_version := bs "1.5"; d_binary_mark := [xbb; xad; xc0; xde];
     d_trailer := [(K_Root, ORef 1 0)];
     d_objects := [((1, 0), ODict [(K_Type, OName (bs "Catalog"))]);
                   ((3, 2), OStream [(K_Length, OInt 3)] (bs "abc"))];
     d_max_id := 4 |}.

Theorem C01_example :
  so_status (save XTable ex_doc) = SaveOk /\ NoDup (obj_numbers (d_objects ex_doc)) /\
  xmap_of ex_doc = [(1, Save.XNormal 15 0); (3, Save.XNormal 48 2)] /\
  save_table ex_doc =
    bs "%PDF-1.5" ++ [x0a; x25; xbb; xad; xc0; xde; x0a] ++
    bs "1 0 obj
<</Type/Catalog>>
endobj
3 2 obj
<</Length 3>>stream
abc
endstream 
endobj
xref
0 2
0000000000 65535 f 
0000000015 00000 n 
3 1
0000000048 00002 n 
trailer
<</Root 1 0 R/Size 5>>
startxref
98
%%EOF".
Proof.
  split; [vm_compute; reflexivity|]. split.
  - cbn. repeat constructor; cbn; intuition discriminate.
  - split; vm_compute; reflexivity.
Qed.

(* ------------------------------------------------------------------------------------------
   Part B.  The loader reads back what save wrote.
   ------------------------------------------------------------------------------------------ *)

(* (7) Per-object round trip, any continuation: an indirect object written by the writer -- a
   direct object of any of the nine direct kinds nested up to MAX_BRACKET levels, or a stream with
   Length = its content length -- is parsed back by the loader's indirect-object parser to its
   normal form (an integral real becomes the integer; nothing else changes: identical bytes in
   names, strings, keys and stream bodies, same nesting and references). *)
Theorem C01_object_roundtrip :
  forall id g o post,
    id <= u32_max -> g <= u16_max -> top_wf o -> (nest o <= MAX_DEPTH)%nat ->
    indirect_object (write_indirect_object id g o ++ post) None = IOk (id, g) (norm_obj o).
Proof. exact indirect_object_rt. Qed.

(* (8) ... and it is found where the cross-reference map says: in a successfully saved file below
   4 GiB (either format), every object that is not dropped by the skip rule has a map entry whose
   offset lies inside the file and at which the loader parses exactly (id, gen) and norm o. *)
Theorem C01_object_at_offset_partial :
  forall xt d id g o,
    so_status (save xt d) = SaveOk -> small_file xt d ->
    NoDup (obj_numbers (d_objects d)) -> In ((id, g), o) (d_objects d) -> skipped o = false ->
    id <= u32_max -> g <= u16_max -> top_wf o -> (nest o <= MAX_DEPTH)%nat ->
    exists off,
      Save.xget (xmap_of d) id = Some (Save.XNormal off g) /\
      off <= Loader.blen (so_bytes (save xt d)) /\
      indirect_object (from off (so_bytes (save xt d))) None = IOk (id, g) (norm_obj o).
Proof. exact object_at_recorded_offset. Qed.

(* (9) The frame of the file.  The header line gives back the version, line 2 the binary mark, and
   get_xref_start -- the two last-match searches over the tail and the startxref parser -- returns
   the number save printed (by C01_startxref_exact: the offset of the cross-reference part). *)
Theorem C01_header_roundtrip :
  forall v rest, no_eol v -> utf8_decode v <> None -> header (bs "%PDF-" ++ v ++ x0a :: rest) = Some v.
Proof. exact header_rt. Qed.

Theorem C01_binary_mark_roundtrip :
  forall v m rest, no_eol v -> binary_mark_ok m = true ->
    read_binary_mark (bs "%PDF-" ++ v ++ x0a :: x25 :: m ++ x0a :: rest) = m.
Proof. exact binary_mark_rt. Qed.

Theorem C01_startxref_roundtrip :
  forall front n, n <= Loader.blen front -> 25 < Loader.blen front -> n < 10 ^ 14 ->
    get_xref_start (front ++ startxref_bytes n) = Some n.
Proof. exact get_xref_start_rt. Qed.

(* (10) The trailer written by write_trailer is read back by parser::trailer to its normal form, and
   (11) the cross-reference table: a map with increasing object numbers below Size and in-range Normal
   entries (what save builds, see C01_offsets_sound / C01_offsets_complete), printed by write_xref, is parsed back by the table parser
   (sub-section by sub-section, entry by entry) to exactly that map: the entries parse back to the
   offsets.  Together with (8): every object is reachable through the table at its own offset. *)
Theorem C01_trailer_roundtrip :
  forall t rest, obj_wf (ODict t) -> (nest (ODict t) <= MAX_DEPTH)%nat ->
    Xref.trailer (trailer_bytes t ++ rest) = POk (norm_dict t) (space rest).
Proof. exact trailer_rt. Qed.

Theorem C01_xref_table_roundtrip :
  forall (x : Save.xmap) size more,
    1 <= size -> size < two32 -> incr 1 x -> Forall (fun ke => fst ke < size) x -> Forall normal_ok x ->
    xref_table (write_xref x size ++ bs "trailer" ++ more) =
    POk {| x_type := XTTable; x_entries := conv_map x; x_size := 0 |} (bs "trailer" ++ more).
Proof. exact xref_table_roundtrip. Qed.

(* ------------------------------------------------------------------------------------------
   Part C.  The whole file, both formats, the property's own domain, two cycles.
   [savable] (Spec/SaveSpec.v) does NOT ask max_id to bound the object numbers: save raises it (repair in /repo);
   [written d] is d with max_id raised; [reloaded xt d] the document that comes back; [same_doc] the property's
   comparison (version, identifiers and objects up to normal form apart from cross-reference stream objects,
   trailer apart from bookkeeping keys).
   ------------------------------------------------------------------------------------------ *)

(* (12) lopdf's cross-reference stream writer IS the encoder of ISO 32000-1 7.5.8 (Spec/XrefSpec.v, written from
   the standard) at W = [1 4 2] with the Index it writes ... *)
Theorem C01_xref_stream_is_spec :
  forall secs, Forall (fun s => entries_fit (fst s) (snd s)) secs ->
    xstream_content secs = enc_sections XS_W1 XS_W2 XS_W3 (spec_secs secs) /\
    xstream_index secs = index_array (spec_secs secs).
Proof. exact xstream_content_is_spec. Qed.

(* ... so that the loader's decoder (C02's theorem for all widths and Index partitions) reads the stream of a sorted
   map of in-range Normal entries back to exactly that map, removing Length, W and Index from the dictionary *)
Theorem C01_xref_stream_roundtrip :
  forall (x : Save.xmap) size (d : dict) (sz : Z),
    size < two32 -> incr 1 x -> Forall (fun ke => fst ke <= size) x -> Forall normal_ok x ->
    dict_get d Xref.K_Size = Some (OInt sz) -> dict_get d Xref.K_W = Some xs_W ->
    dict_get d Xref.K_Index = Some (xstream_index (stream_sections x size)) ->
    decode_xref_plain d (xstream_content (stream_sections x size)) =
    XOk ({| x_type := XTStream; x_entries := conv_map x; x_size := i64_as_u32 sz |},
         dict_swap_remove (dict_swap_remove (dict_swap_remove d K_Length) Xref.K_W) Xref.K_Index).
Proof. exact xref_stream_roundtrip. Qed.

(* (13) MAIN THEOREMS, one cycle.  For every document of the domain outside the known-finding class whose file
   stays below 4 GiB, loading the bytes save wrote succeeds, remembers the format and returns exactly
   [reloaded_table (raise_max_id d)] / [reloaded_stream (raise_max_id d)]: same version and binary mark, the same
   identifiers with every object in normal form; table: trailer with Size, max_id = the largest object number;
   stream: additionally the cross-reference stream object itself under the number max_id + 1, the trailer = its
   dictionary without Length / W / Index, max_id + 1. *)
Theorem C01_roundtrip_table :
  forall d, savable d -> known_deep d = false -> small_file XTable d ->
    load (save_table d) = LOk (reloaded_table (raise_max_id d)) XTTable.
Proof.
  intros d S K Hs. pose proof (load_save_gen XTable d (savable_written d S)) as H.
  rewrite known_deep_written in H by exact S. specialize (H K Hs).
  cbn [reloaded xtype_of] in H. rewrite written_savable in H by exact S. exact H.
Qed.

Theorem C01_roundtrip_stream :
  forall d, savable d -> known_deep d = false -> small_file XStream d ->
    load (save_stream d) = LOk (reloaded_stream (raise_max_id d)) XTStream.
Proof.
  intros d S K Hs. pose proof (load_save_gen XStream d (savable_written d S)) as H.
  rewrite known_deep_written in H by exact S. specialize (H K Hs).
  cbn [reloaded xtype_of] in H. rewrite written_savable in H by exact S. exact H.
Qed.

(* (14) C01_full: THE PROPERTY.  Both formats; the first cycle returns a document that is the same in the
   property's sense; a further cycle (on whatever came back, in the format the loader remembered) succeeds and
   returns the same document again -- the same as the first reload and the same as the original.
   Hypotheses: the domain, outside the one known class, files below 4 GiB (small_file for each of the two files:
   the second one holds normal forms and a different Size, whose lengths may differ), and for the stream format one
   spare object number for the second cycle (every stream-format save uses a fresh number for its stream). *)
Theorem C01_full :
  forall xt d, savable d -> known_deep d = false -> small_file xt d -> cycles_fit xt d ->
    load (so_bytes (save xt d)) = LOk (reloaded xt d) (xtype_of xt) /\
    same_doc d (reloaded xt d) /\
    (small_file xt (reloaded xt d) ->
     load (so_bytes (save xt (reloaded xt d))) = LOk (reloaded xt (reloaded xt d)) (xtype_of xt) /\
     same_doc (reloaded xt d) (reloaded xt (reloaded xt d)) /\
     same_doc d (reloaded xt (reloaded xt d))).
Proof. exact load_save_full. Qed.

(* (15) The loader model with Length references, object streams and a decompress parameter (Model/LoaderExt.v) is a
   conservative extension of the one the theorems above are about: wherever Loader.load answers, load_ext answers
   the same, for every decompress instance -- so C01_full holds for it as well. *)
Theorem C01_loader_ext_conservative :
  forall (decompress : dict -> bytes -> option (dict * bytes)) (can_decompress : dict -> bool) b,
    load b <> LUnmodelled -> load_ext decompress can_decompress b = load b.
Proof. exact load_ext_agrees. Qed.

Theorem C01_full_ext :
  forall decompress can_decompress xt d,
    savable d -> known_deep d = false -> small_file xt d -> cycles_fit xt d ->
    load_ext decompress can_decompress (so_bytes (save xt d)) = LOk (reloaded xt d) (xtype_of xt) /\
    same_doc d (reloaded xt d) /\
    (small_file xt (reloaded xt d) ->
     load_ext decompress can_decompress (so_bytes (save xt (reloaded xt d))) = LOk (reloaded xt (reloaded xt d)) (xtype_of xt) /\
     same_doc (reloaded xt d) (reloaded xt (reloaded xt d)) /\
     same_doc d (reloaded xt (reloaded xt d))).
Proof.
  intros dc cd xt d S K Hs Hf. destruct (load_save_full xt d S K Hs Hf) as [L1 [D1 H2]].
  split; [rewrite load_ext_agrees; [exact L1 | rewrite L1; discriminate]|]. split; [exact D1|].
  intro Hs1. destruct (H2 Hs1) as [L2 [D2 D3]].
  split; [rewrite load_ext_agrees; [exact L2 | rewrite L2; discriminate]|]. split; assumption.
Qed.

(* what same_doc says, clause by clause, for a document of the domain (no cross-reference stream object in it) *)
Theorem C01_same_doc_reading :
  forall d d', savable d -> same_doc d d' ->
    d_version d' = d_version d /\
    user_objects (d_objects d') = norm_objects (d_objects d) /\
    map fst (user_objects (d_objects d')) = map fst (d_objects d) /\
    (forall k, ~ In k bookkeeping -> dict_get (d_trailer d') k = option_map norm_obj (dict_get (d_trailer d) k)).
Proof.
  intros d d' S [H1 [H2 H3]].
  assert (U : user_objects (d_objects d) = d_objects d).
  { apply user_objects_norm_kept. pose proof (sd_objects d S) as Ho. eapply Forall_impl; [|exact Ho]. intros io [_ [_ H]]. exact H. }
  rewrite U in H2. split; [exact H1|]. split; [exact H2|]. split.
  - rewrite H2. unfold norm_objects. rewrite map_map. reflexivity.
  - intros k Hk. rewrite (H3 k Hk). apply dict_get_norm.
Qed.

(* the reloaded document of either format is again in the domain of the pipeline and outside the known class *)
Theorem C01_reloaded_in_domain :
  forall xt d, savable d -> known_deep d = false -> small_file xt d -> cycles_fit xt d ->
    savable_core (written (reloaded xt d)) /\ known_deep (written (reloaded xt d)) = false.
Proof.
  intros xt d S K Hs Hfit. pose proof (savable_written d S) as S0.
  assert (K0 : known_deep (written d) = false) by (rewrite known_deep_written; assumption).
  destruct xt; cbn [reloaded].
  - rewrite written_reloaded_table by exact S0. split; [apply savable_reloaded; exact S0 | apply known_deep_reloaded; exact K0].
  - rewrite written_reloaded_stream by exact S0. apply savable_restream; try assumption.
    all: try (unfold small_file_core; rewrite <- save_written; exact Hs).
    all: try (rewrite written_savable by exact S; exact Hfit).
Qed.

(* non-vacuity: the example document meets every hypothesis, in both formats; ex_low is the same document with a
   stale max_id = 1 below its object number 3 (reachable through the public field `objects`) -- in the domain
   since the repair *)
Definition ex_low : doc :=
  {| d_version := d_version ex_doc; d_binary_mark := d_binary_mark ex_doc; d_trailer := d_trailer ex_doc;
     d_objects := d_objects ex_doc; d_max_id := 1 |}.

Lemma ex_savable m : m <= 4 ->
  savable {| d_version := d_version ex_doc; d_binary_mark := d_binary_mark ex_doc; d_trailer := d_trailer ex_doc;
             d_objects := d_objects ex_doc; d_max_id := m |}.
Proof.
  intro Hm. constructor; cbn [ex_doc d_version d_binary_mark d_trailer d_objects d_max_id].
  - change (last_number [((1, 0), ODict [(K_Type, OName (bs "Catalog"))]); ((3, 2), OStream [(K_Length, OInt 3)] (bs "abc"))]) with 3.
    unfold u32_mod. lia.
  - reflexivity.
  - reflexivity.
  - vm_compute. discriminate.
  - cbn [obj_numbers map fst increasing]. repeat split; reflexivity.
  - apply Forall_cons; [|apply Forall_cons; [|apply Forall_nil]]; cbn [fst snd].
    + split; [vm_compute; discriminate|]. split; [|reflexivity].
      cbn [top_wf]. constructor; [repeat constructor; cbn; intuition discriminate|]. repeat constructor.
    + split; [vm_compute; discriminate|]. split; [|reflexivity].
      cbn [top_wf]. split; [|reflexivity].
      constructor; [repeat constructor; cbn; intuition discriminate|]. repeat constructor.
  - constructor; [repeat constructor; cbn; intuition discriminate|].
    constructor; [|constructor]. cbn [snd]. constructor; vm_compute; discriminate.
  - reflexivity.
  - reflexivity.
Qed.

Theorem C01_example_domain :
  (savable ex_doc /\ known_deep ex_doc = false /\ small_file XTable ex_doc /\ small_file XStream ex_doc /\
   cycles_fit XStream ex_doc /\ small_file XTable (reloaded XTable ex_doc) /\ small_file XStream (reloaded XStream ex_doc)) /\
  (savable ex_low /\ known_deep ex_low = false /\ small_file XTable ex_low /\ small_file XStream ex_low /\
   cycles_fit XStream ex_low /\ d_max_id (so_doc (save XTable ex_low)) = 3 /\
   map fst (d_objects (reloaded XStream ex_low)) = [(1, 0); (3, 2); (4, 0)]).
Proof.
  split.
  - split; [apply (ex_savable 4); lia|]. repeat split; vm_compute; reflexivity.
  - split; [apply (ex_savable 1); lia|]. repeat split; vm_compute; reflexivity.
Qed.

(* the known-finding class is inhabited and the domain is not empty *)
Theorem C01_known_class_witness :
  exists d, known_deep d = true /\
            d_objects d = [((1, 0), Nat.iter 17 (fun o => OArr [o]) (OInt 7))].
Proof.
  exists {| d_version := bs "1.5"; d_binary_mark := [xbb; xad; xc0; xde]; d_trailer := [];
            d_objects := [((1, 0), Nat.iter 17 (fun o => OArr [o]) (OInt 7))]; d_max_id := 1 |}.
  split; [vm_compute; reflexivity | reflexivity].
Qed.

(* ------------------------------------------------------------------------------------------
   Part D.  Encrypted files.  Model/LoaderEnc.v: Reader::read with the Encrypt branch -- the objects are read as
   for any file (object streams stay closed), then the document goes to the decrypt attempt with the empty
   password, the parameter [after] (Model/LoaderCrypt.v instantiates it with C05's security handler).
   [savable_enc] = [savable] without "no Encrypt entry": an encrypted document is written and read like any other
   (the encryption dictionary is an ordinary object, ciphertext strings and stream bodies are arbitrary bytes).
   ------------------------------------------------------------------------------------------ *)

(* (16) The reader with the Encrypt branch is the reader of (15) on every file whose trailer has no Encrypt entry,
   whatever the decrypt attempt would do, and wherever load_ext answers at all *)
Theorem C01_loader_enc_agrees :
  forall decompress can_decompress (R : Type) (ret : lres -> R) (after : Xref.xmap -> doc -> xtype -> R) b,
    file_encrypted decompress can_decompress b = false ->
    load_encx decompress can_decompress R ret after b = ret (load_ext decompress can_decompress b).
Proof. exact load_enc_agrees. Qed.

Theorem C01_loader_enc_conservative :
  forall decompress can_decompress (R : Type) (ret : lres -> R) (after : Xref.xmap -> doc -> xtype -> R) b,
    load_ext decompress can_decompress b <> LUnmodelled ->
    load_encx decompress can_decompress R ret after b = ret (load_ext decompress can_decompress b).
Proof. exact load_enc_conservative. Qed.

(* (17) C01_full on the wider domain.  For a document whose trailer may carry Encrypt: the loader hands EXACTLY the
   reloaded document to the decrypt attempt (with the cross-reference table of the file, Normal entries only, and the
   remembered format); without an Encrypt entry it returns the reloaded document as in (14).  The reloaded document is
   the same in the property's sense, and so is the document of a second cycle. *)
Theorem C01_full_encx :
  forall decompress can_decompress (R : Type) (ret : lres -> R) (after : Xref.xmap -> doc -> xtype -> R) xt d,
    savable_enc d -> known_deep d = false -> small_file xt d -> cycles_fit xt d ->
    (exists x : Save.xmap, Forall normal_ok x /\
       load_encx decompress can_decompress R ret after (so_bytes (save xt d)) =
       if dict_has (d_trailer d) Save.K_Encrypt then after (conv_map x) (reloaded xt d) (xtype_of xt)
       else ret (LOk (reloaded xt d) (xtype_of xt))) /\
    same_doc d (reloaded xt d) /\
    (small_file xt (reloaded xt d) ->
     (exists x : Save.xmap, Forall normal_ok x /\
        load_encx decompress can_decompress R ret after (so_bytes (save xt (reloaded xt d))) =
        if dict_has (d_trailer (reloaded xt d)) Save.K_Encrypt
        then after (conv_map x) (reloaded xt (reloaded xt d)) (xtype_of xt)
        else ret (LOk (reloaded xt (reloaded xt d)) (xtype_of xt))) /\
     same_doc (reloaded xt d) (reloaded xt (reloaded xt d)) /\
     same_doc d (reloaded xt (reloaded xt d))).
Proof. exact load_save_enc. Qed.

(* the decrypt attempt as a function of the document alone: load_enc after (save xt d) = after (reloaded xt d) xt *)
Theorem C01_full_enc :
  forall decompress can_decompress (after : doc -> xtype -> lres) xt d,
    savable_enc d -> known_deep d = false -> small_file xt d -> cycles_fit xt d ->
    load_enc decompress can_decompress after (so_bytes (save xt d)) =
      (if dict_has (d_trailer d) Save.K_Encrypt then after (reloaded xt d) (xtype_of xt)
       else LOk (reloaded xt d) (xtype_of xt)) /\
    same_doc d (reloaded xt d) /\
    (small_file xt (reloaded xt d) ->
     load_enc decompress can_decompress after (so_bytes (save xt (reloaded xt d))) =
       (if dict_has (d_trailer (reloaded xt d)) Save.K_Encrypt then after (reloaded xt (reloaded xt d)) (xtype_of xt)
        else LOk (reloaded xt (reloaded xt d)) (xtype_of xt)) /\
     same_doc (reloaded xt d) (reloaded xt (reloaded xt d)) /\
     same_doc d (reloaded xt (reloaded xt d))).
Proof.
  intros dc cd after xt d S K Hs Hf.
  destruct (load_save_enc dc cd lres (fun r => r) (fun _ => after) xt d S K Hs Hf) as [[x [_ L1]] [D1 H2]].
  split; [exact L1|]. split; [exact D1|]. intro Hs1. destruct (H2 Hs1) as [[x' [_ L2]] [D2 D3]].
  split; [exact L2|]. split; assumption.
Qed.

(* [savable_enc] with the one field more is [savable] *)
Theorem C01_savable_enc_iff :
  forall d, savable d <-> savable_enc d /\ dict_has (d_trailer d) Save.K_Encrypt = false.
Proof.
  intro d. split.
  - intro S. split; [apply savable_enc_of; exact S | apply (sd_no_encrypt d S)].
  - intros [S E]. apply savable_of_enc; assumption.
Qed.

(* non-vacuity: the example document with an Encrypt entry naming object 3 meets every hypothesis in both formats and
   both cycles; handed to "nothing is decrypted" the loader returns it with the entry in place *)
Definition ex_enc : doc :=
  {| d_version := d_version ex_doc; d_binary_mark := d_binary_mark ex_doc;
     d_trailer := [(K_Root, ORef 1 0); (Save.K_Encrypt, ORef 3 2)];
     d_objects := d_objects ex_doc; d_max_id := 4 |}.

Theorem C01_example_enc :
  savable_enc ex_enc /\ known_deep ex_enc = false /\ dict_has (d_trailer ex_enc) Save.K_Encrypt = true /\
  small_file XTable ex_enc /\ small_file XStream ex_enc /\ cycles_fit XStream ex_enc /\
  small_file XTable (reloaded XTable ex_enc) /\ small_file XStream (reloaded XStream ex_enc) /\
  dict_get (d_trailer (reloaded XStream ex_enc)) Save.K_Encrypt = Some (ORef 3 2) /\
  load_keep (fun _ _ => None) (fun _ => false) (so_bytes (save XStream ex_enc)) = LOk (reloaded XStream ex_enc) XTStream.
Proof.
  split.
  - constructor; cbn [ex_enc ex_doc d_version d_binary_mark d_trailer d_objects d_max_id].
    + change (last_number [((1, 0), ODict [(K_Type, OName (bs "Catalog"))]); ((3, 2), OStream [(K_Length, OInt 3)] (bs "abc"))]) with 3.
      unfold u32_mod. lia.
    + reflexivity.
    + reflexivity.
    + vm_compute. discriminate.
    + cbn [obj_numbers map fst increasing]. repeat split; reflexivity.
    + apply Forall_cons; [|apply Forall_cons; [|apply Forall_nil]]; cbn [fst snd].
      * split; [vm_compute; discriminate|]. split; [|reflexivity].
        cbn [top_wf]. constructor; [repeat constructor; cbn; intuition discriminate|]. repeat constructor.
      * split; [vm_compute; discriminate|]. split; [|reflexivity].
        cbn [top_wf]. split; [|reflexivity].
        constructor; [repeat constructor; cbn; intuition discriminate|]. repeat constructor.
    + constructor; [repeat constructor; cbn; intuition discriminate|].
      constructor; [|constructor; [|constructor]]; cbn [snd]; constructor; vm_compute; discriminate.
    + reflexivity.
  - repeat split; vm_compute; reflexivity.
Qed.


(* ------------------------------------------------------------------------------------------
   Part E.  The size of the SECOND file is derived from the first (Proofs/SaveSizeProofs.v).
   The document that comes back from load (save xt d) is written in at most [slack xt] more bytes than d itself:
   0 for the cross-reference table format, 16 for the cross-reference stream format (the new cross-reference
   stream has the number max_id + 2 instead of max_id + 1: one more digit at most; Size one more digit at most;
   the Index array at most one more sub-section, 14 bytes at most).  Normal forms are never written longer
   (an integral real comes back as the integer it denotes; integers and reals are in the same separator classes),
   the cross-reference part has the same sub-sections with the same numbers of fixed-width entries, and the
   decimal spelling of a smaller number is not longer.
   So C01_full's hypothesis [small_file xt (reloaded xt d)] follows from [small_file_slack xt d]:
   |save xt d| + slack xt < 2^32 -- a hypothesis on the ORIGINAL document only.
   ------------------------------------------------------------------------------------------ *)
From LV Require Import Proofs.SaveSizeProofs.

(* (18) a normal form is never written longer, and needs the same separators *)
Theorem C01_normal_form_not_longer :
  forall o, obj_wf o ->
    (length (write_object (norm_obj o)) <= length (write_object o))%nat /\
    need_separator (norm_obj o) = need_separator o /\ need_end_separator (norm_obj o) = need_end_separator o.
Proof. intros o H. split; [exact (write_norm_le o H)|]. split; [apply need_sep_norm | apply need_end_sep_norm]. Qed.

(* (19) the second file against the first, either format *)
Theorem C01_second_file_size :
  forall xt d, savable_enc d -> cycles_fit xt d ->
    (length (so_bytes (save xt (reloaded xt d))) <= length (so_bytes (save xt d)) + slack xt)%nat /\
    slack XTable = 0%nat /\ slack XStream = 16%nat.
Proof. intros xt d S H. split; [exact (second_file_le xt d S H)|]. split; reflexivity. Qed.

Theorem C01_small_file_second :
  forall xt d, savable_enc d -> cycles_fit xt d -> small_file_slack xt d -> small_file xt d /\ small_file xt (reloaded xt d).
Proof. intros xt d S H Hs. split; [exact (small_file_of_slack xt d Hs) | exact (small_file_second xt d S H Hs)]. Qed.

(* (20) C01_full with the single size hypothesis on the FIRST file: both cycles are conclusions *)
Theorem C01_full_slack :
  forall xt d, savable d -> known_deep d = false -> small_file_slack xt d -> cycles_fit xt d ->
    load (so_bytes (save xt d)) = LOk (reloaded xt d) (xtype_of xt) /\
    same_doc d (reloaded xt d) /\
    load (so_bytes (save xt (reloaded xt d))) = LOk (reloaded xt (reloaded xt d)) (xtype_of xt) /\
    same_doc (reloaded xt d) (reloaded xt (reloaded xt d)) /\
    same_doc d (reloaded xt (reloaded xt d)).
Proof. exact load_save_full_slack. Qed.

(* the same on the wider domain (Encrypt allowed), for the reader with the Encrypt branch *)
Theorem C01_full_encx_slack :
  forall decompress can_decompress (R : Type) (ret : lres -> R) (after : Xref.xmap -> doc -> xtype -> R) xt d,
    savable_enc d -> known_deep d = false -> small_file_slack xt d -> cycles_fit xt d ->
    (exists x : Save.xmap, Forall normal_ok x /\
       load_encx decompress can_decompress R ret after (so_bytes (save xt d)) =
       if dict_has (d_trailer d) Save.K_Encrypt then after (conv_map x) (reloaded xt d) (xtype_of xt)
       else ret (LOk (reloaded xt d) (xtype_of xt))) /\
    same_doc d (reloaded xt d) /\
    (exists x : Save.xmap, Forall normal_ok x /\
       load_encx decompress can_decompress R ret after (so_bytes (save xt (reloaded xt d))) =
       if dict_has (d_trailer (reloaded xt d)) Save.K_Encrypt
       then after (conv_map x) (reloaded xt (reloaded xt d)) (xtype_of xt)
       else ret (LOk (reloaded xt (reloaded xt d)) (xtype_of xt))) /\
    same_doc (reloaded xt d) (reloaded xt (reloaded xt d)) /\
    same_doc d (reloaded xt (reloaded xt d)).
Proof. exact load_save_enc_slack. Qed.

(* non-vacuity: the example documents meet the slack hypothesis in both formats; the stream-format file written from
   the reloaded ex_low IS longer than the first one (242 against 238 bytes: the Index array gets a second
   sub-section), so a slack is needed in that format *)
Theorem C01_example_slack :
  small_file_slack XTable ex_doc /\ small_file_slack XStream ex_doc /\
  small_file_slack XTable ex_low /\ small_file_slack XStream ex_low /\
  (length (so_bytes (save XTable (reloaded XTable ex_doc))) <= length (so_bytes (save XTable ex_doc)))%nat /\
  (length (so_bytes (save XStream (reloaded XStream ex_doc))) <= length (so_bytes (save XStream ex_doc)) + 16)%nat /\
  length (so_bytes (save XStream ex_low)) = 238%nat /\ length (so_bytes (save XStream (reloaded XStream ex_low))) = 242%nat.
Proof. repeat split; vm_compute; try reflexivity; try lia. Qed.

Print Assumptions C01_offsets_sound.
Print Assumptions C01_offsets_complete.
Print Assumptions C01_startxref_exact.
Print Assumptions C01_xref_entry_20.
Print Assumptions C01_table_sections.
Print Assumptions C01_stream_sections.
Print Assumptions C01_example.
Print Assumptions C01_object_roundtrip.
Print Assumptions C01_object_at_offset_partial.
Print Assumptions C01_header_roundtrip.
Print Assumptions C01_binary_mark_roundtrip.
Print Assumptions C01_startxref_roundtrip.
Print Assumptions C01_trailer_roundtrip.
Print Assumptions C01_xref_table_roundtrip.
Print Assumptions C01_xref_stream_is_spec.
Print Assumptions C01_xref_stream_roundtrip.
Print Assumptions C01_roundtrip_table.
Print Assumptions C01_roundtrip_stream.
Print Assumptions C01_full.
Print Assumptions C01_loader_ext_conservative.
Print Assumptions C01_full_ext.
Print Assumptions C01_same_doc_reading.
Print Assumptions C01_reloaded_in_domain.
Print Assumptions C01_example_domain.
Print Assumptions C01_known_class_witness.
Print Assumptions C01_loader_enc_agrees.
Print Assumptions C01_loader_enc_conservative.
Print Assumptions C01_full_encx.
Print Assumptions C01_full_enc.
Print Assumptions C01_savable_enc_iff.
Print Assumptions C01_example_enc.
Print Assumptions C01_normal_form_not_longer.
Print Assumptions C01_second_file_size.
Print Assumptions C01_small_file_second.
Print Assumptions C01_full_slack.
Print Assumptions C01_full_encx_slack.
Print Assumptions C01_example_slack.
