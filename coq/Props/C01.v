(* Props/C01.v -- placeholder until the rung-1 theorems are in (see Proofs/SaveProofs.v). *)
From LV Require Import Base.Bytes Model.Obj Model.Writer Model.Save.
