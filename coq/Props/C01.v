(* Props/C01.v -- property C01: save then load returns the same document.
   Part A (rung 1): theorems about the save model (Model/Save.v) that hold for EVERY document.
   Part B (rung 2/3, partial): the loader model (Model/Loader.v) reads back what the save model wrote --
   per object, at the recorded offset, and for the frame of the file (header, binary mark, startxref).
   The whole-file statement is C01_full below; what is missing for it is said there.
   Statements only; proofs live in Proofs/SaveProofs.v, LoadProofs.v, LoadProofsFile.v (and, for the
   object level, in C14's LexProofs / LitStringProofs / RealProofs / ObjectRtProofs). *)
From LV Require Import Base.Bytes Base.Sx Model.Obj Model.Writer Model.Parser Model.Save Model.Xref Model.Loader
  Model.Utf Gen.Lex Proofs.LexProofs Proofs.ObjectRtProofs Proofs.SaveProofs Spec.SaveSpec Proofs.LoadProofs
  Proofs.LoadProofsFile Proofs.LoadProofsXref Proofs.LoadProofsTable Proofs.LoadProofsAgain.

Local Open Scope N_scope.

(* (1) offsets_exact, soundness.  Whatever the document: every entry of the cross-reference map
   built while saving names an object of the document that was written, and its offset is the
   position (mod 2^32, the `as u32` of the code) of that object's "id gen obj" header in the file. *)
Theorem C01_offsets_sound :
  forall d id off g,
    Save.xget (xmap_of d) id = Some (Save.XNormal off g) ->
    exists o pre post,
      In ((id, g), o) (d_objects d) /\ skipped o = false /\
      body_of d = pre ++ write_indirect_object id g o ++ post /\
      off = Save.blen pre mod u32_mod.
Proof. exact offsets_sound. Qed.

(* (2) offsets_exact, completeness.  With pairwise distinct object numbers every object that is
   not dropped by the skip rule is in the file and is recorded at exactly its own offset. *)
Theorem C01_offsets_complete :
  forall d id g o,
    NoDup (obj_numbers (d_objects d)) -> In ((id, g), o) (d_objects d) -> skipped o = false ->
    exists pre post,
      body_of d = pre ++ write_indirect_object id g o ++ post /\
      Save.xget (xmap_of d) id = Some (Save.XNormal (blen pre mod u32_mod) g).
Proof. exact offsets_complete. Qed.

(* (3) startxref_exact.  A successful save is  body ++ cross-reference part ++ "\nstartxref\n<n>\n%%EOF"
   where n is the length of body, i.e. the offset at which the cross-reference part starts: the
   keyword "xref" for the table format, the header of the cross-reference stream object otherwise. *)
Theorem C01_startxref_exact :
  forall xt d,
    so_status (save xt d) = SaveOk ->
    exists mid,
      so_bytes (save xt d) = body_of d ++ mid ++ startxref_bytes (Save.blen (body_of d)) /\
      match xt with
      | XTable => mid = write_xref (xmap_of d) (d_max_id d + 1) ++ trailer_bytes (trailer_table d)
      | XStream =>
        let p := xstream_parts d (xmap_of d) (Save.blen (body_of d) mod u32_mod) in
        mid = write_indirect_object (d_max_id d + 1) 0 (OStream (fst (fst p)) (snd (fst p)))
      end.
Proof. exact save_ok_shape. Qed.

(* (4) Cross-reference table entries are 20 bytes, "nnnnnnnnnn ggggg k \n". *)
Theorem C01_xref_entry_20 :
  forall e : Save.xentry, xentry_in_range e -> length (write_xref_entry e) = 20%nat.
Proof. exact xref_entry_20. Qed.

(* (5) Which entry the table prints for which object number: entry 0 is the unusable free entry,
   a number below Size is printed iff the map has it, nothing at or above Size.  (6) The same for
   the cross-reference stream, whose range is 1..Size with Size the stream object itself. *)
Theorem C01_table_sections :
  forall (x : Save.xmap) size j,
    1 <= size ->
    sections_get (table_sections x size) j =
      if j =? 0 then Some XUnusable
      else if j <? size then option_map table_conv (Save.xget x j) else None.
Proof. exact table_sections_get. Qed.

Theorem C01_stream_sections :
  forall (x : Save.xmap) size j,
    sections_get (stream_sections x size) j = if (1 <=? j) && (j <=? size) then Save.xget x j else None.
Proof. exact stream_sections_get. Qed.

(* non-vacuity: a two-object document (a dictionary and a stream with generation 2, sparse
   numbers) and the exact file the model writes for it *)
Definition ex_doc : doc :=
  {| d_version := bs "1.5"; d_binary_mark := [xbb; xad; xc0; xde];
     d_trailer := [(K_Root, ORef 1 0)];
     d_objects := [((1, 0), ODict [(K_Type, OName (bs "Catalog"))]);
                   ((3, 2), OStream [(K_Length, OInt 3)] (bs "abc"))];
     d_max_id := 4 |}.

Theorem C01_example :
  so_status (save XTable ex_doc) = SaveOk /\ NoDup (obj_numbers (d_objects ex_doc)) /\
  xmap_of ex_doc = [(1, Save.XNormal 15 0); (3, Save.XNormal 48 2)] /\
  save_table ex_doc =
    bs "%PDF-1.5" ++ [x0a; x25; xbb; xad; xc0; xde; x0a] ++
    bs "1 0 obj
<</Type/Catalog>>
endobj
3 2 obj
<</Length 3>>stream
abc
endstream 
endobj
xref
0 2
0000000000 65535 f 
0000000015 00000 n 
3 1
0000000048 00002 n 
trailer
<</Root 1 0 R/Size 5>>
startxref
98
%%EOF".
Proof.
  split; [vm_compute; reflexivity|]. split.
  - cbn. repeat constructor; cbn; intuition discriminate.
  - split; vm_compute; reflexivity.
Qed.

(* ------------------------------------------------------------------------------------------
   Part B.  The loader reads back what save wrote.
   ------------------------------------------------------------------------------------------ *)

(* (7) Per-object round trip, any continuation: an indirect object written by the writer -- a
   direct object of any of the nine direct kinds nested up to MAX_BRACKET levels, or a stream with
   Length = its content length -- is parsed back by the loader's indirect-object parser to its
   normal form (an integral real becomes the integer; nothing else changes: identical bytes in
   names, strings, keys and stream bodies, same nesting and references). *)
Theorem C01_object_roundtrip :
  forall id g o post,
    id <= u32_max -> g <= u16_max -> top_wf o -> (nest o <= MAX_DEPTH)%nat ->
    indirect_object (write_indirect_object id g o ++ post) None = IOk (id, g) (norm_obj o).
Proof. exact indirect_object_rt. Qed.

(* (8) ... and it is found where the cross-reference map says: in a successfully saved file below
   4 GiB (either format), every object that is not dropped by the skip rule has a map entry whose
   offset lies inside the file and at which the loader parses exactly (id, gen) and norm o. *)
Theorem C01_object_at_offset_partial :
  forall xt d id g o,
    so_status (save xt d) = SaveOk -> small_file xt d ->
    NoDup (obj_numbers (d_objects d)) -> In ((id, g), o) (d_objects d) -> skipped o = false ->
    id <= u32_max -> g <= u16_max -> top_wf o -> (nest o <= MAX_DEPTH)%nat ->
    exists off,
      Save.xget (xmap_of d) id = Some (Save.XNormal off g) /\
      off <= Loader.blen (so_bytes (save xt d)) /\
      indirect_object (from off (so_bytes (save xt d))) None = IOk (id, g) (norm_obj o).
Proof. exact object_at_recorded_offset. Qed.

(* (9) The frame of the file.  The header line gives back the version, line 2 the binary mark, and
   get_xref_start -- the two last-match searches over the tail and the startxref parser -- returns
   the number save printed (by C01_startxref_exact: the offset of the cross-reference part). *)
Theorem C01_header_roundtrip :
  forall v rest, no_eol v -> utf8_decode v <> None -> header (bs "%PDF-" ++ v ++ x0a :: rest) = Some v.
Proof. exact header_rt. Qed.

Theorem C01_binary_mark_roundtrip :
  forall v m rest, no_eol v -> binary_mark_ok m = true ->
    read_binary_mark (bs "%PDF-" ++ v ++ x0a :: x25 :: m ++ x0a :: rest) = m.
Proof. exact binary_mark_rt. Qed.

Theorem C01_startxref_roundtrip :
  forall front n, n <= Loader.blen front -> 25 < Loader.blen front -> n < 10 ^ 14 ->
    get_xref_start (front ++ startxref_bytes n) = Some n.
Proof. exact get_xref_start_rt. Qed.

(* (10) The trailer written by write_trailer is read back by parser::trailer to its normal form, and
   (11) the cross-reference table: a map with increasing object numbers below Size and in-range Normal
   entries (what save builds, see C01_offsets_sound / C01_offsets_complete), printed by write_xref, is parsed back by the table parser
   (sub-section by sub-section, entry by entry) to exactly that map: the entries parse back to the
   offsets.  Together with (8): every object is reachable through the table at its own offset. *)
Theorem C01_trailer_roundtrip :
  forall t rest, obj_wf (ODict t) -> (nest (ODict t) <= MAX_DEPTH)%nat ->
    Xref.trailer (trailer_bytes t ++ rest) = POk (norm_dict t) (space rest).
Proof. exact trailer_rt. Qed.

Theorem C01_xref_table_roundtrip :
  forall (x : Save.xmap) size more,
    1 <= size -> size < two32 -> incr 1 x -> Forall (fun ke => fst ke < size) x -> Forall normal_ok x ->
    xref_table (write_xref x size ++ bs "trailer" ++ more) =
    POk {| x_type := XTTable; x_entries := conv_map x; x_size := 0 |} (bs "trailer" ++ more).
Proof. exact xref_table_roundtrip. Qed.

(* The whole-file statement (DESIGN: C01_roundtrip and C01_again) for both formats is C01_full below.
   PROVED for the cross-reference TABLE format: the first cycle (C01_roundtrip_table and its reading
   C01_roundtrip_table_same) and the second cycle (C01_again_table).  NOT proved: the cross-reference
   STREAM format -- missing is the stream content written by xstream_content read back through
   Xref.decode_xref_plain and the composition with it (every other piece, (1)-(11), is format
   independent). *)
Definition bookkeeping : list bytes :=
  [K_Type; Save.K_Size; Save.K_W; Save.K_Index; K_Length; Save.K_Prev; K_Filter].
Definition is_xref_stream (o : obj) : bool :=
  match o with OStream d _ => has_type d K_XRef | _ => false end.
Definition user_objects (m : objmap) : objmap := filter (fun io => negb (is_xref_stream (snd io))) m.
Definition same_trailer (t t' : dict) : Prop :=
  forall k, ~ In k bookkeeping -> dict_get t' k = dict_get (norm_dict t) k.
Definition same_doc (d d' : doc) : Prop :=
  d_version d' = d_version d /\ user_objects (d_objects d') = norm_objects (d_objects d) /\
  same_trailer (d_trailer d) (d_trailer d').
Definition xtype_of (xt : xref_type) : xtype := match xt with XTable => XTTable | XStream => XTStream end.
Definition with_objects (d : doc) (m : objmap) : doc :=
  {| d_version := d_version d; d_binary_mark := d_binary_mark d; d_trailer := d_trailer d;
     d_objects := m; d_max_id := d_max_id d |}.

Definition C01_full : Prop :=
  forall xt d, savable d -> known_deep d = false -> small_file xt d ->
    exists d1 d2,
      load (so_bytes (save xt d)) = LOk d1 (xtype_of xt) /\ same_doc d d1 /\
      load (so_bytes (save xt d1)) = LOk d2 (xtype_of xt) /\ same_doc d1 d2 /\ same_doc d d2.

(* (12) MAIN THEOREM, table format.  For every document of the domain that is outside the known-finding
   class and whose file stays below 4 GiB: loading the bytes save wrote succeeds, remembers the format,
   and returns exactly [reloaded_table d]: same version and binary mark, the same identifiers with every
   object replaced by its normal form (an integral real becomes the integer, nothing else changes),
   the trailer with Size set, normalised, and max_id = the largest object number. *)
Theorem C01_roundtrip_table :
  forall d, savable d -> known_deep d = false -> small_file XTable d ->
    load (save_table d) = LOk (reloaded_table d) XTTable.
Proof. exact load_save_table. Qed.

(* ... read as the clauses of the property text *)
Theorem C01_roundtrip_table_same :
  forall d, savable d -> known_deep d = false -> small_file XTable d ->
    exists d1, load (so_bytes (save XTable d)) = LOk d1 (xtype_of XTable) /\
               d_version d1 = d_version d /\
               map fst (d_objects d1) = map fst (d_objects d) /\
               d_objects d1 = norm_objects (d_objects d) /\
               same_trailer (d_trailer d) (d_trailer d1).
Proof.
  intros d S K Hs. exists (reloaded_table d). split; [apply load_save_table; assumption|].
  split; [reflexivity|]. split.
  - cbn [reloaded_table d_objects]. unfold norm_objects. rewrite map_map. reflexivity.
  - split; [reflexivity|]. intros k Hk. cbn [reloaded_table d_trailer].
    rewrite !dict_get_norm. unfold trailer_table.
    destruct (bytes_eqb k Save.K_Size) eqn:E.
    + apply bytes_eqb_eq in E. subst k. exfalso. apply Hk. right. left. reflexivity.
    + apply bytes_eqb_neq in E. rewrite FilterProofsDict.dict_get_set_other by exact E. reflexivity.
Qed.

(* (13) C01_again, table format.  The reloaded document is in the domain again and outside the known
   class (normalisation keeps well-formedness, types, nesting), so a further cycle succeeds, and it
   returns the same version, identifiers, objects and max_id: from the first reload on the cycle is
   the identity on the objects.  (Only the size bound of the second file stays a hypothesis: normal
   forms can differ in length from the original spelling.) *)
Theorem C01_again_table :
  forall d, savable d -> known_deep d = false -> small_file XTable d -> small_file XTable (reloaded_table d) ->
    load (save_table d) = LOk (reloaded_table d) XTTable /\
    load (save_table (reloaded_table d)) = LOk (reloaded_table (reloaded_table d)) XTTable /\
    d_version (reloaded_table (reloaded_table d)) = d_version d /\
    d_objects (reloaded_table (reloaded_table d)) = d_objects (reloaded_table d) /\
    d_max_id (reloaded_table (reloaded_table d)) = d_max_id (reloaded_table d).
Proof. exact load_save_table_again. Qed.

Theorem C01_reloaded_in_domain :
  forall d, savable d -> known_deep d = false ->
    savable (reloaded_table d) /\ known_deep (reloaded_table d) = false.
Proof. intros d S K. split; [apply savable_reloaded; exact S | apply known_deep_reloaded; exact K]. Qed.

(* non-vacuity of the main theorem: the example document meets every hypothesis *)
Theorem C01_example_domain :
  savable ex_doc /\ known_deep ex_doc = false /\ small_file XTable ex_doc /\
  load (save_table ex_doc) = LOk (reloaded_table ex_doc) XTTable.
Proof.
  assert (S : savable ex_doc).
  { constructor.
    - vm_compute. reflexivity.
    - reflexivity.
    - reflexivity.
    - vm_compute. discriminate.
    - cbn [ex_doc d_objects obj_numbers map fst increasing]. repeat split; reflexivity.
    - cbn [ex_doc d_objects d_max_id].
      apply Forall_cons; [|apply Forall_cons; [|apply Forall_nil]]; cbn [fst snd].
      + split; [vm_compute; discriminate|]. split; [vm_compute; discriminate|]. split; [|reflexivity].
        cbn [top_wf]. constructor; [repeat constructor; cbn; intuition discriminate|].
        repeat constructor.
      + split; [vm_compute; discriminate|]. split; [vm_compute; discriminate|]. split; [|reflexivity].
        cbn [top_wf]. split; [|reflexivity].
        constructor; [repeat constructor; cbn; intuition discriminate|].
        repeat constructor.
    - cbn [ex_doc d_trailer]. constructor; [repeat constructor; cbn; intuition discriminate|].
      constructor; [|constructor]. cbn [snd]. constructor; vm_compute; discriminate.
    - reflexivity.
    - reflexivity. }
  assert (K : known_deep ex_doc = false) by (vm_compute; reflexivity).
  assert (Hs : small_file XTable ex_doc) by (vm_compute; reflexivity).
  split; [exact S|]. split; [exact K|]. split; [exact Hs|]. apply load_save_table; assumption.
Qed.

(* the known-finding class is inhabited and the domain is not empty *)
Theorem C01_known_class_witness :
  exists d, known_deep d = true /\
            d_objects d = [((1, 0), Nat.iter 101 (fun o => OArr [o]) (OInt 7))].
Proof.
  exists {| d_version := bs "1.5"; d_binary_mark := [xbb; xad; xc0; xde]; d_trailer := [];
            d_objects := [((1, 0), Nat.iter 101 (fun o => OArr [o]) (OInt 7))]; d_max_id := 1 |}.
  split; [vm_compute; reflexivity | reflexivity].
Qed.

Print Assumptions C01_offsets_sound.
Print Assumptions C01_offsets_complete.
Print Assumptions C01_startxref_exact.
Print Assumptions C01_xref_entry_20.
Print Assumptions C01_table_sections.
Print Assumptions C01_stream_sections.
Print Assumptions C01_example.
Print Assumptions C01_object_roundtrip.
Print Assumptions C01_object_at_offset_partial.
Print Assumptions C01_header_roundtrip.
Print Assumptions C01_binary_mark_roundtrip.
Print Assumptions C01_startxref_roundtrip.
Print Assumptions C01_trailer_roundtrip.
Print Assumptions C01_xref_table_roundtrip.
Print Assumptions C01_roundtrip_table.
Print Assumptions C01_roundtrip_table_same.
Print Assumptions C01_again_table.
Print Assumptions C01_reloaded_in_domain.
Print Assumptions C01_example_domain.
Print Assumptions C01_known_class_witness.
