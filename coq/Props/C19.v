(* Props/C19.v -- placeholder until the theorems below are final (see Proofs/SinkProofs.v). *)
From LV Require Import Base.Bytes Model.Sink Proofs.SinkProofs.

Theorem C19_chunking_irrelevant : forall calls s,
  no_hard s -> run write_all calls s = (WOk, concat calls, N.of_nat (length (concat calls))).
Proof. exact chunking_irrelevant. Qed.

Print Assumptions C19_chunking_irrelevant.
