(* Props/C19.v -- property C19: saving reports sink failures and ignores sink chunking.
   Statements only; proofs live in Proofs/SinkProofs.v, Proofs/SaveStateProofs.v, Proofs/SaveStateIncProofs.v,
   Proofs/SinkSaveProofs.v, Proofs/SinkBufProofs.v, Proofs/ComposeSink.v, Proofs/ComposeSinkInc.v.

   Reading guide.  [calls] is the list of buffers the save path hands to write_all, one after the
   other, each followed by `?` -- ANY list: the theorems do not depend on how the output is cut into
   calls.  A sink is a [script]: the answers it gives to successive `write` calls (healthy once the
   script is used up); [run write_all calls s] = (result, bytes the sink holds, CountingWrite.bytes_written).
   [run qwrite_all] is the same for sinks whose answers are attached to stream positions (what the
   harness drives the real save_to with). *)
From LV Require Import Base.Bytes Model.Obj Model.Sink Model.SaveState Model.SinkBuf
  Proofs.SinkProofs Proofs.SaveStateProofs Proofs.SaveStateIncProofs Proofs.SinkSaveProofs Proofs.SinkBufProofs.
From LV Require Model.Save.

Local Open Scope N_scope.

(* (1) "the bytes written do not depend on how the sink splits writes": a sink that never fails hard
   receives every byte, in order, and save returns Ok with an exact counter -- for every pattern of
   short writes and Interrupted answers, and for every way of cutting the output into calls. *)
Theorem C19_chunking_irrelevant :
  forall calls s, no_hard s ->
    run write_all calls s = (WOk, concat calls, N.of_nat (length (concat calls))).
Proof. exact chunking_irrelevant. Qed.

Theorem C19_rechunking_irrelevant :
  forall calls1 calls2 s1 s2, concat calls1 = concat calls2 -> no_hard s1 -> no_hard s2 ->
    run write_all calls1 s1 = run write_all calls2 s2.
Proof. exact rechunking_irrelevant. Qed.

(* (2) "so cross-reference offsets stay correct under short writes": whenever the code reads the
   counter before its i-th call, it equals the length of the first i buffers (a function of the
   requested lengths only) AND the sink really holds exactly those bytes. *)
Theorem C19_counter_exact :
  forall calls s i n, counter_before calls s i = Some n ->
    n = N.of_nat (length (concat (firstn i calls))) /\
    exists k, run write_all (firstn i calls) s = (WOk, concat (firstn i calls), k).
Proof. exact counter_exact. Qed.

Theorem C19_offsets_chunking_independent :
  forall calls s1 s2 i n1 n2,
    counter_before calls s1 i = Some n1 -> counter_before calls s2 i = Some n2 -> n1 = n2.
Proof. exact offsets_chunking_independent. Qed.

(* (3) "if the sink fails at any point, saving returns an error rather than success": for EVERY
   script, delivered bytes are a prefix of the complete output and Ok is returned if and only if
   the sink holds all of it (never Ok with missing bytes; never an error with nothing missing). *)
Theorem C19_ok_iff_complete :
  forall calls s,
    let '(r, d, _) := run write_all calls s in
    d = firstn (length d) (concat calls) /\ (r = WOk <-> d = concat calls).
Proof. exact ok_iff_complete. Qed.

Theorem C19_never_ok_with_missing_bytes :
  forall calls s d n, run write_all calls s = (WOk, d, n) -> d = concat calls /\ n = N.of_nat (length d).
Proof. exact never_ok_with_missing_bytes. Qed.

(* (4) the error returned is the sink's own: with a script that is soft up to a hard answer h (an
   error of kind e, or Ok(0) = WriteZero), either h is never asked because everything was already
   delivered, or save returns exactly Err e with a strict prefix delivered. *)
Theorem C19_failure_is_error_and_prefix :
  forall calls sf h rest e, no_hard sf -> hard_kind h = Some e ->
    let '(r, d, n) := run write_all calls (sf ++ h :: rest) in
    (r = WOk /\ d = concat calls) \/
    (r = WErr e /\ exists p, (p < length (concat calls))%nat /\ d = firstn p (concat calls)).
Proof. exact failure_is_error_and_prefix. Qed.

(* (5) failure at delivered position p, independent of call boundaries: a positional sink that takes
   p = quota sf bytes and then answers h. *)
Theorem C19_failure_at_position :
  forall calls sf h rest e, no_hard sf -> hard_kind h = Some e ->
    rd (run qwrite_all calls (sf ++ h :: rest)) =
    if (quota sf <? N.of_nat (length (concat calls)))
    then (WErr e, firstn (N.to_nat (quota sf)) (concat calls))
    else (WOk, concat calls).
Proof. exact positional_failure_at. Qed.

Theorem C19_positional_rechunking :
  forall calls1 calls2 s, concat calls1 = concat calls2 ->
    rd (run qwrite_all calls1 s) = rd (run qwrite_all calls2 s).
Proof. exact positional_rechunking. Qed.

Theorem C19_positional_is_single_call :
  forall calls s, rd (run qwrite_all calls s) = rd (run write_all [concat calls] s).
Proof. exact positional_is_single_call. Qed.

(* IncrementalDocument::save_to: the previous bytes are written around the counter, counted
   afterwards and from the file header.  Observably this is the same pipeline with the previous
   bytes as first call, so (1)-(5) hold for incremental saves with calls := prev :: calls; and on
   Ok the counter is the number of bytes delivered minus the bytes before the first "%PDF-":
   recorded offsets are true positions relative to the file header, whatever the sink did. *)
Theorem C19_incremental_is_plain :
  forall wa prev calls s,
    rd (run_inc wa prev calls s) = rd (run wa (prev :: calls) s) /\
    (forall d n, run_inc wa prev calls s = (WOk, d, n) ->
       run wa (prev :: calls) s = (WOk, d, n + N.of_nat (header_offset prev))).
Proof. exact run_inc_is_run. Qed.

Theorem C19_example_header_offset :
  header_offset (bs "junk" ++ [x0a] ++ bs "%PDF-1.5 %PDF-") = 5%nat /\ header_offset (bs "%PD") = 0%nat.
Proof. split; reflexivity. Qed.

(* (6) "a later save of the same document ...": what a failed save leaves behind.  A plain save first
   raises max_id to the largest object number [top] (idempotent; IncrementalDocument: top = None, no
   raise), then mutates the document at one point (after [pre], before [post]); a failed save leaves
   the document untouched up to that raise if fewer than |pre| bytes were delivered and otherwise
   exactly as a SUCCESSFUL save leaves it -- nothing else. *)
Theorem C19_failed_save_residue :
  forall wa, wa_sound wa ->
  forall mode ids top pre post st s r d st',
    save_with wa mode ids top pre post st s = (r, d, st') ->
    ((length d < length (concat pre))%nat /\ st' = raise_max_id top st /\ r <> WOk) \/
    ((length (concat pre) <= length d)%nat /\ st' = mutate mode ids (raise_max_id top st)).
Proof. exact failed_save_residue. Qed.

Theorem C19_raise_idempotent :
  forall top st, raise_max_id top (raise_max_id top st) = raise_max_id top st.
Proof. exact raise_idem. Qed.

(* (6-inc) the same for IncrementalDocument::save_to.  [istate] = what save_internal can reach of the IncrementalDocument:
   the previous bytes (bytes_documents; prev_documents is only read, for the format [mode]) and (max_id, trailer) of
   new_document.  [save_inc_with]: the previous bytes around the counter (an error returns at once), [pre] (separator
   newline, header, mark, objects, and the xref table in the table format), the mutation of new_document, [post].
   For every sound reading of the sink, every script, every [pre] / [post] / [ids]:
     * the previous bytes are unchanged;
     * result and delivered bytes are those of [run_inc], the pipeline of C19_incremental_is_plain;
     * the IncrementalDocument is the ORIGINAL -- there is no raise of max_id in this function, [raise_max_id None] is the
       identity -- and then the result is an error and fewer than |prev| + |pre| bytes were delivered, or the original with
       new_document mutated exactly as by a successful save, and then at least |prev| + |pre| bytes were delivered.
       A successful save always mutates (first disjunct: r <> WOk). *)
Theorem C19_incremental_failed_save_residue :
  forall wa, wa_sound wa ->
  forall mode ids pre post st s r d st',
    save_inc_with wa mode ids pre post st s = (r, d, st') ->
    is_prev st' = is_prev st /\
    (r, d) = rd (run_inc wa (is_prev st) (pre ++ post) s) /\
    (((length d < length (is_prev st) + length (concat pre))%nat /\ st' = st /\ r <> WOk) \/
     ((length (is_prev st) + length (concat pre) <= length d)%nat /\
      st' = {| is_prev := is_prev st; is_new := mutate mode ids (is_new st) |})).
Proof. exact incremental_failed_save_residue. Qed.

(* table format (previous document has a cross-reference table): the calls of an incremental save are the previous
   bytes, what is written before the mutation point -- a function of the previous bytes (separator) and of
   new_document.max_id (Xref::new(max_id + 1)), not of the trailer -- and what is written from the mutated new_document.
   After a failed (or successful) save a re-save issues EXACTLY the calls, hence the bytes, of a pristine save. *)
Theorem C19_incremental_resave :
  (forall st, raise_max_id None st = st) /\
  (forall pre_of post_of st,
      inc_table_calls pre_of post_of st =
      is_prev st :: pre_of (is_prev st) (s_max_id (is_new st)) ++ post_of (mutate_table (is_new st))) /\
  (forall pre_of post_of st st',
      st' = st \/ st' = {| is_prev := is_prev st; is_new := mutate_table (is_new st) |} ->
      inc_table_calls pre_of post_of st' = inc_table_calls pre_of post_of st).
Proof. split; [reflexivity|]. split; [reflexivity | exact inc_resave_table_same_calls]. Qed.

(* stream format: every save that reaches write_cross_reference_stream consumes one object number of new_document
   (n saves: max_id + n, previous bytes unchanged), so the cross-reference stream object of a re-save has another number,
   Size and Index.  Everything before it -- the previous bytes, separator, header, mark and all objects, at the same
   offsets -- is identical to a pristine save.  PARTIAL in that the bytes of the cross-reference stream object itself
   are not compared; what the re-saved file LOADS to is C19_incremental_resave_after_failure_loads below. *)
Theorem C19_incremental_resave_stream_partial :
  (forall ids st n,
      is_prev (iter n (inc_mutate XStream ids) st) = is_prev st /\
      s_max_id (is_new (iter n (inc_mutate XStream ids) st)) = s_max_id (is_new st) + N.of_nat n) /\
  (forall pre post_of ids st,
      inc_stream_calls pre post_of ids st = is_prev st :: pre (is_prev st) ++ post_of (mutate_stream ids (is_new st))) /\
  (forall pre post_of ids st,
      firstn (length (is_prev st) + length (concat (pre (is_prev st)))) (concat (inc_stream_calls pre post_of ids st)) =
      is_prev st ++ concat (pre (is_prev st))) /\
  (forall pre post_of ids st st', is_prev st' = is_prev st ->
      let n := (length (is_prev st) + length (concat (pre (is_prev st))))%nat in
      firstn n (concat (inc_stream_calls pre post_of ids st')) = firstn n (concat (inc_stream_calls pre post_of ids st))).
Proof.
  split; [exact inc_stream_residue_after_n|]. split; [reflexivity|].
  split; [exact inc_stream_body | exact inc_resave_stream_same_body].
Qed.

(* non-vacuity: previous bytes with junk before the header and no final newline; failure inside the previous bytes,
   inside the objects (both: untouched), inside the cross-reference stream object (mutated); a healthy table save *)
Theorem C19_example_incremental_residue :
  save_inc_with qwrite_all XStream [1; 2; 4] ex_ipre [bs "xrefstream"] ex_istate [Accept 9; Fail EStorageFull]
  = (WErr EStorageFull, bs "junk%PDF-", ex_istate) /\
  save_inc_with qwrite_all XStream [1; 2; 4] ex_ipre [bs "xrefstream"] ex_istate [Accept 30; Fail EBrokenPipe]
  = (WErr EBrokenPipe, ex_iprev ++ [x0a] ++ bs "%PDF-1.", ex_istate) /\
  save_inc_with write_all XStream [1; 2; 4] ex_ipre [bs "xrefstream"] ex_istate [Accept 100; Accept 1; Accept 8; Accept 7; Accept 3; Zero]
  = (WErr EWriteZero, ex_iprev ++ [x0a] ++ bs "%PDF-1.5objectsxre", inc_mutate XStream [1; 2; 4] ex_istate) /\
  save_inc_with write_all XTable [1; 2; 4] ex_ipre [bs "trailer"] ex_istate []
  = (WOk, ex_iprev ++ [x0a] ++ bs "%PDF-1.5objectstrailer", inc_mutate XTable [] ex_istate).
Proof. exact ex_inc_residue. Qed.

(* both readings of a sink are sound, so (6) applies to each *)
Theorem C19_sinks_sound : wa_sound write_all /\ wa_sound qwrite_all.
Proof. split; [exact write_all_sound | exact qwrite_all_sound]. Qed.

(* table format: the mutation is idempotent and only sets Size, so a re-save issues exactly the
   calls of a pristine save (same bytes) *)
Theorem C19_resave_table :
  (forall st, mutate_table (mutate_table st) = mutate_table st) /\
  (forall st, s_max_id (mutate_table st) = s_max_id st /\
              forall k, k <> K_Size -> dict_get (s_trailer (mutate_table st)) k = dict_get (s_trailer st) k) /\
  (forall pre_of post_of top st st', st' = raise_max_id top st \/ st' = mutate_table (raise_max_id top st) ->
      table_calls pre_of post_of top st' = table_calls pre_of post_of top st).
Proof.
  split; [exact mutate_table_idem|]. split; [|exact resave_table_same_calls].
  intro st. destruct (mutate_table_frame st) as [H1 [_ H3]]. auto.
Qed.

(* stream format: each save that reaches the cross-reference stream consumes one object number and
   rewrites the bookkeeping keys; the bytes before the stream object (all objects, at the same
   offsets) are those of a pristine save.  PARTIAL: that the re-saved file LOADS to the same
   content needs the loader (C01/C03); on the implementation it is checked at every failure
   offset by the harness. *)
Theorem C19_resave_stream_partial :
  (forall ids st n, s_max_id (iter n (mutate_stream ids) st) = s_max_id st + N.of_nat n) /\
  (forall ids top st n, iter n (fun x => mutate_stream ids (raise_max_id top x)) (raise_max_id top st) =
                        iter n (mutate_stream ids) (raise_max_id top st)) /\
  (forall ids st k, dict_has (s_trailer st) K_Filter = false -> ~ bookkeeping k ->
      dict_get (s_trailer (mutate_stream ids st)) k = dict_get (s_trailer st) k) /\
  (forall pre post_of ids st st',
      firstn (length (concat pre)) (concat (stream_calls pre post_of ids st')) =
      firstn (length (concat pre)) (concat (stream_calls pre post_of ids st))).
Proof.
  split; [intros; apply stream_residue_after_n|]. split; [exact stream_residue_after_n_raised|].
  split; [exact mutate_stream_frame | exact resave_stream_same_body].
Qed.

(* (7) instantiated at the save model of Model/Save.v (the bytes of property C01) *)
Theorem C19_save_chunking_irrelevant :
  forall xt d calls, concat calls = Save.so_bytes (Save.save xt d) ->
  forall s, no_hard s ->
    run write_all calls s = (WOk, Save.so_bytes (Save.save xt d), N.of_nat (length (Save.so_bytes (Save.save xt d)))).
Proof. exact save_chunking_irrelevant. Qed.

Theorem C19_save_failure_at_position :
  forall xt d calls, concat calls = Save.so_bytes (Save.save xt d) ->
  forall sf h rest e, no_hard sf -> hard_kind h = Some e ->
    rd (run qwrite_all calls (sf ++ h :: rest)) =
    if (quota sf <? N.of_nat (length (Save.so_bytes (Save.save xt d))))
    then (WErr e, firstn (N.to_nat (quota sf)) (Save.so_bytes (Save.save xt d)))
    else (WOk, Save.so_bytes (Save.save xt d)).
Proof. exact save_failure_at_position. Qed.

Theorem C19_save_state_agrees :
  forall d, Save.so_status (Save.save Save.XTable d) = Save.SaveOk ->
    state_of (Save.so_doc (Save.save Save.XTable d)) =
    mutate_table (raise_max_id (Some (Save.last_object_number (d_objects d))) (state_of d)).
Proof. exact save_table_state. Qed.

(* (8) Document::save(path) / IncrementalDocument::save(path) = File::create(path)?, save_internal into a
   BufWriter of capacity [cap] (std: 8192), `into_inner()?` (Model/SinkBuf.v).  [save_path wa cap calls create s]
   = (result, content of the file afterwards, unused rest of the file's script); create = None: the file
   was created and answers by script s.
   For EVERY capacity, EVERY list of write_all buffers and EVERY script: with [asked] the answers the
   file gave during the whole of `save` -- the flushes inside save_internal, the write-through of large
   buffers, the final flush of into_inner and Drop's unchecked flush on the error paths --
     * the file holds a prefix of the complete output;
     * Ok is returned if and only if none of the answers was a failure (hard error or Ok(0)): a failure
       of ANY underlying write, the final flush included, yields Err;
     * Ok only if every byte reached the file;
     * the error returned is that of the first failure. *)
Theorem C19_save_path_ok_iff_complete :
  forall cap calls s r file s',
    save_path write_all cap calls None s = (r, file, s') ->
    exists asked rest, s = asked ++ s' /\ concat calls = file ++ rest /\
      (r = WOk <-> no_hard asked) /\
      (r = WOk -> rest = []) /\
      (forall e, r = WErr e -> exists sf h tail, asked = sf ++ h :: tail /\ no_hard sf /\ hard_kind h = Some e).
Proof. exact save_path_ok_iff_complete. Qed.

(* the byte half holds for every reading of the device that is sound per call (both, by C19_sinks_sound),
   in particular for the positional one the harness' real files follow *)
Theorem C19_save_path_never_ok_with_missing_bytes :
  forall wa, wa_sound wa -> forall cap calls s r file s',
    save_path wa cap calls None s = (r, file, s') ->
    exists rest, concat calls = file ++ rest /\ (r = WOk -> rest = []).
Proof. exact save_path_sound. Qed.

Theorem C19_save_path_failure_is_error :
  forall cap calls sf h tail e, no_hard sf -> hard_kind h = Some e ->
    let '(r, file, _) := save_path write_all cap calls None (sf ++ h :: tail) in
    (r = WOk /\ file = concat calls) \/
    (r = WErr e /\ file = firstn (length file) (concat calls)).
Proof. exact save_path_failure_is_error. Qed.

(* a device whose first answer already is a failure (/dev/full): a non-empty output is never saved
   with result Ok, whether it fits into the buffer (the failure is then seen by into_inner's flush
   only) or not *)
Theorem C19_save_path_full_device :
  forall cap calls h tail e, hard_kind h = Some e -> concat calls <> [] ->
    fst (fst (save_path write_all cap calls None (h :: tail))) = WErr e.
Proof. exact save_path_full_device. Qed.

(* File::create(path)? : the error is returned, nothing is written, the device is not touched *)
Theorem C19_save_path_create_fails :
  forall wa cap calls e s, save_path wa cap calls (Some e) s = (WErr e, [], s).
Proof. exact save_path_create_fails. Qed.

(* IncrementalDocument::save(path): the previous bytes are the first write_all into the BufWriter *)
Theorem C19_save_path_incremental :
  forall cap prev calls s r file s',
    save_path_inc write_all cap prev calls None s = (r, file, s') ->
    exists asked rest, s = asked ++ s' /\ prev ++ concat calls = file ++ rest /\
      (r = WOk <-> no_hard asked) /\ (r = WOk -> rest = []).
Proof.
  intros cap prev calls s r file s' H. unfold save_path_inc in H.
  destruct (save_path_ok_iff_complete _ _ _ _ _ _ H) as [asked [rest [H1 [H2 [H3 [H4 _]]]]]].
  exists asked, rest. auto.
Qed.

(* what save(path) leaves in the document: untouched (and then the result is an error and the file
   holds fewer bytes than are written before the mutation point) or exactly the mutation of a
   successful save -- so (6) C19_resave_table / C19_resave_stream_partial apply.  For every capacity and
   every cut of the output into calls: WHEN the buffered bytes reach the file is not observable
   through this statement, which is why the correspondence compares the document state only for
   runs where the file holds at least |pre| bytes (or the save succeeded, or the file was not created). *)
Theorem C19_save_path_residue :
  forall wa, wa_sound wa -> forall cap mode ids top pre post st s r file st',
    save_path_with wa cap mode ids top pre post st None s = (r, file, st') ->
    (st' = raise_max_id top st /\ r <> WOk /\ (length file < length (concat pre))%nat) \/
    st' = mutate mode ids (raise_max_id top st).
Proof. exact save_path_with_residue. Qed.

(* non-vacuity, and separation: the same device, the same output -- `into_inner()?` reports the
   failed final flush, a BufWriter that is merely dropped returns Ok for an empty file *)
Theorem C19_example_save_path :
  save_path write_all 8 ex_path_calls None [Accept 3; Interrupted; Accept 100; Accept 2] = (WOk, concat ex_path_calls, []) /\
  save_path write_all DEFAULT_BUF_SIZE ex_path_calls None [Fail EStorageFull; Fail EStorageFull; Fail EStorageFull]
    = (WErr EStorageFull, [], [Fail EStorageFull]) /\
  save_path qwrite_all 8 ex_path_calls None [Accept 12; Fail EStorageFull; Fail EStorageFull; Fail EStorageFull]
    = (WErr EStorageFull, bs "%PDF-1.5" ++ [x0a] ++ bs "1 0", [Fail EStorageFull]).
Proof. split; [exact ex_path_ok | split; [exact ex_path_final_flush_fails | exact ex_path_positional]]. Qed.

Theorem C19_example_dropped_bufwriter_refuted :
  save_path_dropped write_all DEFAULT_BUF_SIZE ex_path_calls [Fail EStorageFull; Fail EStorageFull; Fail EStorageFull]
    = (WOk, [], [Fail EStorageFull; Fail EStorageFull]) /\ concat ex_path_calls <> [].
Proof. exact dropped_bufwriter_breaks. Qed.

(* non-vacuity *)
Theorem C19_example_soft :
  no_hard ex_soft /\
  run write_all ex_calls ex_soft = (WOk, bs "%PDF-1.5" ++ [x0a] ++ bs "1 0 objnull endobj", 27).
Proof. split; [exact ex_soft_no_hard | exact ex_soft_run]. Qed.

Theorem C19_example_failure :
  run write_all ex_calls [Accept 3; Interrupted; Fail EBrokenPipe] = (WErr EBrokenPipe, bs "%PD", 8) /\
  rd (run qwrite_all ex_calls [Accept 12; Interrupted; Fail EStorageFull]) =
  (WErr EStorageFull, bs "%PDF-1.5" ++ [x0a] ++ bs "1 0").
Proof. split; [exact ex_fail_run | exact (proj1 ex_positional)]. Qed.

Theorem C19_example_counter : counter_before ex_calls ex_soft 4 = Some 16.
Proof. exact ex_counter. Qed.

Theorem C19_example_residue :
  save_with qwrite_all XStream [1; 2; 4] (Some 4) [bs "%PDF-1.5"; bs "objects"] [bs "xrefstream"] ex_state [Accept 9; Fail EStorageFull]
  = (WErr EStorageFull, bs "%PDF-1.5o", ex_state) /\
  save_with write_all XStream [1; 2; 4] (Some 4) [bs "%PDF-1.5"; bs "objects"] [bs "xrefstream"] ex_state [Accept 8; Accept 7; Accept 3; Zero]
  = (WErr EWriteZero, bs "%PDF-1.5objectsxre", mutate_stream [1; 2; 4] ex_state) /\
  save_with write_all XTable [1; 2; 9] (Some 9) [bs "%PDF-1.5"; bs "objects"] [bs "trailer"] ex_state [Fail EBrokenPipe]
  = (WErr EBrokenPipe, [], {| s_max_id := 9; s_trailer := s_trailer ex_state |}).
Proof. exact ex_residue. Qed.

Print Assumptions C19_chunking_irrelevant.
Print Assumptions C19_rechunking_irrelevant.
Print Assumptions C19_counter_exact.
Print Assumptions C19_offsets_chunking_independent.
Print Assumptions C19_ok_iff_complete.
Print Assumptions C19_never_ok_with_missing_bytes.
Print Assumptions C19_failure_is_error_and_prefix.
Print Assumptions C19_failure_at_position.
Print Assumptions C19_positional_rechunking.
Print Assumptions C19_positional_is_single_call.
Print Assumptions C19_incremental_is_plain.
Print Assumptions C19_example_header_offset.
Print Assumptions C19_failed_save_residue.
Print Assumptions C19_raise_idempotent.
Print Assumptions C19_incremental_failed_save_residue.
Print Assumptions C19_incremental_resave.
Print Assumptions C19_incremental_resave_stream_partial.
Print Assumptions C19_example_incremental_residue.
Print Assumptions C19_sinks_sound.
Print Assumptions C19_resave_table.
Print Assumptions C19_resave_stream_partial.
Print Assumptions C19_save_chunking_irrelevant.
Print Assumptions C19_save_failure_at_position.
Print Assumptions C19_save_state_agrees.
Print Assumptions C19_save_path_ok_iff_complete.
Print Assumptions C19_save_path_never_ok_with_missing_bytes.
Print Assumptions C19_save_path_failure_is_error.
Print Assumptions C19_save_path_full_device.
Print Assumptions C19_save_path_create_fails.
Print Assumptions C19_save_path_incremental.
Print Assumptions C19_save_path_residue.
Print Assumptions C19_example_save_path.
Print Assumptions C19_example_dropped_bufwriter_refuted.
Print Assumptions C19_example_soft.
Print Assumptions C19_example_failure.
Print Assumptions C19_example_counter.
Print Assumptions C19_example_residue.

(* ------------------------------------------------------------------------------------------
   (9) "... and a later save of the same document to a healthy sink produces a valid file that loads to the same
   content": composition of the residue theorems (6) / (8) with C01_full (proofs in Proofs/ComposeSink.v).
   [with_state d st'] is the Document afterwards (same version, mark and objects; max_id and trailer = the state the
   failed save left); [savable], [known_deep], [small_file], [same_doc], [reloaded] are C01's (Spec/SaveSpec.v), [load] /
   [Save.save] the models C01_full is about.  [mode] is the format of the failed save, [xt] that of the re-save (either);
   [ids] any list of recorded object numbers.  [residue_fits]: when the failed save was in the stream format it may
   have consumed an object number, so one more must be free (max(max_id, largest number) + 3 < 2^32).
   The section imports are local to it.
   ------------------------------------------------------------------------------------------ *)
From LV Require Model.Xref Model.Loader Spec.SaveSpec Proofs.ComposeReload Proofs.ComposeSink.
Section ResaveLoads.
  Import Model.Xref Model.Loader Spec.SaveSpec Proofs.ComposeReload Proofs.ComposeSink.

  (* save_to with a sink that fails anywhere (or not at all), then save_to with a healthy sink: the file loads, and
     what it loads to is the ORIGINAL document in the sense of property C01 (same version, same identifiers, objects
     equal up to integral reals, trailer equal apart from cross-reference bookkeeping) *)
  Theorem C19_resave_after_failure_loads :
    forall wa, wa_sound wa ->
    forall mode ids pre post d s r delivered st' xt,
      save_with wa mode ids (top_of d) pre post (state_of d) s = (r, delivered, st') ->
      savable d -> known_deep d = false -> residue_fits mode d ->
      let d1 := with_state d st' in
      small_file xt d1 ->
      savable d1 /\ known_deep d1 = false /\
      load (Save.so_bytes (Save.save xt d1)) = LOk (reloaded xt d1) (xtype_of xt) /\
      same_doc d (reloaded xt d1).
  Proof. exact resave_after_failure_loads. Qed.

  (* the same after Document::save(path) through the BufWriter *)
  Theorem C19_resave_after_failed_save_path_loads :
    forall wa, wa_sound wa ->
    forall cap mode ids pre post d s r file st' xt,
      save_path_with wa cap mode ids (top_of d) pre post (state_of d) None s = (r, file, st') ->
      savable d -> known_deep d = false -> residue_fits mode d ->
      let d1 := with_state d st' in
      small_file xt d1 ->
      savable d1 /\ known_deep d1 = false /\
      load (Save.so_bytes (Save.save xt d1)) = LOk (reloaded xt d1) (xtype_of xt) /\
      same_doc d (reloaded xt d1).
  Proof. exact resave_after_failed_save_path_loads. Qed.

  (* non-vacuity: a stream-format save failing inside the cross-reference stream object (Ok(0) after 18 bytes) leaves
     max_id + 1 = 5 and Type = XRef in the trailer; the hypotheses hold for a re-save in either format *)
  Theorem C19_example_resave_loads :
    save_with write_all XStream ex_ids (top_of cyc_doc) [bs "%PDF-1.5"; bs "objects"] [bs "xrefstream"]
      (state_of cyc_doc) [Accept 8; Accept 7; Accept 3; Zero]
      = (WErr EWriteZero, bs "%PDF-1.5objectsxre", ex_left) /\
    savable cyc_doc /\ known_deep cyc_doc = false /\ residue_fits XStream cyc_doc /\
    d_max_id (with_state cyc_doc ex_left) = 5 /\
    dict_get (d_trailer (with_state cyc_doc ex_left)) K_Type = Some (OName (bs "XRef")) /\
    small_file Save.XTable (with_state cyc_doc ex_left) /\ small_file Save.XStream (with_state cyc_doc ex_left) /\
    same_doc cyc_doc (reloaded Save.XStream (with_state cyc_doc ex_left)).
  Proof. exact ex_resave. Qed.
End ResaveLoads.

Print Assumptions C19_resave_after_failure_loads.
Print Assumptions C19_resave_after_failed_save_path_loads.
Print Assumptions C19_example_resave_loads.

(* ------------------------------------------------------------------------------------------
   (10) the same for IncrementalDocument::save_to: composition of (6-inc) with C07's byte-level reload
   (Proofs/C07BytesHistory.v; proofs in Proofs/ComposeSinkInc.v).
   [lopdf_history F xs fmt objs]: F is a file written by Document::save followed by any number of
   IncrementalDocument::save, xs its startxref value, objs the objects it loads to (C07_history_loads).  The
   IncrementalDocument [s] (Model/Incremental.v) was made from those bytes and from what load returned for them
   (bytes_documents = F, prev_documents = pd with xref_start xs and format fmt) and its new_document [nd] is in the
   domain of one update step of C07 ([upd_dom]: numbers sorted and <= max_id, objects / trailer well formed, not in the
   known class deep-nesting, valid binary mark, Prev = xs, no XRefStm, no Encrypt; max_id not below the previous
   document's; every new identifier is a previous identifier or carries a new number) -- the hypotheses of
   C07's hist_update, unchanged.  The format of the save is the previous document's ([mode_of fmt]).
   [with_inc_state s st']: the IncrementalDocument afterwards (previous bytes, previous document, version / mark /
   objects of new_document as before; max_id and trailer of new_document = the state the save left).
   [inc_fits]: stream format only, one spare object number (max_id + 3 < 2^32; C07's rev_dom keeps max_id + 2 < 2^32 and a
   save that reached the cross-reference stream has consumed one).
   Conclusion, for every sink script, every cut into calls, ANY [ids]: the re-save succeeds; its file is again a step of
   the history (so it loads and can be updated again); the loaded objects are [step_objs fmt objs nd' ..] = the overlay
   of the new objects over the previous ones, in the stream format followed by the new cross-reference stream object --
   IDENTICAL to what a pristine incremental save loads to in the table format, and identical apart from that last object
   (its number is max_id' + 1, max_id <= max_id' <= max_id + 1) in the stream format: the same [user_objects].
   ------------------------------------------------------------------------------------------ *)
From LV Require Model.Incremental Proofs.SaveProofs Proofs.StrictIncrementalProofs Proofs.C07BytesTable Proofs.C07BytesStream
  Proofs.C07BytesHistory Proofs.C07BytesExample Proofs.ComposeSinkInc.
Section IncResaveLoads.
  Import Model.Xref Model.Loader Spec.SaveSpec Proofs.ComposeSink Model.Incremental Proofs.StrictIncrementalProofs
    Proofs.C07BytesTable Proofs.C07BytesStream Proofs.C07BytesHistory Proofs.ComposeSinkInc.

  Theorem C19_incremental_resave_after_failure_loads :
    forall F xs fmt objs pd s,
      let nd := xd_doc (i_new s) in
      lopdf_history F xs fmt objs ->
      load F = LOk pd (xtype_of fmt) ->
      i_bytes s = F -> i_prev s = {| xd_doc := pd; xd_start := xs; xd_type := fmt |} ->
      upd_dom xs nd ->
      d_max_id pd <= d_max_id nd ->
      Forall (fun io : oid * obj => In (fst io) (map fst (d_objects pd)) \/ ~ In (fst (fst io)) (SaveProofs.obj_numbers (d_objects pd)))
             (d_objects nd) ->
    forall wa, wa_sound wa ->
    forall ids pre post sc r delivered ist',
      save_inc_with wa (mode_of fmt) ids pre post (inc_state_of s) sc = (r, delivered, ist') ->
      inc_fits (mode_of fmt) nd ->
      let s' := with_inc_state s (is_new ist') in
      let nd' := xd_doc (i_new s') in
      Save.blen (io_bytes (inc_save s')) < Save.u32_mod ->
      is_prev ist' = i_bytes s' /\ i_prev s' = i_prev s /\
      io_status (inc_save s') = IncOk /\
      lopdf_history (io_bytes (inc_save s')) (io_start (inc_save s')) fmt
                    (step_objs fmt objs nd' (Save.blen (F ++ inc_lines nd'))) /\
      (exists v m t mx,
         load (io_bytes (inc_save s')) =
         LOk {| d_version := v; d_binary_mark := m; d_trailer := t;
                d_objects := step_objs fmt objs nd' (Save.blen (F ++ inc_lines nd')); d_max_id := mx |} (xtype_of fmt)) /\
      user_objects (step_objs fmt objs nd' (Save.blen (F ++ inc_lines nd'))) =
      user_objects (step_objs fmt objs nd (Save.blen (F ++ inc_lines nd))) /\
      (fmt = Save.XTable ->
         step_objs fmt objs nd' (Save.blen (F ++ inc_lines nd')) = step_objs fmt objs nd (Save.blen (F ++ inc_lines nd))) /\
      (fmt = Save.XStream ->
         step_objs fmt objs nd' (Save.blen (F ++ inc_lines nd')) =
         overlay objs (norm_objects (d_objects nd)) ++ [xso nd' (Save.blen (F ++ inc_lines nd'))] /\
         fst (fst (xso nd' (Save.blen (F ++ inc_lines nd')))) = d_max_id nd' + 1) /\
      d_max_id nd <= d_max_id nd' /\ d_max_id nd' <= d_max_id nd + 1.
  Proof.
    intros F xs fmt objs pd s nd H1 H2 H3 H4 H5 H6 H7 wa Hwa.
    exact (inc_resave_after_failure_loads F xs fmt objs pd s H1 H2 H3 H4 H5 H6 H7 wa Hwa).
  Qed.

  (* non-vacuity, computed (Proofs/C07BytesExample.v's stream-format update [ex_ss]: objects 1 2, cross-reference stream 3;
     object 1 replaced, object 4 added): an incremental save_to that meets Ok(0) inside the cross-reference stream object
     leaves max_id 4 -> 5 and Size 6 in new_document (Prev kept); every hypothesis above holds; the re-saved file loads to
     objects 1 2 3 4 and the cross-reference stream object under number 6 (pristine save: 5), same user objects *)
  Theorem C19_example_incremental_resave_loads :
    let s := C07BytesExample.ex_ss in
    let F := C07BytesExample.ex_Fs in
    let objs := d_objects (reloaded Save.XStream C07BytesExample.ex_d) in
    lopdf_history F (Save.blen (SaveProofs.body_of C07BytesExample.ex_d)) Save.XStream objs /\
    load F = LOk (reloaded Save.XStream C07BytesExample.ex_d) XTStream /\
    upd_dom (Save.blen (SaveProofs.body_of C07BytesExample.ex_d)) (xd_doc (i_new s)) /\
    inc_fits XStream (xd_doc (i_new s)) /\
    save_inc_with write_all XStream ex_inc_ids [[x0a]; bs "%PDF-1.5"; bs "objects"] [bs "xrefstream"]
      (inc_state_of s) [Accept 1000; Accept 1; Accept 8; Accept 7; Accept 3; Zero]
      = (WErr EWriteZero, F ++ [x0a] ++ bs "%PDF-1.5objectsxre", {| is_prev := F; is_new := ex_inc_left |}) /\
    d_max_id (xd_doc (i_new s)) = 4 /\ d_max_id (xd_doc (i_new ex_inc_s')) = 5 /\
    dict_get (d_trailer (xd_doc (i_new ex_inc_s'))) Save.K_Prev = dict_get (d_trailer (xd_doc (i_new s))) Save.K_Prev /\
    dict_get (d_trailer (xd_doc (i_new ex_inc_s'))) K_Size = Some (OInt 6) /\
    Save.blen (io_bytes (inc_save ex_inc_s')) < Save.u32_mod /\
    io_status (inc_save ex_inc_s') = IncOk /\
    (exists d', load (io_bytes (inc_save ex_inc_s')) = LOk d' XTStream /\
                SaveProofs.obj_numbers (d_objects d') = [1; 2; 3; 4; 6] /\
                lookup (d_objects d') (1, 0) = Some C07BytesExample.ex_cat2 /\
                lookup (d_objects d') (4, 0) = Some (OStr (bs "new") false) /\
                user_objects (d_objects d') =
                user_objects (step_objs Save.XStream objs (xd_doc (i_new s)) (Save.blen (F ++ inc_lines (xd_doc (i_new s)))))) /\
    SaveProofs.obj_numbers (step_objs Save.XStream objs (xd_doc (i_new s)) (Save.blen (F ++ inc_lines (xd_doc (i_new s))))) = [1; 2; 3; 4; 5].
  Proof. exact ex_inc_resave. Qed.
End IncResaveLoads.

Print Assumptions C19_incremental_resave_after_failure_loads.
Print Assumptions C19_example_incremental_resave_loads.
