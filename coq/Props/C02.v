(* Props/C02.v -- property C02: well-formed PDFs from any producer load to their content.
   Statements only; proofs live in Proofs/XrefProofs.v, Proofs/XrefTableProofs.v, Proofs/ObjStmProofs.v.
   Claim ladder (DESIGN.md 9): rung 1 = the three structural decoders invert the specification encoders.
   rung 2 = every spelling of a token that the reference writer's style denotes parses to the denoted value
   (proved for fillers, names, hexadecimal strings, integers; literal strings and reals: see notes/C02.md);
   rung 3 = whole files: C02_full is a THEOREM for every single-section file of the reference writer's style space (both
   cross-reference formats, object streams, Length by reference, all filter chains and predictors), composed of
   C02_loads_table_reflen_partial and C02_loads_objstm_partial; files of several sections: the format-independent half
   (C02_prev_chain, C02_merge_newest_wins, C02_load_chain_frame) and the writer-specific half for every file without object
   streams: C02_loads_multi_mixed (every part a table or a cross-reference stream with any filter chain, mixed Prev chains,
   objects listed again, superseded definitions, Length references across parts; objects and trailer as in C02_full);
   the statement for the whole style space (object streams across parts) stays the Definition C02_loads_multi_partial. *)
From LV Require Import Base.Bytes Base.Sx Model.Obj Model.Writer Model.Parser Model.Xref Spec.XrefSpec
  Model.ObjStm Proofs.LexProofs Proofs.XrefProofs Proofs.XrefTableProofs Proofs.ObjStmProofs
  Spec.RefWriter Proofs.SpellingProofs Proofs.LitStringProofs Proofs.SpellingProofsLit
  Model.Loader Proofs.RealProofs Proofs.ObjectRtProofs.
From LV Require Model.A85 Model.AsciiHex Spec.AsciiHexSpec Proofs.AsciiHexProofs.
From LV Require Import Proofs.SpellingNumProofs Proofs.SpellingObjProofs Proofs.SpellingFileProofs Proofs.SpellingProofsLitRaw.
From LV Require Model.Utf Proofs.LoadsFrameProofs Proofs.LoadsTableProofs Proofs.LoadsStreamProofs Proofs.LoadsFilterProofs.
From LV Require Model.LoaderExt Model.StreamFilt Spec.StreamCodecSpec Model.Png Proofs.ObjStmSpellProofs Proofs.LengthRefProofs Gen.SaveFmt Proofs.LoadsRefLenProofs Proofs.ObjStmFilterProofs.
From LV Require Proofs.LoadsLoopProofs Proofs.LoadsObjStmProofs Proofs.LoadsObjStmFile Proofs.LoadsObjStmWhole Proofs.LoadsFullProofs Proofs.LoaderExtProofs.
From LV Require Proofs.LoadsMultiProofs Proofs.LoadsMultiFull Proofs.LoadsMultiExample Proofs.LoadsMultiXSec Proofs.LoadsMultiMixed Proofs.LoadsMultiMixedFull.
From LV Require Proofs.LoadsMultiObjStm Proofs.LoadsMultiAll.
From LV Require Proofs.LoadsMultiOSAt Proofs.LoadsMultiOSPasses Proofs.LoadsMultiOSInv Proofs.LoadsMultiOSAll Proofs.LoadsMultiOSFull.
Local Open Scope N_scope.

(* (1) Cross-reference streams.  For ALL field widths (0 = field absent, any positive width, not all three
   absent), every Index partition into subsections, and entries whose values the widths can hold and lopdf's
   entry types can store (offsets and container numbers below 2^32, generations and indices below 2^16, object
   numbers below 2^32): decode_xref_stream applied to the specification encoding returns exactly the table the
   sections denote, the Size, and the dictionary without Length, W, Index. *)
Theorem C02_xref_stream_any_W_Index :
  forall (w0 w1 w2 : nat) (secs : xsections) (d : dict) (size : Z),
    (1 <= w0 + w1 + w2)%nat ->
    Forall (fun se => Forall (entry_ok w0 w1 w2) (snd se) /\ Forall entry_in_range (snd se) /\
                      fst se + N.of_nat (length (snd se)) <= 4294967296) secs ->
    dict_get d K_Size = Some (OInt size) ->
    dict_get d K_W = Some (OArr [OInt (Z.of_nat w0); OInt (Z.of_nat w1); OInt (Z.of_nat w2)]) ->
    dict_get d K_Index = Some (index_array secs) ->
    decode_xref_plain d (enc_sections w0 w1 w2 secs) =
    XOk ({| x_type := XTStream; x_entries := spec_map (numbered secs); x_size := i64_as_u32 size |},
         dict_swap_remove (dict_swap_remove (dict_swap_remove d K_Length) K_W) K_Index).
Proof. exact xref_stream_any_W_Index. Qed.

(* (1') the same with Index left out: one subsection starting at 0 with Size entries *)
Theorem C02_xref_stream_default_Index :
  forall (w0 w1 w2 : nat) (es : list sentry) (d : dict),
    (1 <= w0 + w1 + w2)%nat ->
    Forall (entry_ok w0 w1 w2) es /\ Forall entry_in_range es /\ 0 + N.of_nat (length es) <= 4294967296 ->
    dict_get d K_Size = Some (OInt (Z.of_nat (length es))) ->
    dict_get d K_W = Some (OArr [OInt (Z.of_nat w0); OInt (Z.of_nat w1); OInt (Z.of_nat w2)]) ->
    dict_get d K_Index = None ->
    decode_xref_plain d (enc_sections w0 w1 w2 [(0, es)]) =
    XOk ({| x_type := XTStream; x_entries := spec_map (numbered [(0, es)]);
            x_size := i64_as_u32 (Z.of_nat (length es)) |},
         dict_swap_remove (dict_swap_remove (dict_swap_remove d K_Length) K_W) K_Index).
Proof. exact xref_stream_default_Index. Qed.

(* the meaning of [spec_map]: with pairwise distinct object numbers (a single-revision file) the table
   answers, for every number the sections mention, exactly what they say about it (free = absent) and
   nothing for any other number *)
Theorem C02_table_lookup :
  forall l n e, NoDup (map fst l) -> In (n, e) l -> xget (spec_map l) n = entry_meaning e.
Proof. exact xget_spec_map. Qed.

Theorem C02_table_lookup_none :
  forall l n, ~ In n (map fst l) -> xget (spec_map l) n = None.
Proof. exact xget_spec_map_none. Qed.

(* (2) Cross-reference tables.  For any sectioning (at least one subsection, each with at least one entry),
   any of the three 2-byte entry end-of-lines per entry, any end-of-line after "xref" and after each
   subsection header, with or without a space before it, and entries a table can express (offset a u32,
   generation of an entry in use below 2^16, numbers below 2^32): the parser returns exactly the table the
   sections denote and stops in front of what follows (which must not start with a digit -- it is "trailer"). *)
Theorem C02_xref_table_any_sectioning :
  forall (kw_eol : eolk) (secs : list tsection) (rest : bytes),
    secs <> [] -> Forall tsec_ok secs ->
    starts_with is_dec_digit rest = false ->
    xref_table (table_text kw_eol secs ++ rest) =
    POk {| x_type := XTTable; x_entries := spec_map (numbered (tsections_plain secs)); x_size := 0 |} (space rest).
Proof. exact xref_table_any_sectioning. Qed.


(* (3) Object streams.  For any list of (object number, white-space before the pair, white-space between the
   two numbers, text of the object) packed as the standard says (N pairs "number offset" then the objects,
   offsets counted from First), with any one-byte index separators (NUL HT LF VT FF CR SP; at least one between
   numbers), any white-space after the index: if every object's text, followed by the texts after it, parses
   to the object it denotes and the parser stops at or before the next object's text ([items_rt]: the object round
   trip -- c14's object_rt supplies it for lopdf's spelling, rung 2 for the others; an object that does not reach
   into its successor is what the overlap limit of ObjectStream::new, /repo fix of C04-objstm-shared-offsets, needs:
   the members are then charged at most the length of their texts), then ObjectStream::new returns exactly these
   objects under generation 0.  N only has to be an integer (lopdf uses it for a warning). *)
Theorem C02_objstm_expand :
  forall (denote : ositem -> obj) (hdr_end : bytes) (items : list ositem) (d : dict) (n : Z),
    items <> [] -> Forall item_ok items -> items_rt denote items -> later_ws1 (tl items) ->
    forallb sep_byte hdr_end = true ->
    N.of_nat (length (flat_map oi_text items)) <= u32_max ->
    dict_get d K_First = Some (OInt (Z.of_N (fst (os_payload items hdr_end)))) ->
    dict_get d K_N = Some (OInt n) ->
    objstm_plain d (snd (os_payload items hdr_end)) =
    OsOk (fold_left (fun m it => insert m (oi_num it, 0) (denote it)) items []).
Proof. exact objstm_expand. Qed.


(* (3') THE COMPOSITION of (3) with rung 2: for the payloads the reference writer builds (os_build: any list of distinct
   generation-0 non-stream objects of the document, EVERY member in ANY spelling -- the style tree of C02_object_any_spelling --
   followed by at least one white-space byte, any index white-space incl. NUL), the object round trip that (3) takes as a
   hypothesis is PROVED (the token-sequence invariant of rung 2 with a tail that may be empty: an object followed by
   white-space and another object, or by the end of the stream, is read back as itself and the parser stops in front of
   the next object), so ObjectStream::new returns exactly the members, each as [denote] of its object.  [mem_ok] = rung 2's
   domain (spell_wf, nesting within the parser's limit). *)
Theorem C02_objstm_any_spelling :
  forall (objs : list (oid * obj)) (members : list N) (sts : list (ostyle * list N * list N * list N)) (he : list N)
         (items : list ositem) (d : dict) (n : Z),
    os_build objs members sts true = Some items -> members <> [] -> NoDup members ->
    Forall (fun m => m <= u32_max) members ->
    Forall (fun oy => ObjStmSpellProofs.mem_ok (fst oy) (snd oy)) (ObjStmSpellProofs.os_pairs objs members sts) ->
    N.of_nat (length (flat_map oi_text items)) <= u32_max ->
    dict_get d K_First = Some (OInt (Z.of_N (fst (os_payload items (at_least_ws he))))) ->
    dict_get d K_N = Some (OInt n) ->
    objstm_plain d (snd (os_payload items (at_least_ws he))) =
    OsOk (fold_left (fun m it => insert m (oi_num it, 0)
                       (ObjStmSpellProofs.val_of members
                          (map (fun oy => denote (fst oy) (snd oy)) (ObjStmSpellProofs.os_pairs objs members sts)) it)) items []).
Proof. exact ObjStmSpellProofs.objstm_any_spelling. Qed.

Definition ex_os_objs : list (oid * obj) :=
  [((7, 0), ODict [(bs "K", OArr [ORef 1 0; OStr (bs "a") false])]); ((4, 0), OInt 5); ((5, 0), OName (bs "N x"))].
Definition ex_os_sts : list (ostyle * list N * list N * list N) :=
  [(YInt true 2, [], [], [3]); (YDict [FComment (bs "c") ECR] [], [1; 5], [0], []); (YName [NPlain; NHex true false; NPlain], [2], [4], [5; 1])].

(* non-vacuity: three members, "+005", a dictionary with a comment inside, "/N#20x", index separators incl. NUL *)
Theorem C02_example_objstm_any_spelling :
  exists items,
    os_build ex_os_objs [4; 7; 5] ex_os_sts true = Some items /\ NoDup [4; 7; 5] /\
    Forall (fun oy => ObjStmSpellProofs.mem_ok (fst oy) (snd oy)) (ObjStmSpellProofs.os_pairs ex_os_objs [4; 7; 5] ex_os_sts) /\
    snd (os_payload items (at_least_ws [5])) =
      bs "4" ++ [x09] ++ bs "0 7 5" ++ [x0c] ++ bs "5" ++ [x00; x0a] ++ bs "26" ++ [x00] ++
      bs "+005 <<%c" ++ [x0d] ++ bs "/K[1 0 R(a)]>>" ++ [x0a; x00] ++ bs "/N#20x" ++ [x0d].
Proof.
  eexists. split; [vm_compute; reflexivity|]. split; [repeat (constructor; [cbn; intuition discriminate|]); constructor|].
  split; [|vm_compute; reflexivity].
  cbn. repeat constructor; cbn;
    repeat match goal with
           | |- _ /\ _ => split
           | |- NoDup _ => repeat (constructor; [cbn; intuition discriminate|]); constructor
           | |- True => exact I
           | |- _ = true => reflexivity
           | |- (_ <= _)%nat => vm_compute; lia
           | |- _ <= _ => unfold u32_max, u16_max; lia
           | |- lit_ok _ _ => split; reflexivity
           | |- ObjStmSpellProofs.mem_ok _ _ => unfold ObjStmSpellProofs.mem_ok; cbn
           end.
  all: intros [].
Qed.

(* (4) ASCIIHexDecode on structural streams (the repair of C02-asciihex, /repo 695e965).  Stream::decode_asciihex
   (Model/AsciiHex.v) returns the data for EVERY legal encoding of it (Spec/AsciiHexSpec.v, written from 7.4.2):
   two digits per byte, each digit in either case, white-space before any digit and before the EOD marker,
   anything after the marker; an odd number of digits is completed by 0; any other character is an error. *)
Theorem C02_asciihex_roundtrip :
  forall (upper : bool) (data rest : bytes),
    AsciiHex.decode (AsciiHexSpec.encode upper data ++ AsciiHexSpec.EOD ++ rest) = A85.Ok data.
Proof. exact AsciiHexProofs.ahx_roundtrip. Qed.

Theorem C02_asciihex_any_spelling :
  forall (data : bytes) (st : list AsciiHexSpec.dstyle) (tail_ws rest : bytes),
    Forall AsciiHexSpec.dstyle_ok st -> AsciiHexSpec.all_white tail_ws ->
    AsciiHex.decode (AsciiHexSpec.encode_styled data st ++ tail_ws ++ AsciiHexSpec.EOD ++ rest) = A85.Ok data.
Proof. exact AsciiHexProofs.ahx_roundtrip_styled. Qed.

Theorem C02_asciihex_odd_final_digit :
  forall (upper u : bool) (data : bytes) (d : N) (tail_ws rest : bytes),
    d < 16 -> AsciiHexSpec.all_white tail_ws ->
    AsciiHex.decode (AsciiHexSpec.encode upper data ++ AsciiHexSpec.digit_char u d :: tail_ws ++ AsciiHexSpec.EOD ++ rest)
    = A85.Ok (data ++ [byte_of_N (d * 16)]).
Proof. exact AsciiHexProofs.ahx_odd_final_digit. Qed.

Theorem C02_asciihex_illegal_character :
  forall (upper : bool) (data : bytes) (c : byte) (rest : bytes),
    AsciiHex.hex_digit c = None -> c <> x3e -> ~ In c AsciiHexSpec.white ->
    AsciiHex.decode (AsciiHexSpec.encode upper data ++ c :: rest) = A85.Err A85.EIoData.
Proof. exact AsciiHexProofs.ahx_illegal_character. Qed.

(* the encoder the reference writer applies to object streams and cross-reference streams *)
Theorem C02_asciihex_refwriter :
  forall (data : bytes) (upper : bool) (ws all : list N) (rest : bytes),
    AsciiHex.decode (ahx_encode upper ws all data ++ rest) = A85.Ok data.
Proof. exact AsciiHexProofs.ahx_refwriter_roundtrip. Qed.

Theorem C02_example_asciihex :
  (AsciiHexSpec.encode false [x4a; xb0; xff] ++ AsciiHexSpec.EOD = bs "4ab0ff>") /\
  (AsciiHex.decode (bs "4A b" ++ [x00; x0a] ++ bs "0Ff >junk") = A85.Ok [x4a; xb0; xff]) /\
  (AsciiHex.decode (bs "4ab>") = A85.Ok [x4a; xb0]) /\
  (AsciiHex.decode (bs "4ag0>") = A85.Err A85.EIoData).
Proof. repeat split; vm_compute; reflexivity. Qed.


(* ---------------------------------------------------------------------------------------------
   Rung 2: any spelling.  The left-hand sides are the REFERENCE WRITER's spellings (Spec/RefWriter.v), the
   functions applied to them are the parser model's (Model/Parser.v).
   --------------------------------------------------------------------------------------------- *)

(* any filler (the six white-space characters, comments with any text and any end-of-line marker, in any
   number and order) in front of anything is skipped by `space` *)
Theorem C02_filler_any :
  forall (f : filler) rest, space (fill_bytes f ++ rest) = space rest.
Proof. exact filler_skipped. Qed.

(* a name with any subset of its bytes written #xx (hex digits in either case) and the others raw *)
Theorem C02_name_any_spelling :
  forall n (st : nstyle) rest, name_follow rest = true -> name (w_name n st ++ rest) = POk n rest.
Proof. exact name_any_spelling. Qed.

(* a hexadecimal string with white-space before any digit and before '>', either case per digit, and the
   final digit left out when it is 0 *)
Theorem C02_hex_string_any_spelling :
  forall s (st : list hpos) (tw : list N) (dl : bool) rest,
    hexadecimal_string (w_hexstr s st tw dl ++ rest) = POk s rest.
Proof. exact hex_string_any_spelling. Qed.

(* an integer with an optional plus sign and any number of leading zeros *)
Theorem C02_integer_any_spelling :
  forall z (plus : bool) (lz : nat) rest,
    in_i64 z = true -> starts_with is_dec_digit rest = false ->
    integer (w_int z plus lz ++ rest) = POk z rest.
Proof. exact integer_any_spelling. Qed.


(* a literal string in which every byte is written raw (LF included), as a two-character escape, as an octal
   escape of one, two or three digits, or behind an ignored backslash, with backslash-end-of-line
   continuations (any of the three markers) before any byte and before the closing parenthesis.
   PARTIAL: (a) parentheses left raw are excluded ([no_raw_paren], unless the style's raw parentheses are
   unbalanced, in which case the writer escapes them all); c14's literal_string_rt covers balanced raw
   parentheses for lopdf's own spelling; (b) LF spelled as a raw CR or CR LF is the open finding C02-raw-eol
   ([no_raw_cr]). *)
Theorem C02_literal_any_spelling_partial :
  forall s (st : list lpos) (tc : list eolk) rest fuel,
    (raw_parens_balanced s st 0 = false \/ no_raw_paren s st = true) -> no_raw_cr s st = true ->
    (length (w_literal s st tc ++ rest) <= fuel)%nat ->
    literal_string fuel (w_literal s st tc ++ rest) = POk s rest.
Proof. exact literal_any_spelling_partial. Qed.

(* a real in any value-preserving spelling: optional plus sign, leading zeros, trailing zeros after the point,
   "5." for 5 and ".5" for 0.5.  The parser model keeps the matched text (DESIGN 3: decimal -> f32 is Rust std);
   [same_dec] says the matched text has the decimal value of the canonical text [-]digits[.digits]. *)
Theorem C02_real_any_spelling :
  forall r (y : rstyle) rest,
    real_wf r -> starts_with is_dec_digit rest = false ->
    real (w_real r y ++ rest) = POk (w_real r y) rest /\ same_dec r (w_real r y).
Proof. exact real_any_spelling. Qed.

(* an indirect reference with leading zeros in both numbers and any filler (white-space, comments) between
   the three parts *)
Theorem C02_reference_any_spelling :
  forall i g (y : ostyle) rest,
    i <= u32_max -> g <= u16_max -> reference (w_ref i g y ++ rest) = POk (ORef i g) rest.
Proof. exact reference_any_spelling. Qed.

(* THE COMPOSITE LEVEL.  For every object o and EVERY style tree y (spelling of each scalar, any filler between
   the tokens of references, arrays and dictionaries, at every nesting level), nested at most as deep as the
   parser allows: parser::direct_object applied to the spelling returns [denote o y] -- the object itself, except
   that a real carries the text that was matched and a string the format it was written in -- and stops in
   front of [rest] (after skipping white-space), provided [rest] does not continue the last token
   ([follow_ok]: no regular byte after a keyword or name, no digit / point / "g R" after a number; nothing for
   strings, arrays, dictionaries, references).  [spell_wf]: integers are i64, reals canonical decimal texts,
   reference numbers u32 / u16, dictionary keys distinct, no stream inside an object; literal strings as in
   C02_literal_any_spelling_partial.  This generalises c14's object_rt from lopdf's spelling to any spelling. *)
Theorem C02_object_any_spelling :
  forall (o : obj) (y : ostyle) (rest : bytes) (fuel : nat),
    spell_wf o y -> follow_ok true (denote o y) rest ->
    (length (w_obj o y ++ rest) < fuel)%nat -> (nest o <= MAX_DEPTH)%nat ->
    direct_object fuel (w_obj o y ++ rest) = POk (denote o y) (space rest).
Proof. exact direct_object_any_spelling. Qed.

(* the same at the level of the parser's ordered choice, at any remaining depth (what arrays, dictionaries and
   content-stream operands call), with or without the reference alternative *)
Theorem C02_object_alts_any_spelling :
  forall o y ar rest f depth,
    spell_wf o y -> ref_ok ar o -> follow_ok ar (denote o y) rest ->
    (length (w_obj o y ++ rest) <= f)%nat -> (nest o <= depth)%nat ->
    object_alts_c (direct_objects_at f (pred depth)) (depth_ok depth) ar f (w_obj o y ++ rest) = POk (denote o y) rest.
Proof. exact spell_rt. Qed.

(* the standalone dictionary parser (trailer, stream dictionary) *)
Theorem C02_dictionary_any_spelling :
  forall d y rest f,
    spell_wf (ODict d) y -> (length (w_obj (ODict d) y ++ rest) < f)%nat -> (nest (ODict d) <= MAX_DEPTH)%nat ->
    dictionary f (w_obj (ODict d) y ++ rest) = POk (denote_dict d (dict_sts y)) rest.
Proof. exact dictionary_any_spelling. Qed.

(* INDIRECT OBJECTS (the unit the loader reads at every cross-reference offset), against the loader model's
   parser::_indirect_object (Model/Loader.v, C01).  Any filler after the object number, after the generation,
   after "obj" and after the object; the object in any spelling; ANYTHING after "endobj" ([post]). *)
Theorem C02_indirect_object_any_spelling :
  forall id gen o (y : istyle) post,
    id <= u32_max -> gen <= u16_max -> (forall d c, o <> OStream d c) ->
    spell_wf o (i_obj y) -> (nest o <= MAX_DEPTH)%nat ->
    indirect_object (w_indirect id gen o y ++ post) None = IOk (id, gen) (denote o (i_obj y)).
Proof. exact indirect_any_spelling. Qed.

(* streams: any spelling of the dictionary, any filler before "stream", "stream" followed by CR LF or LF, the data,
   an optional end-of-line marker (any of the three) before "endstream"; Length written directly.  The loaded
   stream holds exactly the data; its Length entry is (re)set to the data length. *)
Theorem C02_indirect_stream_any_spelling :
  forall id gen d c (y : istyle) post,
    id <= u32_max -> gen <= u16_max ->
    spell_wf (ODict d) (i_obj y) -> (nest (ODict d) <= MAX_DEPTH)%nat ->
    dict_get d K_Length = Some (OInt (Z.of_nat (length c))) ->
    indirect_object (w_indirect id gen (OStream d c) y ++ post) None =
    IOk (id, gen) (stream_new (denote_dict d (dict_sts (i_obj y))) c).
Proof. exact indirect_stream_any_spelling. Qed.

(* the trailer: "trailer", any filler, the dictionary in any spelling, any filler, then the next token *)
Theorem C02_trailer_any_spelling :
  forall (f1 f2 : filler) d (y : ostyle) next post,
    spell_wf (ODict d) y -> (nest (ODict d) <= MAX_DEPTH)%nat -> next <> [] -> tok_start (next ++ post) = true ->
    trailer (join [(bs "trailer", f1); (w_obj (ODict d) y, f2); (next, [])] ++ post) =
    POk (denote_dict d (dict_sts y)) (next ++ post).
Proof. exact trailer_any_spelling. Qed.

(* what is read back has the value that was written *)
Theorem C02_denote_same_value : forall o y, spell_wf o y -> same_value o (denote o y).
Proof. exact denote_same_value. Qed.

Definition ex_obj : obj :=
  ODict [(bs "K", OArr [OInt 7; OReal (bs "0.5"); ORef 12 0; ONull; OBool true; OStr (bs "a(b") false]);
         (bs "", OName (bs "N x"))].
Definition ex_ostyle : ostyle :=
  YDict [FComment (bs "c") ECR]
        [([NHex false true], [], YArr [FWs 5] [(YInt true 2, []); (YReal {| r_plus := true; r_lz := 1; r_tz := 2; r_drop0 := true |}, [FComment [] ELF]);
                                            (YRef 1 0 [FWs 3; FWs 0] [FComment (bs "%") ECRLF], []); (YDefault, []); (YDefault, [FWs 2]);
                                            (YStr (SLit [{| l_cont := [ELF]; l_ch := LOct 1 |}; {| l_cont := []; l_ch := LShort |}; {| l_cont := []; l_ch := LIgn |}] []), [])], []);
         ([], [], YName [NPlain; NHex true true; NPlain], [FWs 1])].
Theorem C02_example_object :
  spell_wf ex_obj ex_ostyle /\
  w_obj ex_obj ex_ostyle =
    bs "<<%c" ++ [x0d] ++ bs "/#4B[" ++ [x00] ++ bs "+007 +.500%" ++ [x0a] ++ bs "012" ++ [x09] ++ bs " 0%%" ++ [x0d; x0a] ++
    bs "R null true" ++ [x0d] ++ bs "(\" ++ [x0a] ++ bs "\141\(\142)]//N#20x" ++ [x0a] ++ bs ">>" /\
  direct_object 200 (w_obj ex_obj ex_ostyle ++ bs " endobj") = POk (denote ex_obj ex_ostyle) (bs "endobj") /\
  denote ex_obj ex_ostyle =
    ODict [(bs "K", OArr [OInt 7; OReal (bs "+.500"); ORef 12 0; ONull; OBool true; OStr (bs "a(b") false]);
           (bs "", OName (bs "N x"))].
Proof.
  split; [|repeat split; vm_compute; reflexivity].
  cbn. split.
  - constructor; [intros [H|[]]; discriminate|]. constructor; [intros []|constructor].
  - repeat split; try reflexivity; try (unfold u32_max, u16_max; lia).
    + exists false, (bs "0"), (bs "5"). repeat split; try reflexivity. discriminate.
Qed.

(* EVERY spelling of a literal string: as above, and parentheses left raw wherever the style's raw parentheses are
   balanced (they are then read through the parser's nested_literal_string recursion).  Excluded: the two open
   findings -- LF spelled as raw CR / CR LF ([no_raw_cr]), raw parentheses nested deeper than MAX_BRACKET = 100
   ([raw_depth_ok]). *)
Theorem C02_literal_any_spelling :
  forall s (st : list lpos) (tc : list eolk) rest fuel,
    no_raw_cr s st = true -> raw_depth_ok s st = true ->
    (length (w_literal s st tc ++ rest) <= fuel)%nat ->
    literal_string fuel (w_literal s st tc ++ rest) = POk s rest.
Proof. exact literal_any_spelling. Qed.

Theorem C02_example_literal_raw :
  w_literal (bs "a(b(c)\)d") (default_lit (bs "a(b(c)\)d")) [ELF] = bs "(a(b(c)\134)d\" ++ [x0a] ++ bs ")" /\
  literal_string 50 (w_literal (bs "a(b(c)\)d") (default_lit (bs "a(b(c)\)d")) [ELF] ++ bs ">>") = POk (bs "a(b(c)\)d") (bs ">>") /\
  raw_depth_ok (bs "a(b(c)\)d") (default_lit (bs "a(b(c)\)d")) = true.
Proof. repeat split; vm_compute; reflexivity. Qed.

Definition ex_lit : bytes := [x41; x0a; x28; x5c; x07; x39; x0d].
Definition ex_lit_style : list lpos :=
  [{| l_cont := [ECR]; l_ch := LIgn |}; {| l_cont := []; l_ch := LRaw |}; {| l_cont := []; l_ch := LShort |};
   {| l_cont := [ELF; ECRLF]; l_ch := LOct 3 |}; {| l_cont := []; l_ch := LOct 1 |};
   {| l_cont := []; l_ch := LRaw |}; {| l_cont := []; l_ch := LShort |}].

Theorem C02_example_literal :
  w_literal ex_lit ex_lit_style [ECRLF] =
    bs "(\" ++ [x0d] ++ bs "\A" ++ [x0a] ++ bs "\(\" ++ [x0a] ++ bs "\" ++ [x0d; x0a] ++ bs "\134\79\r\" ++ [x0d; x0a] ++ bs ")" /\
  no_raw_paren ex_lit ex_lit_style = true /\ no_raw_cr ex_lit ex_lit_style = true /\
  literal_string 100 (w_literal ex_lit ex_lit_style [ECRLF] ++ bs "/X") = POk ex_lit (bs "/X").
Proof. repeat split; vm_compute; reflexivity. Qed.

(* non-vacuity of the spellings: a name, a hexadecimal string and an integer in unusual dress *)
Theorem C02_example_spellings :
  w_name (bs "A b#") [NHex false true; NPlain; NPlain; NPlain] = bs "/#41#20b#23" /\
  name (bs "/#41#20b#23" ++ bs " 1") = POk (bs "A b#") (bs " 1") /\
  w_hexstr [x4a; xb0] [{| h_ws1 := [1]; h_u1 := false; h_ws2 := [0; 5]; h_u2 := true |}] [3] true =
    x3c :: x0a :: bs "4" ++ [x20; x00] ++ bs "AB" ++ [x09; x3e] /\
  hexadecimal_string (w_hexstr [x4a; xb0] [{| h_ws1 := [1]; h_u1 := false; h_ws2 := [0; 5]; h_u2 := true |}] [3] true)
    = POk [x4a; xb0] [] /\
  w_int 42 true 2 = bs "+0042" /\ integer (bs "+0042" ++ bs "]") = POk 42%Z (bs "]") /\
  space (fill_bytes [FWs 5; FComment (bs "endobj") ECR; FWs 1; FComment [] ECRLF] ++ bs "/X") = bs "/X".
Proof. repeat split; vm_compute; reflexivity. Qed.


(* ---------------------------------------------------------------------------------------------
   Rung 3: whole files.  STATED, NOT PROVED (a Definition, not a Theorem): it needs the loader model
   Model/Loader.v (C01) extended by the three features it does not cover yet (indirect Length, object
   streams, filtered cross-reference streams) and the composition of the rung-1 and rung-2 theorems over
   the reference writer's layout.  The correspondence run evaluates exactly this statement on the
   implementation (and on Model/Loader.v where it applies) for every generated (style, document) pair.
   --------------------------------------------------------------------------------------------- *)

(* same value ([same_value], Proofs/SpellingObjProofs.v): reals by their decimal value ([same_dec]), strings without
   their format, dictionaries in file order *)

(* C02_loads for the cross-reference TABLE format, against c01's loader model (Model/Loader.load = Reader::read):
   for every style with a cross-reference table and no object streams -- any bytes before "%PDF-" (not containing
   "%PDF-"), any header end-of-line, a binary line or none, the objects in ANY ORDER with any gaps, every object
   and the trailer in any spelling with any fillers, ANY SECTIONING of the table with any entry / header
   end-of-lines, any startxref end-of-lines and padding -- the file the reference writer produces loads, and the
   loaded document has the version, exactly the objects (each read back as [loaded_top]: [denote] of the object,
   for a stream the data with Length (re)set), and the trailer (with Size) the file defines.
   PARTIAL with respect to C02_full in these points only:
   (a) cross-reference STREAMS, object streams and indirect Length are not covered (Loader.load answers LUnmodelled
       there; c01's Model/LoaderExt.v load_ext is the model to extend this to);
   (b) [top_ok]: streams carry a direct Length equal to the data length and are not typed ObjStm; objects and
       styles in [spell_wf] (the two open findings excluded), generations u16, numbers >= 1;
   (c) the startxref block must keep "startxref" within the 25 bytes before "%%EOF" that Reader::get_xref_start
       searches (9 + end-of-lines + padding + digits <= 25): a property of lopdf's search window -- a block padded
       beyond it is NOT found by lopdf (not drawn by the generator; recorded here as a hypothesis, see notes);
   (d) the file is larger than 25 bytes and offsets / object numbers fit u32; the version is UTF-8 (lopdf's
       version is a String). *)
Theorem C02_loads_table_partial :
  forall (st : fstyle) (a : adoc) (t : tstyle) (file : bytes),
    s_xref st = XTable t -> s_ostms st = [] -> ref_write st a = Some file ->
    Forall LoadsTableProofs.top_ok (LoadsTableProofs.tops st a) -> Utf.utf8_decode (a_version a) <> None ->
    (spell_wf (ODict (LoadsTableProofs.trd a)) (t_trailer t) /\ (nest (ODict (LoadsTableProofs.trd a)) <= MAX_DEPTH)%nat /\
      dict_get (a_trailer a) RefWriter.K_Size = None /\ dict_get (a_trailer a) K_Prev = None /\ dict_get (a_trailer a) K_Encrypt = None) ->
    (LoadsTableProofs.xpos st a <= u32_max /\ LoadsTableProofs.size a <= u32_max /\ 25 < LoadsTableProofs.xpos st a) ->
    (9 + length (LoadsTableProofs.sx_mid (s_sx_eol1 st) (s_sx_sp1 st) (LoadsTableProofs.xpos st a) (s_sx_sp2 st) (s_sx_eol2 st)) <= 25)%nat ->
    exists d, load file = LOk d XTTable /\
      d_version d = a_version a /\ d_trailer d = LoadsTableProofs.t0 a t /\
      (forall tp, In tp (LoadsTableProofs.tops st a) ->
                  lookup (d_objects d) (fst (fst tp)) = Some (LoadsTableProofs.loaded_top tp)) /\
      (forall id o, lookup (d_objects d) id = Some o -> exists tp, In tp (LoadsTableProofs.tops st a) /\ fst (fst tp) = id).
Proof. exact LoadsTableProofs.loads_table_file. Qed.

Definition ex_adoc : adoc :=
  {| a_version := bs "1.4";
     a_trailer := [(bs "Root", ORef 7 0)];
     a_objs := [((7, 0), ODict [(bs "Type", OName (bs "Catalog")); (bs "V", OReal (bs "2.5"))]);
                ((3, 2), OStream [(bs "Length", OInt 5)] (bs "a(b" ++ [x0d; x0a]))] |}.
Definition ex_tstyle : tstyle :=
  {| t_secs := [(0, 1); (3, 1); (7, 1)]; t_eols := [0; 2; 1]; t_kw_eol := ECR; t_sec_eols := [ECRLF; ELF; ECR];
     t_sec_sp := [true; false; true]; t_f1 := [FComment (bs "%%EOF") ELF]; t_trailer := YDefault; t_f2 := [FWs 2] |}.
Definition ex_fstyle : fstyle :=
  {| s_junk := bs "junk %PDF" ++ [x0a]; s_hdr_eol := ECRLF; s_binary := Some ([xe2; xe3], ECR); s_order := [7; 3];
     s_objs := [(3, {| i_f1 := [FWs 1]; i_f2 := [FComment (bs "endobj") ECR]; i_f3 := []; i_f4 := [FWs 0]; i_gap := [];
                       i_obj := YDict [FWs 4] [([NHex true false], [], YInt true 1, [])]; i_fs := [FWs 2]; i_crlf := true; i_eeol := Some ECR |})];
     s_ostms := []; s_xref := XTable ex_tstyle;
     s_sx_eol1 := ECRLF; s_sx_sp1 := 1; s_sx_sp2 := 2; s_sx_eol2 := ECR; s_final_eol := Some ELF |}.

(* non-vacuity: a two-object file with bytes before the header, CR LF header, a binary line, objects out of order,
   a comment "%%EOF" before the trailer dictionary, three subsections with all three entry end-of-lines, a stream
   written "stream" CR LF ... CR "endstream", and a padded startxref block meets every hypothesis *)
Theorem C02_example_loads_table :
  ref_write ex_fstyle ex_adoc <> None /\
  Forall LoadsTableProofs.top_ok (LoadsTableProofs.tops ex_fstyle ex_adoc) /\
  Utf.utf8_decode (a_version ex_adoc) <> None /\
  (spell_wf (ODict (LoadsTableProofs.trd ex_adoc)) (t_trailer ex_tstyle) /\
   (nest (ODict (LoadsTableProofs.trd ex_adoc)) <= MAX_DEPTH)%nat /\
   dict_get (a_trailer ex_adoc) RefWriter.K_Size = None /\ dict_get (a_trailer ex_adoc) K_Prev = None /\
   dict_get (a_trailer ex_adoc) K_Encrypt = None) /\
  (LoadsTableProofs.xpos ex_fstyle ex_adoc <= u32_max /\ LoadsTableProofs.size ex_adoc <= u32_max /\
   25 < LoadsTableProofs.xpos ex_fstyle ex_adoc) /\
  (9 + length (LoadsTableProofs.sx_mid (s_sx_eol1 ex_fstyle) (s_sx_sp1 ex_fstyle) (LoadsTableProofs.xpos ex_fstyle ex_adoc)
                 (s_sx_sp2 ex_fstyle) (s_sx_eol2 ex_fstyle)) <= 25)%nat.
Proof.
  assert (Hx : LoadsTableProofs.xpos ex_fstyle ex_adoc = 117) by (vm_compute; reflexivity).
  assert (Hs : LoadsTableProofs.size ex_adoc = 8) by (vm_compute; reflexivity).
  assert (Hr : real_wf (bs "2.5")) by (exists false, (bs "2"), (bs "5"); repeat split; try reflexivity; discriminate).
  split; [vm_compute; discriminate|]. split.
  - unfold LoadsTableProofs.tops. cbn [a_objs ex_adoc map fst snd].
    constructor; [|constructor; [|constructor]].
    + cbn. split; [lia|]. split; [unfold u16_max; lia|]. split; [|lia]. split.
      * constructor; [intros [H|[]]; discriminate|]. constructor; [intros []|constructor].
      * split; [exact I|]. split; [exact Hr|exact I].
    + cbn. split; [lia|]. split; [unfold u16_max; lia|]. split.
      * split; [constructor; [intros []|constructor]|]. split; [reflexivity|exact I].
      * split; [lia|]. split; reflexivity.
  - split; [vm_compute; discriminate|]. split.
    + repeat split; try reflexivity; try (cbn; unfold u32_max, u16_max; lia); try (vm_compute; lia).
      cbn. constructor; [intros [H|[]]; discriminate|]. constructor; [intros []|constructor].
    + rewrite Hx, Hs. split; [unfold u32_max; repeat split; lia|]. vm_compute. lia.
Qed.

(* C02_loads for the cross-reference STREAM format (no filter on the stream, no object streams), against the same loader
   model: for every style with a cross-reference stream -- ANY field widths W (each 0 or positive: W[0] = 0 when no listed
   entry needs a type, W[2] = 0 when every generation is 0; a field too narrow for the file is widened by the writer),
   ANY Index partition covering the objects in use (object 0 need not be listed), Index written or left out when it
   is [0 Size], the stream object itself in any spelling with any fillers (its dictionary holds the document's
   trailer entries) -- and everything C02_loads_table_partial covers for the rest of the file: the file the reference
   writer produces loads with format XTStream, the version, exactly the objects of the document (each as
   [loaded_top]) plus the cross-reference stream object itself under its own number, and the trailer = the stream
   dictionary as read back without Length, W, Index (C02_stream_trailer_reading: every other key, in particular Size and
   every key of the document's trailer, is there with the value read back).
   PARTIAL with respect to C02_full in these points only: (a) the cross-reference stream carries no Filter, there are no
   object streams, Length is direct (top_ok) -- the filter chain, object streams and Length references need c01's
   Model/LoaderExt.v (Loader.load answers LUnmodelled); (b)-(d) as for the table format; the document's trailer has no
   Prev / Encrypt / Filter / Index entry (adoc_wf of C02_full says the same). *)
Theorem C02_loads_stream_partial :
  forall (st : fstyle) (a : adoc) (x : xsstyle) (file : bytes),
    s_xref st = XStream x -> s_ostms st = [] -> xs_filter x = SfNone -> ref_write st a = Some file ->
    Forall LoadsTableProofs.top_ok (LoadsTableProofs.tops st a) -> Utf.utf8_decode (a_version a) <> None ->
    (spell_wf (ODict (LoadsStreamProofs.xdp st a x)) (i_obj (xs_istyle x)) /\
     (nest (ODict (LoadsStreamProofs.xdp st a x)) <= MAX_DEPTH)%nat /\
     dict_get (a_trailer a) K_Prev = None /\ dict_get (a_trailer a) K_Encrypt = None /\
     dict_get (a_trailer a) K_Filter = None /\ dict_get (a_trailer a) K_Index = None) ->
    (LoadsTableProofs.xpos st a <= u32_max /\ LoadsStreamProofs.sizeS a x <= u32_max /\ 25 < LoadsTableProofs.xpos st a) ->
    (9 + length (LoadsTableProofs.sx_mid (s_sx_eol1 st) (s_sx_sp1 st) (LoadsTableProofs.xpos st a) (s_sx_sp2 st) (s_sx_eol2 st)) <= 25)%nat ->
    exists d, load file = LOk d XTStream /\
      d_version d = a_version a /\ d_trailer d = LoadsStreamProofs.t0S st a x [] (LoadsStreamProofs.raw st a x) /\
      (forall tp, In tp (LoadsTableProofs.tops st a) ->
                  lookup (d_objects d) (fst (fst tp)) = Some (LoadsTableProofs.loaded_top tp)) /\
      lookup (d_objects d) (xs_id x, 0) =
        Some (stream_new (LoadsStreamProofs.dd st a x [] (LoadsStreamProofs.raw st a x)) (LoadsStreamProofs.raw st a x)) /\
      (forall id o, lookup (d_objects d) id = Some o ->
                    (exists tp, In tp (LoadsTableProofs.tops st a) /\ fst (fst tp) = id) \/ id = (xs_id x, 0)).
Proof. exact LoadsStreamProofs.loads_stream_file. Qed.

Theorem C02_stream_trailer_reading :
  forall (st : fstyle) (a : adoc) (x : xsstyle) (k : bytes),
    spell_wf (ODict (LoadsStreamProofs.xdp st a x)) (i_obj (xs_istyle x)) ->
    dict_get (LoadsStreamProofs.t0S st a x [] (LoadsStreamProofs.raw st a x)) k =
    if bytes_eqb k K_Index || bytes_eqb k K_W || bytes_eqb k Obj.K_Length then None
    else dict_get (denote_dict (LoadsStreamProofs.xdp st a x) (dict_sts (i_obj (xs_istyle x)))) k.
Proof. exact LoadsStreamProofs.stream_trailer_reading. Qed.

Definition ex_xsstyle : xsstyle :=
  {| xs_id := 9; xs_w := (0%nat, 1%nat, 0%nat); xs_secs := [(3, 1); (7, 1); (9, 1)]; xs_omit_index := false;
     xs_filter := SfNone; xs_array := false;
     xs_istyle := {| i_f1 := [FWs 1]; i_f2 := []; i_f3 := [FComment (bs "xref") ECR]; i_f4 := [FWs 0]; i_gap := [];
                     i_obj := YDefault; i_fs := [FWs 2]; i_crlf := true; i_eeol := None |} |}.
Definition ex_fstyle_s : fstyle :=
  {| s_junk := s_junk ex_fstyle; s_hdr_eol := ECRLF; s_binary := Some ([xe2; xe3], ECR); s_order := [7; 3];
     s_objs := s_objs ex_fstyle; s_ostms := []; s_xref := XStream ex_xsstyle;
     s_sx_eol1 := ECRLF; s_sx_sp1 := 1; s_sx_sp2 := 2; s_sx_eol2 := ECR; s_final_eol := Some ELF |}.

(* non-vacuity: the same two-object document with a cross-reference stream that does not list object 0 (Index
   [3 1 7 1 9 1]), asked for W [0 1 0] and written with W [0 1 1] (object 3 has generation 2), the stream object
   holding a comment "xref" after "obj", "stream" CR LF and no end-of-line before "endstream" *)
Theorem C02_example_loads_stream :
  ref_write ex_fstyle_s ex_adoc <> None /\
  LoadsStreamProofs.xdp ex_fstyle_s ex_adoc ex_xsstyle =
    [(bs "Type", OName (bs "XRef")); (bs "Size", OInt 10); (bs "W", OArr [OInt 0; OInt 1; OInt 1]);
     (bs "Index", OArr [OInt 3; OInt 1; OInt 7; OInt 1; OInt 9; OInt 1]); (bs "Root", ORef 7 0); (bs "Length", OInt 6)] /\
  Forall LoadsTableProofs.top_ok (LoadsTableProofs.tops ex_fstyle_s ex_adoc) /\
  (spell_wf (ODict (LoadsStreamProofs.xdp ex_fstyle_s ex_adoc ex_xsstyle)) (i_obj (xs_istyle ex_xsstyle)) /\
   (nest (ODict (LoadsStreamProofs.xdp ex_fstyle_s ex_adoc ex_xsstyle)) <= MAX_DEPTH)%nat /\
   dict_get (a_trailer ex_adoc) K_Prev = None /\ dict_get (a_trailer ex_adoc) K_Encrypt = None /\
   dict_get (a_trailer ex_adoc) K_Filter = None /\ dict_get (a_trailer ex_adoc) K_Index = None) /\
  (LoadsTableProofs.xpos ex_fstyle_s ex_adoc <= u32_max /\ LoadsStreamProofs.sizeS ex_adoc ex_xsstyle <= u32_max /\
   25 < LoadsTableProofs.xpos ex_fstyle_s ex_adoc) /\
  (9 + length (LoadsTableProofs.sx_mid (s_sx_eol1 ex_fstyle_s) (s_sx_sp1 ex_fstyle_s) (LoadsTableProofs.xpos ex_fstyle_s ex_adoc)
                 (s_sx_sp2 ex_fstyle_s) (s_sx_eol2 ex_fstyle_s)) <= 25)%nat.
Proof.
  assert (Hx : LoadsTableProofs.xpos ex_fstyle_s ex_adoc = 117) by (vm_compute; reflexivity).
  assert (Hs : LoadsStreamProofs.sizeS ex_adoc ex_xsstyle = 10) by (vm_compute; reflexivity).
  assert (Hd : LoadsStreamProofs.xdp ex_fstyle_s ex_adoc ex_xsstyle =
    [(bs "Type", OName (bs "XRef")); (bs "Size", OInt 10); (bs "W", OArr [OInt 0; OInt 1; OInt 1]);
     (bs "Index", OArr [OInt 3; OInt 1; OInt 7; OInt 1; OInt 9; OInt 1]); (bs "Root", ORef 7 0); (bs "Length", OInt 6)])
    by (vm_compute; reflexivity).
  split; [vm_compute; discriminate|]. split; [exact Hd|]. split.
  - exact (proj1 (proj2 C02_example_loads_table)).
  - split.
    + rewrite Hd. split.
      * cbn. split; [|repeat split; reflexivity || (unfold u32_max, u16_max; lia)].
        repeat (constructor; [cbn; intuition discriminate|]). constructor.
      * split; [vm_compute; lia|]. repeat split; reflexivity.
    + rewrite Hx, Hs. split; [unfold u32_max; repeat split; lia|]. vm_compute. lia.
Qed.

(* THE FILTER CHAIN of structural streams.  [decompress_ref] is lopdf's Stream::decompress (Model/StreamFilt.v, C09's model
   of filters / DecodeParms / decompress_predictor / set_content) run on the GALLINA decoders of the standards: Spec/Inflate.v
   (RFC 1950/1951, C09_inflate_stored), Model/A85.v, Model/AsciiHex.v, Model/Png.v.  Every encoding the reference writer applies
   (apply_filter): ASCII85, ASCIIHex (any case, white-space), stored-block Flate with any block size, ASCII85 around Flate;
   Filter as a name or a one-element array; with Flate a PNG predictor -- Predictor 10..15, the row filter chosen PER ROW
   among the five types, Colors 1..4 x BitsPerComponent 8 / 16 when the row width is a whole number of such pixels (else one
   byte per pixel), Colors / BitsPerComponent written or left to their defaults, DecodeParms as a dictionary or as an array
   parallel to the filters -- is decoded to the raw data, for data that consists of whole rows of its natural width [w]
   (a cross-reference stream: the entry width). *)
Theorem C02_filter_chain_decodes :
  forall (f : sfilter) (w m : nat) (arr : bool) (raw : bytes) (D : dict),
    f <> SfNone -> (0 < w)%nat -> raw <> [] -> length raw = (m * w)%nat -> N.of_nat w <= Png.USIZE_MAX ->
    dict_get D K_Filter = dict_get (snd (apply_filter f (N.of_nat w) arr raw)) K_Filter ->
    dict_get D K_DecodeParms = dict_get (snd (apply_filter f (N.of_nat w) arr raw)) K_DecodeParms ->
    StreamFilt.decompressed_content StreamCodecSpec.gallina_inflate StreamCodecSpec.gallina_lzw
      {| StreamFilt.s_dict := D; StreamFilt.s_content := fst (apply_filter f (N.of_nat w) arr raw) |} = A85.Ok raw.
Proof. exact LoadsFilterProofs.chain_decodes. Qed.

(* C02_loads for a cross-reference stream UNDER ANY OF THESE FILTER CHAINS, against c01's extended reader
   (Model/LoaderExt.v load_ext, conservative over Loader.load by C01_loader_ext_conservative) with Stream::decompress :=
   decompress_ref: everything C02_loads_stream_partial says, for every style whose cross-reference stream carries a filter.
   The loaded trailer is the stream dictionary as read back without Filter, DecodeParms, Length, W, Index
   (C02_filtered_trailer_reading); the cross-reference stream object itself is kept as it is in the file (encoded).
   PARTIAL with respect to C02_full: no object streams, Length direct (top_ok); (b)-(d) as before; the widths sum is a
   machine integer (it is at most 24 for files below 4 GiB unless the style asks for wider fields). *)
Theorem C02_loads_stream_filtered_partial :
  forall (st : fstyle) (a : adoc) (x : xsstyle) (file : bytes),
    s_xref st = XStream x -> s_ostms st = [] -> xs_filter x <> SfNone -> ref_write st a = Some file ->
    Forall LoadsTableProofs.top_ok (LoadsTableProofs.tops st a) -> Utf.utf8_decode (a_version a) <> None ->
    (spell_wf (ODict (LoadsStreamProofs.xdf st a x)) (i_obj (xs_istyle x)) /\
     (nest (ODict (LoadsStreamProofs.xdf st a x)) <= MAX_DEPTH)%nat /\
     dict_get (a_trailer a) K_Prev = None /\ dict_get (a_trailer a) K_Encrypt = None /\
     dict_get (a_trailer a) K_Filter = None /\ dict_get (a_trailer a) K_Index = None) ->
    dict_get (a_trailer a) K_DecodeParms = None ->
    (LoadsTableProofs.xpos st a <= u32_max /\ LoadsStreamProofs.sizeS a x <= u32_max /\ 25 < LoadsTableProofs.xpos st a) ->
    N.of_nat (LoadsStreamProofs.w0' st a x + LoadsStreamProofs.w1' st a x + LoadsStreamProofs.w2' st a x) <= Png.USIZE_MAX ->
    (9 + length (LoadsTableProofs.sx_mid (s_sx_eol1 st) (s_sx_sp1 st) (LoadsTableProofs.xpos st a) (s_sx_sp2 st) (s_sx_eol2 st)) <= 25)%nat ->
    exists d, LoaderExt.load_ext LoadsFilterProofs.decompress_ref LoadsFilterProofs.can_ref file = LOk d XTStream /\
      d_version d = a_version a /\
      d_trailer d = LoadsStreamProofs.t0F st a x (snd (LoadsStreamProofs.xs_enc st a x)) (fst (LoadsStreamProofs.xs_enc st a x)) /\
      (forall tp, In tp (LoadsTableProofs.tops st a) ->
                  lookup (d_objects d) (fst (fst tp)) = Some (LoadsTableProofs.loaded_top tp)) /\
      lookup (d_objects d) (xs_id x, 0) =
        Some (stream_new (LoadsStreamProofs.dd st a x (snd (LoadsStreamProofs.xs_enc st a x)) (fst (LoadsStreamProofs.xs_enc st a x)))
                         (fst (LoadsStreamProofs.xs_enc st a x))) /\
      (forall id o, lookup (d_objects d) id = Some o ->
                    (exists tp, In tp (LoadsTableProofs.tops st a) /\ fst (fst tp) = id) \/ id = (xs_id x, 0)).
Proof. exact LoadsStreamProofs.loads_stream_filtered_file. Qed.

Theorem C02_filtered_trailer_reading :
  forall (st : fstyle) (a : adoc) (x : xsstyle) (k : bytes),
    spell_wf (ODict (LoadsStreamProofs.xdf st a x)) (i_obj (xs_istyle x)) ->
    dict_get (LoadsStreamProofs.t0F st a x (snd (LoadsStreamProofs.xs_enc st a x)) (fst (LoadsStreamProofs.xs_enc st a x))) k =
    if bytes_eqb k K_Index || bytes_eqb k K_W || bytes_eqb k Obj.K_Length then None
    else if bytes_eqb k K_Filter || bytes_eqb k K_DecodeParms then None
    else dict_get (denote_dict (LoadsStreamProofs.xdf st a x) (dict_sts (i_obj (xs_istyle x)))) k.
Proof. exact LoadsStreamProofs.filtered_trailer_reading. Qed.

Definition ex_xsstyle_f : xsstyle :=
  {| xs_id := 9; xs_w := (0%nat, 1%nat, 0%nat); xs_secs := [(3, 1); (7, 1); (9, 1)]; xs_omit_index := false;
     xs_filter := SfA85Flate 3 (Some {| p_pred := 2; p_cols := 0; p_types := [4; 1; 3]; p_colors := 1; p_bpc16 := false; p_explicit := true |});
     xs_array := true; xs_istyle := xs_istyle ex_xsstyle |}.
Definition ex_fstyle_f : fstyle :=
  {| s_junk := s_junk ex_fstyle; s_hdr_eol := ECRLF; s_binary := Some ([xe2; xe3], ECR); s_order := [7; 3];
     s_objs := s_objs ex_fstyle; s_ostms := []; s_xref := XStream ex_xsstyle_f;
     s_sx_eol1 := ECRLF; s_sx_sp1 := 1; s_sx_sp2 := 2; s_sx_eol2 := ECR; s_final_eol := Some ELF |}.
Definition ex_xdf : dict :=
  [(bs "Type", OName (bs "XRef")); (bs "Size", OInt 10); (bs "W", OArr [OInt 0; OInt 1; OInt 1]);
   (bs "Index", OArr [OInt 3; OInt 1; OInt 7; OInt 1; OInt 9; OInt 1]); (bs "Root", ORef 7 0);
   (bs "Filter", OArr [OName (bs "ASCII85Decode"); OName (bs "FlateDecode")]);
   (bs "DecodeParms", OArr [ONull; ODict [(bs "Predictor", OInt 12); (bs "Columns", OInt 1); (bs "Colors", OInt 2);
                                         (bs "BitsPerComponent", OInt 8)]]);
   (bs "Length", OInt 40)].

(* non-vacuity: the same file with the cross-reference stream (W [0 1 1], rows of 2 bytes) written through a PNG
   predictor (Predictor 12, Colors 2, row types Paeth / Sub / Average), stored-block zlib with blocks of 4 bytes and
   ASCII85, Filter and DecodeParms as arrays *)
Theorem C02_example_loads_stream_filtered :
  ref_write ex_fstyle_f ex_adoc <> None /\ xs_filter ex_xsstyle_f <> SfNone /\
  LoadsStreamProofs.xdf ex_fstyle_f ex_adoc ex_xsstyle_f = ex_xdf /\
  Forall LoadsTableProofs.top_ok (LoadsTableProofs.tops ex_fstyle_f ex_adoc) /\
  (spell_wf (ODict (LoadsStreamProofs.xdf ex_fstyle_f ex_adoc ex_xsstyle_f)) (i_obj (xs_istyle ex_xsstyle_f)) /\
   (nest (ODict (LoadsStreamProofs.xdf ex_fstyle_f ex_adoc ex_xsstyle_f)) <= MAX_DEPTH)%nat /\
   dict_get (a_trailer ex_adoc) K_Prev = None /\ dict_get (a_trailer ex_adoc) K_Encrypt = None /\
   dict_get (a_trailer ex_adoc) K_Filter = None /\ dict_get (a_trailer ex_adoc) K_Index = None) /\
  dict_get (a_trailer ex_adoc) K_DecodeParms = None /\
  (LoadsTableProofs.xpos ex_fstyle_f ex_adoc <= u32_max /\ LoadsStreamProofs.sizeS ex_adoc ex_xsstyle_f <= u32_max /\
   25 < LoadsTableProofs.xpos ex_fstyle_f ex_adoc) /\
  N.of_nat (LoadsStreamProofs.w0' ex_fstyle_f ex_adoc ex_xsstyle_f + LoadsStreamProofs.w1' ex_fstyle_f ex_adoc ex_xsstyle_f +
            LoadsStreamProofs.w2' ex_fstyle_f ex_adoc ex_xsstyle_f) <= Png.USIZE_MAX /\
  (9 + length (LoadsTableProofs.sx_mid (s_sx_eol1 ex_fstyle_f) (s_sx_sp1 ex_fstyle_f) (LoadsTableProofs.xpos ex_fstyle_f ex_adoc)
                 (s_sx_sp2 ex_fstyle_f) (s_sx_eol2 ex_fstyle_f)) <= 25)%nat.
Proof.
  assert (Hx : LoadsTableProofs.xpos ex_fstyle_f ex_adoc = 117) by (vm_compute; reflexivity).
  assert (Hs : LoadsStreamProofs.sizeS ex_adoc ex_xsstyle_f = 10) by (vm_compute; reflexivity).
  assert (Hd : LoadsStreamProofs.xdf ex_fstyle_f ex_adoc ex_xsstyle_f = ex_xdf) by (vm_compute; reflexivity).
  split; [vm_compute; discriminate|]. split; [discriminate|]. split; [exact Hd|]. split.
  - exact (proj1 (proj2 C02_example_loads_table)).
  - split.
    + rewrite Hd. split.
      * cbn.
        repeat match goal with
               | |- _ /\ _ => split
               | |- NoDup _ => repeat (constructor; [cbn; intuition discriminate|]); constructor
               | |- True => exact I
               | |- _ = true => reflexivity
               | |- _ <= _ => unfold u32_max, u16_max; lia
               end.
      * split; [vm_compute; lia|]. repeat split; reflexivity.
    + split; [reflexivity|]. rewrite Hx, Hs. split; [unfold u32_max; repeat split; lia|].
      split; [vm_compute; discriminate|]. vm_compute. lia.
Qed.

(* INDIRECT STREAM LENGTHS, both paths of lopdf, against c01's Model/LoaderExt.v, for a stream object in ANY spelling whose
   Length entry is a reference "li lg R".
   (1) EAGER (C02_length_ref_lookup + C02_length_ref_eager): while the stream is parsed Reader::get_object looks the length
       up -- the cross-reference entry of (li, lg) is an entry in use of that generation, the integer object there, in any
       spelling, is read (chain of at most MAX_LENGTH_CHAIN references, no cycle) -- and parser::_indirect_object returns the
       stream with exactly its data, whatever follows "endobj".
   (2) DEFERRED (C02_length_ref_deferred + C02_length_ref_content): when the look-up fails (the table is still empty while
       the cross-reference stream is read; the length object lives in an object stream) the stream comes back with empty
       content and the position of its data in the buffer, and Reader::read_stream_content, run over the LOADED objects,
       cuts exactly the data out of the buffer and sets Length to its size. *)
Theorem C02_length_ref_eager :
  forall (id gen : N) (d : dict) (c : bytes) (y : istyle) (post : bytes) (li lg : N),
    id <= u32_max -> gen <= u16_max -> spell_wf (ODict d) (i_obj y) -> (nest (ODict d) <= MAX_DEPTH)%nat ->
    dict_get d RefWriter.K_Length = Some (ORef li lg) ->
    forall (buf : bytes) (lenref : N * N -> LoaderExt.lenres) (expected : option (N * N)),
      lenref (li, lg) = LoaderExt.LnOk (Z.of_nat (length c)) ->
      match expected with Some e => e = (id, gen) | None => True end ->
      LoaderExt.indirect_with buf (w_indirect id gen (OStream d c) y ++ post) expected lenref =
      LoaderExt.IxOk (id, gen) (stream_new (denote_dict d (dict_sts (i_obj y))) c) None.
Proof. exact LengthRefProofs.indirect_ref_length_eager. Qed.

Theorem C02_length_ref_lookup :
  forall (k : nat) (buf : bytes) (x : xmap) (seen : list oid) (li lg : N) (z : Z) (yl : istyle) (off : N) (post : bytes),
    existsb (oid_eqb (li, lg)) seen = false -> (S (length seen) <= SaveFmt.MAX_LENGTH_CHAIN)%nat ->
    LoaderExt.get_offset x (li, lg) = Some off -> off <= blen buf ->
    from off buf = w_indirect li lg (OInt z) yl ++ post ->
    li <= u32_max -> lg <= u16_max -> in_i64 z = true ->
    LoaderExt.get_length (S k) buf x seen (li, lg) = LoaderExt.LnOk z.
Proof. exact LengthRefProofs.get_length_finds. Qed.

Theorem C02_length_ref_deferred :
  forall (id gen : N) (d : dict) (c : bytes) (y : istyle) (post : bytes) (li lg : N),
    id <= u32_max -> gen <= u16_max -> spell_wf (ODict d) (i_obj y) -> (nest (ODict d) <= MAX_DEPTH)%nat ->
    dict_get d RefWriter.K_Length = Some (ORef li lg) ->
    forall (pre : bytes) (lenref : N * N -> LoaderExt.lenres) (expected : option (N * N)),
      lenref (li, lg) = LoaderExt.LnNone ->
      match expected with Some e => e = (id, gen) | None => True end ->
      exists before,
        w_indirect id gen (OStream d c) y ++ post = before ++ c ++ LengthRefProofs.after_data c y post /\
        LoaderExt.indirect_with (pre ++ w_indirect id gen (OStream d c) y ++ post) (w_indirect id gen (OStream d c) y ++ post)
                                expected lenref =
        LoaderExt.IxOk (id, gen) (OStream (denote_dict d (dict_sts (i_obj y))) []) (Some (blen (pre ++ before))).
Proof. exact LengthRefProofs.indirect_ref_length_deferred. Qed.

Theorem C02_length_ref_content :
  forall (buf : bytes) (m : objmap) (p : LoaderExt.posmap) (id : oid) (dct : dict) (li lg start : N) (content rest : bytes),
    lookup m id = Some (OStream dct []) -> dict_get dct Obj.K_Length = Some (ORef li lg) ->
    lookup m (li, lg) = Some (OInt (Z.of_nat (length content))) ->
    LoaderExt.pos_get p id = Some start -> start <= blen buf -> from start buf = content ++ rest ->
    LoaderExt.read_stream_content buf m p id =
    insert m id (OStream (dict_set dct Obj.K_Length (OInt (Z.of_nat (length content)))) content).
Proof. exact LengthRefProofs.read_stream_content_sets. Qed.

Definition ex_lr_stream : bytes :=
  w_indirect 5 0 (OStream [(bs "Length", ORef 6 0)] (bs "abc")) default_istyle ++ [x0a].
Definition ex_lr_buf : bytes := ex_lr_stream ++ w_indirect 6 0 (OInt 3) default_istyle ++ [x0a].
Definition ex_lr_x : xmap := [(5, XNormal 0 0); (6, XNormal (blen ex_lr_stream) 0)].

(* non-vacuity: "5 0 obj <</Length 6 0 R>> stream abc endstream endobj 6 0 obj 3 endobj": with the table the length is
   found while parsing (eager); with the empty table the stream comes back empty with its data position 33, and
   read_stream_content over the loaded objects restores the content (deferred) *)
Theorem C02_example_length_ref :
  LoaderExt.get_length 3 ex_lr_buf ex_lr_x [] (6, 0) = LoaderExt.LnOk 3 /\
  LoaderExt.indirect_x ex_lr_buf ex_lr_x ex_lr_buf None =
    LoaderExt.IxOk (5, 0) (OStream [(bs "Length", OInt 3)] (bs "abc")) None /\
  LoaderExt.indirect_x ex_lr_buf [] ex_lr_buf None =
    LoaderExt.IxOk (5, 0) (OStream [(bs "Length", ORef 6 0)] []) (Some 33) /\
  LoaderExt.read_stream_content ex_lr_buf
    [((5, 0), OStream [(bs "Length", ORef 6 0)] []); ((6, 0), OInt 3)] [((5, 0), 33)] (5, 0) =
    [((5, 0), OStream [(bs "Length", OInt 3)] (bs "abc")); ((6, 0), OInt 3)].
Proof. repeat split; vm_compute; reflexivity. Qed.

(* C02_loads, TABLE format, with INDIRECT STREAM LENGTHS, against c01's extended reader for ANY Stream::decompress: everything
   C02_loads_table_partial says, for documents whose streams carry their Length directly OR as a reference to an integer
   object of the document ([top_ok2]; the eager path: the cross-reference table is complete when the objects are read, the
   length object is found at the offset its entry names, in any spelling).  Since load_ext is conservative over Loader.load
   this subsumes C02_loads_table_partial.  PARTIAL: as (b)-(d) there; the deferred path and the stream format with
   Length references are proved at the level of their pieces only (C02_length_ref_deferred / _content). *)
Theorem C02_loads_table_reflen_partial :
  forall (st : fstyle) (a : adoc) (t : tstyle) (file : bytes)
         (decompress : dict -> bytes -> option (dict * bytes)) (can_decompress : dict -> bool),
    s_xref st = XTable t -> s_ostms st = [] -> ref_write st a = Some file ->
    Forall (LoadsRefLenProofs.top_ok2 a) (LoadsTableProofs.tops st a) -> Utf.utf8_decode (a_version a) <> None ->
    (spell_wf (ODict (LoadsTableProofs.trd a)) (t_trailer t) /\ (nest (ODict (LoadsTableProofs.trd a)) <= MAX_DEPTH)%nat /\
      dict_get (a_trailer a) RefWriter.K_Size = None /\ dict_get (a_trailer a) K_Prev = None /\ dict_get (a_trailer a) K_Encrypt = None) ->
    (LoadsTableProofs.xpos st a <= u32_max /\ LoadsTableProofs.size a <= u32_max /\ 25 < LoadsTableProofs.xpos st a) ->
    (9 + length (LoadsTableProofs.sx_mid (s_sx_eol1 st) (s_sx_sp1 st) (LoadsTableProofs.xpos st a) (s_sx_sp2 st) (s_sx_eol2 st)) <= 25)%nat ->
    exists d, LoaderExt.load_ext decompress can_decompress file = LOk d XTTable /\
      d_version d = a_version a /\ d_trailer d = LoadsTableProofs.t0 a t /\
      (forall tp, In tp (LoadsTableProofs.tops st a) ->
                  lookup (d_objects d) (fst (fst tp)) = Some (LoadsTableProofs.loaded_top tp)) /\
      (forall id o, lookup (d_objects d) id = Some o -> exists tp, In tp (LoadsTableProofs.tops st a) /\ fst (fst tp) = id).
Proof. intros. eapply LoadsRefLenProofs.loads_table_reflen_file; eassumption. Qed.

Definition ex_adoc_rl : adoc :=
  {| a_version := bs "1.4";
     a_trailer := [(bs "Root", ORef 7 0)];
     a_objs := [((7, 0), ODict [(bs "Type", OName (bs "Catalog")); (bs "V", OReal (bs "2.5"))]);
                ((3, 2), OStream [(bs "Length", ORef 4 0)] (bs "a(b" ++ [x0d; x0a])); ((4, 0), OInt 5)] |}.

(* non-vacuity: the stream's Length is "4 0 R", object 4 is the integer 5, written AFTER the stream *)
Theorem C02_example_loads_table_reflen :
  ref_write ex_fstyle ex_adoc_rl <> None /\
  Forall (LoadsRefLenProofs.top_ok2 ex_adoc_rl) (LoadsTableProofs.tops ex_fstyle ex_adoc_rl) /\
  (match LoaderExt.load_plain (match ref_write ex_fstyle ex_adoc_rl with Some f => f | None => [] end) with
   | LOk d _ => lookup (d_objects d) (3, 2) = Some (OStream [(bs "Length", OInt 5)] (bs "a(b" ++ [x0d; x0a]))
   | _ => False
   end).
Proof.
  assert (Hr : real_wf (bs "2.5")) by (exists false, (bs "2"), (bs "5"); repeat split; try reflexivity; discriminate).
  split; [vm_compute; discriminate|]. split; [|vm_compute; reflexivity].
  unfold LoadsTableProofs.tops. cbn [a_objs ex_adoc_rl map fst snd].
  (constructor; [|constructor; [|constructor; [|constructor]]]); cbn;
    repeat match goal with
           | |- _ /\ _ => split
           | |- NoDup _ => repeat (constructor; [cbn; intuition discriminate|]); constructor
           | |- True => exact I
           | |- real_wf _ => exact Hr
           | |- _ = true => reflexivity
           | |- _ = false => reflexivity
           | |- (_ <= _)%nat => vm_compute; lia
           | |- _ <= _ => unfold u32_max, u16_max; lia
           | |- _ \/ _ => right; exists 4, 0; split; [reflexivity|]; right; right; left; reflexivity
           end.
Qed.

(* OBJECT STREAMS through ObjectStream::new with Stream::decompress := decompress_ref: for the container object the
   reference writer builds (os_object: Type ObjStm, N, First, the filter entries, Length), handed over as the loader does
   (the dictionary read back in any spelling [sts], Length set), the decompression attempt leaves the payload -- no Filter:
   Stream::decompress fails and the stream stays as it is; ASCII85, ASCIIHex, stored-block Flate, ASCII85 around Flate: the
   chain is decoded (C02_filter_chain_decodes) -- and the members are exactly the denoted objects (C02_objstm_any_spelling).
   (the statement of round 3, without predictor [no_pred]; C02_objstm_new_any_filter below covers the predictors, and
   C02_loads_objstm_partial composes the loop of the reader over a file with containers). *)
Theorem C02_objstm_new_filtered :
  forall (objs : list (oid * obj)) (s : ostm) (items : list ositem) (sts : list (nstyle * filler * ostyle * filler)),
    os_build objs (os_members s) (os_items s) true = Some items -> os_members s <> [] -> NoDup (os_members s) ->
    Forall (fun m => m <= u32_max) (os_members s) ->
    Forall (fun oy => ObjStmSpellProofs.mem_ok (fst oy) (snd oy)) (ObjStmSpellProofs.os_pairs objs (os_members s) (os_items s)) ->
    N.of_nat (length (flat_map oi_text items)) <= u32_max ->
    LoadsFilterProofs.no_pred (os_filter s) ->
    os_object objs s = Some (OStream (ObjStmFilterProofs.dC s items) (fst (ObjStmFilterProofs.enc s items))) /\
    exists d', objstm_new LoadsFilterProofs.decompress_ref (ObjStmFilterProofs.D s items sts) (fst (ObjStmFilterProofs.enc s items)) =
               ((d', ObjStmFilterProofs.payload s items), OsOk (ObjStmFilterProofs.members_val objs s items)).
Proof.
  intros objs s items sts Hb Hne Hnd Hm Hok Hlen Hnp. split.
  - exact (ObjStmFilterProofs.os_object_eq objs s items Hb).
  - exact (ObjStmFilterProofs.objstm_new_ref objs s items sts Hb Hne Hnd Hm Hok Hlen Hnp).
Qed.

Definition ex_ostm : ostm :=
  {| os_id := 20; os_members := [4; 7; 5]; os_items := ex_os_sts; os_hdr_end := [5]; os_filter := SfA85Flate 2 None;
     os_array := true; os_istyle := default_istyle |}.

(* non-vacuity: the three members of C02_example_objstm_any_spelling behind ASCII85 around stored-block Flate *)
Theorem C02_example_objstm_new_filtered :
  exists items,
    os_build ex_os_objs (os_members ex_ostm) (os_items ex_ostm) true = Some items /\
    LoadsFilterProofs.no_pred (os_filter ex_ostm) /\
    snd (objstm_new LoadsFilterProofs.decompress_ref (ObjStmFilterProofs.D ex_ostm items []) (fst (ObjStmFilterProofs.enc ex_ostm items))) =
    OsOk [((4, 0), OInt 5); ((5, 0), OName (bs "N x")); ((7, 0), ODict [(bs "K", OArr [ORef 1 0; OStr (bs "a") false])])].
Proof. eexists. split; [vm_compute; reflexivity|]. split; [exact I|vm_compute; reflexivity]. Qed.

(* WHOLE FILES WITH OBJECT STREAMS (and everything else a single-section file in the cross-reference STREAM format may hold),
   against c01's extended reader with Stream::decompress := decompress_ref.  For every style with a cross-reference stream
   -- any W, any Index partition, no filter or any of the filter chains incl. predictors (as C02_loads_stream_filtered_partial) --
   ANY NUMBER OF OBJECT STREAMS holding any subset of the generation-0 non-stream objects (every member in any spelling, any
   index white-space, the container under no filter / ASCII85 / ASCIIHex / stored-block Flate / ASCII85 around Flate, with Flate
   ANY PNG PREDICTOR (the payload filled with spaces to whole rows of the width the style chooses: C02_objstm_new_any_filter), its
   own dictionary in any spelling), top-level objects in any order and spelling, streams whose Length is written directly, as a
   reference to a TOP-LEVEL integer object (the reader finds it while parsing: eager) or as a reference to an integer KEPT IN AN
   OBJECT STREAM (the reader leaves the stream without content and Reader::read_stream_content restores it after the object
   streams are merged: deferred): load_ext returns a document with the version, the trailer = the stream dictionary as read
   back without Length / W / Index (and Filter / DecodeParms), and EXACTLY these objects:
     every top-level object as [loaded_top] (a stream with exactly its data, Length an integer),
     every member of every object stream as [member_val] (= [denote] of the object in the style its container gives it:
       C02_member_value), under generation 0,
     every container (Type ObjStm, decoded payload, followed by the spaces a predictor's rows added) and the cross-reference
       stream object under their own numbers,
     and nothing else.
   The three passes of the reader (read the entries in use; merge the object streams: members the table places in a container
   first, or_insert; restore the streams left without content) are proved format-independently in Proofs/LoadsLoopProofs.v.
   Named _partial only because C02_full below restates it by value for both formats; hypotheses: [cont_ok]: every container
   has at least one member and at most 65536 (lopdf keeps the index in its container as a u16), the payload's objects (with a
   predictor's padding) below 4 GiB, a predictor's row width a machine integer; (b)-(d) as for the other formats. *)
Theorem C02_loads_objstm_partial :
  forall (st : fstyle) (a : adoc) (x : xsstyle) (file : bytes),
    s_xref st = XStream x -> ref_write st a = Some file ->
    Forall (LoadsRefLenProofs.top_ok2 a) (LoadsObjStmFile.ptops st a) ->
    Forall (LoadsObjStmFile.cont_ok a) (s_ostms st) -> Utf.utf8_decode (a_version a) <> None ->
    (spell_wf (ODict (LoadsObjStmWhole.gxdf st a x)) (i_obj (xs_istyle x)) /\
     (nest (ODict (LoadsObjStmWhole.gxdf st a x)) <= MAX_DEPTH)%nat /\
     dict_get (a_trailer a) K_Prev = None /\ dict_get (a_trailer a) K_Encrypt = None /\
     dict_get (a_trailer a) K_Filter = None /\ dict_get (a_trailer a) K_Index = None) ->
    dict_get (a_trailer a) K_DecodeParms = None ->
    (LoadsObjStmFile.gxpos st a (LoadsObjStmWhole.contsof st a) <= u32_max /\ LoadsObjStmFile.sizeG st a x <= u32_max /\
     25 < LoadsObjStmFile.gxpos st a (LoadsObjStmWhole.contsof st a)) ->
    N.of_nat (LoadsObjStmFile.gw0 st a x (LoadsObjStmWhole.contsof st a) + LoadsObjStmFile.gw1 st a x (LoadsObjStmWhole.contsof st a) +
              LoadsObjStmFile.gw2 st a x (LoadsObjStmWhole.contsof st a)) <= Png.USIZE_MAX ->
    (9 + length (LoadsTableProofs.sx_mid (s_sx_eol1 st) (s_sx_sp1 st) (LoadsObjStmFile.gxpos st a (LoadsObjStmWhole.contsof st a))
                   (s_sx_sp2 st) (s_sx_eol2 st)) <= 25)%nat ->
    exists d, LoaderExt.load_ext LoadsFilterProofs.decompress_ref LoadsFilterProofs.can_ref file = LOk d XTStream /\
      d_version d = a_version a /\ d_trailer d = LoadsObjStmWhole.tGof st a x /\
      (forall tp, In tp (LoadsObjStmFile.ptops st a) -> lookup (d_objects d) (fst (fst tp)) = Some (LoadsTableProofs.loaded_top tp)) /\
      (forall s n, In s (s_ostms st) -> In n (os_members s) ->
                   lookup (d_objects d) (n, 0) = Some (LoadsObjStmProofs.member_val (a_objs a) s n)) /\
      (forall s, In s (s_ostms st) ->
                 exists d' k, lookup (d_objects d) (os_id s, 0) =
                              Some (OStream d' (ObjStmFilterProofs.payload s (LoadsObjStmFile.itemsof a s) ++ repeat x20 k))) /\
      lookup (d_objects d) (xs_id x, 0) =
        Some (stream_new (LoadsObjStmFile.ddG st a x (LoadsObjStmWhole.contsof st a) (snd (LoadsObjStmWhole.gxs_enc st a x))
                            (fst (LoadsObjStmWhole.gxs_enc st a x))) (fst (LoadsObjStmWhole.gxs_enc st a x))) /\
      (forall id o, lookup (d_objects d) id = Some o ->
         (exists tp, In tp (LoadsObjStmFile.ptops st a) /\ fst (fst tp) = id) \/
         (exists s n, In s (s_ostms st) /\ In n (os_members s) /\ id = (n, 0)) \/
         (exists s, In s (s_ostms st) /\ id = (os_id s, 0)) \/ id = (xs_id x, 0)).
Proof. exact LoadsObjStmWhole.loads_objstm_file. Qed.

(* what a member is loaded as: [denote] of the object of that number in the style the container gives it *)
Theorem C02_member_value :
  forall (objs : list (oid * obj)) (s : ostm) (n : N),
    (forall m, In m (os_members s) -> exists g o, find_obj objs m = Some (g, o)) -> In n (os_members s) ->
    exists g o y, find_obj objs n = Some (g, o) /\ In (o, y) (ObjStmSpellProofs.os_pairs objs (os_members s) (os_items s)) /\
                  LoadsObjStmProofs.member_val objs s n = denote o y.
Proof. intros objs s n. exact (LoadsObjStmProofs.member_val_denote objs (os_members s) (os_items s) n). Qed.

(* the reader's passes, format independent: the members of object streams that the table places in their container are
   added where no object is present yet, earlier containers first; a stream left without content whose Length refers
   to a loaded integer gets exactly its data *)
Theorem C02_merge_object_streams :
  forall (x : xmap) (ostm : list (N * objmap)) (m : objmap),
    (forall k mems io, In (k, mems) ostm -> In io mems -> LoaderExt.is_named x k (fst io) = true) ->
    forall i, lookup (LoaderExt.merge_object_streams x m ostm) i =
              match lookup m i with Some v => Some v | None => LoadsLoopProofs.find_member ostm i end.
Proof. exact LoadsLoopProofs.merge_all_named. Qed.

Theorem C02_zero_length_pass :
  forall (buf : bytes) (F : oid -> obj) (m : objmap) (p : LoaderExt.posmap) (zs : list oid),
    LoadsLoopProofs.deferred_ok buf F m p -> NoDup zs ->
    (forall id, In id zs -> exists d c, lookup m id = Some (OStream d c)) ->
    (forall id start, LoaderExt.pos_get p id = Some start -> In id zs) ->
    forall i, lookup (LoaderExt.zero_pass buf m p zs) i =
              match LoaderExt.pos_get p i with Some _ => Some (F i) | None => lookup m i end.
Proof. exact LoadsLoopProofs.zero_pass_lookup. Qed.

Definition ex_adoc_os : adoc :=
  {| a_version := bs "1.5"; a_trailer := [(bs "Root", ORef 7 0)];
     a_objs := ex_os_objs ++ [((3, 2), OStream [(bs "Length", ORef 4 0)] (bs "a(b" ++ [x0d; x0a])); ((9, 0), OStr (bs "top") true)] |}.
Definition ex_xs_os : xsstyle :=
  {| xs_id := 21; xs_w := (0%nat, 1%nat, 0%nat); xs_secs := [(3, 3); (7, 1); (9, 1); (20, 2)]; xs_omit_index := false;
     xs_filter := SfAHx true [7; 3]; xs_array := false; xs_istyle := default_istyle |}.
Definition ex_fstyle_os : fstyle :=
  {| s_junk := bs "junk" ++ [x0a]; s_hdr_eol := ECRLF; s_binary := Some ([xe2; xe3], ECR); s_order := [20; 3];
     s_objs := []; s_ostms := [ex_ostm]; s_xref := XStream ex_xs_os;
     s_sx_eol1 := ECRLF; s_sx_sp1 := 1; s_sx_sp2 := 2; s_sx_eol2 := ECR; s_final_eol := Some ELF |}.

(* non-vacuity: objects 4, 7, 5 in an object stream (ASCII85 around Flate, number 20) written first, a top-level stream 3 whose
   Length is "4 0 R" -- a member of the object stream: the deferred path --, a top-level string 9, the cross-reference stream 21
   in ASCIIHex with W [1 2 1] and Index [3 3 7 1 9 1 20 2]: every hypothesis holds, and the loader model returns stream 3 with
   its five bytes *)
Theorem C02_example_loads_objstm :
  ref_write ex_fstyle_os ex_adoc_os <> None /\
  Forall (LoadsRefLenProofs.top_ok2 ex_adoc_os) (LoadsObjStmFile.ptops ex_fstyle_os ex_adoc_os) /\
  Forall (LoadsObjStmFile.cont_ok ex_adoc_os) (s_ostms ex_fstyle_os) /\
  (spell_wf (ODict (LoadsObjStmWhole.gxdf ex_fstyle_os ex_adoc_os ex_xs_os)) (i_obj (xs_istyle ex_xs_os)) /\
   (nest (ODict (LoadsObjStmWhole.gxdf ex_fstyle_os ex_adoc_os ex_xs_os)) <= MAX_DEPTH)%nat) /\
  (LoadsObjStmFile.gxpos ex_fstyle_os ex_adoc_os (LoadsObjStmWhole.contsof ex_fstyle_os ex_adoc_os) <= u32_max /\
   LoadsObjStmFile.sizeG ex_fstyle_os ex_adoc_os ex_xs_os <= u32_max /\
   25 < LoadsObjStmFile.gxpos ex_fstyle_os ex_adoc_os (LoadsObjStmWhole.contsof ex_fstyle_os ex_adoc_os)) /\
  (9 + length (LoadsTableProofs.sx_mid (s_sx_eol1 ex_fstyle_os) (s_sx_sp1 ex_fstyle_os)
                 (LoadsObjStmFile.gxpos ex_fstyle_os ex_adoc_os (LoadsObjStmWhole.contsof ex_fstyle_os ex_adoc_os))
                 (s_sx_sp2 ex_fstyle_os) (s_sx_eol2 ex_fstyle_os)) <= 25)%nat /\
  (match LoaderExt.load_ext LoadsFilterProofs.decompress_ref LoadsFilterProofs.can_ref
           (match ref_write ex_fstyle_os ex_adoc_os with Some f => f | None => [] end) with
   | LOk d _ => lookup (d_objects d) (3, 2) = Some (OStream [(bs "Length", OInt 5)] (bs "a(b" ++ [x0d; x0a])) /\
                lookup (d_objects d) (7, 0) = Some (ODict [(bs "K", OArr [ORef 1 0; OStr (bs "a") false])])
   | _ => False
   end).
Proof.
  assert (Hx : LoadsObjStmFile.gxpos ex_fstyle_os ex_adoc_os (LoadsObjStmWhole.contsof ex_fstyle_os ex_adoc_os) = 373) by (vm_compute; reflexivity).
  assert (Hs : LoadsObjStmFile.sizeG ex_fstyle_os ex_adoc_os ex_xs_os = 22) by (vm_compute; reflexivity).
  assert (Hd : LoadsObjStmWhole.gxdf ex_fstyle_os ex_adoc_os ex_xs_os =
    [(bs "Type", OName (bs "XRef")); (bs "Size", OInt 22); (bs "W", OArr [OInt 1; OInt 2; OInt 1]);
     (bs "Index", OArr [OInt 3; OInt 3; OInt 7; OInt 1; OInt 9; OInt 1; OInt 20; OInt 2]); (bs "Root", ORef 7 0);
     (bs "Filter", OName (bs "ASCIIHexDecode")); (bs "Length", OInt 67)]) by (vm_compute; reflexivity).
  split; [vm_compute; discriminate|]. split.
  { assert (Ep : LoadsObjStmFile.ptops ex_fstyle_os ex_adoc_os =
                 [((3, 2), OStream [(bs "Length", ORef 4 0)] (bs "a(b" ++ [x0d; x0a]), default_istyle);
                  ((9, 0), OStr (bs "top") true, default_istyle)]) by (vm_compute; reflexivity).
    rewrite Ep. constructor; [|constructor; [|constructor]]; cbn;
      repeat match goal with
             | |- _ /\ _ => split
             | |- NoDup _ => repeat (constructor; [cbn; intuition discriminate|]); constructor
             | |- True => exact I
             | |- _ = true => reflexivity
             | |- _ = false => reflexivity
             | |- (_ <= _)%nat => vm_compute; lia
             | |- _ <= _ => unfold u32_max, u16_max; lia
             | |- _ \/ _ => right; exists 4, 0; split; [reflexivity|]; right; left; reflexivity
             end. }
  split.
  { constructor; [|constructor]. unfold LoadsObjStmFile.cont_ok.
    split; [discriminate|]. split; [vm_compute; discriminate|]. split.
    { assert (Eq : ObjStmSpellProofs.os_pairs (a_objs ex_adoc_os) (os_members ex_ostm) (os_items ex_ostm) =
                   ObjStmSpellProofs.os_pairs ex_os_objs [4; 7; 5] ex_os_sts) by (vm_compute; reflexivity).
      rewrite Eq. destruct C02_example_objstm_any_spelling as [it [_ [_ [H _]]]]. exact H. }
    split; [vm_compute; discriminate|]. split; [exact I|].
    assert (EdC : ObjStmFilterProofs.dC ex_ostm (LoadsObjStmFile.itemsof ex_adoc_os ex_ostm) =
                  [(bs "Type", OName (bs "ObjStm")); (bs "N", OInt 3); (bs "First", OInt 14);
                   (bs "Filter", OArr [OName (bs "ASCII85Decode"); OName (bs "FlateDecode")]); (bs "Length", OInt 169)]) by (vm_compute; reflexivity).
    rewrite EdC. split; [|vm_compute; lia].
    cbn. repeat match goal with
                | |- _ /\ _ => split
                | |- NoDup _ => repeat (constructor; [cbn; intuition discriminate|]); constructor
                | |- True => exact I
                | |- _ = true => reflexivity
                end. }
  split.
  { rewrite Hd. split; [|vm_compute; lia].
    cbn. repeat match goal with
                | |- _ /\ _ => split
                | |- NoDup _ => repeat (constructor; [cbn; intuition discriminate|]); constructor
                | |- True => exact I
                | |- _ = true => reflexivity
                | |- _ <= _ => unfold u32_max, u16_max; lia
                end. }
  split; [rewrite Hx, Hs; unfold u32_max; repeat split; lia|].
  split; [rewrite Hx; vm_compute; lia|].
  vm_compute. split; reflexivity.
Qed.

(* OBJECT STREAMS UNDER ANY FILTER CHAIN INCL. PNG PREDICTORS: the payload of an object stream has no row width of its own;
   the reference writer chooses one (Columns x Colors x BitsPerComponent), fills the payload with spaces to whole rows -- legal
   white-space after the last object -- and filters row by row with any row type per row.  Stream::decompress returns the
   padded payload and ObjectStream::new reads exactly the members from it (the padded payload is the payload of the same
   members with a longer white-space run after the last one: Proofs/ObjStmPredProofs.v pad_last / pad_sts). *)
Theorem C02_objstm_new_any_filter :
  forall (objs : list (oid * obj)) (s : ostm) (items : list ositem) (sts : list (nstyle * filler * ostyle * filler)),
    os_build objs (os_members s) (os_items s) true = Some items -> os_members s <> [] -> NoDup (os_members s) ->
    Forall (fun m => m <= u32_max) (os_members s) ->
    Forall (fun oy => ObjStmSpellProofs.mem_ok (fst oy) (snd oy)) (ObjStmSpellProofs.os_pairs objs (os_members s) (os_items s)) ->
    N.of_nat (length (flat_map oi_text items) + ObjStmPredProofs.pad_max (os_filter s)) <= u32_max ->
    ObjStmPredProofs.pred_row_ok (os_filter s) ->
    exists d' k, objstm_new LoadsFilterProofs.decompress_ref (ObjStmFilterProofs.D s items sts) (fst (ObjStmFilterProofs.enc s items)) =
                 ((d', ObjStmFilterProofs.payload s items ++ repeat x20 k), OsOk (ObjStmFilterProofs.members_val objs s items)).
Proof. exact ObjStmPredProofs.objstm_new_ref_any. Qed.

Definition ex_ostm_pred : ostm :=
  {| os_id := 20; os_members := [4; 7; 5]; os_items := ex_os_sts; os_hdr_end := [5];
     os_filter := SfFlate 7 (Some {| p_pred := 5; p_cols := 3; p_types := [4; 0; 2; 3; 1]; p_colors := 1; p_bpc16 := true; p_explicit := false |});
     os_array := false; os_istyle := default_istyle |}.

(* non-vacuity: the same three members behind Flate with Predictor 15, Columns 3, Colors 2, BitsPerComponent 16 (rows of 12 bytes,
   row types Paeth / None / Up / Average / Sub): the payload of 47 bytes is filled to 48 *)
Theorem C02_example_objstm_pred :
  exists items,
    os_build ex_os_objs (os_members ex_ostm_pred) (os_items ex_ostm_pred) true = Some items /\
    ObjStmPredProofs.pred_row_ok (os_filter ex_ostm_pred) /\ ObjStmPredProofs.pad_max (os_filter ex_ostm_pred) = 12%nat /\
    length (ObjStmFilterProofs.payload ex_ostm_pred items) = 47%nat /\
    objstm_new LoadsFilterProofs.decompress_ref (ObjStmFilterProofs.D ex_ostm_pred items []) (fst (ObjStmFilterProofs.enc ex_ostm_pred items)) =
    (([(bs "Type", OName (bs "ObjStm")); (bs "N", OInt 3); (bs "First", OInt 14); (bs "Length", OInt 48)],
      ObjStmFilterProofs.payload ex_ostm_pred items ++ [x20]),
     OsOk [((4, 0), OInt 5); ((5, 0), OName (bs "N x")); ((7, 0), ODict [(bs "K", OArr [ORef 1 0; OStr (bs "a") false])])]).
Proof. eexists. split; [vm_compute; reflexivity|]. split; [vm_compute; discriminate|]. repeat split; vm_compute; reflexivity. Qed.

(* the frame: Reader::read reduced to its pieces, for any file junk ++ F *)
Theorem C02_load_frame :
  forall (junk F pre xr : bytes) version x0 t0 objs,
    pdf_offset (junk ++ F) = blen junk -> F = pre ++ xr -> Loader.header F = Some version ->
    get_xref_start F = Some (blen pre) -> xref_and_trailer_table xr = XOk (x0, t0) ->
    dict_get t0 K_Prev = None -> dict_has t0 K_Encrypt = false -> xref_max_id x0 < u32_max ->
    read_entries F (x_entries x0) [] = SOk objs ->
    load (junk ++ F) =
    LOk {| d_version := version; d_binary_mark := read_binary_mark F; d_trailer := dict_swap_remove t0 K_Prev;
           d_objects := objs; d_max_id := xref_max_id x0 |} (x_type x0).
Proof. exact LoadsFrameProofs.load_frame. Qed.

(* ---------------------------------------------------------------------------------------------
   C02_full: THE PROPERTY, for every single-section file of the reference writer's style space -- both cross-reference
   formats, object streams, Length direct or by reference (resolved while parsing or after the object streams), every filter
   chain incl. every PNG predictor on the cross-reference stream and on object streams, every spelling, order and filler --
   against c01's extended reader LoaderExt.load_ext with Stream::decompress := decompress_ref (lopdf's plumbing on the Gallina
   decoders).  load_ext is conservative over Loader.load (C01_loader_ext_conservative), which answers LUnmodelled for three
   of these features: C02_full_over_load restates the theorem for Loader.load wherever that model answers.
   Loading the file yields the version, EXACTLY the objects the file defines -- each compared BY VALUE with [content a]
   (same_value: reals by decimal value, strings without their format, a stream: the same entries with Length the number of
   data bytes and the same data), none missing, none added except the file-structure objects the writer itself added
   (object-stream containers, the cross-reference stream: [structural_nums]) -- and the trailer: the document's entries and
   Size (the other keys of a cross-reference stream dictionary are bookkeeping).

   THE DOMAIN [C02_domain st a], every clause a restriction the property text implies or one of the open findings' classes:
   * [top_ok2] per top-level object / [mem_ok] per member of an object stream / [spell_wf] of the trailer resp. the
     cross-reference stream dictionary in the style's spelling: integers i64, reals canonical decimal texts, reference numbers
     u32 / u16, dictionary keys distinct, no stream inside an object (the data model's types), literal strings outside the two
     OPEN FINDINGS (C02-raw-eol: no LF spelled as raw CR / CR LF; C02-deep-parens: raw parentheses nested <= 100),
     nesting <= MAX_DEPTH (the reader's limit: C01-deep-nesting / C04's class); object numbers >= 1, generations u16; a
     stream's Length is its data length, written directly or as a reference to an integer object of the document; no document
     object is typed ObjStm;
   * the trailer holds none of Size / Prev / Encrypt (and, in the stream format, Filter / DecodeParms / Index): Size is the
     writer's, Prev = several sections (C02_loads_multi_partial), Encrypt = C05's domain, hybrid files are excluded by the text;
   * [cont_ok]: an object stream has at least one and at most 65536 members (lopdf keeps the index within the container as a
     u16), its payload (with the spaces a predictor's rows add) is below 4 GiB, a predictor's row width (Columns x Colors x
     BitsPerComponent / 8) is a machine integer;
   * sizes: file positions and object numbers fit u32 (files below 4 GiB), the widths sum a machine integer, the version is
     UTF-8 (lopdf's version is a String), the file is larger than 25 bytes and the startxref block keeps "startxref" within the
     25 bytes before "%%EOF" that Reader::get_xref_start searches ([sx_window]: padding of at most 12 spaces; 7.5.5 says the
     line shall contain the offset).
   --------------------------------------------------------------------------------------------- *)
Definition C02_domain (st : fstyle) (a : adoc) : Prop :=
  Forall (fun s => os_members s <> []) (s_ostms st) /\
  match s_xref st with
  | XTable t =>
    Forall (LoadsRefLenProofs.top_ok2 a) (LoadsTableProofs.tops st a) /\ Utf.utf8_decode (a_version a) <> None /\
    (spell_wf (ODict (LoadsTableProofs.trd a)) (t_trailer t) /\ (nest (ODict (LoadsTableProofs.trd a)) <= MAX_DEPTH)%nat /\
     dict_get (a_trailer a) RefWriter.K_Size = None /\ dict_get (a_trailer a) K_Prev = None /\ dict_get (a_trailer a) K_Encrypt = None) /\
    (LoadsTableProofs.xpos st a <= u32_max /\ LoadsTableProofs.size a <= u32_max /\ 25 < LoadsTableProofs.xpos st a) /\
    LoadsFullProofs.sx_window st (LoadsTableProofs.xpos st a)
  | XStream x =>
    Forall (LoadsRefLenProofs.top_ok2 a) (LoadsObjStmFile.ptops st a) /\ Forall (LoadsObjStmFile.cont_ok a) (s_ostms st) /\
    Utf.utf8_decode (a_version a) <> None /\
    (spell_wf (ODict (LoadsObjStmWhole.gxdf st a x)) (i_obj (xs_istyle x)) /\
     (nest (ODict (LoadsObjStmWhole.gxdf st a x)) <= MAX_DEPTH)%nat /\
     dict_get (a_trailer a) K_Prev = None /\ dict_get (a_trailer a) K_Encrypt = None /\
     dict_get (a_trailer a) K_Filter = None /\ dict_get (a_trailer a) K_Index = None) /\
    dict_get (a_trailer a) K_DecodeParms = None /\ dict_get (a_trailer a) RefWriter.K_Size = None /\
    (LoadsObjStmFile.gxpos st a (LoadsObjStmWhole.contsof st a) <= u32_max /\ LoadsObjStmFile.sizeG st a x <= u32_max /\
     25 < LoadsObjStmFile.gxpos st a (LoadsObjStmWhole.contsof st a)) /\
    N.of_nat (LoadsObjStmFile.gw0 st a x (LoadsObjStmWhole.contsof st a) + LoadsObjStmFile.gw1 st a x (LoadsObjStmWhole.contsof st a) +
              LoadsObjStmFile.gw2 st a x (LoadsObjStmWhole.contsof st a)) <= Png.USIZE_MAX /\
    LoadsFullProofs.sx_window st (LoadsObjStmFile.gxpos st a (LoadsObjStmWhole.contsof st a))
  end.

(* the numbers of the objects the writer adds for its own purposes: object-stream containers, the xref stream *)
Definition structural_nums (st : fstyle) : list N :=
  map os_id (s_ostms st) ++ match s_xref st with XStream x => [xs_id x] | XTable _ => [] end.

Theorem C02_full :
  forall (st : fstyle) (a : adoc) (file : bytes),
    C02_domain st a -> ref_write st a = Some file ->
    exists d t,
      LoaderExt.load_ext LoadsFilterProofs.decompress_ref LoadsFilterProofs.can_ref file = LOk d t /\
      d_version d = a_version a /\
      (* exactly the objects the file defines, each with the value it defines *)
      (forall id, In (fst id) (structural_nums st) \/
                  match lookup (d_objects d) id, lookup (content a) id with
                  | Some o, Some o' => same_value o' o
                  | None, None => True
                  | _, _ => False
                  end) /\
      (* the trailer: the document's entries and Size, plus cross-reference stream bookkeeping *)
      (forall k, In k [bs "Type"; bs "W"; bs "Index"; bs "Length"; bs "Filter"; bs "DecodeParms"] \/
                 match dict_get (d_trailer d) k, dict_get (a_trailer a ++ [(bs "Size", OInt (Z.of_N (1 + max_num
                         (map (fun io => fst (fst io)) (a_objs a) ++ structural_nums st))))]) k with
                 | Some o, Some o' => same_value o' o
                 | None, None => True
                 | _, _ => False
                 end).
Proof. exact LoadsFullProofs.full. Qed.

(* the same for Model/Loader.v's load (Reader::read without the three features), wherever that model answers *)
Theorem C02_full_over_load :
  forall (st : fstyle) (a : adoc) (file : bytes),
    C02_domain st a -> ref_write st a = Some file -> load file <> LUnmodelled ->
    exists d t,
      load file = LOk d t /\ d_version d = a_version a /\
      (forall id, In (fst id) (structural_nums st) \/
                  match lookup (d_objects d) id, lookup (content a) id with
                  | Some o, Some o' => same_value o' o
                  | None, None => True
                  | _, _ => False
                  end) /\
      (forall k, In k [bs "Type"; bs "W"; bs "Index"; bs "Length"; bs "Filter"; bs "DecodeParms"] \/
                 match dict_get (d_trailer d) k, dict_get (a_trailer a ++ [(bs "Size", OInt (Z.of_N (1 + max_num
                         (map (fun io => fst (fst io)) (a_objs a) ++ structural_nums st))))]) k with
                 | Some o, Some o' => same_value o' o
                 | None, None => True
                 | _, _ => False
                 end).
Proof.
  intros st a file Hd Hw Hl. destruct (C02_full st a file Hd Hw) as [d [t H]]. exists d, t.
  rewrite <- (LoaderExtProofs.load_ext_agrees LoadsFilterProofs.decompress_ref LoadsFilterProofs.can_ref file Hl). exact H.
Qed.

(* what stays outside C02_full, by name:
   (a) files of SEVERAL SECTIONS (ref_write_multi: Prev chain, objects listed again, superseded definitions) are not single-section
       files: they are C02_loads_multi_mixed below (same conclusion), for every such file WITHOUT object streams; with object
       streams: one-part files are C02_loads_multi_objstm_partial (C02_full_all_partial is the union of everything proved); for two
       or more parts the format-independent half (C02_prev_chain, C02_merge_newest_wins, C02_load_chain_frame,
       C02_merge_object_streams) and the writer's half of the merged table (C02_multi_members_named, C02_multi_known_current_file)
       are proved, the rest is checked by correspondence and direct verdict (load-multi* cases).
   (b) the class of C02-deep-parens is stated on the RAW parentheses of the spelling (raw_depth_ok), the check's class
       Known_deep_parens on all parentheses of the string: a style that escapes closing parentheses while leaving more than
       100 opening ones raw is in the theorem's class but not in the check's (not drawn by the generator). *)
(* FILES OF SEVERAL SECTIONS, the part that is format independent (Proofs/LoadsLoopProofs.v).  A chain of cross-reference
   sections behind the one startxref names -- each named by the Prev entry of the one before it, offsets decreasing (an
   appended file), none carrying XRefStm -- is read by the reader's Prev loop to the fold of Xref::merge over the sections,
   newest first (C02_prev_chain), i.e. for every object number the entry of the NEWEST section that has one
   (C02_merge_newest_wins: a superseded definition is not the one that is loaded, an object listed again keeps the newer
   entry), and Reader::read on such a file is the three passes over that merged table (C02_load_chain_frame), with the
   trailer of the newest section minus Prev. *)
Theorem C02_prev_chain :
  forall dec can (buf : bytes) (rest : list LoadsLoopProofs.csec) (fuel : nat) (x : xref) (t : dict) (seen : list Z) (hi : N),
    LoadsLoopProofs.chain_ok dec can buf hi rest -> hi <= blen buf + 1 -> dict_get t K_XRefStm = None ->
    (forall q, In q seen -> (Z.of_N hi <= q)%Z) -> (length rest <= fuel)%nat ->
    LoaderExt.prev_loop_x dec can fuel buf x t (LoadsLoopProofs.prev_of rest) seen =
    SOk (fold_left xref_merge (map (fun s => fst (snd s)) rest) x, t).
Proof. exact LoadsLoopProofs.prev_loop_chain. Qed.

Theorem C02_merge_newest_wins :
  forall (l : list xref) (x : xref) (k : N),
    xget (x_entries (fold_left xref_merge l x)) k = LoadsLoopProofs.first_entry (x :: l) k.
Proof. exact LoadsLoopProofs.xget_merge_chain. Qed.

Theorem C02_load_chain_frame :
  forall dec can (buf : bytes) (x : xmap) (objf : N -> N -> obj) (posf : N -> N -> option N) (memf : N -> option objmap)
         (junk Fb : bytes) (version : bytes) (xs : N) (x0 : xref) (t0 : dict) (rest : list LoadsLoopProofs.csec),
    pdf_offset (junk ++ Fb) = blen junk -> Fb = buf ->
    Loader.header Fb = Some version -> get_xref_start Fb = Some xs -> xs <= blen buf ->
    LoaderExt.xref_and_trailer_x dec can Fb xs = SOk (x0, t0) -> dict_get (dict_swap_remove t0 K_Prev) K_XRefStm = None ->
    dict_get t0 K_Prev = LoadsLoopProofs.prev_of rest -> LoadsLoopProofs.chain_ok dec can buf xs rest ->
    x_entries (fold_left xref_merge (map (fun s => fst (snd s)) rest) x0) = x ->
    dict_has (dict_swap_remove t0 K_Prev) K_Encrypt = false ->
    xref_max_id (fold_left xref_merge (map (fun s => fst (snd s)) rest) x0) < u32_max ->
    (forall n off g, In (n, XNormal off g) x -> LoadsLoopProofs.entry_spec dec can buf x objf posf memf n off g) ->
    LoaderExt.load_ext dec can (junk ++ Fb) =
    LOk {| d_version := version; d_binary_mark := read_binary_mark Fb; d_trailer := dict_swap_remove t0 K_Prev;
           d_objects := LoaderExt.zero_pass buf
                          (LoaderExt.merge_object_streams x (fold_left (LoadsFrameProofs.ins objf) x [])
                             (flat_map (LoadsLoopProofs.ostm_of memf) x))
                          (fold_left (LoadsLoopProofs.pstep posf) x []) (flat_map (LoadsLoopProofs.zero_of objf memf) x);
           d_max_id := xref_max_id (fold_left xref_merge (map (fun s => fst (snd s)) rest) x0) |} (x_type x0).
Proof. exact LoadsLoopProofs.load_ext_frame_chain. Qed.

(* the statement for the WHOLE style space of ref_write_multi stays a Definition -- and WITHOUT A DOMAIN IT IS FALSE
   (C02_loads_multi_partial_needs_domain below: the reference writer accepts a superseded definition of a MEMBER's number that no
   later part overrides).  Proved below: C02_loads_multi_table (every part a table), C02_loads_multi_mixed (every part a table or a
   cross-reference stream with any filter chain, mixed chains, Length references across parts; objects AND trailer) and
   C02_loads_multi_objstm_partial (that, or one part with ANY object streams), and C02_loads_multi_objstm (round 7): object
   streams in ANY of the parts of a file of any number of parts, under the domain clause part_dom.  C02_full_all is the union *)
Definition C02_loads_multi_partial : Prop :=
  forall (st : fstyle) (parts : list mpart) (a : adoc) (file : bytes),
    ref_write_multi st parts a = Some file ->
    exists d t, LoaderExt.load_ext LoadsFilterProofs.decompress_ref LoadsFilterProofs.can_ref file = LOk d t /\
                d_version d = a_version a /\
                (forall id o, lookup (content a) id = Some o -> exists o', lookup (d_objects d) id = Some o' /\ same_value o o').

(* ---------------------------------------------------------------------------------------------
   FILES OF SEVERAL SECTIONS, the writer-specific half for cross-reference TABLES (Proofs/LoadsMultiProofs.v, LoadsMultiFull.v):
   every part of ref_write_multi = objects, a table with its trailer (Size so far, Prev = the section of the part before),
   startxref, %%EOF -- the layout of a file that was appended to.  A part lists the objects it holds, may list objects of
   EARLIER parts again (mp_relist: the entry they have, taken from the merge so far), and may hold SUPERSEDED definitions
   (mp_old: same number and generation as an object whose current definition is in a LATER part); the sub-sections of every
   part are the style's own (any sectioning that covers what the part defines) or the maximal runs; every part has its own
   end-of-lines, fillers, object order and startxref block; bytes before the header, comments holding "%%EOF" / "startxref"
   as in C02_loads_table_partial.  Loading the file yields the version and EXACTLY the objects the document defines, each with
   the value it defines (same_value against [content a]): the superseded bodies, which are in the file and are listed by the
   section of their own part, are NOT delivered; an object listed again keeps its definition; nothing is added.
   Proof: the invariant LoadsMultiProofs.Inv is carried along write_parts -- the sections written so far form a chain
   (chain_ok: each decodes, at its offset in the prefix followed by ANY bytes, to the table its sub-sections denote and a
   trailer whose Prev names the section before); [known] is the merge of that chain; an entry of the merge whose number no
   remaining part defines names the CURRENT definition at the byte where it starts; every current object of a finished part
   has an entry -- then C02_load_chain_frame on the merged table (C02_prev_chain, C02_merge_newest_wins).
   THE DOMAIN [C02_multi_domain_table st parts a file]:
   * every part uses the table format and there are no object streams (cross-reference STREAM parts, mixed chains and object
     streams across parts: see C02_loads_multi_partial below);
   * [top_ok] per object: the data model's types, the two open findings' classes, nesting <= MAX_DEPTH, Length direct;
   * [trailer_dom]: the trailer (the document's entries, Size, Prev) is spelled legally in the part's trailer style whatever
     u32 values Size and Prev take; the document's trailer holds none of Size / Prev / Encrypt / XRefStm;
   * object numbers and the file length fit u32; the version is UTF-8; the first section starts beyond byte 25 and the last
     part's startxref block keeps "startxref" within Reader::get_xref_start's 25-byte window for every offset inside the file.
   --------------------------------------------------------------------------------------------- *)
Definition C02_multi_domain_table (st : fstyle) (parts : list mpart) (a : adoc) (file : bytes) : Prop :=
  s_ostms st = [] /\
  Forall (fun p => exists t, mp_xref p = XTable t /\ LoadsMultiProofs.trailer_dom a t) parts /\
  Forall LoadsTableProofs.top_ok (LoadsTableProofs.tops st a) /\ Utf.utf8_decode (a_version a) <> None /\
  (dict_get (a_trailer a) RefWriter.K_Size = None /\ dict_get (a_trailer a) K_Prev = None /\
   dict_get (a_trailer a) K_Encrypt = None /\ dict_get (a_trailer a) K_XRefStm = None) /\
  1 + max_num (map (fun io => fst (fst io)) (a_objs a)) <= u32_max /\ blen file <= u32_max /\
  match parts with
  | p :: _ => 25 < LoadsMultiProofs.p_xpos st a p (blen (RefWriter.header st (a_version a)))
  | [] => True
  end /\
  (forall lastp xs, last_part parts = Some lastp -> xs <= blen file ->
     (9 + length (LoadsTableProofs.sx_mid (s_sx_eol1 (with_part st lastp true)) (s_sx_sp1 (with_part st lastp true)) xs
                    (s_sx_sp2 (with_part st lastp true)) (s_sx_eol2 (with_part st lastp true))) <= 25)%nat).

Theorem C02_loads_multi_table :
  forall (st : fstyle) (parts : list mpart) (a : adoc) (file : bytes),
    C02_multi_domain_table st parts a file -> ref_write_multi st parts a = Some file ->
    exists d, LoaderExt.load_ext LoadsFilterProofs.decompress_ref LoadsFilterProofs.can_ref file = LOk d XTTable /\
              d_version d = a_version a /\
              (forall id, match lookup (d_objects d) id, lookup (content a) id with
                          | Some o, Some o' => same_value o' o
                          | None, None => True
                          | _, _ => False
                          end).
Proof. exact (LoadsMultiFull.loads_multi_table_full LoadsFilterProofs.decompress_ref LoadsFilterProofs.can_ref). Qed.

(* non-vacuity: two parts.  Part 1 holds object 3 and a SUPERSEDED definition of object 7, three sub-sections; part 2 holds the
   current object 7 and lists object 3 again, two sub-sections, Prev; bytes before the header, comments, padded startxref *)
(* the example lives in Proofs/LoadsMultiExample.v (ex_fstyle / ex_adoc as above, ex_parts_m the two parts) *)
Theorem C02_example_loads_multi_table :
  exists file, ref_write_multi LoadsMultiExample.ex_fstyle LoadsMultiExample.ex_parts_m LoadsMultiExample.ex_adoc = Some file /\
               C02_multi_domain_table LoadsMultiExample.ex_fstyle LoadsMultiExample.ex_parts_m LoadsMultiExample.ex_adoc file.
Proof. exact LoadsMultiExample.example_loads_multi_table. Qed.

(* ---------------------------------------------------------------------------------------------
   FILES OF SEVERAL SECTIONS, EITHER FORMAT PER PART -- MIXED CHAINS (Proofs/LoadsMultiXSec.v, LoadsMultiMixed.v,
   LoadsMultiMixedFull.v).  Every part of ref_write_multi ends with a cross-reference TABLE and trailer, or with a
   cross-reference STREAM: ANY W (W[0] = 0 / W[2] = 0 where legal, widened where too narrow), ANY Index partition or the maximal
   runs, Index left out when it is the default, no filter or ANY FILTER CHAIN of the reference writer (ASCII85, ASCIIHex, Flate in
   stored blocks, ASCII85 around Flate, with Flate every PNG predictor / row types / geometry: C02_filter_chain_decodes), the
   stream object in any spelling, its dictionary holding the document's trailer entries, Size and Prev; a table may name a stream
   by Prev and vice versa.  The cross-reference stream of
   a part is one more top-level object of that part and lists ITSELF; the loader keeps these objects (as it does for a
   single-section file, C02_loads_stream_partial), so the statement excepts their numbers [part_xids parts] exactly as C02_full
   excepts [structural_nums].  For every other identifier the loaded object and [content a] agree by value: none missing, none
   added, superseded definitions not delivered, an object listed again keeps its definition.
   A stream's Length is direct or a reference to an integer object of the document, written in ANY part (before or after the
   stream): Reader::read resolves it through the MERGED table while parsing (C02_length_ref_eager; LoadsMultiMixed.indirect_x_top2).
   THE DOMAIN [C02_multi_domain st parts a file]: as C02_multi_domain_table with [top_ok2] (Length direct or by reference) per
   object, and [parts_ok] = per part, AT THE VALUES ITS LAYOUT
   HAS (position, Prev, the merge so far, the highest number so far): a table part: [trailer_dom]; a stream part: with a filter the entry width
   is a machine integer and the document's trailer has no DecodeParms (the loader is load_ext with Stream::decompress = decompress_ref),
   and the stream dictionary (Type, Size, W, Index, the document's trailer entries, Prev, Filter / DecodeParms, Length) is spelled legally in the style of
   the stream object ([spell_wf], nesting <= MAX_DEPTH); the document's trailer holds none of Size / Prev / Encrypt / XRefStm /
   Index / Filter; object numbers incl. the cross-reference streams' fit u32; for the LAST part
   [parts_ok] also asks [sx_win]: its startxref block keeps "startxref" within Reader::get_xref_start's 25-byte window at the offset it
   actually carries (as [sx_window] in C02_domain).
   --------------------------------------------------------------------------------------------- *)
Definition C02_multi_domain (st : fstyle) (parts : list mpart) (a : adoc) (file : bytes) : Prop :=
  s_ostms st = [] /\
  LoadsMultiMixed.parts_ok st a LoadsFilterProofs.decompress_ref LoadsFilterProofs.can_ref (part_xids parts) parts
    (blen (RefWriter.header st (a_version a))) None [] 0 /\
  Forall (LoadsRefLenProofs.top_ok2 a) (LoadsTableProofs.tops st a) /\ Utf.utf8_decode (a_version a) <> None /\
  (dict_get (a_trailer a) RefWriter.K_Size = None /\ dict_get (a_trailer a) K_Prev = None /\
   dict_get (a_trailer a) K_Encrypt = None /\ dict_get (a_trailer a) K_XRefStm = None /\
   dict_get (a_trailer a) K_Index = None /\ dict_get (a_trailer a) K_Filter = None) /\
  1 + max_num (map (fun io => fst (fst io)) (a_objs a) ++ part_xids parts) <= u32_max /\ blen file <= u32_max /\
  match parts with
  | p :: _ => 25 < LoadsMultiMixed.p_xpos st a p (blen (RefWriter.header st (a_version a)))
  | [] => True
  end.

Theorem C02_loads_multi_mixed :
  forall (st : fstyle) (parts : list mpart) (a : adoc) (file : bytes),
    C02_multi_domain st parts a file -> ref_write_multi st parts a = Some file ->
    exists d t, LoaderExt.load_ext LoadsFilterProofs.decompress_ref LoadsFilterProofs.can_ref file = LOk d t /\
                d_version d = a_version a /\
                (* exactly the objects the file defines, each with the value it defines *)
                (forall id, In (fst id) (part_xids parts) \/
                            match lookup (d_objects d) id, lookup (content a) id with
                            | Some o, Some o' => same_value o' o
                            | None, None => True
                            | _, _ => False
                            end) /\
                (* the trailer (the newest section's, without Prev): the document's entries and Size = 1 + the highest object number,
                   plus cross-reference stream bookkeeping -- the clause of C02_full *)
                (forall k, In k [bs "Type"; bs "W"; bs "Index"; bs "Length"; bs "Filter"; bs "DecodeParms"] \/
                           match dict_get (d_trailer d) k, dict_get (a_trailer a ++ [(bs "Size", OInt (Z.of_N (1 + max_num
                                   (map (fun io => fst (fst io)) (a_objs a) ++ part_xids parts))))]) k with
                           | Some o, Some o' => same_value o' o
                           | None, None => True
                           | _, _ => False
                           end).
Proof. exact (LoadsMultiMixedFull.loads_multi_mixed_full LoadsFilterProofs.decompress_ref LoadsFilterProofs.can_ref). Qed.

(* non-vacuity: part 1 = object 3, a superseded definition of object 7, a cross-reference STREAM (object 9, W [0 1 0] widened,
   three sub-sections); part 2 = the current object 7, object 3 listed again, a TABLE whose trailer's Prev names the stream *)
Theorem C02_example_loads_multi_mixed :
  exists file, ref_write_multi LoadsMultiExample.ex_fstyle LoadsMultiExample.ex_parts_x LoadsMultiExample.ex_adoc = Some file /\
               C02_multi_domain LoadsMultiExample.ex_fstyle LoadsMultiExample.ex_parts_x LoadsMultiExample.ex_adoc file.
Proof. exact LoadsMultiExample.example_loads_multi_mixed. Qed.

(* non-vacuity of the filtered ending: the same chain, the cross-reference stream of part 1 encoded ASCII85 around Flate with a PNG
   predictor (Predictor 12, row types 4 1 3), Filter and DecodeParms written as arrays *)
Theorem C02_example_loads_multi_filtered :
  exists file, ref_write_multi LoadsMultiExample.ex_fstyle LoadsMultiExample.ex_parts_f LoadsMultiExample.ex_adoc = Some file /\
               C02_multi_domain LoadsMultiExample.ex_fstyle LoadsMultiExample.ex_parts_f LoadsMultiExample.ex_adoc file.
Proof. exact LoadsMultiExample.example_loads_multi_filtered. Qed.

(* non-vacuity of the Length reference ACROSS parts: the stream (object 3) is in part 1, its Length "4 0 R" names the integer object 4
   that part 2 holds; part 1 ends with the filtered cross-reference stream, part 2 with a table *)
Theorem C02_example_loads_multi_reflen :
  exists file, ref_write_multi LoadsMultiExample.ex_fstyle LoadsMultiExample.ex_parts_rl LoadsMultiExample.ex_adoc_rl = Some file /\
               C02_multi_domain LoadsMultiExample.ex_fstyle LoadsMultiExample.ex_parts_rl LoadsMultiExample.ex_adoc_rl file.
Proof. exact LoadsMultiExample.example_loads_multi_reflen. Qed.

(* non-vacuity of C02_full: the object-stream example (stream format) and the Length-reference example (table format)
   are in the domain *)
Theorem C02_example_full :
  C02_domain ex_fstyle_os ex_adoc_os /\ C02_domain ex_fstyle ex_adoc_rl.
Proof.
  split.
  - destruct C02_example_loads_objstm as [_ [H1 [H2 [H3 [H4 [H5 _]]]]]].
    unfold C02_domain. split; [constructor; [discriminate|constructor]|].
    change (s_xref ex_fstyle_os) with (XStream ex_xs_os). cbv iota.
    split; [exact H1|]. split; [exact H2|]. split; [vm_compute; discriminate|].
    split; [split; [exact (proj1 H3)|split; [exact (proj2 H3)|repeat split; reflexivity]]|].
    split; [reflexivity|]. split; [reflexivity|]. split; [exact H4|]. split; [vm_compute; discriminate|exact H5].
  - destruct C02_example_loads_table_reflen as [_ [H1 _]].
    unfold C02_domain. split; [constructor|].
    change (s_xref ex_fstyle) with (XTable ex_tstyle). cbv iota.
    assert (Hx : LoadsTableProofs.xpos ex_fstyle ex_adoc_rl = 136) by (vm_compute; reflexivity).
    assert (Hs : LoadsTableProofs.size ex_adoc_rl = 8) by (vm_compute; reflexivity).
    split; [exact H1|]. split; [vm_compute; discriminate|]. split.
    + repeat split; try reflexivity; try (cbn; unfold u32_max, u16_max; lia); try (vm_compute; lia).
      cbn. constructor; [intros [H|[]]; discriminate|]. constructor; [intros []|constructor].
    + unfold LoadsFullProofs.sx_window. rewrite Hx, Hs. split; [unfold u32_max; repeat split; lia|]. vm_compute. lia.
Qed.

(* ---------------------------------------------------------------------------------------------
   ref_write_multi WITH OBJECT STREAMS (Proofs/LoadsMultiObjStm.v, LoadsMultiAll.v).
   C02_multi_one_part_is_single: a file of ONE part of ref_write_multi -- with whatever object streams the style asks for; the part
   then holds every container and its section lists every member as a type-2 entry -- IS the single-section file of the part's
   style (ref_write (with_part st p true) a): same bytes.  (The part must not list object 0 "again": with nothing before it
   ref_write_multi writes the entry of object 0 with generation 0 then, ref_write always with 65535.)
   C02_loads_multi_objstm_partial: ONE statement for every file of ref_write_multi proved so far, object streams included, with
   the conclusion of C02_full; the structural numbers of a file of several parts are the object-stream containers and the
   cross-reference streams of ALL parts.  Domain [C02_multi_domain_all]: C02_multi_domain (several parts, either format per
   part, no object streams) OR one part with C02_domain of the part's style (any object streams, any filter chain, deferred
   Length: everything of C02_full).
   PARTIAL in that object streams in a file of TWO OR MORE parts are outside this domain: they are C02_loads_multi_objstm
   (round 7, below), and C02_full_all is the union. *)
Theorem C02_multi_one_part_is_single :
  forall (st : fstyle) (p : mpart) (a : adoc) (file : bytes),
    mem_N 0 (mp_relist p) = false ->
    ref_write_multi st [p] a = Some file -> ref_write (with_part st p true) a = Some file.
Proof. exact LoadsMultiObjStm.multi_single. Qed.

Definition C02_multi_domain_all (st : fstyle) (parts : list mpart) (a : adoc) (file : bytes) : Prop :=
  C02_multi_domain st parts a file \/
  exists p, parts = [p] /\ mem_N 0 (mp_relist p) = false /\ C02_domain (with_part st p true) a.

Theorem C02_loads_multi_objstm_partial :
  forall (st : fstyle) (parts : list mpart) (a : adoc) (file : bytes),
    C02_multi_domain_all st parts a file -> ref_write_multi st parts a = Some file ->
    exists d t, LoaderExt.load_ext LoadsFilterProofs.decompress_ref LoadsFilterProofs.can_ref file = LOk d t /\
                d_version d = a_version a /\
                (forall id, In (fst id) (map os_id (s_ostms st) ++ part_xids parts) \/
                            match lookup (d_objects d) id, lookup (content a) id with
                            | Some o, Some o' => same_value o' o
                            | None, None => True
                            | _, _ => False
                            end) /\
                (forall k, In k [bs "Type"; bs "W"; bs "Index"; bs "Length"; bs "Filter"; bs "DecodeParms"] \/
                           match dict_get (d_trailer d) k, dict_get (a_trailer a ++ [(bs "Size", OInt (Z.of_N (1 + max_num
                                   (map (fun io => fst (fst io)) (a_objs a) ++ map os_id (s_ostms st) ++ part_xids parts))))]) k with
                           | Some o, Some o' => same_value o' o
                           | None, None => True
                           | _, _ => False
                           end).
Proof. exact LoadsMultiAll.loads_multi_all. Qed.

(* non-vacuity of the object-stream branch: the file of C02_example_loads_objstm written by ref_write_multi as one part *)
Definition ex_part_os : mpart :=
  {| mp_nums := [3; 9; 20]; mp_old := []; mp_relist := []; mp_order := [20; 3]; mp_xref := XStream ex_xs_os;
     mp_sx := (ECRLF, 1%nat, 2%nat, ECR, Some ELF) |}.
Theorem C02_example_loads_multi_objstm :
  exists file, ref_write_multi ex_fstyle_os [ex_part_os] ex_adoc_os = Some file /\
               C02_multi_domain_all ex_fstyle_os [ex_part_os] ex_adoc_os file.
Proof.
  assert (E : ref_write_multi ex_fstyle_os [ex_part_os] ex_adoc_os <> None) by (vm_compute; discriminate).
  destruct (ref_write_multi ex_fstyle_os [ex_part_os] ex_adoc_os) as [f|]; [|contradiction]. exists f. split; [reflexivity|].
  right. exists ex_part_os. split; [reflexivity|]. split; [reflexivity|].
  change (with_part ex_fstyle_os ex_part_os true) with ex_fstyle_os. exact (proj1 C02_example_full).
Qed.

(* FILES OF SEVERAL PARTS WITH OBJECT STREAMS, the writer half of the hypothesis of C02_merge_object_streams ("every member is one
   the MERGED table places in its container"): the table write_parts carries along ([known] = the merge of the sections written so
   far, newest first; LoadsMultiObjStm.final_known is its value after the last part) gives every member of an object stream the
   type-2 entry its own part wrote -- no later part overrides it: a later part lists a number only when it holds a top-level
   object, a cross-reference stream, a member of one of its own containers (the containers of different parts are different and
   compressed_nums is duplicate free) or a superseded definition, and a superseded definition of a member's number would need a
   LATER part that "defines" the number, which [part_dom] excludes (a part's mp_nums names no member of an object stream; neither
   does a cross-reference stream's number).  [tops] are the top-level objects (none has a member's number). *)
Theorem C02_multi_members_named :
  forall (st : fstyle) (a : adoc) (tops : list LoadsTableProofs.top),
    NoDup (compressed_nums st) ->
    (forall t, In t tops -> ~ In (fst (fst (fst t))) (compressed_nums st)) ->
    forall parts pos prev known maxnum r,
      write_parts st a tops parts pos prev known maxnum = Some r ->
      Forall (LoadsMultiObjStm.part_dom st) parts -> NoDup (flat_map mp_nums parts) ->
      forall p n c k, In p parts -> find_comp (part_containers st p) n = Some (c, k) ->
        lookup_entry (LoadsMultiObjStm.final_known st a tops parts pos prev known maxnum) n = Some (SComp c k).
Proof. exact LoadsMultiObjStm.known_names_members. Qed.

(* the same about ref_write_multi itself: its own checks (numbers duplicate free, every member an object of the document, every
   top-level object placed in exactly one part) supply every hypothesis but the clause on mp_nums *)
Theorem C02_multi_members_named_file :
  forall (st : fstyle) (parts : list mpart) (a : adoc) (file : bytes),
    ref_write_multi st parts a = Some file ->
    (forall p n, In p parts -> In n (mp_nums p) -> ~ In n (compressed_nums st)) ->
    forall p n c k, In p parts -> find_comp (part_containers st p) n = Some (c, k) ->
      lookup_entry (LoadsMultiObjStm.final_known st a (LoadsMultiObjStm.multi_tops st a) parts
                      (N.of_nat (length (RefWriter.header st (a_version a)))) None [] 0) n = Some (SComp c k).
Proof. exact LoadsMultiObjStm.multi_members_named. Qed.

(* the same for EVERY number (LoadsMultiObjStm.v part C): [defs st p] = what part p currently defines (the numbers in mp_nums, its
   cross-reference stream, the members of its object streams).  A number no remaining part defines keeps the entry it has
   (C02_multi_known_untouched); what a part lists as its own ([g_here]: a top-level object, its cross-reference stream, a member --
   entry [g_ehere]: the offset inside the part resp. container and index) and no LATER part defines keeps that entry to the end
   (C02_multi_known_keeps_current) -- so a superseded definition, which its part lists too, is overridden exactly by the part that
   holds the current one, and nothing else is. *)
Theorem C02_multi_known_untouched :
  forall (st : fstyle) (a : adoc) (tops : list LoadsTableProofs.top) parts pos prev known maxnum r,
    write_parts st a tops parts pos prev known maxnum = Some r ->
    forall n, ~ In n (flat_map (LoadsMultiObjStm.defs st) parts) ->
      lookup_entry (LoadsMultiObjStm.final_known st a tops parts pos prev known maxnum) n = lookup_entry known n.
Proof. exact LoadsMultiObjStm.final_known_untouched. Qed.

Theorem C02_multi_known_keeps_current :
  forall (st : fstyle) (a : adoc) (tops : list LoadsTableProofs.top) p rest pos prev known maxnum r n,
    write_parts st a tops (p :: rest) pos prev known maxnum = Some r ->
    LoadsMultiObjStm.g_here st a tops p pos n = true -> ~ In n (flat_map (LoadsMultiObjStm.defs st) rest) ->
    lookup_entry (LoadsMultiObjStm.final_known st a tops (p :: rest) pos prev known maxnum) n =
    Some (LoadsMultiObjStm.g_ehere st a tops p pos n).
Proof. exact LoadsMultiObjStm.known_keeps_current. Qed.

(* for ref_write_multi itself: once a part's mp_nums names top-level objects only (the objects outside object streams, and the
   containers: [LoadsMultiObjStm.multi_tops]), the writer's own checks make the parts define DISJOINT sets
   (C02_multi_defs_disjoint: top-level objects placed once, cross-reference stream numbers distinct from every object, members of
   different containers distinct, containers of different parts different), and then EVERY number a part defines -- top-level
   object, cross-reference stream, member -- ends with the entry that part wrote, at the position the part has in the file
   ([pos_at ... (length pre)]: the k-th part starts where the writer's state puts it) *)
Theorem C02_multi_defs_disjoint :
  forall (st : fstyle) (parts : list mpart) (a : adoc) (file : bytes),
    ref_write_multi st parts a = Some file ->
    (forall p n, In p parts -> In n (mp_nums p) ->
       In n (map (fun t : LoadsTableProofs.top => fst (fst (fst t))) (LoadsMultiObjStm.multi_tops st a))) ->
    NoDup (flat_map (LoadsMultiObjStm.defs st) parts).
Proof. exact LoadsMultiObjStm.multi_defs_nodup. Qed.

Theorem C02_multi_known_current_file :
  forall (st : fstyle) (parts : list mpart) (a : adoc) (file : bytes) (pre : list mpart) (p : mpart) (post : list mpart) (n : N),
    ref_write_multi st parts a = Some file ->
    (forall q m, In q parts -> In m (mp_nums q) ->
       In m (map (fun t : LoadsTableProofs.top => fst (fst (fst t))) (LoadsMultiObjStm.multi_tops st a))) ->
    parts = pre ++ p :: post -> In n (LoadsMultiObjStm.defs st p) ->
    LoadsMultiObjStm.g_here st a (LoadsMultiObjStm.multi_tops st a) p
      (LoadsMultiObjStm.pos_at st a (LoadsMultiObjStm.multi_tops st a) parts
         (N.of_nat (length (RefWriter.header st (a_version a)))) None [] 0 (length pre)) n = true ->
    lookup_entry (LoadsMultiObjStm.final_known st a (LoadsMultiObjStm.multi_tops st a) parts
                    (N.of_nat (length (RefWriter.header st (a_version a)))) None [] 0) n =
    Some (LoadsMultiObjStm.g_ehere st a (LoadsMultiObjStm.multi_tops st a) p
            (LoadsMultiObjStm.pos_at st a (LoadsMultiObjStm.multi_tops st a) parts
               (N.of_nat (length (RefWriter.header st (a_version a)))) None [] 0 (length pre)) n).
Proof. exact LoadsMultiObjStm.multi_known_current. Qed.

(* non-vacuity on a file of TWO parts with an object stream: part 1 = the object stream 20 (members 4, 7, 5), stream 3 whose Length
   is the member 4, a SUPERSEDED definition of object 9, cross-reference stream 21; part 2 = the current object 9, cross-reference
   stream 22 that lists member 7 and object 3 AGAIN.  The hypotheses of C02_multi_members_named_file / C02_multi_known_current_file
   hold; the writer's final table names the members in container 20 (the relisted 7 included), object 9 in part 2 (not the superseded
   definition at its offset in part 1), object 3 in part 1; and the loader model delivers exactly that: the current 9, member 7,
   stream 3 with its five bytes (deferred Length through a member, ACROSS parts) -- the case the missing theorem is about *)
Definition ex_xs_22 : xsstyle :=
  {| xs_id := 22; xs_w := (1%nat, 2%nat, 1%nat); xs_secs := []; xs_omit_index := false;
     xs_filter := SfNone; xs_array := false; xs_istyle := default_istyle |}.
Definition ex_parts_os2 : list mpart :=
  [ {| mp_nums := [3; 20]; mp_old := [(9, OInt 1)]; mp_relist := []; mp_order := [20; 9; 3]; mp_xref := XStream ex_xs_os;
       mp_sx := (ECRLF, 1%nat, 2%nat, ECR, Some ELF) |};
    {| mp_nums := [9]; mp_old := []; mp_relist := [7; 3]; mp_order := []; mp_xref := XStream ex_xs_22;
       mp_sx := (ELF, 0%nat, 0%nat, ELF, Some ELF) |} ].
Theorem C02_example_multi_members_named :
  ref_write_multi ex_fstyle_os ex_parts_os2 ex_adoc_os <> None /\
  (forall p n, In p ex_parts_os2 -> In n (mp_nums p) ->
     In n (map (fun t : LoadsTableProofs.top => fst (fst (fst t))) (LoadsMultiObjStm.multi_tops ex_fstyle_os ex_adoc_os))) /\
  (forall p n, In p ex_parts_os2 -> In n (mp_nums p) -> ~ In n (compressed_nums ex_fstyle_os)) /\
  map (lookup_entry (LoadsMultiObjStm.final_known ex_fstyle_os ex_adoc_os (LoadsMultiObjStm.multi_tops ex_fstyle_os ex_adoc_os) ex_parts_os2
                       (N.of_nat (length (RefWriter.header ex_fstyle_os (a_version ex_adoc_os)))) None [] 0)) [4; 7; 5; 9; 3] =
  [Some (SComp 20 0); Some (SComp 20 1); Some (SComp 20 2); Some (SInUse 590 0); Some (SInUse 310 2)] /\
  match LoaderExt.load_ext LoadsFilterProofs.decompress_ref LoadsFilterProofs.can_ref
          (match ref_write_multi ex_fstyle_os ex_parts_os2 ex_adoc_os with Some f => f | None => [] end) with
  | LOk d _ => lookup (d_objects d) (9, 0) = Some (OStr (bs "top") true) /\
               lookup (d_objects d) (7, 0) = Some (ODict [(bs "K", OArr [ORef 1 0; OStr (bs "a") false])]) /\
               lookup (d_objects d) (3, 2) = Some (OStream [(bs "Length", OInt 5)] (bs "a(b" ++ [x0d; x0a]))
  | _ => False
  end.
Proof.
  split; [vm_compute; discriminate|]. split.
  { assert (E : map (fun t : LoadsTableProofs.top => fst (fst (fst t))) (LoadsMultiObjStm.multi_tops ex_fstyle_os ex_adoc_os) = [3; 9; 20])
      by (vm_compute; reflexivity).
    rewrite E. intros p n [<-|[<-|[]]] Hn; simpl in Hn; simpl; intuition. }
  split.
  { assert (E : compressed_nums ex_fstyle_os = [4; 7; 5]) by reflexivity.
    rewrite E. intros p n [<-|[<-|[]]] Hn K; simpl in Hn, K; intuition (subst; discriminate). }
  split; [vm_compute; reflexivity|]. vm_compute. repeat split; reflexivity.
Qed.

(* [part_dom] is NEEDED, and C02_loads_multi_partial as it stands (no domain) is FALSE: write_parts accepts a superseded
   definition (mp_old) when a later part's mp_nums merely NAMES the number, and does not ask that the later part holds a
   definition.  Three parts: part 1 holds the object stream 20 with member 7 (a dictionary); part 2 holds a "superseded" top-level
   definition "7 0 obj 1" and lists it; part 3 names 7 in mp_nums (nothing to write: 7 is a member) and holds only its
   cross-reference stream.  ref_write_multi writes the file, the newest entry for 7 is part 2's, and the loader (model and, by
   correspondence, lopdf) correctly delivers the integer 1 -- the file does NOT define [content a].  A defect of the reference
   writer's style space (Spec/RefWriter.v), not of lopdf; props/c02.py never draws it (a part's numbers are drawn from the
   top-level objects).  The domain of the theorem to come must contain [part_dom]. *)
Definition ex_parts_bad : list mpart :=
  [ {| mp_nums := [3; 9; 20]; mp_old := []; mp_relist := []; mp_order := [20; 3]; mp_xref := XStream ex_xs_os;
       mp_sx := (ECRLF, 1%nat, 2%nat, ECR, Some ELF) |};
    {| mp_nums := []; mp_old := [(7, OInt 1)]; mp_relist := []; mp_order := []; mp_xref := XTable ex_tstyle;
       mp_sx := (ELF, 0%nat, 0%nat, ELF, Some ELF) |};
    {| mp_nums := [7]; mp_old := []; mp_relist := []; mp_order := []; mp_xref := XStream ex_xs_22;
       mp_sx := (ELF, 0%nat, 0%nat, ELF, Some ELF) |} ].
Theorem C02_loads_multi_partial_needs_domain :
  ~ C02_loads_multi_partial /\ ~ Forall (LoadsMultiObjStm.part_dom ex_fstyle_os) ex_parts_bad.
Proof.
  split.
  - intro H.
    set (f := match ref_write_multi ex_fstyle_os ex_parts_bad ex_adoc_os with Some f => f | None => [] end).
    assert (Ef : ref_write_multi ex_fstyle_os ex_parts_bad ex_adoc_os = Some f) by (vm_compute; reflexivity).
    assert (K : match LoaderExt.load_ext LoadsFilterProofs.decompress_ref LoadsFilterProofs.can_ref f with
                | LOk d _ => lookup (d_objects d) (7, 0) = Some (OInt 1) | _ => False end) by (vm_compute; reflexivity).
    assert (Hc : lookup (content ex_adoc_os) (7, 0) = Some (ODict [(bs "K", OArr [ORef 1 0; OStr (bs "a") false])])) by (vm_compute; reflexivity).
    destruct (H _ _ _ _ Ef) as [d [t [Hl [_ Ho]]]]. rewrite Hl in K.
    destruct (Ho _ _ Hc) as [o' [H1 H2]]. rewrite K in H1. inversion H1; subst. inversion H2.
  - intro H. inversion H as [|? ? _ H2]; subst. inversion H2 as [|? ? _ H3]; subst. inversion H3 as [|? ? [Hd _] _]; subst.
    apply (Hd 7); [left; reflexivity|vm_compute; tauto].
Qed.

(* ---------------------------------------------------------------------------------------------
   C02_full_all_partial: THE UNION -- every file the reference writer denotes, written by ref_write (C02_full) or by
   ref_write_multi (C02_loads_multi_objstm_partial), loads to the version, exactly the objects (by value; the file-structure
   objects [S] of the style excepted) and the trailer its abstract document defines.  [C02_written file a S]: some style of the
   writer's space, inside the proved domain, produces [file] for [a].  PARTIAL only in the domain of the second disjunct
   (C02_multi_domain_all: object streams in files of two or more parts are outside; C02_full_all below adds them). *)
Definition C02_written (file : bytes) (a : adoc) (S : list N) : Prop :=
  (exists st, C02_domain st a /\ ref_write st a = Some file /\ S = structural_nums st) \/
  (exists st parts, C02_multi_domain_all st parts a file /\ ref_write_multi st parts a = Some file /\
                    S = map os_id (s_ostms st) ++ part_xids parts).

Theorem C02_full_all_partial :
  forall (file : bytes) (a : adoc) (S : list N),
    C02_written file a S ->
    exists d t, LoaderExt.load_ext LoadsFilterProofs.decompress_ref LoadsFilterProofs.can_ref file = LOk d t /\
                d_version d = a_version a /\
                (forall id, In (fst id) S \/
                            match lookup (d_objects d) id, lookup (content a) id with
                            | Some o, Some o' => same_value o' o
                            | None, None => True
                            | _, _ => False
                            end) /\
                (forall k, In k [bs "Type"; bs "W"; bs "Index"; bs "Length"; bs "Filter"; bs "DecodeParms"] \/
                           match dict_get (d_trailer d) k, dict_get (a_trailer a ++ [(bs "Size", OInt (Z.of_N (1 + max_num
                                   (map (fun io => fst (fst io)) (a_objs a) ++ S))))]) k with
                           | Some o, Some o' => same_value o' o
                           | None, None => True
                           | _, _ => False
                           end).
Proof. exact LoadsMultiAll.full_all. Qed.

(* ---------------------------------------------------------------------------------------------
   C02_loads_multi_objstm: FILES OF ref_write_multi WITH OBJECT STREAMS IN ANY OF THEIR PARTS -- any number of parts, any number
   of them holding object-stream containers (such a part ends with a cross-reference stream: type-2 entries), tables or streams
   for the others, superseded definitions, entries listed again (members included: a later stream part may list a type-2 entry
   again), Length direct / a reference to a top-level integer of ANY part / a reference to a MEMBER of an object stream of ANY
   part (the deferred path, across parts).  The conclusion is that of C02_full with the structural numbers of a file of several
   parts (the containers and the cross-reference streams of all parts).
   Proof (Proofs/LoadsMultiOSAt.v, LoadsMultiOSPasses.v, LoadsMultiOSInv.v, LoadsMultiOSAll.v, LoadsMultiOSFull.v): the invariant
   of LoadsMultiMixed.v restated over the writer's step with containers (type-2 entries in the merged table; i_mem: every member
   of a finished part's container is named by the type-2 entry of that container -- no later part overrides it), then the reader's
   three passes on the merged table for ANY buffer (LoadsObjStmFile.GenFile without the single-section layout).
   THE DOMAIN [C02_multi_domain_os]: C02_domain's clauses per object and per container (top_ok2 for the objects outside object
   streams, cont_ok per container), the trailer clause and the u32 clause of C02_multi_domain, and LoadsMultiOSInv.parts_ok = per part,
   at the values its layout has: part_ok as in C02_multi_domain (a TABLE part moreover lists no type-2 entry again: a table cannot
   express one) and part_dom: A SUPERSEDED DEFINITION IS ONE OF A TOP-LEVEL OBJECT (without it the statement is false:
   C02_loads_multi_partial_needs_domain); sx_win for the last part.
   --------------------------------------------------------------------------------------------- *)
Definition C02_multi_domain_os (st : fstyle) (parts : list mpart) (a : adoc) (file : bytes) : Prop :=
  Utf.utf8_decode (a_version a) <> None /\ blen file <= u32_max /\
  Forall (LoadsRefLenProofs.top_ok2 a) (LoadsMultiOSPasses.ptopsT a (s_ostms st) (find_istyle (s_objs st))) /\
  Forall (LoadsObjStmFile.cont_ok a) (s_ostms st) /\
  (dict_get (a_trailer a) RefWriter.K_Size = None /\ dict_get (a_trailer a) K_Prev = None /\
   dict_get (a_trailer a) K_Encrypt = None /\ dict_get (a_trailer a) K_XRefStm = None /\
   dict_get (a_trailer a) K_Index = None /\ dict_get (a_trailer a) K_Filter = None) /\
  1 + max_num ((map LoadsTableProofs.top_num (LoadsMultiObjStm.multi_tops st a) ++ compressed_nums st) ++ part_xids parts) <= u32_max /\
  LoadsMultiOSInv.parts_ok st a (LoadsMultiObjStm.multi_tops st a) LoadsFilterProofs.decompress_ref LoadsFilterProofs.can_ref
    (part_xids parts) parts (blen (RefWriter.header st (a_version a))) None [] 0 /\
  match parts with
  | p :: _ => 25 < LoadsMultiOSInv.p_xpos st a (LoadsMultiObjStm.multi_tops st a) p (blen (RefWriter.header st (a_version a)))
  | [] => True
  end.

Theorem C02_loads_multi_objstm :
  forall (st : fstyle) (parts : list mpart) (a : adoc) (file : bytes),
    C02_multi_domain_os st parts a file -> ref_write_multi st parts a = Some file ->
    exists d t, LoaderExt.load_ext LoadsFilterProofs.decompress_ref LoadsFilterProofs.can_ref file = LOk d t /\
                d_version d = a_version a /\
                (forall id, In (fst id) (map os_id (s_ostms st) ++ part_xids parts) \/
                            match lookup (d_objects d) id, lookup (content a) id with
                            | Some o, Some o' => same_value o' o
                            | None, None => True
                            | _, _ => False
                            end) /\
                (forall k, In k [bs "Type"; bs "W"; bs "Index"; bs "Length"; bs "Filter"; bs "DecodeParms"] \/
                           match dict_get (d_trailer d) k, dict_get (a_trailer a ++ [(bs "Size", OInt (Z.of_N (1 + max_num
                                   (map (fun io => fst (fst io)) (a_objs a) ++ map os_id (s_ostms st) ++ part_xids parts))))]) k with
                           | Some o, Some o' => same_value o' o
                           | None, None => True
                           | _, _ => False
                           end).
Proof. exact LoadsMultiOSFull.loads_multi_os_full. Qed.

(* non-vacuity: the file of C02_example_multi_members_named -- TWO parts; part 1 = the object stream 20 (members 4, 7, 5; ASCII85
   around Flate), stream 3 whose Length is the member 4, a SUPERSEDED definition of object 9, cross-reference stream 21 in
   ASCIIHex; part 2 = the current object 9, cross-reference stream 22 that lists member 7 (a type-2 entry) and object 3 AGAIN --
   is in the domain *)
Theorem C02_example_loads_multi_os :
  exists file, ref_write_multi ex_fstyle_os ex_parts_os2 ex_adoc_os = Some file /\
               C02_multi_domain_os ex_fstyle_os ex_parts_os2 ex_adoc_os file.
Proof.
  destruct C02_example_loads_objstm as [_ [H1 [H2 _]]].
  eexists. split; [vm_compute; reflexivity|].
  split; [vm_compute; discriminate|]. split; [vm_compute; discriminate|].
  split; [exact H1|]. split; [exact H2|]. split; [repeat split; reflexivity|].
  split; [vm_compute; discriminate|]. split; [|vm_compute; reflexivity].
  assert (Et : LoadsMultiObjStm.multi_tops ex_fstyle_os ex_adoc_os =
               LoadsMultiOSPasses.ptopsT ex_adoc_os (s_ostms ex_fstyle_os) (find_istyle (s_objs ex_fstyle_os)) ++
               LoadsObjStmWhole.contsof ex_fstyle_os ex_adoc_os) by (vm_compute; reflexivity).
  cbn [LoadsMultiOSInv.parts_ok ex_parts_os2].
  split; [|split; [|split; [intro K; discriminate K|split; [|split; [|split; [intros _; vm_compute; lia|exact I]]]]]].
  - unfold LoadsMultiOSInv.part_ok. cbn [mp_xref]. split.
    { right. split; [reflexivity|]. split; [reflexivity|]. split; [vm_compute; discriminate|reflexivity]. }
    split; [left; reflexivity|].
    match goal with |- spell_wf (ODict ?d) _ /\ _ =>
      let v := eval vm_compute in d in assert (Hd : d = v) by (vm_compute; reflexivity); rewrite Hd end.
    split.
    + cbn.
      repeat match goal with
             | |- _ /\ _ => split
             | |- NoDup _ => repeat (constructor; [cbn; intuition discriminate|]); constructor
             | |- True => exact I
             | |- _ = true => reflexivity
             | |- _ <= _ => unfold u32_max, u16_max; lia
             end.
    + vm_compute. lia.
  - intros no [<-|[]]. vm_compute. tauto.
  - unfold LoadsMultiOSInv.part_ok. cbn [mp_xref]. split; [left; reflexivity|].
    split; [right; left; reflexivity|].
    match goal with |- spell_wf (ODict ?d) _ /\ _ =>
      let v := eval vm_compute in d in assert (Hd : d = v) by (vm_compute; reflexivity); rewrite Hd end.
    split.
    + cbn.
      repeat match goal with
             | |- _ /\ _ => split
             | |- NoDup _ => repeat (constructor; [cbn; intuition discriminate|]); constructor
             | |- True => exact I
             | |- _ = true => reflexivity
             | |- _ <= _ => unfold u32_max, u16_max; lia
             end.
    + vm_compute. lia.
  - intros no [].
Qed.

(* ---------------------------------------------------------------------------------------------
   C02_full_all: THE UNION with C02_loads_multi_objstm -- every file the reference writer denotes, written by ref_write
   (C02_domain) or by ref_write_multi (C02_multi_domain_all: no object streams or one part; C02_multi_domain_os: object streams
   in any of the parts), loads to the version, exactly the objects (by value; the file-structure objects [S] of the style
   excepted) and the trailer its abstract document defines.  What stays outside is what the domains exclude: the data model's
   types, the two open findings' classes, and styles in which a superseded definition is one of a number that is a MEMBER of an
   object stream (part_dom; C02_loads_multi_partial_needs_domain: there the file does not define the document). *)
Definition C02_written_all (file : bytes) (a : adoc) (S : list N) : Prop :=
  (exists st, C02_domain st a /\ ref_write st a = Some file /\ S = structural_nums st) \/
  (exists st parts, (C02_multi_domain_all st parts a file \/ C02_multi_domain_os st parts a file) /\
                    ref_write_multi st parts a = Some file /\ S = map os_id (s_ostms st) ++ part_xids parts).

Theorem C02_full_all :
  forall (file : bytes) (a : adoc) (S : list N),
    C02_written_all file a S ->
    exists d t, LoaderExt.load_ext LoadsFilterProofs.decompress_ref LoadsFilterProofs.can_ref file = LOk d t /\
                d_version d = a_version a /\
                (forall id, In (fst id) S \/
                            match lookup (d_objects d) id, lookup (content a) id with
                            | Some o, Some o' => same_value o' o
                            | None, None => True
                            | _, _ => False
                            end) /\
                (forall k, In k [bs "Type"; bs "W"; bs "Index"; bs "Length"; bs "Filter"; bs "DecodeParms"] \/
                           match dict_get (d_trailer d) k, dict_get (a_trailer a ++ [(bs "Size", OInt (Z.of_N (1 + max_num
                                   (map (fun io => fst (fst io)) (a_objs a) ++ S))))]) k with
                           | Some o, Some o' => same_value o' o
                           | None, None => True
                           | _, _ => False
                           end).
Proof. exact LoadsMultiOSFull.full_all2. Qed.

(* ---------- non-vacuity ---------- *)
Definition ex_secs : xsections := [(0, [SFree 0 65535; SInUse 17 0]); (5, [SComp 3 1; SInUse 70000 2])].
Definition ex_dict : dict :=
  [(bs "Type", OName (bs "XRef")); (K_Size, OInt 7); (K_W, OArr [OInt 1; OInt 3; OInt 2]);
   (K_Index, index_array ex_secs); (bs "Root", ORef 1 0); (K_Length, OInt 24)].

Theorem C02_example_stream :
  Forall (fun se => Forall (entry_ok 1 3 2) (snd se) /\ Forall entry_in_range (snd se) /\
                    fst se + N.of_nat (length (snd se)) <= 4294967296) ex_secs /\
  dict_get ex_dict K_Index = Some (index_array ex_secs) /\
  decode_xref_plain ex_dict (enc_sections 1 3 2 ex_secs) =
  XOk ({| x_type := XTStream; x_entries := [(1, XNormal 17 0); (5, XCompressed 3 1); (6, XNormal 70000 2)];
          x_size := 7 |},
       [(bs "Type", OName (bs "XRef")); (K_Size, OInt 7); (bs "Root", ORef 1 0)]).
Proof.
  split; [|split; [reflexivity | vm_compute; reflexivity]].
  repeat constructor; cbn; unfold fits, two32; cbn; lia.
Qed.

Definition ex_tsecs : list tsection :=
  [{| ts_first := 0; ts_entries := [(SFree 0 65535, E2_SPCR); (SInUse 9 0, E2_CRLF)]; ts_sp := true; ts_eol := ECRLF |};
   {| ts_first := 4; ts_entries := [(SInUse 100 2, E2_SPLF)]; ts_sp := false; ts_eol := ECR |}].

Theorem C02_example_table :
  ex_tsecs <> [] /\ Forall tsec_ok ex_tsecs /\
  xref_table (table_text ECR ex_tsecs ++ bs "trailer") =
  POk {| x_type := XTTable; x_entries := [(1, XNormal 9 0); (4, XNormal 100 2)]; x_size := 0 |} (bs "trailer").
Proof.
  split; [discriminate|]. split; [|vm_compute; reflexivity].
  repeat constructor; cbn; unfold u32_max, two32; try lia; discriminate.
Qed.


Definition ex_items : list ositem :=
  [{| oi_num := 12; oi_ws1 := []; oi_ws2 := [x20]; oi_text := bs "5 " |};
   {| oi_num := 7; oi_ws1 := [x0a; x00]; oi_ws2 := [x09; x0c]; oi_text := bs "<</K[1 0 R(a)]>>" ++ [x0d] |};
   {| oi_num := 9; oi_ws1 := [x20]; oi_ws2 := [x0d; x0a]; oi_text := bs "/N#20x " |}].
Definition ex_denote (it : ositem) : obj :=
  if oi_num it =? 12 then OInt 5
  else if oi_num it =? 7 then ODict [(bs "K", OArr [ORef 1 0; OStr (bs "a") false])]
  else OName (bs "N x").
Definition ex_os_dict : dict :=
  [(bs "Type", OName (bs "ObjStm")); (K_N, OInt 3); (K_First, OInt (Z.of_N (fst (os_payload ex_items [x0a]))))].

Theorem C02_example_objstm :
  Forall item_ok ex_items /\ items_rt ex_denote ex_items /\ later_ws1 (tl ex_items) /\
  objstm_plain ex_os_dict (snd (os_payload ex_items [x0a])) =
  OsOk [((7, 0), ODict [(bs "K", OArr [ORef 1 0; OStr (bs "a") false])]); ((9, 0), OName (bs "N x")); ((12, 0), OInt 5)].
Proof.
  split; [|split; [|split]].
  - repeat constructor; try discriminate; cbn; unfold u32_max; lia.
  - cbn [items_rt ex_items]. unfold item_rt.
    split; [eexists; split; [vm_compute; reflexivity|cbn; lia]|].
    split; [eexists; split; [vm_compute; reflexivity|cbn; lia]|].
    split; [eexists; split; [vm_compute; reflexivity|cbn; lia]|exact I].
  - cbn. repeat split; discriminate.
  - vm_compute. reflexivity.
Qed.

Print Assumptions C02_xref_stream_any_W_Index.
Print Assumptions C02_xref_stream_default_Index.
Print Assumptions C02_table_lookup.
Print Assumptions C02_table_lookup_none.
Print Assumptions C02_xref_table_any_sectioning.
Print Assumptions C02_objstm_expand.
Print Assumptions C02_objstm_any_spelling.
Print Assumptions C02_example_objstm_any_spelling.
Print Assumptions C02_asciihex_roundtrip.
Print Assumptions C02_asciihex_any_spelling.
Print Assumptions C02_asciihex_odd_final_digit.
Print Assumptions C02_asciihex_illegal_character.
Print Assumptions C02_asciihex_refwriter.
Print Assumptions C02_example_asciihex.
Print Assumptions C02_filler_any.
Print Assumptions C02_name_any_spelling.
Print Assumptions C02_hex_string_any_spelling.
Print Assumptions C02_integer_any_spelling.
Print Assumptions C02_literal_any_spelling_partial.
Print Assumptions C02_literal_any_spelling.
Print Assumptions C02_example_literal_raw.
Print Assumptions C02_real_any_spelling.
Print Assumptions C02_reference_any_spelling.
Print Assumptions C02_object_any_spelling.
Print Assumptions C02_object_alts_any_spelling.
Print Assumptions C02_dictionary_any_spelling.
Print Assumptions C02_denote_same_value.
Print Assumptions C02_indirect_object_any_spelling.
Print Assumptions C02_indirect_stream_any_spelling.
Print Assumptions C02_trailer_any_spelling.
Print Assumptions C02_loads_table_partial.
Print Assumptions C02_loads_stream_partial.
Print Assumptions C02_stream_trailer_reading.
Print Assumptions C02_example_loads_stream.
Print Assumptions C02_filter_chain_decodes.
Print Assumptions C02_loads_stream_filtered_partial.
Print Assumptions C02_filtered_trailer_reading.
Print Assumptions C02_example_loads_stream_filtered.
Print Assumptions C02_length_ref_eager.
Print Assumptions C02_length_ref_lookup.
Print Assumptions C02_length_ref_deferred.
Print Assumptions C02_length_ref_content.
Print Assumptions C02_example_length_ref.
Print Assumptions C02_loads_table_reflen_partial.
Print Assumptions C02_example_loads_table_reflen.
Print Assumptions C02_objstm_new_filtered.
Print Assumptions C02_example_objstm_new_filtered.
Print Assumptions C02_loads_objstm_partial.
Print Assumptions C02_member_value.
Print Assumptions C02_merge_object_streams.
Print Assumptions C02_zero_length_pass.
Print Assumptions C02_example_loads_objstm.
Print Assumptions C02_objstm_new_any_filter.
Print Assumptions C02_example_objstm_pred.
Print Assumptions C02_load_frame.
Print Assumptions C02_full.
Print Assumptions C02_prev_chain.
Print Assumptions C02_merge_newest_wins.
Print Assumptions C02_load_chain_frame.
Print Assumptions C02_full_over_load.
Print Assumptions C02_loads_multi_table.
Print Assumptions C02_example_loads_multi_table.
Print Assumptions C02_loads_multi_mixed.
Print Assumptions C02_example_loads_multi_mixed.
Print Assumptions C02_example_loads_multi_filtered.
Print Assumptions C02_example_loads_multi_reflen.
Print Assumptions C02_example_full.
Print Assumptions C02_multi_one_part_is_single.
Print Assumptions C02_loads_multi_objstm_partial.
Print Assumptions C02_example_loads_multi_objstm.
Print Assumptions C02_multi_members_named.
Print Assumptions C02_multi_members_named_file.
Print Assumptions C02_multi_known_untouched.
Print Assumptions C02_multi_known_keeps_current.
Print Assumptions C02_multi_defs_disjoint.
Print Assumptions C02_multi_known_current_file.
Print Assumptions C02_example_multi_members_named.
Print Assumptions C02_full_all_partial.
Print Assumptions C02_loads_multi_objstm.
Print Assumptions C02_example_loads_multi_os.
Print Assumptions C02_full_all.
Print Assumptions C02_loads_multi_partial_needs_domain.
Print Assumptions C02_example_loads_table.
Print Assumptions C02_example_object.
Print Assumptions C02_example_literal.
Print Assumptions C02_example_spellings.
Print Assumptions C02_example_stream.
Print Assumptions C02_example_objstm.
Print Assumptions C02_example_table.
