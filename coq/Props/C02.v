(* Props/C02.v -- placeholder until the rung-1 theorems are in place. *)
From LV Require Import Base.Bytes Model.Xref.
Theorem C02_placeholder : xref_max_id (xref_new 0 XTTable) = 0%N.
Proof. reflexivity. Qed.
Print Assumptions C02_placeholder.
