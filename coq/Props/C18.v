(* Props/C18.v -- property C18: dates convert to PDF date strings and back.
   Statements only; proofs live in Proofs/DateProofs.v, DateProofsParse.v, DateProofsTop.v.

   Level: civil fields (year 0001..9999, valid Gregorian date, 00:00:00..23:59:59) + UTC offset in
   whole minutes -23:59..+23:59  <->  bytes.  The format strings, parse patterns and their order,
   the byte pair of convert_utc_offset and the strip set of datetime_string are regenerated from
   src/datetime.rs (Gen/DateFmt.v) on every run.  What chrono / jiff / time do with one directive
   is a hand-written model of third-party code (tied by the correspondence runs only), and so is
   the conversion instant <-> civil fields inside the back ends; the model's own closed-form day
   count is proved equal to the specification's day counting (C18_same_instant).

   [holds b f off] is a domain restriction, not a weakening: jiff's Zoned cannot represent an
   instant after 9999-12-30T22:00:00Z at all (C18_example_jiff_limit), so no such value can be
   converted from or to; it is vacuous for chrono and time and for every year up to 9998
   (C18_holds_9998). *)
From LV Require Import Base.Bytes Gen.DateFmt Model.DateTime Spec.PdfDate
  Proofs.DateProofs Proofs.DateProofsParse Proofs.DateProofsTop.
Local Open Scope Z_scope.

(* (1) every enabled back end converts the same civil time and offset to the same bytes, and these
   are the bytes of the specification form D:YYYYMMDDHHmmSS+HH'mm' *)
Theorem C18_fmt_agree :
  forall f m, PdfDate.valid (spec_of f) -> - 1439 <= m <= 1439 ->
    fmt_chrono f (60 * m) = Some (PdfDate.print (spec_of f) m) /\
    fmt_jiff f (60 * m) = Some (PdfDate.print (spec_of f) m) /\
    fmt_time f (60 * m) = Some (PdfDate.print (spec_of f) m).
Proof. exact fmt_agree. Qed.

(* (2) the UTC source types (chrono DateTime<Utc>, jiff Timestamp) print the Z form *)
Theorem C18_fmt_agree_utc :
  forall f, PdfDate.valid (spec_of f) ->
    fmt_chrono_utc f = Some (PdfDate.print_utc (spec_of f)) /\ fmt_jiff_utc f = Some (PdfDate.print_utc (spec_of f)).
Proof. exact fmt_agree_utc. Qed.

(* (3) parse after format, for each back end: Object::as_datetime().try_into() on the printed
   string gives back the same fields and the same offset *)
Theorem C18_parse_fmt :
  forall b f m, PdfDate.valid (spec_of f) -> - 1439 <= m <= 1439 -> holds b f (60 * m) ->
    read_of b (PdfDate.print (spec_of f) m) = Some (f, 60 * m).
Proof. exact read_print. Qed.

(* (4) all nine ordered pairs: printed by back end a, read by back end b *)
Theorem C18_cross_pairs :
  forall a b f m, PdfDate.valid (spec_of f) -> - 1439 <= m <= 1439 -> holds b f (60 * m) ->
    exists s, fmt_of a f (60 * m) = Some s /\ s = PdfDate.print (spec_of f) m /\ read_of b s = Some (f, 60 * m).
Proof. exact cross_pairs. Qed.

(* (5) the Z form of the two UTC source types is read by all three back ends *)
Theorem C18_cross_pairs_utc :
  forall b f, PdfDate.valid (spec_of f) -> holds b f 0 ->
    fmt_chrono_utc f = Some (PdfDate.print_utc (spec_of f)) /\ fmt_jiff_utc f = Some (PdfDate.print_utc (spec_of f)) /\
    read_of b (PdfDate.print_utc (spec_of f)) = Some (f, 0).
Proof. exact cross_pairs_utc. Qed.

(* (6) every textual form the specification gives (full with offset, full Z, minute precision with
   offset, minute precision Z, date only) is read by every back end as the civil time and offset
   it denotes *)
Theorem C18_spec_forms :
  forall b s d m, PdfDate.Denotes s d m -> PdfDate.valid d -> - 1439 <= m <= 1439 -> holds b (civil_of d) (60 * m) ->
    read_of b s = Some (civil_of d, 60 * m).
Proof. exact read_denotes. Qed.

(* (7) ... and the instant read is the instant the specification assigns to the string *)
Theorem C18_same_instant :
  forall b s d m, PdfDate.Denotes s d m -> PdfDate.valid d -> - 1439 <= m <= 1439 -> holds b (civil_of d) (60 * m) ->
    exists f off, read_of b s = Some (f, off) /\ off = 60 * m /\ spec_of f = d /\
                  DateTime.instant f off = PdfDate.instant d m.
Proof. exact read_denotes_instant. Qed.

(* (8) the domain restriction is empty up to year 9998 *)
Theorem C18_holds_9998 :
  forall b f m, PdfDate.valid (spec_of f) -> - 1439 <= m <= 1439 -> cy f <= 9998 -> holds b f (60 * m).
Proof. exact holds_9998. Qed.

(* (9) the pinned tree (before fix commit 86e28c7): the time parser had only the first pattern and
   rejects the Z form printed by chrono/jiff, the minute-precision form and the date-only form *)
Theorem C18_time_v0_refuted :
  (exists f s, PdfDate.valid (spec_of f) /\ fmt_chrono_utc f = Some s /\ fmt_jiff_utc f = Some s /\ read_time_v0 s = None) /\
  (exists d m, PdfDate.valid d /\ PdfDate.second d = 0 /\ - 1439 <= m <= 1439 /\ read_time_v0 (PdfDate.print_minute d m) = None) /\
  (exists d, PdfDate.valid d /\ PdfDate.hour d = 0 /\ PdfDate.minute d = 0 /\ PdfDate.second d = 0 /\
             read_time_v0 (PdfDate.print_date d) = None).
Proof. exact time_v0_refuted. Qed.

(* non-vacuity *)
Theorem C18_example_full :
  PdfDate.valid (spec_of ex_f) /\ - 1439 <= 330 <= 1439 /\
  fmt_chrono ex_f 19800 = Some (bs "D:20240229123456+05'30'") /\
  fmt_jiff ex_f 19800 = Some (bs "D:20240229123456+05'30'") /\
  fmt_time ex_f 19800 = Some (bs "D:20240229123456+05'30'") /\
  read_chrono (bs "D:20240229123456+05'30'") = Some (ex_f, 19800) /\
  read_jiff (bs "D:20240229123456+05'30'") = Some (ex_f, 19800) /\
  read_time (bs "D:20240229123456+05'30'") = Some (ex_f, 19800) /\
  DateTime.instant ex_f 19800 = 1709190296.
Proof. exact example_full. Qed.

Theorem C18_example_forms :
  PdfDate.Denotes (bs "D:20240229123456-08'00'") (spec_of ex_f) (- 480) /\
  PdfDate.Denotes (bs "D:20240229123456Z") (spec_of ex_f) 0 /\
  PdfDate.Denotes (bs "D:199812231952-08'00'") (spec_of ex_min) (- 480) /\
  PdfDate.Denotes (bs "D:199812231952Z") (spec_of ex_min) 0 /\
  PdfDate.Denotes (bs "D:20040229") (spec_of ex_day) 0 /\
  read_time (bs "D:199812231952-08'00'") = Some (ex_min, - 28800) /\
  read_time (bs "D:20040229") = Some (ex_day, 0) /\
  read_time (bs "D:20240229123456Z") = Some (ex_f, 0).
Proof. exact example_forms. Qed.

Theorem C18_example_jiff_limit :
  let f := mkCivil 9999 12 31 0 0 0 in
  PdfDate.valid (spec_of f) /\ ~ holds Jiff f 0 /\ read_jiff (PdfDate.print_utc (spec_of f)) = None /\
  read_chrono (PdfDate.print_utc (spec_of f)) = Some (f, 0) /\ read_time (PdfDate.print_utc (spec_of f)) = Some (f, 0).
Proof. exact example_jiff_limit. Qed.

Print Assumptions C18_fmt_agree.
Print Assumptions C18_fmt_agree_utc.
Print Assumptions C18_parse_fmt.
Print Assumptions C18_cross_pairs.
Print Assumptions C18_cross_pairs_utc.
Print Assumptions C18_spec_forms.
Print Assumptions C18_same_instant.
Print Assumptions C18_holds_9998.
Print Assumptions C18_time_v0_refuted.
Print Assumptions C18_example_full.
Print Assumptions C18_example_forms.
Print Assumptions C18_example_jiff_limit.
