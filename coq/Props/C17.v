(* Props/C17.v -- property C17: bookmarks become a well-formed outline that reads back.
   Statements only; proofs live in Proofs/OutlineProofs*.v.

   Vocabulary (Spec/OutlineSpec.v): [forest_of_ops] is the forest a sequence of add_bookmark calls
   denotes (k-th call = bookmark k; child of p iff p was added before; otherwise attached nowhere);
   [trepr tbl t]: the bookmark table holds tree t; [numbered m f f' m']: f' is f with object
   numbers m+1, m+2 (item, action) handed out in preorder; [outline_ok get root f']: the objects
   hold the outline of f' (Parent/Prev/Next/First/Last/Count/Title/A/F of every item, S and D of
   every action, First/Last/Count of the root); [preorder f]: (level = depth+1, title, page).

   Known finding C17-deep-outline: get_outlines nests First links at most OUTLINE_DEPTH_LIMIT deep,
   so a forest higher than OUTLINE_DEPTH_LIMIT + 1 levels is built correctly but does not read
   back ([too_deep], [C17_too_deep_witness]); the read-back theorems exclude exactly that class.

   [get_toc] below is Model/TocNamed.v's: the complete model of Document::get_toc, which -- as the code does --
   first runs get_named_destinations (C13's Model/Query.v, with its kid budget and depth limit) on the catalog's
   `Dests` / `Names`->`Dests` tree.  The catalog is ARBITRARY in every read-back theorem: whatever the tree holds, it does
   not influence the table of contents (the outline build_outline writes uses explicit destinations `[page /Fit]`),
   except that get_toc answers Err when get_named_destinations refuses the tree ([name_tree_readable] = false:
   `self.get_named_destinations(tree, ..)?` in get_outlines) -- a document outside the domain of "reads back"
   (notes/C17.md; [C17_unreadable_name_tree_fails], [C17_unreadable_name_tree_witness]). *)
From LV Require Import Base.Bytes Model.Obj Model.DocQ Model.PageTree Gen.Consts Spec.Dfs Proofs.PageTreeProofs.
From LV Require Import Model.Outline Model.Toc Gen.QueryC
  Spec.OutlineSpec Proofs.OutlineProofs Proofs.OutlineProofsTitle Proofs.OutlineProofsRead
  Proofs.OutlineProofsOps Proofs.OutlineProofsMain Proofs.OutlineProofsReload Proofs.OutlineProofsAdjust
  Proofs.OutlineProofsForest Proofs.OutlineProofsFull Proofs.OutlineProofsProps Proofs.OutlineProofsPages.
From LV Require Model.Query.
From LV Require Import Model.TocNamed Proofs.OutlineProofsNamed Proofs.OutlineProofsNamedEx.
From LV Require Proofs.OutlineProofsNameTree.

(* the complete model (imported last, its names shadow Model/Toc.v's; spelled out for the reader) *)
Notation get_toc := TocNamed.get_toc (only parsing).
Notation walk := TocNamed.walk (only parsing).
Notation named_destinations := TocNamed.named_destinations (only parsing).
Notation name_tree_readable := TocNamed.name_tree_readable (only parsing).

Local Open Scope N_scope.

(* (0) Any sequence of add_bookmark calls leaves the table holding the forest the calls denote:
   roots and children in insertion order under the right parent; [default_fuel] is the call count + 1. *)
Theorem C17_forest_of_calls :
  forall d ops,
    let b := add_all (fresh_bdoc d) ops in
    let f := forest_of_ops (map sop_of ops) in
    base b = d /\ bookmarks b = map iid f /\ Forall (trepr (bookmark_table b)) f /\
    default_fuel b = S (length ops).
Proof. exact add_all_repr. Qed.

(* orphans: a call whose parent id is 0, its own id or a later id is neither a root nor a child of
   any bookmark of the denoted forest, hence appears nowhere in (1)-(5) *)
Theorem C17_orphans_ignored :
  forall (ops : list sop) k d p,
    In (k, (d, Some p)) (index_from 1 ops) -> (p = 0 \/ k <= p) ->
    is_root (k, (d, Some p)) = false /\
    forall e, In e (index_from 1 ops) -> is_child_of (fst e) (k, (d, Some p)) = false.
Proof. exact orphan_nowhere. Qed.

(* (1) Links: First/Last/Next/Prev/Parent (and Count) of the created objects are those of the
   numbered forest -- mutually consistent, siblings in insertion order under the right parent.
   No hypothesis on titles, targets or depth; fuel = height of the forest suffices; the result is
   never a panic or out-of-fuel unless an object number would pass 2^32. *)
Theorem C17_outline_links_consistent :
  forall b f fuel,
    bookmarks b = map iid f -> f <> [] ->
    Forall (trepr (bookmark_table b)) f ->
    (fheight f <= fuel)%nat ->
    let m0 := d_max_id (base b) in
    let m' := m0 + 1 + 2 * N.of_nat (fsize f) in
    m' < U32_LIMIT ->
    exists f' b',
      numbered (m0 + 1) f f' m' /\
      build_outline fuel b = OOk (Some (m0 + 1, 0), b') /\
      d_max_id (base b') = m' /\
      d_trailer (base b') = d_trailer (base b) /\
      outline_ok (get_of (d_objects (base b'))) (m0 + 1) f' /\
      (forall id, ~ created m0 m' id -> lookup (d_objects (base b')) id = lookup (d_objects (base b)) id) /\
      (forall id, created m0 m' id -> exists d, lookup (d_objects (base b')) id = Some (ODict d)).
Proof. exact build_outline_ok. Qed.

(* (2) Fresh identifiers: the root gets max_id+1, items and actions max_id+2 .. in preorder, all
   above the old max_id and pairwise distinct; max_id is updated; nothing else changes. *)
Theorem C17_outline_ids_fresh :
  forall b f fuel,
    bookmarks b = map iid f -> f <> [] ->
    Forall (trepr (bookmark_table b)) f ->
    (fheight f <= fuel)%nat ->
    let m0 := d_max_id (base b) in
    let m' := m0 + 1 + 2 * N.of_nat (fsize f) in
    m' < U32_LIMIT ->
    exists f' b',
      numbered (m0 + 1) f f' m' /\
      build_outline fuel b = OOk (Some (m0 + 1, 0), b') /\
      (m0 + 1) :: flat_map oids f' = nseq (m0 + 1) (S (2 * fsize f)) /\
      NoDup ((m0 + 1) :: flat_map oids f') /\
      Forall (fun k => m0 < k) ((m0 + 1) :: flat_map oids f') /\
      d_max_id (base b') = m' /\
      (forall id, ~ created m0 m' id -> lookup (d_objects (base b')) id = lookup (d_objects (base b)) id) /\
      (forall id, created m0 m' id -> exists d, lookup (d_objects (base b')) id = Some (ODict d)).
Proof. exact outline_ids_fresh. Qed.

(* (3) Titles and destinations of every item; the title bytes decode (with get_toc's decoder) to
   the very string, for every string of Unicode scalar values. *)
Theorem C17_titles_and_dests :
  forall b f fuel,
    bookmarks b = map iid f -> f <> [] ->
    Forall (trepr (bookmark_table b)) f ->
    (fheight f <= fuel)%nat ->
    let m0 := d_max_id (base b) in
    let m' := m0 + 1 + 2 * N.of_nat (fsize f) in
    m' < U32_LIMIT ->
    exists f' b',
      numbered (m0 + 1) f f' m' /\
      build_outline fuel b = OOk (Some (m0 + 1, 0), b') /\
      Forall (item_carries (get_of (d_objects (base b')))) (flat_map onodes f').
Proof. exact titles_and_dests. Qed.

Theorem C17_title_any_unicode :
  forall s, Forall scalar s -> decode_title (title_bytes s) = Some s.
Proof. exact decode_title_bytes. Qed.

(* (4) Reading back.  add_bookmark calls, build_outline, the README's attach step, get_toc:
   the table of contents is the preorder of the denoted forest -- same titles, level = depth + 1,
   page numbers of the targets in the document that is read, in the same order, no error entry --
   for ANY catalog: a `Dests` dictionary or `Names` tree of whatever content (valid, cyclic, ill-typed) changes
   nothing, unless get_named_destinations refuses it, in which case get_toc is Err.
   Fuel: the builder needs call count + 1, the reader one unit per bookmark (both recursions
   terminate on the builder's output; the name-tree walk has C13's fuel |objects| + 1 inside the model).
   Hypotheses: max_id bounds the object numbers (meaning of the field); object numbers stay below
   2^32; trailer.Root leads to a catalog dictionary; titles distinct and made of scalar values (Rust String);
   the forest is not in the known class [too_deep].  [targets_are_pages]: every target is a page of the document. *)
Theorem C17_reads_back :
  forall d ops cid rid cat fuel2,
    let b := add_all (fresh_bdoc d) ops in
    let f := forest_of_ops (map sop_of ops) in
    let m0 := d_max_id d in
    f <> [] ->
    max_id_bounds d ->
    m0 + 1 + 2 * N.of_nat (fsize f) < U32_LIMIT ->
    root_id d = Some cid ->
    get_object_mut_id (d_objects d) cid = Some (rid, ODict cat) ->
    distinct_titles f -> scalar_titles f ->
    too_deep f = false ->
    (fsize f <= fuel2)%nat ->
    exists b',
      build_outline (default_fuel b) b = OOk (Some (m0 + 1, 0), b') /\
      let d2 := attach (base b') cid (m0 + 1, 0) in
      (targets_are_pages d2 f ->
       get_toc fuel2 d2 = if name_tree_readable d2 then TOk (expected_toc d2 f) 0 else TErr).
Proof.
  intros d ops cid rid cat fuel2 b f m0 H1 H2 H3 H4 H5 H7 H8 H9 H10.
  apply (reads_back_ops_nm d ops cid rid cat fuel2); try assumption.
  apply N.ltb_ge. exact H9.
Qed.

(* (4a) the instance "catalog with neither Dests nor Names": nothing to read, the answer is the preorder *)
Theorem C17_reads_back_no_name_tree :
  forall d ops cid rid cat fuel2,
    let b := add_all (fresh_bdoc d) ops in
    let f := forest_of_ops (map sop_of ops) in
    let m0 := d_max_id d in
    f <> [] ->
    max_id_bounds d ->
    m0 + 1 + 2 * N.of_nat (fsize f) < U32_LIMIT ->
    root_id d = Some cid ->
    get_object_mut_id (d_objects d) cid = Some (rid, ODict cat) ->
    no_name_trees cat ->
    distinct_titles f -> scalar_titles f ->
    too_deep f = false ->
    (fsize f <= fuel2)%nat ->
    exists b',
      build_outline (default_fuel b) b = OOk (Some (m0 + 1, 0), b') /\
      let d2 := attach (base b') cid (m0 + 1, 0) in
      name_tree_readable d2 = true /\
      (targets_are_pages d2 f -> get_toc fuel2 d2 = TOk (expected_toc d2 f) 0).
Proof.
  intros d ops cid rid cat fuel2 b f m0 H1 H2 H3 H4 H5 H6 H7 H8 H9 H10.
  apply (reads_back_ops_no_tree d ops cid rid cat fuel2); try assumption.
  apply N.ltb_ge. exact H9.
Qed.

(* (4b) a name tree that get_named_destinations refuses ends get_toc, whatever the outline is; and the name-tree walk
   always returns (C13_get_named_destinations_total): get_toc never panics or diverges because of the tree *)
Theorem C17_unreadable_name_tree_fails :
  forall d cat fuel, catalog d = Some cat -> name_tree_readable d = false -> get_toc fuel d = TErr.
Proof. exact toc_unreadable. Qed.

Theorem C17_named_destinations_return :
  forall m cat, (exists nm, named_destinations m cat = WOk nm) \/ named_destinations m cat = WErr.
Proof. exact named_destinations_returns. Qed.

(* (4d) the condition holds for every WELL-FORMED name tree (independent description, Proofs/OutlineProofsNameTree.v:
   [nt_repr m t tree]: the graph holds the finite tree t below the dictionary `tree` -- each intermediate node's Kids array lists
   references to its kids, each a dictionary; Names arrays alternate string keys and values that are destinations as lopdf reads
   them (a dictionary with D = array of >= 2 elements, direct or behind a reference; a reference to such an array) or something
   lopdf skips) of at most NAME_TREE_DEPTH_LIMIT levels below the root ([levels]) and with at most objects.len() nodes below the
   root ([below]; always true when the nodes are distinct objects): get_named_destinations returns Ok. *)
Theorem C17_well_formed_name_tree_readable :
  forall d cat tree t,
    catalog d = Some cat -> named_tree (d_objects d) cat = Some tree ->
    OutlineProofsNameTree.nt_repr (d_objects d) t tree ->
    N.of_nat (OutlineProofsNameTree.levels t) <= NAME_TREE_DEPTH_LIMIT ->
    (OutlineProofsNameTree.below t <= length (d_objects d))%nat ->
    name_tree_readable d = true.
Proof. exact OutlineProofsNameTree.wf_tree_readable. Qed.

Theorem C17_example_well_formed_name_tree :
  exists cat tree,
    catalog nd_final = Some cat /\
    named_tree (d_objects nd_final) cat = Some tree /\
    OutlineProofsNameTree.nt_repr (d_objects nd_final) OutlineProofsNameTree.nd_shape tree /\
    N.of_nat (OutlineProofsNameTree.levels OutlineProofsNameTree.nd_shape) <= NAME_TREE_DEPTH_LIMIT /\
    (OutlineProofsNameTree.below OutlineProofsNameTree.nd_shape <= length (d_objects nd_final))%nat.
Proof. exact OutlineProofsNameTree.nd_tree_wf. Qed.

(* (4c) without a name tree the complete model is Model/Toc.v's (the model of the earlier rounds) *)
Theorem C17_model_without_name_tree :
  forall d cat fuel, catalog d = Some cat -> named_tree (d_objects d) cat = None -> get_toc fuel d = Toc.get_toc fuel d.
Proof. exact get_toc_no_tree. Qed.

(* (4') the same over any table that holds a forest *)
Theorem C17_reads_back_forest :
  forall b f cid rid cat fuel fuel2,
    bookmarks b = map iid f -> f <> [] ->
    Forall (trepr (bookmark_table b)) f ->
    let d := base b in
    let m0 := d_max_id d in
    max_id_bounds d ->
    m0 + 1 + 2 * N.of_nat (fsize f) < U32_LIMIT ->
    root_id d = Some cid ->
    get_object_mut_id (d_objects d) cid = Some (rid, ODict cat) ->
    distinct_titles f -> scalar_titles f ->
    too_deep f = false ->
    (fheight f <= fuel)%nat ->
    (fsize f <= fuel2)%nat ->
    exists b',
      build_outline fuel b = OOk (Some (m0 + 1, 0), b') /\
      let d2 := attach (base b') cid (m0 + 1, 0) in
      (targets_are_pages d2 f ->
       get_toc fuel2 d2 = if name_tree_readable d2 then TOk (expected_toc d2 f) 0 else TErr).
Proof.
  intros b f cid rid cat fuel fuel2 H1 H2 H3 d m0 H4 H5 H6 H7 H9 H10 H11 H12 H13.
  apply (reads_back_forest_nm b f cid rid cat fuel fuel2); try assumption.
  apply N.ltb_ge. exact H11.
Qed.

(* (5) Also after saving and reloading: composition with C01.  C01's statement enters as the three
   premises about d' (the reloaded document): same Root, every object equal up to the number
   normalisation [nn nreal] (a real may come back as an integer or a real; nothing else changes),
   same number of objects.  Then the pages are enumerated identically, get_named_destinations accepts the name tree
   of d' iff it accepts that of d2 (same path: only reals differ, the kid budget is objects.len()), and the table of
   contents of d' is the same preorder. *)
Theorem C17_reads_back_after_reload :
  forall nreal d ops cid rid cat fuel2 d',
    (forall r, (exists z, nreal r = OInt z) \/ (exists r', nreal r = OReal r')) ->
    let b := add_all (fresh_bdoc d) ops in
    let f := forest_of_ops (map sop_of ops) in
    let m0 := d_max_id d in
    f <> [] ->
    max_id_bounds d ->
    m0 + 1 + 2 * N.of_nat (fsize f) < U32_LIMIT ->
    root_id d = Some cid ->
    get_object_mut_id (d_objects d) cid = Some (rid, ODict cat) ->
    distinct_titles f -> scalar_titles f ->
    too_deep f = false ->
    (fsize f <= fuel2)%nat ->
    exists b',
      build_outline (default_fuel b) b = OOk (Some (m0 + 1, 0), b') /\
      let d2 := attach (base b') cid (m0 + 1, 0) in
      dict_get (d_trailer d') K_Root = dict_get (d_trailer d2) K_Root ->
      (forall id, lookup (d_objects d') id = option_map (nn nreal) (lookup (d_objects d2) id)) ->
      length (d_objects d') = length (d_objects d2) ->
      targets_are_pages d2 f ->
      get_pages d' = get_pages d2 /\
      get_toc fuel2 d' = if name_tree_readable d2 then TOk (expected_toc d2 f) 0 else TErr.
Proof.
  intros nreal d ops cid rid cat fuel2 d' H0 b f m0 H1 H2 H3 H4 H5 H7 H8 H9 H10.
  apply (reads_back_ops_reload_nm nreal d ops cid rid cat fuel2 d'); try assumption.
  apply N.ltb_ge. exact H9.
Qed.

(* get_named_destinations takes the same path in the reloaded document: readable iff readable *)
Theorem C17_name_tree_after_reload :
  forall nreal, (forall r, (exists z, nreal r = OInt z) \/ (exists r', nreal r = OReal r')) ->
  forall d d',
    dict_get (d_trailer d') K_Root = dict_get (d_trailer d) K_Root ->
    (forall id, lookup (d_objects d') id = option_map (nn nreal) (lookup (d_objects d) id)) ->
    length (d_objects d') = length (d_objects d) ->
    name_tree_readable d' = name_tree_readable d.
Proof. exact readable_reload. Qed.

(* number normalisation never changes the page enumeration of any document *)
Theorem C17_pages_after_reload :
  forall nreal, (forall r, (exists z, nreal r = OInt z) \/ (exists r', nreal r = OReal r')) ->
  forall d d',
    dict_get (d_trailer d') K_Root = dict_get (d_trailer d) K_Root ->
    (forall id, lookup (d_objects d') id = option_map (nn nreal) (lookup (d_objects d) id)) ->
    length (d_objects d') = length (d_objects d) ->
    get_pages d' = get_pages d.
Proof. exact get_pages_reload. Qed.

(* (7) Page numbers of the ORIGINAL document.  (4) states the page numbers in the document that is
   read, because get_pages' iteration limit is objects.len(), which the build changes.  On a document
   whose page tree meets C12's hypotheses (represented tree, distinct nodes, height within the limit)
   build_outline + attach leave the page enumeration unchanged, so the numbers are the original ones. *)
Theorem C17_reads_back_original_pages :
  forall d ops cid rid cat fuel2 pcat i g ks,
    let b := add_all (fresh_bdoc d) ops in
    let f := forest_of_ops (map sop_of ops) in
    let m0 := d_max_id d in
    f <> [] ->
    max_id_bounds d ->
    m0 + 1 + 2 * N.of_nat (OutlineSpec.fsize f) < U32_LIMIT ->
    Outline.root_id d = Some cid ->
    get_object_mut_id (d_objects d) cid = Some (rid, ODict cat) ->
    distinct_titles f -> scalar_titles f ->
    too_deep f = false ->
    (OutlineSpec.fsize f <= fuel2)%nat ->
    catalog d = Some pcat ->
    dict_get pcat K_Pages = Some (ORef i g) ->
    tree_wf d (PNode (i, g) ks) ->
    (N.of_nat (height (PNode (i, g) ks)) <= PAGE_TREE_DEPTH_LIMIT + 1)%N ->
    exists b',
      build_outline (default_fuel b) b = OOk (Some (m0 + 1, 0), b') /\
      let d2 := attach (base b') cid (m0 + 1, 0) in
      get_pages d2 = get_pages d /\
      (targets_are_pages d f ->
       get_toc fuel2 d2 = if name_tree_readable d2 then TOk (expected_toc d f) 0 else TErr).
Proof.
  intros d ops cid rid cat fuel2 pcat i g ks b f m0 H1 H2 H3 H4 H5 H7 H8 H9 H10 H11 H12 H13 H14.
  apply (reads_back_ops_wf_nm d ops cid rid cat fuel2 pcat i g ks); try assumption.
  apply N.ltb_ge. exact H9.
Qed.

Theorem C17_example_original_pages :
  catalog OutlineProofsProps.ex_doc = Some OutlineProofsProps.ex_cat /\
  dict_get OutlineProofsProps.ex_cat K_Pages = Some (ORef 2 0) /\
  tree_wf OutlineProofsProps.ex_doc ex17_tree /\
  (N.of_nat (height ex17_tree) <= PAGE_TREE_DEPTH_LIMIT + 1)%N /\
  get_pages OutlineProofsProps.ex_final = get_pages OutlineProofsProps.ex_doc /\
  get_pages OutlineProofsProps.ex_doc = [(1, (3, 0)); (2, (4, 0))].
Proof. exact ex17_wf. Qed.

(* the known class is inhabited and really fails: a chain of 258 bookmarks over a two-page document
   meets every other hypothesis of (4), is built, and get_toc answers Err *)
Theorem C17_too_deep_witness :
  too_deep deep_forest = true /\
  fheight deep_forest = 258%nat /\
  deep_forest <> [] /\
  distinct_titles deep_forest /\ scalar_titles deep_forest /\
  targets_are_pages deep_final deep_forest /\
  (exists b', build_outline (default_fuel (add_all (fresh_bdoc ex_doc) deep_ops)) (add_all (fresh_bdoc ex_doc) deep_ops)
              = OOk (Some (5, 0), b') /\ attach (base b') (1, 0) (5, 0) = deep_final) /\
  name_tree_readable deep_final = true /\
  get_toc 1000 deep_final = TErr.
Proof. exact deep_witness_nm. Qed.

(* (6) Zero-page parents.  The denoted forest really is a forest (every bookmark id at most once) of
   height at most the number of calls; on any table holding a forest with distinct ids
   adjust_zero_pages leaves a table holding [map fix_tree f] (Spec/OutlineSpec.v: a parent with
   object number 0 and children takes the page of its first child that has one, after the same
   adjustment; everything else unchanged), never panics, and fuel > height suffices. *)
Theorem C17_forest_ids_distinct :
  forall ops : list sop, NoDup (flat_map iids (forest_of_ops ops)).
Proof. exact forest_ids_nodup. Qed.

Theorem C17_forest_height :
  forall ops : list sop, (fheight (forest_of_ops ops) <= length ops)%nat.
Proof. exact forest_height_le. Qed.

Theorem C17_adjust_zero_pages :
  forall b f fuel,
    bookmarks b = map iid f ->
    Forall (trepr (bookmark_table b)) f ->
    NoDup (flat_map iids f) ->
    (fheight f < fuel)%nat ->
    exists b',
      adjust_zero_pages fuel b = OOk b' /\
      base b' = base b /\ bookmarks b' = bookmarks b /\ max_bookmark_id b' = max_bookmark_id b /\
      Forall (trepr (bookmark_table b')) (map fix_tree f) /\
      frame (bookmark_table b) (bookmark_table b') (flat_map iids f).
Proof. exact adjust_zero_pages_ok. Qed.

(* the whole pipeline: calls, adjust_zero_pages, build_outline, attach, get_toc = preorder of the
   fixed-up forest; hypotheses as in (4) *)
Theorem C17_reads_back_adjusted :
  forall d ops cid rid cat fuel fuel2,
    let b := add_all (fresh_bdoc d) ops in
    let f := forest_of_ops (map sop_of ops) in
    let g := map fix_tree f in
    let m0 := d_max_id d in
    f <> [] ->
    max_id_bounds d ->
    m0 + 1 + 2 * N.of_nat (fsize f) < U32_LIMIT ->
    root_id d = Some cid ->
    get_object_mut_id (d_objects d) cid = Some (rid, ODict cat) ->
    distinct_titles f -> scalar_titles f ->
    too_deep f = false ->
    (fheight f <= fuel)%nat ->
    (fsize f <= fuel2)%nat ->
    exists b1 b',
      adjust_zero_pages (default_fuel b) b = OOk b1 /\
      Forall (trepr (bookmark_table b1)) g /\
      build_outline fuel b1 = OOk (Some (m0 + 1, 0), b') /\
      let d2 := attach (base b') cid (m0 + 1, 0) in
      (targets_are_pages d2 g ->
       get_toc fuel2 d2 = if name_tree_readable d2 then TOk (expected_toc d2 g) 0 else TErr).
Proof.
  intros d ops cid rid cat fuel fuel2 b f g m0 H1 H2 H3 H4 H5 H7 H8 H9 H10 H11.
  apply (reads_back_adjusted_nm d ops cid rid cat fuel fuel2); try assumption.
  apply N.ltb_ge. exact H9.
Qed.

(* concrete instance: on A(0,0)[B(0,0)[b], C], D(0,7)[E] the model computes exactly [fix_tree] and the
   adjusted forest reads back with the fixed-up page numbers *)
Theorem C17_adjust_zero_pages_example :
  let b := add_all (fresh_bdoc ex_doc) zero_ops in
  adjust_zero_pages (default_fuel b) b = OOk zero_adjusted /\
  (forall i p, In (i, p) (flat_map tree_pages (map fix_tree zero_forest)) <->
               exists bm, tbl_get (bookmark_table zero_adjusted) i = Some bm /\ bm_page bm = p) /\
  flat_map tree_pages (map fix_tree zero_forest) = [(1, (4, 0)); (2, (4, 0)); (4, (4, 0)); (3, (3, 0)); (5, (3, 0)); (6, (3, 0))] /\
  bookmarks zero_adjusted = bookmarks b /\
  (exists b', build_outline (default_fuel zero_adjusted) zero_adjusted = OOk (Some (5, 0), b') /\
              attach (base b') (1, 0) (5, 0) = zero_final) /\
  get_toc 6 zero_final = TOk (expected_toc zero_final (map fix_tree zero_forest)) 0 /\
  map te_page (expected_toc zero_final (map fix_tree zero_forest)) = [2; 2; 2; 1; 1; 1] /\
  map te_level (expected_toc zero_final (map fix_tree zero_forest)) = [1; 2; 3; 2; 1; 2].
Proof. exact zero_example_nm. Qed.

(* no root bookmark: nothing is built, the document is unchanged *)
Theorem C17_no_bookmark :
  forall fuel b, bookmarks b = [] -> build_outline fuel b = OOk (None, b).
Proof. exact build_outline_empty. Qed.

(* non-vacuity: five calls (a non-ASCII title with an astral character, the empty title, an orphan)
   over a two-page document meet every hypothesis of (4); the result is the expected four rows *)
Theorem C17_example :
  ex_forest <> [] /\
  max_id_bounds ex_doc /\
  d_max_id ex_doc + 1 + 2 * N.of_nat (fsize ex_forest) < U32_LIMIT /\
  root_id ex_doc = Some (1, 0) /\
  get_object_mut_id (d_objects ex_doc) (1, 0) = Some ((1, 0), ODict ex_cat) /\
  no_name_trees ex_cat /\
  distinct_titles ex_forest /\ scalar_titles ex_forest /\
  N.of_nat (fheight ex_forest) <= OUTLINE_DEPTH_LIMIT + 1 /\
  (fsize ex_forest <= 4)%nat /\
  build_outline (default_fuel (add_all (fresh_bdoc ex_doc) ex_ops)) (add_all (fresh_bdoc ex_doc) ex_ops)
    = OOk (Some (5, 0), ex_built) /\
  targets_are_pages ex_final ex_forest /\
  expected_toc ex_final ex_forest = ex_toc /\
  name_tree_readable ex_final = true /\
  get_toc 4 ex_final = TOk ex_toc 0.
Proof. exact ex_hyps_nm. Qed.

(* non-vacuity with a name tree: the same calls over the same document whose catalog has `Names << /Dests 5 0 R >>`, a root node
   with a Kids reference and a leaf with two names (an indirect destination array, a direct dictionary with D):
   get_named_destinations collects both names, get_toc returns the same four rows *)
Theorem C17_example_named_destinations :
  ex_forest <> [] /\ max_id_bounds nd_doc /\
  d_max_id nd_doc + 1 + 2 * N.of_nat (fsize ex_forest) < U32_LIMIT /\
  root_id nd_doc = Some (1, 0) /\
  get_object_mut_id (d_objects nd_doc) (1, 0) = Some ((1, 0), ODict nd_cat) /\
  (exists b', build_outline (default_fuel (add_all (fresh_bdoc nd_doc) ex_ops)) (add_all (fresh_bdoc nd_doc) ex_ops)
              = OOk (Some (8, 0), b') /\ attach (base b') (1, 0) (8, 0) = nd_final) /\
  targets_are_pages nd_final ex_forest /\
  expected_toc nd_final ex_forest = ex_toc /\
  (exists cat tree, catalog nd_final = Some cat /\ named_tree (d_objects nd_final) cat = Some tree /\
     map fst (fst (Query.get_named_destinations (Query.fuel_nd (d_objects nd_final)) (d_objects nd_final) tree []))
     = [bs "intro"; bs "ch1"]) /\
  name_tree_readable nd_final = true /\
  get_toc 4 nd_final = TOk ex_toc 0.
Proof. exact nd_example. Qed.

(* the domain restriction is real: a cyclic name tree (`Dests 5 0 R`, 5 0 obj << /Kids [5 0 R] >>) and an ill-typed one
   (`Dests << /Names [(k) << >>] >>`) beside the same bookmarks: the outline is built as before (the First/Next walk alone
   returns the outlines of the example without a name tree), every other hypothesis of (4) holds, get_toc answers Err.
   Replayed on the crate (notes/C17.md). *)
Theorem C17_unreadable_name_tree_witness :
  max_id_bounds OutlineProofsNamedEx.cyc_doc /\ root_id OutlineProofsNamedEx.cyc_doc = Some (1, 0) /\
  get_object_mut_id (d_objects OutlineProofsNamedEx.cyc_doc) (1, 0) = Some ((1, 0), ODict cyc_cat) /\
  (exists b', build_outline (default_fuel (add_all (fresh_bdoc OutlineProofsNamedEx.cyc_doc) ex_ops))
                            (add_all (fresh_bdoc OutlineProofsNamedEx.cyc_doc) ex_ops)
              = OOk (Some (6, 0), b') /\ attach (base b') (1, 0) (6, 0) = cyc_final) /\
  targets_are_pages cyc_final ex_forest /\
  max_id_bounds bad_doc /\ root_id bad_doc = Some (1, 0) /\
  get_object_mut_id (d_objects bad_doc) (1, 0) = Some ((1, 0), ODict bad_cat) /\
  (exists b', build_outline (default_fuel (add_all (fresh_bdoc bad_doc) ex_ops)) (add_all (fresh_bdoc bad_doc) ex_ops)
              = OOk (Some (5, 0), b') /\ attach (base b') (1, 0) (5, 0) = bad_final) /\
  targets_are_pages bad_final ex_forest /\
  name_tree_readable cyc_final = false /\ get_toc 4 cyc_final = TErr /\
  name_tree_readable bad_final = false /\ get_toc 4 bad_final = TErr /\
  (exists outs b1 b2,
     outs <> [] /\
     option_map (fun first => walk 4 (d_objects cyc_final) first [] (N.of_nat (length (d_objects cyc_final))) 0)
                (first_of cyc_final 6) = Some (WOk (outs, b1, [])) /\
     option_map (fun first => Toc.walk 4 (d_objects ex_final) first (N.of_nat (length (d_objects ex_final))) 0)
                (first_of ex_final 5) = Some (WOk (outs, b2))).
Proof. exact unreadable_witness. Qed.

Print Assumptions C17_forest_of_calls.
Print Assumptions C17_orphans_ignored.
Print Assumptions C17_outline_links_consistent.
Print Assumptions C17_outline_ids_fresh.
Print Assumptions C17_titles_and_dests.
Print Assumptions C17_title_any_unicode.
Print Assumptions C17_reads_back.
Print Assumptions C17_reads_back_no_name_tree.
Print Assumptions C17_unreadable_name_tree_fails.
Print Assumptions C17_named_destinations_return.
Print Assumptions C17_model_without_name_tree.
Print Assumptions C17_well_formed_name_tree_readable.
Print Assumptions C17_example_well_formed_name_tree.
Print Assumptions C17_reads_back_forest.
Print Assumptions C17_reads_back_after_reload.
Print Assumptions C17_name_tree_after_reload.
Print Assumptions C17_pages_after_reload.
Print Assumptions C17_reads_back_original_pages.
Print Assumptions C17_example_original_pages.
Print Assumptions C17_too_deep_witness.
Print Assumptions C17_forest_ids_distinct.
Print Assumptions C17_forest_height.
Print Assumptions C17_adjust_zero_pages.
Print Assumptions C17_reads_back_adjusted.
Print Assumptions C17_adjust_zero_pages_example.
Print Assumptions C17_no_bookmark.
Print Assumptions C17_example.
Print Assumptions C17_example_named_destinations.
Print Assumptions C17_unreadable_name_tree_witness.

(* ------------------------------------------------------------------------------------------
   (5') After saving and reloading, with C01_full discharging the premises of (5)
   (proofs in Proofs/ComposeReload.v, Proofs/ComposeOutline.v).  [savable], [known_deep], [small_file] are C01's
   domain (Spec/SaveSpec.v); [load] / [save] the models of Reader::read / Document::save_to C01_full is about.
   [op_ok] / [tbl_ok]: what the Rust types of a Bookmark guarantee (colour = three finite f32, format u32, page an
   ObjectId, Vec lengths).  The bound on object numbers is C01's (max_id + 2 < 2^32: save needs one more number).
   The section imports are local to it.
   ------------------------------------------------------------------------------------------ *)
From LV Require Model.Save Model.Xref Model.Loader Spec.SaveSpec Proofs.ComposeReload Proofs.ComposeOutline.
Section AfterSaveAndReload.
  Import Model.Save Model.Xref Model.Loader Spec.SaveSpec Proofs.ComposeReload Proofs.ComposeOutline.

  (* cross-reference TABLE format.  The document build_outline + attach produce is again in C01's domain (the created
     objects are well-formed dictionaries without Type, under fresh numbers), so C01_full applies: the file loads, and
     the loaded document has the same pages, a name tree that is readable iff that of d2 is, and the same table of
     contents.  ANY catalog; no hypothesis on the page tree. *)
  Theorem C17_reads_back_after_save_load_table :
    forall d ops cid rid cat fuel2,
      let b := add_all (fresh_bdoc d) ops in
      let f := forest_of_ops (map sop_of ops) in
      let m0 := d_max_id d in
      f <> [] ->
      max_id_bounds d ->
      m0 + 1 + 2 * N.of_nat (OutlineSpec.fsize f) + 2 < u32_mod ->
      Outline.root_id d = Some cid ->
      get_object_mut_id (d_objects d) cid = Some (rid, ODict cat) ->
      distinct_titles f -> scalar_titles f ->
      too_deep f = false ->
      (OutlineSpec.fsize f <= fuel2)%nat ->
      savable d -> known_deep d = false ->
      Forall op_ok ops -> N.of_nat (length ops) < u32_mod ->
      exists b',
        build_outline (default_fuel b) b = OOk (Some (m0 + 1, 0), b') /\
        let d2 := attach (base b') cid (m0 + 1, 0) in
        savable d2 /\ known_deep d2 = false /\
        (small_file XTable d2 -> targets_are_pages d2 f ->
         exists d', load (so_bytes (save XTable d2)) = LOk d' XTTable /\
                    get_pages d' = get_pages d2 /\
                    name_tree_readable d' = name_tree_readable d2 /\
                    get_toc fuel2 d' = if name_tree_readable d2 then TOk (expected_toc d2 f) 0 else TErr).
  Proof. exact reads_back_ops_after_save_load_table_nm. Qed.

  (* EITHER format (xt), page trees meeting C12's hypotheses; page numbers of the ORIGINAL document as in (7).  In the
     stream format the loaded document holds one object more (the cross-reference stream), which enlarges the
     iteration budget of get_pages -- C12_stream_reload_budget_witness shows that this is visible on a cyclic page
     tree -- hence the hypotheses of C12_dfs; it also enlarges the kid budget of get_named_destinations, so whether the
     name tree is readable is stated on the loaded document d'. *)
  Theorem C17_reads_back_after_save_load :
    forall d ops cid rid cat fuel2 xt pcat i g ks,
      let b := add_all (fresh_bdoc d) ops in
      let f := forest_of_ops (map sop_of ops) in
      let m0 := d_max_id d in
      f <> [] ->
      max_id_bounds d ->
      m0 + 1 + 2 * N.of_nat (OutlineSpec.fsize f) + 2 < u32_mod ->
      Outline.root_id d = Some cid ->
      get_object_mut_id (d_objects d) cid = Some (rid, ODict cat) ->
      distinct_titles f -> scalar_titles f ->
      too_deep f = false ->
      (OutlineSpec.fsize f <= fuel2)%nat ->
      savable d -> known_deep d = false ->
      Forall op_ok ops -> N.of_nat (length ops) < u32_mod ->
      catalog d = Some pcat ->
      dict_get pcat K_Pages = Some (ORef i g) ->
      tree_wf d (PNode (i, g) ks) ->
      (N.of_nat (height (PNode (i, g) ks)) <= PAGE_TREE_DEPTH_LIMIT + 1)%N ->
      exists b',
        build_outline (default_fuel b) b = OOk (Some (m0 + 1, 0), b') /\
        let d2 := attach (base b') cid (m0 + 1, 0) in
        savable d2 /\ known_deep d2 = false /\
        (small_file xt d2 -> targets_are_pages d f ->
         exists d', load (so_bytes (save xt d2)) = LOk d' (xtype_of xt) /\
                    get_pages d' = get_pages d /\
                    get_toc fuel2 d' = if name_tree_readable d' then TOk (expected_toc d f) 0 else TErr).
  Proof. exact reads_back_ops_after_save_load_nm. Qed.

  (* the same over any table that holds a forest (e.g. after adjust_zero_pages), either format *)
  Theorem C17_reads_back_forest_after_save_load :
    forall b f cid rid cat fuel fuel2 xt pcat i g ks,
      bookmarks b = map iid f -> f <> [] ->
      Forall (trepr (bookmark_table b)) f ->
      let d := base b in
      let m0 := d_max_id d in
      max_id_bounds d ->
      m0 + 1 + 2 * N.of_nat (OutlineSpec.fsize f) + 2 < u32_mod ->
      Outline.root_id d = Some cid ->
      get_object_mut_id (d_objects d) cid = Some (rid, ODict cat) ->
      distinct_titles f -> scalar_titles f ->
      N.of_nat (OutlineSpec.fheight f) <= OUTLINE_DEPTH_LIMIT + 1 ->
      (OutlineSpec.fheight f <= fuel)%nat ->
      (OutlineSpec.fsize f <= fuel2)%nat ->
      savable d -> known_deep d = false -> tbl_ok (bookmark_table b) ->
      catalog d = Some pcat ->
      dict_get pcat K_Pages = Some (ORef i g) ->
      tree_wf d (PNode (i, g) ks) ->
      (N.of_nat (height (PNode (i, g) ks)) <= PAGE_TREE_DEPTH_LIMIT + 1)%N ->
      exists b',
        build_outline fuel b = OOk (Some (m0 + 1, 0), b') /\
        let d2 := attach (base b') cid (m0 + 1, 0) in
        savable d2 /\ known_deep d2 = false /\
        (small_file xt d2 -> targets_are_pages d f ->
         exists d', load (so_bytes (save xt d2)) = LOk d' (xtype_of xt) /\
                    get_pages d' = get_pages d /\
                    get_toc fuel2 d' = if name_tree_readable d' then TOk (expected_toc d f) 0 else TErr).
  Proof. exact reads_back_after_save_load_nm. Qed.

  (* non-vacuity: the example of C17_example meets the additional hypotheses; both reloaded documents read back to the
     four rows; the stream-format one holds one object more.  The example with a name tree (C17_example_named_destinations)
     too: savable, and after either save + load the tree is readable and the four rows come back *)
  Theorem C17_example_after_save_load :
    savable OutlineProofsProps.ex_doc /\ known_deep OutlineProofsProps.ex_doc = false /\
    Forall op_ok ex_ops /\ N.of_nat (length ex_ops) < u32_mod /\
    d_max_id OutlineProofsProps.ex_doc + 1 + 2 * N.of_nat (OutlineSpec.fsize ex_forest) + 2 < u32_mod /\
    small_file XTable ex_final /\ small_file XStream ex_final /\
    targets_are_pages ex_final ex_forest /\
    get_toc 4 (reloaded XTable ex_final) = TOk ex_toc 0 /\
    get_toc 4 (reloaded XStream ex_final) = TOk ex_toc 0 /\
    length (d_objects (reloaded XStream ex_final)) = S (length (d_objects ex_final)) /\
    savable nd_doc /\ known_deep nd_doc = false /\
    d_max_id nd_doc + 1 + 2 * N.of_nat (OutlineSpec.fsize ex_forest) + 2 < u32_mod /\
    small_file XTable nd_final /\ small_file XStream nd_final /\
    name_tree_readable (reloaded XTable nd_final) = true /\
    name_tree_readable (reloaded XStream nd_final) = true /\
    get_toc 4 (reloaded XTable nd_final) = TOk ex_toc 0 /\
    get_toc 4 (reloaded XStream nd_final) = TOk ex_toc 0.
  Proof. exact ex_after_save_load_nm. Qed.
End AfterSaveAndReload.

Print Assumptions C17_reads_back_after_save_load_table.
Print Assumptions C17_reads_back_after_save_load.
Print Assumptions C17_reads_back_forest_after_save_load.
Print Assumptions C17_example_after_save_load.
