(* Props/C17.v -- placeholder while the correspondence is being brought up *)
From LV Require Import Base.Bytes Model.Obj Model.Outline Model.Toc.
Theorem C17_placeholder : title_bytes [] = [].
Proof. reflexivity. Qed.
Print Assumptions C17_placeholder.
