(* Dfs.v -- specification side of C12: page trees as an inductive datatype, their leaves in
   depth-first left-to-right order, and what it means for a document graph to represent one.
   Shares nothing with Model/PageTree.v except the object data model and the accessors. *)
From LV Require Import Base.Bytes Model.Obj Model.DocQ.

Inductive ptree :=
| PLeaf (id : oid)
| PNode (id : oid) (kids : list ptree).

Definition root_id (t : ptree) : oid := match t with PLeaf i => i | PNode i _ => i end.

Fixpoint leaves (t : ptree) : list oid :=
  match t with
  | PLeaf i => [i]
  | PNode _ ks => flat_map leaves ks
  end.

Fixpoint ids (t : ptree) : list oid :=
  match t with
  | PLeaf i => [i]
  | PNode i ks => i :: flat_map ids ks
  end.

(* height: a leaf has height 0, an intermediate node one more than its highest kid *)
Fixpoint height (t : ptree) : nat :=
  match t with
  | PLeaf _ => 0
  | PNode _ ks => S (fold_right (fun k acc => Nat.max (height k) acc) 0 ks)
  end.
Definition fheight (f : list ptree) : nat := fold_right (fun k acc => Nat.max (height k) acc) 0 f.

Definition ref_of (t : ptree) : obj := ORef (fst (root_id t)) (snd (root_id t)).

(* The object graph [m] holds the tree [t]:
   a leaf is (reachable through get_dictionary as) a dictionary of type Page;
   an intermediate node is a dictionary of type Pages whose Kids entry is, directly or behind
   references, exactly the array of references to its kids, each of which is represented. *)
Inductive represents (m : objmap) : ptree -> Prop :=
| RLeaf id d :
    get_dictionary m id = Some d -> get_type d = Some K_Page ->
    represents m (PLeaf id)
| RNode id d ks :
    get_dictionary m id = Some d -> get_type d = Some K_Pages ->
    get_deref m d K_Kids = Some (OArr (map ref_of ks)) ->
    Forall (represents m) ks ->
    represents m (PNode id ks).

(* numbering 1..n *)
Fixpoint numbered (n : N) (l : list oid) : list (N * oid) :=
  match l with [] => [] | x :: l' => (n, x) :: numbered (n + 1) l' end.
