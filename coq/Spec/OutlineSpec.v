(* OutlineSpec.v -- specification side of C17, written from the property text and ISO 32000
   12.3.3 (document outline): bookmark forests, the forest denoted by a sequence of add_bookmark
   calls, what it means for an object graph to hold the outline of a forest (First / Last / Next /
   Prev / Parent / Count / Title / A), the expected table of contents (preorder, level = depth+1)
   and the page a zero-page parent must end up with.
   Shares with the models only the object data model, the key names and [title_bytes] (whose
   meaning is pinned independently by the decoding theorem [decode_title_bytes]). *)
From LV Require Import Base.Bytes Model.Obj Model.Outline.

Record bdata := { b_title : ustring; b_format : N; b_color : bytes * bytes * bytes; b_page : oid }.

(* a bookmark tree; [bid] is the bookmark id add_bookmark returned for it *)
Inductive itree := INode (bid : N) (d : bdata) (kids : list itree).
Definition iid (t : itree) : N := match t with INode i _ _ => i end.
Definition idata (t : itree) : bdata := match t with INode _ d _ => d end.
Definition ikids (t : itree) : list itree := match t with INode _ _ k => k end.

Fixpoint isize (t : itree) : nat :=
  match t with INode _ _ ks => S (fold_right (fun k acc => isize k + acc) 0 ks) end.
Definition fsize (f : list itree) : nat := fold_right (fun k acc => isize k + acc) 0 f.

Fixpoint iheight (t : itree) : nat :=
  match t with INode _ _ ks => S (fold_right (fun k acc => Nat.max (iheight k) acc) 0 ks) end.
Definition fheight (f : list itree) : nat := fold_right (fun k acc => Nat.max (iheight k) acc) 0 f.

Fixpoint iids (t : itree) : list N :=
  match t with INode i _ ks => i :: flat_map iids ks end.

(* ---------- expected table of contents ---------- *)
Fixpoint rows (level : N) (t : itree) : list (N * ustring * oid) :=
  match t with INode _ d ks => (level, b_title d, b_page d) :: flat_map (rows (level + 1)) ks end.
Definition preorder (f : list itree) : list (N * ustring * oid) := flat_map (rows 1) f.

Definition titles (f : list itree) : list ustring := map (fun r => snd (fst r)) (preorder f).
Definition targets (f : list itree) : list oid := map snd (preorder f).

(* ---------- the forest denoted by a sequence of add_bookmark calls ----------
   The k-th call (k = 1, 2, ...) creates bookmark k.  It becomes a root when no parent is given,
   a child of p when p was created before (1 <= p < k), and is otherwise attached nowhere.
   Children keep the order in which they were added. *)
Definition sop := (bdata * option N)%type.
Fixpoint index_from {A} (n : N) (l : list A) : list (N * A) :=
  match l with [] => [] | x :: l' => (n, x) :: index_from (n + 1) l' end.

Definition is_child_of (p : N) (e : N * sop) : bool :=
  match snd (snd e) with Some q => (q =? p)%N && (p <? fst e)%N | None => false end.
Definition is_root (e : N * sop) : bool :=
  match snd (snd e) with None => true | Some _ => false end.

Fixpoint tree_of (fuel : nat) (iops : list (N * sop)) (e : N * sop) : itree :=
  match fuel with
  | O => INode (fst e) (fst (snd e)) []
  | S f => INode (fst e) (fst (snd e)) (map (tree_of f iops) (filter (is_child_of (fst e)) iops))
  end.
Definition forest_of_ops (ops : list sop) : list itree :=
  let iops := index_from 1 ops in
  map (tree_of (length ops) iops) (filter is_root iops).

(* ---------- zero-page parents ----------
   adjust_zero_pages: "Adjusts the Parents that have a ObjectId of (0,_) to that of their first
   child": a node with object number 0 and at least one child takes the page of its first child
   that has one (after the same adjustment); everything else is unchanged. *)
Definition first_nonzero (l : list oid) : oid :=
  match filter (fun p => negb (fst p =? 0)%N) l with p :: _ => p | [] => (0, 0)%N end.
Fixpoint eff_page (t : itree) : oid :=
  match t with
  | INode _ d ks =>
    if (fst (b_page d) =? 0)%N && nonempty ks then first_nonzero (map eff_page ks) else b_page d
  end.
Definition with_page (d : bdata) (p : oid) : bdata :=
  {| b_title := b_title d; b_format := b_format d; b_color := b_color d; b_page := p |}.
Fixpoint fix_tree (t : itree) : itree :=
  match t with
  | INode i d ks => INode i (with_page d (eff_page t)) (map fix_tree ks)
  end.

(* ---------- outline objects ---------- *)
(* a forest whose nodes carry the ids of their outline item and action dictionaries *)
Inductive otree := ONode (id info : N) (d : bdata) (kids : list otree).
Definition o_id (t : otree) : N := match t with ONode i _ _ _ => i end.

Fixpoint osize (t : otree) : nat :=
  match t with ONode _ _ _ ks => S (fold_right (fun k acc => osize k + acc) 0 ks) end.
Definition ofsize (f : list otree) : nat := fold_right (fun k acc => osize k + acc) 0 f.

(* all object numbers, in preorder: item, action, then the children *)
Fixpoint oids (t : otree) : list N :=
  match t with ONode i a _ ks => i :: a :: flat_map oids ks end.

(* outline ids are handed out in preorder from [m]: two per bookmark *)
Inductive numbered : N -> list itree -> list otree -> N -> Prop :=
| num_nil m : numbered m [] [] m
| num_cons m b d ks ks' m1 rest rest' m2 :
    numbered (m + 2) ks ks' m1 ->
    numbered m1 rest rest' m2 ->
    numbered m (INode b d ks :: rest) (ONode (m + 1) (m + 2) d ks' :: rest') m2.

Definition head_id (l : list otree) : option N :=
  match l with [] => None | t :: _ => Some (o_id t) end.
Fixpoint last_id (l : list otree) : option N :=
  match l with [] => None | [t] => Some (o_id t) | _ :: r => last_id r end.
Definition oref (o : option N) : option obj := option_map (fun n => ORef n 0) o.

(* the entries ISO 32000 table 153 requires of an outline item, and what the property asks *)
Record item_ok (d : dict) (parent : N) (prev next : option N) (info : N) (bd : bdata) (kids : list otree) : Prop := {
  io_parent : dict_get d K_Parent = Some (ORef parent 0);
  io_title : dict_get d K_Title = Some (OStr (title_bytes (b_title bd)) false);
  io_a : dict_get d K_A = Some (ORef info 0);
  io_prev : dict_get d K_Prev = oref prev;
  io_next : dict_get d K_Next = oref next;
  io_first : dict_get d K_First = oref (head_id kids);
  io_last : dict_get d K_Last = oref (last_id kids);
  io_count : dict_get d K_Count = match kids with [] => None | _ => Some (OInt (Z.of_nat (length kids))) end;
  io_format : dict_get d K_F = Some (OInt (Z.of_N (b_format bd)));
  io_dest : dict_get d (bs "Dest") = None;
}.
(* a go-to action whose destination is [page /Fit] *)
Record action_ok (a : dict) (bd : bdata) : Prop := {
  ao_s : dict_get a K_S = Some (OName K_GoTo);
  ao_d : dict_get a K_D = Some (OArr [ORef (fst (b_page bd)) (snd (b_page bd)); OName K_Fit]);
}.

Section Repr.
  Variable get : N -> option dict.      (* the dictionary stored as object (n, 0) *)

  (* the sibling list [l] hangs under [parent]; [prev] is the sibling before its head *)
  Inductive items_ok : N -> option N -> list otree -> Prop :=
  | IO_nil parent prev : items_ok parent prev []
  | IO_cons parent prev id info bd kids rest d a :
      get id = Some d -> item_ok d parent prev (head_id rest) info bd kids ->
      get info = Some a -> action_ok a bd ->
      items_ok id None kids ->
      items_ok parent (Some id) rest ->
      items_ok parent prev (ONode id info bd kids :: rest).

  (* the outline root *)
  Record outline_ok (root : N) (f : list otree) : Prop := {
    oo_items : items_ok root None f;
    oo_root : exists d, get root = Some d /\
                        dict_get d K_First = oref (head_id f) /\ dict_get d K_Last = oref (last_id f) /\
                        dict_get d K_Count = Some (OInt (Z.of_nat (length f))) /\
                        dict_get d K_Parent = None /\ dict_get d K_Prev = None /\ dict_get d K_Next = None;
  }.
End Repr.

(* the table of bookmarks holds the forest *)
Inductive trepr (tbl : btable) : itree -> Prop :=
| TR i d ks bm :
    tbl_get tbl i = Some bm ->
    bm_title bm = b_title d -> bm_format bm = b_format d -> bm_color bm = b_color d -> bm_page bm = b_page d ->
    bm_children bm = map iid ks ->
    Forall (trepr tbl) ks ->
    trepr tbl (INode i d ks).
