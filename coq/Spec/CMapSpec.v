(* CMapSpec.v -- what a ToUnicode CMap defines, written from the property text (ISO 32000-1
   9.10.3 bfchar / bfrange), not from the code.  It shares with the model only the input type
   (the parsed sections).

     - definitions are read in the order they are written; for a code of a given length the LAST
       definition of that length that covers it decides;
     - a bfchar <c> <t> covers c alone and gives t;
     - a bfrange <lo> <hi> <t> gives t with (code - lo) added to its last UTF-16 unit (u16 arithmetic);
     - a bfrange <lo> <hi> [t0 t1 ...] gives the (code - lo)-th entry;
     - codes are 1 to 4 bytes long; codes of different lengths are different codes;
     - UTF-16: a high surrogate followed by a low surrogate is one scalar value. *)
From LV Require Import Base.Bytes Model.CMap.

Inductive sdst := Units (u : list N) | Entries (a : list (list N)).
Record sdef := mkDef { d_len : N; d_lo : N; d_hi : N; d_dst : sdst }.

(* sections -> definitions in written order *)
Definition def_of_char (x : (N * N) * list N) : sdef :=
  mkDef (snd (fst x)) (fst (fst x)) (fst (fst x)) (Units (snd x)).
Definition def_of_range (x : (N * N * N) * list (list N)) : sdef :=
  let '((lo, hi, len), dst) := x in
  mkDef len lo hi (match dst with [u] => Units u | _ => Entries dst end).
Definition defs_of_section (s : csection) : list sdef :=
  match s with
  | CsRange _ => []
  | BfChar l => map def_of_char l
  | BfRange l => map def_of_range l
  end.
Definition defs_of (secs : list csection) : list sdef := flat_map defs_of_section secs.

Definition covers (d : sdef) (len code : N) : bool :=
  (d_len d =? len)%N && (1 <=? len)%N && (len <=? 4)%N && (d_lo d <=? code)%N && (code <=? d_hi d)%N.

(* the last covering definition *)
Fixpoint last_covering (ds : list sdef) (len code : N) : option sdef :=
  match ds with
  | [] => None
  | d :: r =>
    match last_covering r len code with
    | Some x => Some x
    | None => if covers d len code then Some d else None
    end
  end.

Definition bump_last (u : list N) (off : N) : list N :=
  match u with
  | [] => []
  | _ => removelast u ++ [(last u 0 + off) mod 65536]%N
  end.

Definition target_of (d : sdef) (code : N) : option (list N) :=
  match d_dst d with
  | Units u => Some (bump_last u (code - d_lo d))
  | Entries a => nth_error a (N.to_nat (code - d_lo d))
  end.

Definition lookup (secs : list csection) (len code : N) : option (list N) :=
  match last_covering (defs_of secs) len code with
  | Some d => target_of d code
  | None => None
  end.

(* UTF-16 -> scalar values for well-formed unit strings *)
Definition high (u : N) : Prop := (55296 <= u <= 56319)%N.
Definition low (u : N) : Prop := (56320 <= u <= 57343)%N.
Definition scalar_of_pair (h l : N) : N := (65536 + (h - 55296) * 1024 + (l - 56320))%N.

Inductive utf16 : list N -> list N -> Prop :=
| U16_nil : utf16 [] []
| U16_bmp u us cs : (u < 65536)%N -> ~ high u -> ~ low u -> utf16 us cs -> utf16 (u :: us) (u :: cs)
| U16_pair h l us cs : high h -> low l -> utf16 us cs -> utf16 (h :: l :: us) (scalar_of_pair h l :: cs).

(* a text = a list of codes, each a byte string; its value as a number, big endian *)
Definition code_value (c : bytes) : N := fold_left (fun a b => a * 256 + N_of_byte b)%N c 0%N.
