(* AbstractDoc.v -- specification side of C11, written from the property text and ISO 32000 (7.7.3.3 page
   objects: Contents is a stream or an array of streams, each possibly behind references; 7.7.3.4
   inheritance: Resources is taken from the nearest ancestor that has it).  Shares only the object data
   model and the dereferencing accessors with Model/Edit.v.

   The abstract document: the object map with its allocation cursor, and the pages as a list of
   (content bytes, effective resources). *)
From LV Require Import Base.Bytes Model.Obj Model.DocQ Model.PageTree Gen.Consts.

Definition S_Contents := Eval cbv in bs "Contents".
Definition S_Resources := Eval cbv in bs "Resources".
Definition S_Filter := Eval cbv in bs "Filter".

Section Spec.
  (* what a stream object decodes to (filters are C09's business; here it is a parameter) *)
  Variable decode : dict -> bytes -> bytes.

  Definition stream_data (m : objmap) (o : obj) : option bytes :=
    match dereference m o with
    | Some (_, OStream sd c) => Some (decode sd c)
    | _ => None
    end.

  Fixpoint concat_streams (m : objmap) (l : list obj) : option bytes :=
    match l with
    | [] => Some []
    | x :: l' => match stream_data m x, concat_streams m l' with
                 | Some a, Some b => Some (a ++ b)
                 | _, _ => None
                 end
    end.

  (* the content of a page: absent Contents = empty; a stream; or the concatenation of an array of streams *)
  Definition page_content (m : objmap) (page : oid) : option bytes :=
    match get_dictionary m page with
    | None => None
    | Some pd =>
      match dict_get pd S_Contents with
      | None => Some []
      | Some c =>
        match dereference m c with
        | Some (_, OStream sd b) => Some (decode sd b)
        | Some (_, OArr l) => concat_streams m l
        | _ => None
        end
      end
    end.

  (* the nearest Resources entry up the Parent chain *)
  Fixpoint nearest_resources (fuel : nat) (m : objmap) (node : dict) : option obj :=
    match dict_get node S_Resources with
    | Some r => Some r
    | None =>
      match fuel with
      | O => None
      | S k =>
        match dict_get node K_Parent with
        | Some (ORef i g) => match get_dictionary m (i, g) with
                             | Some pd => nearest_resources k m pd
                             | None => None
                             end
        | _ => None
        end
      end
    end.

  (* flattened to (category, name, value); a category that is not a dictionary counts as one unnamed resource *)
  Definition flatten_resources (m : objmap) (rd : dict) : list (bytes * bytes * obj) :=
    flat_map (fun kv : bytes * obj =>
                match dereference m (snd kv) with
                | Some (_, ODict cd) => map (fun nx : bytes * obj => (fst kv, fst nx, snd nx)) cd
                | Some (_, x) => [(fst kv, [], x)]
                | None => []
                end) rd.

  Definition effective_resources (m : objmap) (page : oid) : option (list (bytes * bytes * obj)) :=
    match get_dictionary m page with
    | None => None
    | Some pd =>
      match nearest_resources (length m) m pd with
      | None => Some []
      | Some r => match dereference m r with
                  | Some (_, ODict rd) => Some (flatten_resources m rd)
                  | _ => None
                  end
      end
    end.

  Record apage := { ap_id : oid; ap_content : option bytes; ap_resources : option (list (bytes * bytes * obj)) }.
  Record adoc := { a_objects : objmap; a_cursor : N; a_pages : list apage }.

  Definition abstract (d : doc) : adoc :=
    {| a_objects := d_objects d; a_cursor := d_max_id d;
       a_pages := map (fun p => {| ap_id := p; ap_content := page_content (d_objects d) p;
                                   ap_resources := effective_resources (d_objects d) p |}) (page_iter d) |}.

  (* every resource name usable before is still usable afterwards *)
  Definition res_le (r1 r2 : option (list (bytes * bytes * obj))) : Prop :=
    match r1, r2 with
    | Some l1, Some l2 => forall cat n x, In (cat, n, x) l1 -> exists x', In (cat, n, x') l2
    | Some [], None => True
    | Some _, None => False
    | None, _ => True
    end.
End Spec.
