(* ZlibStoredSpec.v -- a zlib stream (RFC 1950) whose deflate data (RFC 1951) consists of stored blocks only.
   Written from the RFCs; used by the reference PDF writer for FlateDecode on structural streams.

   RFC 1950: CMF = 0x78 (deflate, 32K window), FLG = 0x01 (no dictionary, level 0; 0x7801 is a multiple of 31),
             compressed data, ADLER32 of the uncompressed data, most significant byte first.
   RFC 1951 3.2.4: a stored block starts at a byte boundary here: header byte = BFINAL (bit 0) with BTYPE = 00,
             LEN (2 bytes, least significant first), NLEN = one's complement of LEN, LEN bytes of data.
   RFC 1950 8.2: Adler-32: s1 = 1 + sum of bytes, s2 = sum of the s1 values, both modulo 65521; s2 * 65536 + s1. *)
From LV Require Import Base.Bytes.

Local Open Scope N_scope.

Definition adler32 (data : bytes) : N :=
  let '(a, b) := fold_left (fun ab c => let a' := (fst ab + N_of_byte c) mod 65521 in (a', (snd ab + a') mod 65521))
                           data (1, 0) in
  b * 65536 + a.

Definition le16 (v : N) : bytes := [byte_of_N (v mod 256); byte_of_N (v / 256)].
Definition be32 (v : N) : bytes :=
  [byte_of_N (v / 16777216); byte_of_N (v / 65536); byte_of_N (v / 256); byte_of_N v].

Definition stored_block (final : bool) (chunk : bytes) : bytes :=
  let len := N.of_nat (length chunk) in
  (if final then x01 else x00) :: le16 len ++ le16 (65535 - len) ++ chunk.

(* blocks of at most [size] bytes (1 <= size <= 65535); the last one is final.  [fuel] >= number of blocks *)
Fixpoint stored_blocks (fuel : nat) (size : nat) (data : bytes) : bytes :=
  match fuel with
  | O => stored_block true (firstn (N.to_nat 65535) data)
  | S f =>
    if (length data <=? size)%nat then stored_block true data
    else stored_block false (firstn size data) ++ stored_blocks f size (skipn size data)
  end.

Definition block_size (k : N) : nat := N.to_nat (1 + k mod 65535).

Definition zlib_stored (k : N) (data : bytes) : bytes :=
  x78 :: x01 :: stored_blocks (length data) (block_size k) data ++ be32 (adler32 data).
