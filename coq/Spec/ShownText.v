(* ShownText.v -- what a reader of a content stream sees when text is shown with Tj / TJ inside one
   BT .. ET block, as a plain function of the shown strings (independent of Model/TextExtract.v).

   Layout rule of extract_text (documented behaviour, part of this specification): the strings of a
   TJ array are joined, an integer adjustment below -100 (thousandths of an em, i.e. a visible gap)
   counts as one space, the array is followed by one space, and the end of the text object ends the
   line.  Apart from these separators the shown text is returned unchanged. *)
From Coq Require Import NArith ZArith List.
Import ListNotations.
Local Open Scope N_scope.

Definition text := list N.                       (* Unicode scalar values *)

Inductive item := IText (t : text) (hex : bool) | IAdjust (k : Z).
Inductive piece := PTj (t : text) (hex : bool) | PTJ (items : list item).

Definition item_text (i : item) : text :=
  match i with
  | IText t _ => t
  | IAdjust k => if (k <? -100)%Z then [32] else []
  end.

Definition piece_text (p : piece) : text :=
  match p with
  | PTj t _ => t
  | PTJ items => concat (map item_text items) ++ [32]
  end.

Definition shown_text (ps : list piece) : text := concat (map piece_text ps) ++ [10].

(* every shown character is in a given repertoire *)
Definition item_over (R : N -> Prop) (i : item) : Prop :=
  match i with IText t _ => Forall R t | IAdjust _ => True end.
Definition piece_over (R : N -> Prop) (p : piece) : Prop :=
  match p with PTj t _ => Forall R t | PTJ items => Forall (item_over R) items end.
