(* DfsCounts.v -- specification side of C12, second part: what it means that the Count entries of a
   represented page tree are right (ISO 32000-1 7.7.3.2: Count = number of leaf nodes that are
   descendants of the node), and the count-down a size hint should show while the pages are enumerated.
   Shares nothing with Model/PageTreeHint.v except the object data model and the accessors. *)
From LV Require Import Base.Bytes Model.Obj Model.DocQ Spec.Dfs.

Inductive counts_exact (m : objmap) : ptree -> Prop :=
| CLeaf id : counts_exact m (PLeaf id)
| CNode id d ks :
    get_dictionary m id = Some d ->
    get_deref m d K_Count = Some (OInt (Z.of_nat (length (leaves (PNode id ks))))) ->
    Forall (counts_exact m) ks ->
    counts_exact m (PNode id ks).

(* what is promised after each yielded page must cover the pages still to come *)
Fixpoint steps_ok (steps : list (oid * (N * N))) : Prop :=
  match steps with
  | [] => True
  | (_, h) :: r => ((fst h <= snd h)%N /\ (N.of_nat (length r) <= snd h)%N) /\ steps_ok r
  end.

(* the lower bounds announced after each yielded page, and what they should be: n-1, n-2, .., 0 *)
Definition lowers (steps : list (oid * (N * N))) : list N := map (fun s => fst (snd s)) steps.

Fixpoint countdown (n : nat) : list N :=
  match n with O => [] | S k => N.of_nat k :: countdown k end.
