(* PageTreeEdit.v -- specification side of C11's page-tree clause ("Page-tree Counts equal the number of leaf pages",
   delete_pages), written from the property text and ISO 32000-1 7.7.3.2 (page tree nodes: Type, Parent, Kids, Count).
   Shares only the object data model and C12's tree vocabulary (Spec/Dfs.v: ptree, leaves, ids, ref_of) with the models.

   * [page_tree m par t]: the object map holds the page tree [t] in the plain way every writer produces it: each node is a
     dictionary OBJECT (not a reference to one) with unique keys; a leaf has Type Page; an intermediate node has Type
     Pages, Kids = the array of references to its kids (in the dictionary itself), Count = the number of leaf pages below
     it; the Parent entry of every node below the root names the node it hangs under, the root has none.
   * [page_doc d t]: the trailer's Root names a catalog dictionary object whose Pages entry names the root of such a tree,
     the nodes are pairwise different and the catalog is none of them.
   * [prune p t]: the abstract deletion -- the kid named [p] is taken out of the node it hangs under; nothing else moves. *)
From LV Require Import Base.Bytes Model.Obj Model.DocQ Spec.Dfs.

Definition parent_ref (o : option obj) : option oid :=
  match o with Some (ORef i g) => Some (i, g) | _ => None end.

Definition unique_keys (d : dict) : Prop := NoDup (map fst d).

Inductive page_tree (m : objmap) : option oid -> ptree -> Prop :=
| PTLeaf par id d :
    lookup m id = Some (ODict d) -> unique_keys d ->
    dict_get d K_Type = Some (OName K_Page) ->
    parent_ref (dict_get d K_Parent) = par ->
    page_tree m par (PLeaf id)
| PTNode par id d ks :
    lookup m id = Some (ODict d) -> unique_keys d ->
    dict_get d K_Type = Some (OName K_Pages) ->
    dict_get d K_Kids = Some (OArr (map ref_of ks)) ->
    dict_get d K_Count = Some (OInt (Z.of_nat (length (leaves (PNode id ks))))) ->
    parent_ref (dict_get d K_Parent) = par ->
    Forall (page_tree m (Some id)) ks ->
    page_tree m par (PNode id ks).

Definition is_node (t : ptree) : Prop := match t with PNode _ _ => True | PLeaf _ => False end.

Definition page_doc (d : doc) (t : ptree) : Prop :=
  exists ci cg cat,
    unique_keys (d_trailer d) /\
    dict_get (d_trailer d) K_Root = Some (ORef ci cg) /\
    lookup (d_objects d) (ci, cg) = Some (ODict cat) /\ unique_keys cat /\
    dict_get cat K_Pages = Some (ref_of t) /\
    is_node t /\
    page_tree (d_objects d) None t /\
    NoDup (ids t) /\ ~ In (ci, cg) (ids t).

(* the kid named p leaves its parent's list *)
Fixpoint prune (p : oid) (t : ptree) : ptree :=
  match t with
  | PLeaf i => PLeaf i
  | PNode i ks => PNode i (flat_map (fun k => if oid_eqb (root_id k) p then [] else [prune p k]) ks)
  end.

Definition prune_all (ps : list oid) (t : ptree) : ptree := fold_left (fun t p => prune p t) ps t.
