(* StreamCodecSpec.v -- filtered streams whose FlateDecode / LZWDecode stages are defined by the executable codecs
   of Spec/Inflate.v (RFC 1950/1951) and Spec/LzwSpec.v (ISO 32000-1 7.4.4.2) instead of by the third-party
   decoders.  Spec/StreamSpec.v says "enc is a zlib / LZW stream for payload" by asking the decoder oracle; here it
   is said by the standard's own decoder, written in Gallina:

     enc is a zlib stream for payload            :=  Inflate.inflate enc = Some payload
     enc is an LZW stream for payload (early e)  :=  LzwSpec.lzw_decode e enc = Some payload

   and the reference ENCODERS (stored-block deflate of Spec/ZlibStoredSpec.v with any block size, the LZW encoder
   with any clearing point up to the full table) are shown in Proofs/FilterProofsCodec.v to produce such streams.

   What remains assumed about flate2 / weezl is then exactly
     implements_inflate f  : on every stream the RFC decoder accepts, flate2's decoder leaves the RFC decoder's answer,
     implements_lzw l      : on every stream the LZW decoder accepts, weezl's decoder leaves that decoder's answer,
     valid_zlib_output     : flate2's compressor output is a zlib stream for its input (only in compress_lossless),
   and each of them is differential-tested against the extracted Gallina codecs on every run (props/c09.py, cases
   lzwrt / lzwdec / zrt / zdec). *)
From LV Require Import Base.Bytes Model.Obj Spec.A85Spec Spec.PngSpec Spec.StreamSpec.
From LV Require Spec.LzwSpec Spec.Inflate Spec.ZlibStoredSpec.

(* the third-party decoders agree with the Gallina decoders wherever those succeed *)
Definition implements_inflate (f : bytes -> bytes) : Prop :=
  forall enc d, Inflate.inflate enc = Some d -> f enc = d.

Definition implements_lzw (l : bool -> bytes -> bytes) : Prop :=
  forall e enc d, LzwSpec.lzw_decode e enc = Some d -> l e enc = d.

(* the third-party compressor writes a zlib stream for its input *)
Definition valid_zlib_output (deflate : bytes -> bytes) (c : bytes) : Prop :=
  Inflate.inflate (deflate c) = Some c.

(* the Gallina decoders themselves as total functions (nothing on a rejected stream) *)
Definition gallina_inflate (enc : bytes) : bytes :=
  match Inflate.inflate enc with Some d => d | None => [] end.
Definition gallina_lzw (e : bool) (enc : bytes) : bytes :=
  match LzwSpec.lzw_decode e enc with Some d => d | None => [] end.

(* one stage, defined by the standards' decoders *)
Definition encodes_stage_std (st : stage) (data enc : bytes) : Prop :=
  match st with
  | SA85 => a85_text data enc
  | SFlate pr => exists payload, predicted pr data payload /\ Inflate.inflate enc = Some payload
  | SLzw early pr => exists payload, predicted pr data payload /\ LzwSpec.lzw_decode early enc = Some payload
  end.

Inductive encodes_chain_std : list stage -> bytes -> bytes -> Prop :=
| ECS_nil plain : encodes_chain_std [] plain plain
| ECS_cons st sts plain mid enc :
    encodes_chain_std sts plain mid -> encodes_stage_std st mid enc -> encodes_chain_std (st :: sts) plain enc.

(* one stage, produced by the reference encoders: ASCII85 text, stored-block zlib with any block size, LZW with
   any clearing point up to the full table *)
Definition encoded_stage_ref (st : stage) (data enc : bytes) : Prop :=
  match st with
  | SA85 => a85_text data enc
  | SFlate pr => exists payload k, predicted pr data payload /\ enc = ZlibStoredSpec.zlib_stored k payload
  | SLzw early pr => exists payload limit, predicted pr data payload /\ (limit <= LzwSpec.TABLE_MAX)%N /\
                                           enc = LzwSpec.lzw_encode_lim limit early payload
  end.

Inductive encoded_chain_ref : list stage -> bytes -> bytes -> Prop :=
| ECR_nil plain : encoded_chain_ref [] plain plain
| ECR_cons st sts plain mid enc :
    encoded_chain_ref sts plain mid -> encoded_stage_ref st mid enc -> encoded_chain_ref (st :: sts) plain enc.
