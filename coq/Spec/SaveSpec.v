(* SaveSpec.v -- the domain of property C01 and the document a save/load cycle must return.
   [savable] contains only restrictions the data model of lopdf implies (each one is discussed in
   notes/C01.md); [known_deep] is the known-finding class C01-deep-nesting (mirrored by
   classify in props/c01.py); [reloaded] is the expected result of load (save d). *)
From LV Require Import Base.Bytes Base.Sx Model.Obj Model.Writer Model.Parser Model.Xref Model.Save Model.Utf Gen.Lex
  Proofs.LexProofs Proofs.ObjectRtProofs Proofs.SaveProofs.

Local Open Scope N_scope.

(* an indirect object: a direct object, or a stream whose dictionary is a well-formed direct
   dictionary and whose Length is the length of its content (what Stream::new / set_content keep) *)
Definition top_wf (o : obj) : Prop :=
  match o with
  | OStream d c => obj_wf (ODict d) /\ dict_get d K_Length = Some (OInt (Z.of_nat (length c)))
  | _ => obj_wf o
  end.

Definition no_eol (v : bytes) : Prop := forallb (fun c => negb (is_comment_end c)) v = true.

(* strictly increasing object numbers: the objects map is a BTreeMap (sorted) and no object number
   occurs with two generations *)
Fixpoint increasing (lo : N) (l : list N) : Prop :=
  match l with
  | [] => True
  | n :: l' => lo < n /\ increasing n l'
  end.

(* the domain of the pipeline after its first statement (max_id already above every object number);
   [savable] below is the property's domain *)
Record savable_core (d : doc) : Prop := {
  sv_max_id : d_max_id d + 2 < u32_mod;                         (* no u32 overflow while saving *)
  sv_mark : binary_mark_ok (d_binary_mark d) = true;              (* otherwise save returns InvalidData *)
  sv_version_eol : no_eol (d_version d);
  sv_version_utf8 : utf8_decode (d_version d) <> None;            (* version is a Rust String *)
  sv_numbers : increasing 0 (obj_numbers (d_objects d));          (* sorted, distinct, object number 0 is never used *)
  sv_objects : Forall (fun io => fst (fst io) <= d_max_id d /\ snd (fst io) <= u16_max /\
                                 top_wf (snd io) /\ skipped (snd io) = false) (d_objects d);
  sv_trailer : obj_wf (ODict (d_trailer d));
  sv_no_prev : dict_has (d_trailer d) K_Prev = false;
  sv_no_encrypt : dict_has (d_trailer d) K_Encrypt = false;
}.

(* known finding C01-deep-nesting: more than MAX_BRACKET container levels somewhere *)
Definition known_deep (d : doc) : bool :=
  existsb (fun io => (MAX_DEPTH <? nest (snd io))%nat) (d_objects d) ||
  (MAX_DEPTH <? Nat.max 2 (nest (ODict (d_trailer d))))%nat.

(* the file fits the 10-digit offsets / u32 arithmetic of the writer *)
Definition small_file_core (xt : xref_type) (d : doc) : Prop := blen (so_bytes (save_core xt d)) < u32_mod.
Definition small_file (xt : xref_type) (d : doc) : Prop := blen (so_bytes (save xt d)) < u32_mod.

(* what comes back *)
Definition norm_objects (m : objmap) : objmap := map (fun io => (fst io, norm_obj (snd io))) m.
Definition last_number (m : objmap) : N := fold_left (fun a io => N.max a (fst (fst io))) m 0.

(* THE DOMAIN OF THE PROPERTY.  max_id is NOT required to bound the object numbers: since the repair
   'save raises max_id to the largest object number' save does that itself (before it, an object inserted into
   `objects` under a number above max_id was left out of the cross-reference table, or overwritten by the
   cross-reference stream whose number max_id + 1 collided with it). *)
Record savable (d : doc) : Prop := {
  sd_max_id : N.max (d_max_id d) (last_number (d_objects d)) + 2 < u32_mod;   (* no u32 overflow while saving *)
  sd_mark : binary_mark_ok (d_binary_mark d) = true;
  sd_version_eol : no_eol (d_version d);
  sd_version_utf8 : utf8_decode (d_version d) <> None;
  sd_numbers : increasing 0 (obj_numbers (d_objects d));
  sd_objects : Forall (fun io => snd (fst io) <= u16_max /\ top_wf (snd io) /\ skipped (snd io) = false) (d_objects d);
  sd_trailer : obj_wf (ODict (d_trailer d));
  sd_no_prev : dict_has (d_trailer d) K_Prev = false;
  sd_no_encrypt : dict_has (d_trailer d) K_Encrypt = false;
}.

Definition reloaded_table (d : doc) : doc :=
  {| d_version := d_version d; d_binary_mark := d_binary_mark d;
     d_trailer := norm_dict (trailer_table d);
     d_objects := norm_objects (d_objects d);
     d_max_id := last_number (d_objects d) |}.

(* the cross-reference STREAM format: what write_cross_reference_stream produced (trailer after its updates,
   stream content, final map), the cross-reference stream object as the loader parses it, and the document
   that comes back: the objects, plus that stream object itself under the number max_id + 1 (the xref map
   lists it and read_entries loads it like any other object -- cross-reference bookkeeping), the trailer
   = the stream dictionary after decode_xref_stream's three removals, and max_id + 1. *)
Definition xstream_of (d : doc) : dict * bytes * Save.xmap :=
  xstream_parts d (xmap_of d) (Save.blen (body_of d) mod u32_mod).
Definition xstream_obj (d : doc) : obj :=
  OStream (norm_dict (fst (fst (xstream_of d)))) (snd (fst (xstream_of d))).
Definition reloaded_stream (d : doc) : doc :=
  {| d_version := d_version d; d_binary_mark := d_binary_mark d;
     d_trailer := dict_swap_remove (dict_swap_remove (dict_swap_remove
                    (norm_dict (fst (fst (xstream_of d)))) K_Length) Save.K_W) Save.K_Index;
     d_objects := norm_objects (d_objects d) ++ [((d_max_id d + 1, 0), xstream_obj d)];
     d_max_id := d_max_id d + 1 |}.

(* ---------- the property's comparison ---------- *)
(* trailer keys that are cross-reference bookkeeping (Filter is swap-removed by the stream format and would
   otherwise describe the cross-reference stream) *)
Definition bookkeeping : list bytes :=
  [K_Type; Save.K_Size; Save.K_W; Save.K_Index; K_Length; Save.K_Prev; K_Filter].
(* the cross-reference stream object: the loader keeps it in `objects` (it is listed in its own table); it is
   cross-reference bookkeeping, not an object of the document, and the writer never writes it again *)
Definition is_xref_stream (o : obj) : bool :=
  match o with OStream d _ => has_type d K_XRef | _ => false end.
Definition user_objects (m : objmap) : objmap := filter (fun io => negb (is_xref_stream (snd io))) m.
Definition same_trailer (t t' : dict) : Prop :=
  forall k, ~ In k bookkeeping -> dict_get t' k = dict_get (norm_dict t) k.
(* d' is d after a save/load cycle: same version, the same identifiers with every object in normal form
   (apart from cross-reference stream objects on either side), same trailer entries apart from bookkeeping *)
Definition same_doc (d d' : doc) : Prop :=
  d_version d' = d_version d /\
  user_objects (d_objects d') = norm_objects (user_objects (d_objects d)) /\
  same_trailer (d_trailer d) (d_trailer d').
Definition xtype_of (xt : xref_type) : xtype := match xt with XTable => XTTable | XStream => XTStream end.

(* what save works on: max_id raised, objects the writer drops (typed ObjStm / XRef / Linearized) left out *)
Definition with_objects (d : doc) (m : objmap) : doc :=
  {| d_version := d_version d; d_binary_mark := d_binary_mark d; d_trailer := d_trailer d;
     d_objects := m; d_max_id := d_max_id d |}.
Definition written (d : doc) : doc :=
  with_objects (raise_max_id d) (filter (fun io => negb (skipped (snd io))) (d_objects d)).
Definition reloaded (xt : xref_type) (d : doc) : doc :=
  match xt with XTable => reloaded_table (written d) | XStream => reloaded_stream (written d) end.
(* every cycle in the stream format uses one more object number (the cross-reference stream) *)
Definition cycles_fit (xt : xref_type) (d : doc) : Prop :=
  match xt with
  | XTable => True
  | XStream => N.max (d_max_id d) (last_number (d_objects d)) + 3 < u32_mod
  end.

(* ---------- the same domains without "no Encrypt entry" ----------
   An ENCRYPTED document (Document::encrypt: the trailer names the encryption dictionary object by Encrypt, every
   string and stream body is ciphertext) is written and read back like any other: the encryption dictionary is an
   ordinary object, ciphertext strings / stream bodies are arbitrary bytes, which the domain holds already.  The
   reader's Encrypt branch is Model/LoaderEnc.v; the theorems about it (Proofs/LoadProofsFull.v: load_save_gen_enc,
   load_save_enc) are stated on these records.  [savable_core] / [savable] = these plus the one field. *)
Record savable_core_enc (d : doc) : Prop := {
  se_max_id : d_max_id d + 2 < u32_mod;
  se_mark : binary_mark_ok (d_binary_mark d) = true;
  se_version_eol : no_eol (d_version d);
  se_version_utf8 : utf8_decode (d_version d) <> None;
  se_numbers : increasing 0 (obj_numbers (d_objects d));
  se_objects : Forall (fun io => fst (fst io) <= d_max_id d /\ snd (fst io) <= u16_max /\
                                 top_wf (snd io) /\ skipped (snd io) = false) (d_objects d);
  se_trailer : obj_wf (ODict (d_trailer d));
  se_no_prev : dict_has (d_trailer d) K_Prev = false;
}.

Record savable_enc (d : doc) : Prop := {
  sn_max_id : N.max (d_max_id d) (last_number (d_objects d)) + 2 < u32_mod;
  sn_mark : binary_mark_ok (d_binary_mark d) = true;
  sn_version_eol : no_eol (d_version d);
  sn_version_utf8 : utf8_decode (d_version d) <> None;
  sn_numbers : increasing 0 (obj_numbers (d_objects d));
  sn_objects : Forall (fun io => snd (fst io) <= u16_max /\ top_wf (snd io) /\ skipped (snd io) = false) (d_objects d);
  sn_trailer : obj_wf (ODict (d_trailer d));
  sn_no_prev : dict_has (d_trailer d) K_Prev = false;
}.
