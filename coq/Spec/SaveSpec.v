(* SaveSpec.v -- the domain of property C01 and the document a save/load cycle must return.
   [savable] contains only restrictions the data model of lopdf implies (each one is discussed in
   notes/C01.md); [known_deep] is the known-finding class C01-deep-nesting (mirrored by
   classify in props/c01.py); [reloaded] is the expected result of load (save d). *)
From LV Require Import Base.Bytes Base.Sx Model.Obj Model.Writer Model.Parser Model.Save Model.Utf Gen.Lex
  Proofs.LexProofs Proofs.ObjectRtProofs Proofs.SaveProofs.

Local Open Scope N_scope.

(* an indirect object: a direct object, or a stream whose dictionary is a well-formed direct
   dictionary and whose Length is the length of its content (what Stream::new / set_content keep) *)
Definition top_wf (o : obj) : Prop :=
  match o with
  | OStream d c => obj_wf (ODict d) /\ dict_get d K_Length = Some (OInt (Z.of_nat (length c)))
  | _ => obj_wf o
  end.

Definition no_eol (v : bytes) : Prop := forallb (fun c => negb (is_comment_end c)) v = true.

(* strictly increasing object numbers: the objects map is a BTreeMap (sorted) and no object number
   occurs with two generations *)
Fixpoint increasing (lo : N) (l : list N) : Prop :=
  match l with
  | [] => True
  | n :: l' => lo < n /\ increasing n l'
  end.

Record savable (d : doc) : Prop := {
  sv_max_id : d_max_id d + 2 < u32_mod;                         (* no u32 overflow while saving *)
  sv_mark : binary_mark_ok (d_binary_mark d) = true;              (* otherwise save returns InvalidData *)
  sv_version_eol : no_eol (d_version d);
  sv_version_utf8 : utf8_decode (d_version d) <> None;            (* version is a Rust String *)
  sv_numbers : increasing 0 (obj_numbers (d_objects d));          (* sorted, distinct, object number 0 is never used *)
  sv_objects : Forall (fun io => fst (fst io) <= d_max_id d /\ snd (fst io) <= u16_max /\
                                 top_wf (snd io) /\ skipped (snd io) = false) (d_objects d);
  sv_trailer : obj_wf (ODict (d_trailer d));
  sv_no_prev : dict_has (d_trailer d) K_Prev = false;
  sv_no_encrypt : dict_has (d_trailer d) K_Encrypt = false;
}.

(* known finding C01-deep-nesting: more than MAX_BRACKET container levels somewhere *)
Definition known_deep (d : doc) : bool :=
  existsb (fun io => (MAX_DEPTH <? nest (snd io))%nat) (d_objects d) ||
  (MAX_DEPTH <? Nat.max 2 (nest (ODict (d_trailer d))))%nat.

(* the file fits the 10-digit offsets / u32 arithmetic of the writer *)
Definition small_file (xt : xref_type) (d : doc) : Prop := blen (so_bytes (save xt d)) < u32_mod.

(* what comes back *)
Definition norm_objects (m : objmap) : objmap := map (fun io => (fst io, norm_obj (snd io))) m.
Definition last_number (m : objmap) : N := fold_left (fun a io => N.max a (fst (fst io))) m 0.

Definition reloaded_table (d : doc) : doc :=
  {| d_version := d_version d; d_binary_mark := d_binary_mark d;
     d_trailer := norm_dict (trailer_table d);
     d_objects := norm_objects (d_objects d);
     d_max_id := last_number (d_objects d) |}.

(* the cross-reference STREAM format: what write_cross_reference_stream produced (trailer after its updates,
   stream content, final map), the cross-reference stream object as the loader parses it, and the document
   that comes back: the objects, plus that stream object itself under the number max_id + 1 (the xref map
   lists it and read_entries loads it like any other object -- cross-reference bookkeeping), the trailer
   = the stream dictionary after decode_xref_stream's three removals, and max_id + 1. *)
Definition xstream_of (d : doc) : dict * bytes * Save.xmap :=
  xstream_parts d (xmap_of d) (Save.blen (body_of d) mod u32_mod).
Definition xstream_obj (d : doc) : obj :=
  OStream (norm_dict (fst (fst (xstream_of d)))) (snd (fst (xstream_of d))).
Definition reloaded_stream (d : doc) : doc :=
  {| d_version := d_version d; d_binary_mark := d_binary_mark d;
     d_trailer := dict_swap_remove (dict_swap_remove (dict_swap_remove
                    (norm_dict (fst (fst (xstream_of d)))) K_Length) Save.K_W) Save.K_Index;
     d_objects := norm_objects (d_objects d) ++ [((d_max_id d + 1, 0), xstream_obj d)];
     d_max_id := d_max_id d + 1 |}.
