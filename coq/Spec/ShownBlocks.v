(* ShownBlocks.v -- what a reader sees on a page made of several text objects (BT .. ET) when the font is
   selected once: the text font is a parameter of the graphics state (ISO 32000-1 9.3.1, Table 104), it is
   not reset by ET or BT, so every later text object is shown with the font selected before.  Each text
   object ends its line (Spec/ShownText.v).  Independent of Model/TextExtract.v. *)
From Coq Require Import NArith ZArith List.
From LV Require Import Spec.ShownText.
Import ListNotations.
Local Open Scope N_scope.

(* a page = the pieces of its text objects, in order *)
Definition shown_blocks (bss : list (list piece)) : text := concat (map shown_text bss).

(* a text object that shows something (a TJ array always contributes its trailing space) *)
Definition block_shows (ps : list piece) : Prop := concat (map piece_text ps) <> [].
