(* StreamSpec.v -- what ISO 32000-1 says about filtered streams (7.3.8.2 table 5, 7.4.1, 7.4.4.3 table 8,
   7.4.4.4), written from the standard, independently of the lopdf code.  It shares with the model only the
   object data type (Model/Obj.v) and the dictionary look-up.

   * Filter is a name or an array of names; the filters are listed in the order in which the DECODER applies
     them, i.e. the first name is the encoding that was applied LAST.
   * DecodeParms is "a parameter dictionary or an array of such dictionaries, used by the filters specified by
     Filter.  If there is only one filter and that filter has parameters, DecodeParms shall be set to the filter's
     parameter dictionary [...].  If there are multiple filters and any of the filters has parameters set to
     nondefault values, DecodeParms shall be an array with one entry for each filter: either the parameter
     dictionary for that filter, or the null object if that filter has no parameters."
   * LZWDecode / FlateDecode parameters (table 8): Predictor (default 1 = no prediction; 10..15 = PNG prediction on
     encoding, the decoder reads the filter type in front of every row), Colors (default 1), BitsPerComponent
     (default 8), Columns (default 1), EarlyChange (LZW only, default 1).
   * With a PNG predictor a row has ceil(Colors * BitsPerComponent * Columns / 8) bytes and the "bytes per
     complete pixel, rounding up to one" of the PNG specification is max 1 (ceil(Colors * BitsPerComponent / 8)).

   The compression methods themselves (RFC 1950/1951 and LZW) are third-party code in lopdf (flate2, weezl):
   here "enc is a zlib stream for payload" is DEFINED by what the decoder oracle returns. *)
From LV Require Import Base.Bytes Model.Obj Spec.A85Spec Spec.PngSpec.
From Coq Require Import ZArith List.
Import ListNotations.

Definition N_FlateDecode := Eval cbv in bs "FlateDecode".
Definition N_LZWDecode := Eval cbv in bs "LZWDecode".
Definition N_ASCII85Decode := Eval cbv in bs "ASCII85Decode".
Definition P_DecodeParms := Eval cbv in bs "DecodeParms".
Definition P_Filter := Eval cbv in bs "Filter".
Definition P_Length := Eval cbv in bs "Length".
Definition P_Predictor := Eval cbv in bs "Predictor".
Definition P_Colors := Eval cbv in bs "Colors".
Definition P_BitsPerComponent := Eval cbv in bs "BitsPerComponent".
Definition P_Columns := Eval cbv in bs "Columns".
Definition P_EarlyChange := Eval cbv in bs "EarlyChange".

(* an integer parameter with its default *)
Definition int_parm (p : option dict) (key : bytes) (default : Z) : Z :=
  match p with
  | Some d => match dict_get d key with Some (OInt z) => z | _ => default end
  | None => default
  end.

(* table 5: the parameters of the filter at position i *)
Definition spec_params (decode_parms : option obj) (i : nat) : option dict :=
  match decode_parms with
  | Some (ODict p) => Some p                                      (* one dictionary *)
  | Some (OArr ps) => match nth_error ps i with
                      | Some (ODict p) => Some p                  (* the entry parallel to the filter *)
                      | _ => None                                 (* null: no parameters *)
                      end
  | _ => None
  end.

(* table 5: the Filter entry for a list of filter names *)
Definition filter_entry (names : list bytes) (o : obj) : Prop :=
  o = OArr (map OName names) \/ exists n, names = [n] /\ o = OName n.

(* ---- predictor geometry ---- *)
Record pred_parms := { pp_predictor : Z; pp_columns : Z; pp_colors : Z; pp_bits : Z }.

Local Open Scope Z_scope.

Definition bytes_per_pixel (pp : pred_parms) : nat :=
  Z.to_nat (Z.max 1 ((pp_colors pp * pp_bits pp + 7) / 8)).
Definition bytes_per_row (pp : pred_parms) : nat :=
  Z.to_nat ((pp_colors pp * pp_bits pp * pp_columns pp + 7) / 8).

(* the parameter values the property ranges over; the last two clauses say that the size of one pixel in bits
   and the size of one row in bytes are machine integers (at most 2^64 - 1) *)
Definition legal_pp (pp : pred_parms) : Prop :=
  10 <= pp_predictor pp <= 15 /\ 1 <= pp_columns pp /\ 1 <= pp_colors pp /\
  (pp_bits pp = 8 \/ pp_bits pp = 16) /\
  pp_colors pp * pp_bits pp <= 18446744073709551615 /\
  pp_colors pp * pp_bits pp * pp_columns pp <= 8 * 18446744073709551615.

Definition parms_describe (p : option dict) (pp : pred_parms) : Prop :=
  int_parm p P_Predictor 1 = pp_predictor pp /\ int_parm p P_Columns 1 = pp_columns pp /\
  int_parm p P_Colors 1 = pp_colors pp /\ int_parm p P_BitsPerComponent 8 = pp_bits pp.

Local Close Scope Z_scope.

(* what a PNG-predicting encoder did to the data before compressing it: it cut the data into rows, chose a
   filter type for every row (any choice: "Predictor 10..15" only names the encoder's preference) and wrote
   type byte + filtered row *)
Record prediction := { pr_parms : pred_parms; pr_types : list N; pr_rows : list bytes }.

Definition predicted (pr : option prediction) (data payload : bytes) : Prop :=
  match pr with
  | None => payload = data
  | Some r =>
    legal_pp (pr_parms r) /\
    data = concat (pr_rows r) /\
    Forall (fun row => length row = bytes_per_row (pr_parms r)) (pr_rows r) /\
    length (pr_types r) = length (pr_rows r) /\
    Forall valid_type (pr_types r) /\
    payload = encode_frame (pr_types r) (bytes_per_pixel (pr_parms r)) (bytes_per_row (pr_parms r)) (pr_rows r)
  end.

Definition parms_fit (pr : option prediction) (p : option dict) : Prop :=
  match pr with
  | None => int_parm p P_Predictor 1 = 1%Z
  | Some r => parms_describe p (pr_parms r)
  end.

(* EarlyChange: absent = 1; the property ranges over 0 and 1 *)
Definition early_fit (p : option dict) (early : bool) : Prop :=
  match p with
  | None => early = true
  | Some d => match dict_get d P_EarlyChange with
              | None => early = true
              | Some (OInt 0%Z) => early = false
              | Some (OInt 1%Z) => early = true
              | Some _ => False
              end
  end.

(* ---- one encoding stage ---- *)
Inductive stage :=
| SA85
| SFlate (pr : option prediction)
| SLzw (early : bool) (pr : option prediction).

Definition stage_name (st : stage) : bytes :=
  match st with SA85 => N_ASCII85Decode | SFlate _ => N_FlateDecode | SLzw _ _ => N_LZWDecode end.

Definition stage_parms_ok (st : stage) (p : option dict) : Prop :=
  match st with
  | SA85 => True
  | SFlate pr => parms_fit pr p
  | SLzw early pr => parms_fit pr p /\ early_fit p early
  end.

(* ASCII85 text for [data]: the encoder's output with white space inserted anywhere before the EOD marker
   (white space = the characters the standard lists in table 1), then ~>, then anything at all -- a reader
   stops at EOD *)
Definition is_white (b : byte) : bool := byte_in b white_space.

Definition a85_text (data text : bytes) : Prop :=
  exists body rest, text = body ++ EOD ++ rest /\ filter (fun b => negb (is_white b)) body = A85Spec.encode data.

Section Oracles.
  (* third party: what the zlib decoder / the LZW decoder (early change on or off) return *)
  Variable inflate : bytes -> bytes.
  Variable lzw : bool -> bytes -> bytes.

  Definition encodes_stage (st : stage) (data enc : bytes) : Prop :=
    match st with
    | SA85 => a85_text data enc
    | SFlate pr => exists payload, predicted pr data payload /\ enc <> [] /\ inflate enc = payload
    | SLzw early pr => exists payload, predicted pr data payload /\ lzw early enc = payload
    end.

  (* [encodes_chain stages plain enc]: [enc] is [plain] after the encodings of [stages], the LAST stage
     applied first, so that [stages] is in decoding order like the Filter array *)
  Inductive encodes_chain : list stage -> bytes -> bytes -> Prop :=
  | EC_nil plain : encodes_chain [] plain plain
  | EC_cons st sts plain mid enc :
      encodes_chain sts plain mid -> encodes_stage st mid enc -> encodes_chain (st :: sts) plain enc.
End Oracles.
