(* History.v -- specification side of C07, written from the property text: a history is a list of
   revisions, oldest first; each revision defines (puts) some objects and may free (dels) some object
   numbers.  "Latest revision wins": the document a reader must see is the overlay of the revisions. *)
From LV Require Import Base.Bytes Base.Sx Model.Obj.

Record revision := { r_puts : list (oid * obj); r_dels : list oid }.

(* all generations of one object number *)
Definition drop_num (m : objmap) (n : N) : objmap :=
  filter (fun io => negb (fst (fst io) =? n)%N) m.

(* a later definition of object number n replaces every earlier generation of n; freeing n removes it *)
Definition put_obj (m : objmap) (io : oid * obj) : objmap :=
  insert (drop_num m (fst (fst io))) (fst io) (snd io).
Definition apply_rev (m : objmap) (r : revision) : objmap :=
  fold_left (fun m id => drop_num m (fst id)) (r_dels r) (fold_left put_obj (r_puts r) m).

Definition latest_wins (revs : list revision) : objmap := fold_left apply_rev revs [].

(* the same, as a per-object-number lookup: the newest revision mentioning n decides *)
Definition rev_mentions (r : revision) (n : N) : bool :=
  existsb (fun io => (fst (fst io) =? n)%N) (r_puts r) || existsb (fun id => (fst id =? n)%N) (r_dels r).

(* ---------- the annotated history the reference writer (gen/histgen.py) consumes ---------- *)
Inductive xstyle := StTable | StStream | StHybrid.
(* where a put goes: plainly, or into the k-th object stream of its revision *)
Record aput := { ap_id : oid; ap_obj : obj; ap_objstm : option N }.
Record arev := { a_style : xstyle; a_puts : list aput; a_dels : list oid }.

Definition forget (r : arev) : revision :=
  {| r_puts := map (fun p => (ap_id p, ap_obj p)) (a_puts r); r_dels := a_dels r |}.

(* a revision that stores objects in object streams cannot use a plain table: the writer makes it hybrid *)
Definition is_hybrid (r : arev) : bool :=
  match a_style r with
  | StHybrid => true
  | StTable => existsb (fun p => match ap_objstm p with Some _ => true | None => false end) (a_puts r)
  | StStream => false
  end.

(* what earlier revisions did with object number n: (in an object stream?) per mention *)
Definition earlier_puts (older : list arev) (n : N) : list aput :=
  flat_map (fun r => filter (fun p => (fst (ap_id p) =? n)%N) (a_puts r)) older.

(* The open finding, decided on the input history (mirrors history_class in props/c07.py):
   freed-comes-back          a revision frees a number an earlier revision defines
   (hybrid-update and objstm-stale-generation were classes of this predicate until the reader was repaired:
    merge_xref_stream / one generation per number, see notes/C07.md) *)
Fixpoint known_class_from (older : list arev) (rest : list arev) : bool :=
  match rest with
  | [] => false
  | r :: rest' =>
    existsb (fun id => match earlier_puts older (fst id) with [] => false | _ => true end) (a_dels r)
    || known_class_from (older ++ [r]) rest'
  end.
Definition KnownClass (h : list arev) : bool := known_class_from [] h.

(* cross-reference streams and object streams are carriers, not objects of the history *)
Definition is_carrier (o : obj) : bool :=
  match o with
  | OStream d _ => has_type d (bs "ObjStm") || has_type d (bs "XRef")
  | _ => false
  end.
Definition user_objects (m : objmap) : objmap := filter (fun io => negb (is_carrier (snd io))) m.
