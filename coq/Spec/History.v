(* History.v -- specification side of C07, written from the property text: a history is a list of
   revisions, oldest first; each revision defines (puts) some objects and may free (dels) some object
   numbers.  "Latest revision wins": the document a reader must see is the overlay of the revisions. *)
From LV Require Import Base.Bytes Base.Sx Model.Obj.

Record revision := { r_puts : list (oid * obj); r_dels : list oid }.

(* all generations of one object number *)
Definition drop_num (m : objmap) (n : N) : objmap :=
  filter (fun io => negb (fst (fst io) =? n)%N) m.

(* a later definition of object number n replaces every earlier generation of n; freeing n removes it *)
Definition put_obj (m : objmap) (io : oid * obj) : objmap :=
  insert (drop_num m (fst (fst io))) (fst io) (snd io).
Definition apply_rev (m : objmap) (r : revision) : objmap :=
  fold_left (fun m id => drop_num m (fst id)) (r_dels r) (fold_left put_obj (r_puts r) m).

Definition latest_wins (revs : list revision) : objmap := fold_left apply_rev revs [].

(* the same, as a per-object-number lookup: the newest revision mentioning n decides *)
Definition rev_mentions (r : revision) (n : N) : bool :=
  existsb (fun io => (fst (fst io) =? n)%N) (r_puts r) || existsb (fun id => (fst id =? n)%N) (r_dels r).
