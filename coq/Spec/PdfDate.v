(* Spec/PdfDate.v -- PDF date strings, from ISO 32000-1:2008, 7.9.4 "Dates":

       (D:YYYYMMDDHHmmSSOHH'mm')

   "YYYY shall be the year, MM the month (01-12), DD the day (01-31), HH the hour (00-23), mm the
   minute (00-59), SS the second (00-59), O the relationship of local time to Universal Time (UT),
   + (local time later than UT), - (earlier) or Z (equal to UT), HH followed by APOSTROPHE the
   absolute value of the offset from UT in hours (00-23), mm followed by APOSTROPHE the absolute
   value of the offset in minutes (00-59).  The prefix D: shall be present, the year field is
   required, all other fields may be omitted [from the right] ... the default values for MM and
   DD are 01, all other numerical fields default to zero; if no UT information is specified the
   relationship of the specified time to UT shall be considered to be GMT."
   Example of the PDF Reference: D:199812231952-08'00' (minute precision).

   Written independently of Model/DateTime.v: own record, own decimal printer, own calendar table.
   Shares only Base/Bytes.v (bytes, literals).  The property C18 names three textual forms -- the
   full form (with offset or with Z), the minute-precision form and the date-only form -- which
   are exactly the constructors of [Denotes]; the other right-truncations of the grammar (YYYY,
   YYYYMM, YYYYMMDDHH, an offset without minutes) are outside the property. *)
From LV Require Import Base.Bytes.
Local Open Scope Z_scope.

Module PdfDate.

Record t := mk { year : Z; month : Z; day : Z; hour : Z; minute : Z; second : Z }.

Definition digit (d : Z) : byte :=
  match d with
  | 0 => x30 | 1 => x31 | 2 => x32 | 3 => x33 | 4 => x34 | 5 => x35 | 6 => x36 | 7 => x37 | 8 => x38 | 9 => x39
  | _ => x3f
  end.

(* n in decimal, least significant digit last, exactly w digits (n < 10^w) *)
Fixpoint digits (w : nat) (n : Z) : bytes :=
  match w with O => [] | S w' => digits w' (n / 10) ++ [digit (n mod 10)] end.

Definition is_leap (y : Z) : bool :=
  if y mod 400 =? 0 then true else if y mod 100 =? 0 then false else y mod 4 =? 0.
Definition days_in_month (y m : Z) : Z :=
  match m with
  | 1 => 31 | 2 => if is_leap y then 29 else 28 | 3 => 31 | 4 => 30 | 5 => 31 | 6 => 30
  | 7 => 31 | 8 => 31 | 9 => 30 | 10 => 31 | 11 => 30 | 12 => 31 | _ => 0
  end.

(* a civil date-time of the Gregorian calendar in the years the four-digit field can express
   (0000 is not a year of the property: "years 0001-9999") *)
Definition valid (d : t) : Prop :=
  1 <= year d <= 9999 /\ 1 <= month d <= 12 /\ 1 <= day d <= days_in_month (year d) (month d) /\
  0 <= hour d <= 23 /\ 0 <= minute d <= 59 /\ 0 <= second d <= 59.
(* offset from UT in minutes, east positive: -23:59 .. +23:59 *)
Definition valid_offset (m : Z) : Prop := - 1439 <= m <= 1439.

Definition date_part (d : t) : bytes := digits 4 (year d) ++ digits 2 (month d) ++ digits 2 (day d).
Definition hm_part (d : t) : bytes := digits 2 (hour d) ++ digits 2 (minute d).
Definition offset_part (m : Z) : bytes :=
  (if m <? 0 then x2d (* - *) else x2b (* + *)) :: digits 2 (Z.abs m / 60) ++ [x27] ++ digits 2 (Z.abs m mod 60) ++ [x27].
Definition prefix : bytes := [x44; x3a].   (* D: *)

(* D:YYYYMMDDHHmmSSOHH'mm' *)
Definition print (d : t) (m : Z) : bytes := prefix ++ date_part d ++ hm_part d ++ digits 2 (second d) ++ offset_part m.
(* D:YYYYMMDDHHmmSSZ *)
Definition print_utc (d : t) : bytes := prefix ++ date_part d ++ hm_part d ++ digits 2 (second d) ++ [x5a].
(* D:YYYYMMDDHHmmOHH'mm'   and   D:YYYYMMDDHHmmZ *)
Definition print_minute (d : t) (m : Z) : bytes := prefix ++ date_part d ++ hm_part d ++ offset_part m.
Definition print_minute_utc (d : t) : bytes := prefix ++ date_part d ++ hm_part d ++ [x5a].
(* D:YYYYMMDD *)
Definition print_date (d : t) : bytes := prefix ++ date_part d.

(* [Denotes s d m]: the string s is a PDF date for the local civil time d at m minutes east of
   UT; omitted fields take their defaults, omitted UT information means UT *)
Inductive Denotes : bytes -> t -> Z -> Prop :=
| DFull d m : Denotes (print d m) d m
| DFullZ d : Denotes (print_utc d) d 0
| DMinute d m : second d = 0 -> Denotes (print_minute d m) d m
| DMinuteZ d : second d = 0 -> Denotes (print_minute_utc d) d 0
| DDate d : hour d = 0 -> minute d = 0 -> second d = 0 -> Denotes (print_date d) d 0.

(* the instant: seconds since 1970-01-01T00:00:00Z, by counting days year by year and month by
   month (deliberately not the closed form the backends use) *)
Definition year_days (y : Z) : Z := if is_leap y then 366 else 365.
Fixpoint days_before_year (n : nat) : Z :=      (* days from 0001-01-01 to the start of year n+1 *)
  match n with O => 0 | S k => days_before_year k + year_days (Z.of_nat (S k)) end.
Fixpoint days_before_month (y : Z) (n : nat) : Z :=   (* days of months 1..n of year y *)
  match n with O => 0 | S k => days_before_month y k + days_in_month y (Z.of_nat (S k)) end.
Definition day_number (d : t) : Z :=            (* 0001-01-01 = 0 *)
  days_before_year (Z.to_nat (year d - 1)) + days_before_month (year d) (Z.to_nat (month d - 1)) + (day d - 1).
Definition EPOCH_DAY : Z := 719162.             (* day_number of 1970-01-01 *)
Definition instant (d : t) (m : Z) : Z :=
  (day_number d - EPOCH_DAY) * 86400 + hour d * 3600 + minute d * 60 + second d - m * 60.

End PdfDate.
