(* PageTreeEditInd.v -- C11's page-tree clause on the wider domain /repo e03ecb9 opened: a Pages node's Count may sit behind
   references (ISO 32000-1 7.3.10: any value may be an indirect object).  Same vocabulary as Spec/PageTreeEdit.v.

   * [count_reads m d n]: the dictionary has a Count entry that is the integer n, or a reference that leads -- through any
     reference objects, within the crate's dereference limit -- to the integer object n.
   * [page_tree_ind m par t]: [page_tree] with "Count = number of leaves" read that way.
   * [page_doc_ind d t]: [page_doc] over it.  [page_doc d t -> page_doc_ind d t] (page_doc_is_ind). *)
From LV Require Import Base.Bytes Model.Obj Model.DocQ Spec.Dfs Spec.PageTreeEdit.

Definition count_reads (m : objmap) (d : dict) (n : Z) : Prop :=
  exists c r, dict_get d K_Count = Some c /\ dereference m c = Some (r, OInt n).

Inductive page_tree_ind (m : objmap) : option oid -> ptree -> Prop :=
| PILeaf par id d :
    lookup m id = Some (ODict d) -> unique_keys d ->
    dict_get d K_Type = Some (OName K_Page) ->
    parent_ref (dict_get d K_Parent) = par ->
    page_tree_ind m par (PLeaf id)
| PINode par id d ks :
    lookup m id = Some (ODict d) -> unique_keys d ->
    dict_get d K_Type = Some (OName K_Pages) ->
    dict_get d K_Kids = Some (OArr (map ref_of ks)) ->
    count_reads m d (Z.of_nat (length (leaves (PNode id ks)))) ->
    parent_ref (dict_get d K_Parent) = par ->
    Forall (page_tree_ind m (Some id)) ks ->
    page_tree_ind m par (PNode id ks).

Definition page_doc_ind (d : doc) (t : ptree) : Prop :=
  exists ci cg cat,
    unique_keys (d_trailer d) /\
    dict_get (d_trailer d) K_Root = Some (ORef ci cg) /\
    lookup (d_objects d) (ci, cg) = Some (ODict cat) /\ unique_keys cat /\
    dict_get cat K_Pages = Some (ref_of t) /\
    is_node t /\
    page_tree_ind (d_objects d) None t /\
    NoDup (ids t) /\ ~ In (ci, cg) (ids t).

(* which Counts of a tree are direct integers *)
Definition count_is_direct (m : objmap) (x : oid) : Prop :=
  exists d n, lookup m x = Some (ODict d) /\ dict_get d K_Count = Some (OInt n).
