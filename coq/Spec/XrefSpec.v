(* XrefSpec.v -- how ISO 32000-1 says cross-reference information is WRITTEN (7.5.4 table, 7.5.8 stream,
   7.5.7 object streams), as encoders; written from the standard, independently of the lopdf code
   (shares only Base and the object data type).

   7.5.4  "xref" line; one or more subsections, each "first count" on a line followed by exactly count
          20-byte entries  nnnnnnnnnn ggggg n|f eol  where eol is SP CR, SP LF or CR LF.
   7.5.8  an entry is three big-endian fields of W[0], W[1], W[2] bytes: type 0 (next free, generation),
          type 1 (offset, generation), type 2 (object stream number, index in it).  "A value of zero for an
          element of W indicates that the corresponding field is not present in the stream and the default
          value shall be used" (type 1; generation 0).  Index = pairs (first, count), default [0 Size].
   7.5.7  object stream: N pairs "objnum offset" (decimal, white-space separated), offsets relative to First,
          then the objects; no obj/endobj keywords. *)
From LV Require Import Base.Bytes Base.Sx Model.Obj.

Local Open Scope N_scope.

(* the information an entry carries *)
Inductive sentry :=
| SFree (next gen : N)
| SInUse (offset gen : N)
| SComp (container index : N).

(* ---------- 7.5.8 cross-reference stream data ---------- *)

(* [w] bytes, most significant first *)
Fixpoint be_bytes (w : nat) (v : N) : bytes :=
  match w with
  | O => []
  | S w' => byte_of_N (v / 256 ^ N.of_nat w') :: be_bytes w' (v mod 256 ^ N.of_nat w')
  end.

Definition fits (w : nat) (v : N) : Prop := v < 256 ^ N.of_nat w.

Definition entry_fields (e : sentry) : N * N * N :=
  match e with
  | SFree n g => (0, n, g)
  | SInUse o g => (1, o, g)
  | SComp c i => (2, c, i)
  end.

Definition enc_entry (w0 w1 w2 : nat) (e : sentry) : bytes :=
  let '(t, a, b) := entry_fields e in be_bytes w0 t ++ be_bytes w1 a ++ be_bytes w2 b.

(* an entry can be written with these widths: every field fits; an absent field must hold its default *)
Definition entry_ok (w0 w1 w2 : nat) (e : sentry) : Prop :=
  let '(t, a, b) := entry_fields e in
  (match w0 with O => t = 1 | _ => fits w0 t end) /\ fits w1 a /\
  (match w2 with O => b = 0 | _ => fits w2 b end).

(* subsections: (first object number, entries) *)
Definition xsections := list (N * list sentry).

Definition enc_sections (w0 w1 w2 : nat) (secs : xsections) : bytes :=
  flat_map (fun se => flat_map (enc_entry w0 w1 w2) (snd se)) secs.

Definition index_array (secs : xsections) : obj :=
  OArr (flat_map (fun se => [OInt (Z.of_N (fst se)); OInt (Z.of_nat (length (snd se)))]) secs).

(* what the sections say about each object number: (number, entry), in file order *)
Fixpoint number_from (first : N) (es : list sentry) : list (N * sentry) :=
  match es with
  | [] => []
  | e :: es' => (first, e) :: number_from (first + 1) es'
  end.
Definition numbered (secs : xsections) : list (N * sentry) :=
  flat_map (fun se => number_from (fst se) (snd se)) secs.

(* ---------- 7.5.4 cross-reference table text ---------- *)
Inductive eol2 := E2_SPCR | E2_SPLF | E2_CRLF.
Definition eol2_bytes (e : eol2) : bytes :=
  match e with E2_SPCR => [x20; x0d] | E2_SPLF => [x20; x0a] | E2_CRLF => [x0d; x0a] end.

Inductive eolk := ECR | ELF | ECRLF.
Definition eol_bytes (e : eolk) : bytes :=
  match e with ECR => [x0d] | ELF => [x0a] | ECRLF => [x0d; x0a] end.

(* decimal, left-padded with zeros to [w] digits *)
Definition pad_dec (w : nat) (v : N) : bytes :=
  let d := N_dec v in repeat x30 (w - length d) ++ d.

(* an entry of the table: type-2 information cannot be expressed, it is written as a free entry *)
Definition table_entry (e : sentry) (el : eol2) : bytes :=
  match e with
  | SInUse o g => pad_dec 10 o ++ x20 :: pad_dec 5 g ++ x20 :: x6e :: eol2_bytes el
  | SFree n g => pad_dec 10 n ++ x20 :: pad_dec 5 g ++ x20 :: x66 :: eol2_bytes el
  | SComp _ _ => pad_dec 10 0 ++ x20 :: pad_dec 5 0 ++ x20 :: x66 :: eol2_bytes el
  end.

(* subsection: first, entries with their end-of-line choice, header end-of-line, optional space before it *)
Record tsection := { ts_first : N; ts_entries : list (sentry * eol2); ts_sp : bool; ts_eol : eolk }.

Definition table_section (s : tsection) : bytes :=
  N_dec (ts_first s) ++ x20 :: N_dec (N.of_nat (length (ts_entries s))) ++
  (if ts_sp s then [x20] else []) ++ eol_bytes (ts_eol s) ++
  flat_map (fun ee => table_entry (fst ee) (snd ee)) (ts_entries s).

Definition table_text (kw_eol : eolk) (secs : list tsection) : bytes :=
  bs "xref" ++ eol_bytes kw_eol ++ flat_map table_section secs.

Definition tsections_plain (secs : list tsection) : xsections :=
  map (fun s => (ts_first s, map fst (ts_entries s))) secs.

(* ---------- 7.5.7 object stream payload ---------- *)
(* [items]: (object number, white-space before the pair, white-space between the two numbers,
   the object's text followed by its separator).  Offsets count from First. *)
Record ositem := { oi_num : N; oi_ws1 : bytes; oi_ws2 : bytes; oi_text : bytes }.

Fixpoint os_offsets (pos : N) (items : list ositem) : list N :=
  match items with
  | [] => []
  | it :: items' => pos :: os_offsets (pos + N.of_nat (length (oi_text it))) items'
  end.

Fixpoint os_header (items : list ositem) (offs : list N) : bytes :=
  match items, offs with
  | it :: items', o :: offs' =>
    oi_ws1 it ++ N_dec (oi_num it) ++ oi_ws2 it ++ N_dec o ++ os_header items' offs'
  | _, _ => []
  end.

(* header ++ trailing white-space (at least one byte) ++ objects; returns (First, payload) *)
Definition os_payload (items : list ositem) (hdr_end : bytes) : N * bytes :=
  let h := os_header items (os_offsets 0 items) ++ hdr_end in
  (N.of_nat (length h), h ++ flat_map oi_text items).
