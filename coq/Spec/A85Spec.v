(* A85Spec.v -- the ASCII base-85 encoding of ISO 32000-1, 7.4.3, written from the standard.

   "The ASCII base-85 encoding shall use the ASCII characters ! through u and the character z, with the
    2-character sequence ~> as its EOD marker. [...] 4 bytes of binary data (b1 b2 b3 b4) shall produce 5 ASCII
    characters (c1 c2 c3 c4 c5) with  b1*256^3 + b2*256^2 + b3*256 + b4 = c1*85^4 + c2*85^3 + c3*85^2 + c4*85 + c5;
    each digit is written as the character with code digit + 33 ('!').  As a special case, if all five digits
    are 0 they shall be represented by the character z.  If the length of the data is not a multiple of 4, the
    last partial group of n bytes (1..3) is padded with 4-n zero bytes, encoded to 5 characters as usual (without
    the z special case) and only the first n+1 characters are written.  Finally ~> is written."
   White-space characters in the encoded text shall be ignored by a decoder. *)
From LV Require Import Base.Bytes.

Local Open Scope N_scope.

Definition group_value (b1 b2 b3 b4 : byte) : N :=
  ((N_of_byte b1 * 256 + N_of_byte b2) * 256 + N_of_byte b3) * 256 + N_of_byte b4.

Definition digit (d : N) : byte := byte_of_N (33 + d).

(* the five base-85 digits, most significant first, by repeated division *)
Definition digits5 (v : N) : bytes :=
  let q1 := v / 85 in
  let q2 := q1 / 85 in
  let q3 := q2 / 85 in
  let q4 := q3 / 85 in
  [digit q4; digit (q3 mod 85); digit (q2 mod 85); digit (q1 mod 85); digit (v mod 85)].

Definition char_z : byte := x7a.
Definition EOD : bytes := [x7e; x3e].

Fixpoint encode (data : bytes) : bytes :=
  match data with
  | b1 :: b2 :: b3 :: b4 :: rest =>
    let v := group_value b1 b2 b3 b4 in
    (if v =? 0 then [char_z] else digits5 v) ++ encode rest
  | [b1; b2; b3] => firstn 4 (digits5 (group_value b1 b2 b3 x00))
  | [b1; b2] => firstn 3 (digits5 (group_value b1 b2 x00 x00))
  | [b1] => firstn 2 (digits5 (group_value b1 x00 x00 x00))
  | [] => []
  end.

(* ISO 32000-1 table 1: NUL, HT, LF, FF, CR, SP *)
Definition white_space : bytes := [x00; x09; x0a; x0c; x0d; x20].
