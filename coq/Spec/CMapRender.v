(* CMapRender.v -- the TEXT of a ToUnicode CMap, written from the syntax of the standard
   (Adobe Technical Note 5411 "ToUnicode Mapping File Tutorial", ISO 32000-1 9.10.3 and its
   example), not from src/parser/cmap_parser.rs.  It shares with the models only the data type of
   the sections (Model/CMap.v: csection); no parser definition is used here.

     /CIDInit /ProcSet findresource begin
     12 dict begin
     begincmap
     /CIDSystemInfo << /Registry (Adobe) /Ordering (UCS) /Supplement 0 >> def
     /CMapName /Adobe-Identity-UCS def
     /CMapType 2 def
     1 begincodespacerange
     <0000> <FFFF>
     endcodespacerange
     2 beginbfrange
     <0000> <005E> <0020>
     <005F> <0061> [<00660066> <00660069> <00660066006C>]
     endbfrange
     1 beginbfchar
     <3A51> <D840DC3E>
     endbfchar
     endcmap
     CMapName currentdict /CMap defineresource pop
     end
     end

   [render lay secs] writes the sections [secs] (codespace ranges, bfchar and bfrange sections in
   the given order, each with its entry count in front) inside that frame.  Everything the syntax
   leaves to the writer is decided by the layout [lay]:
     - the blanks (space / tab, any number) between the tokens of one line;
     - the line breaks between lines: any non-empty mix of blanks, the three end-of-line flavours
       CR, LF, CR LF, and comments (% up to an end of line), so also indentation, trailing blanks,
       empty lines;
     - the case of every single hexadecimal digit;
     - white space inside a target string after each UTF-16 unit (blanks and ends of line; a %
       inside a string is not a comment, so none there);
     - whether the single target of a range of one code is written bare or as a one-element array
       (for a longer range the two mean different things: incrementing / indexed);
     - the white space after [, between the strings of an array and before ]: any, also none
       (<0041><0042>), line breaks and comments -- an array may run over several lines;
     - the white space inside the CIDSystemInfo dictionary, in front of the file and at its end,
       the size operand of "dict".
   A layout is LINE ORIENTED, like every CMap of the two documents: the tokens of one entry
   (<code> <target>, <lo> <hi> <target>, <lo> <hi> [) stay on one line, separated by blanks
   only, and so do "n begin...", "/CMapName /x def", "/CMapType 2 def" and the trailer line.
   A layout is total: a list that is too short is continued with the default (one space, one
   line feed, lower case). *)
From LV Require Import Base.Bytes Model.CMap.

Local Open Scope N_scope.

(* ---------- white space ---------- *)
Inductive blank := Space | Tab.
Inductive eol := CR | LF | CRLF.
Inductive witem := WBlank (b : blank) | WEol (e : eol) | WComment (text : bytes) (e : eol).
Inductive sitem := SBlank (b : blank) | SEol (e : eol).      (* inside < > *)

Definition blank_byte (b : blank) : byte := match b with Space => x20 | Tab => x09 end.
Definition eol_bytes (e : eol) : bytes :=
  match e with CR => [x0d] | LF => [x0a] | CRLF => [x0d; x0a] end.
(* the text of a comment runs up to the end of the line: it holds no CR and no LF *)
Definition in_line (c : byte) : bool := negb (byte_eqb c x0d || byte_eqb c x0a).
Definition witem_bytes (w : witem) : bytes :=
  match w with
  | WBlank b => [blank_byte b]
  | WEol e => eol_bytes e
  | WComment t e => x25 :: filter in_line t ++ eol_bytes e
  end.
Definition sitem_bytes (w : sitem) : bytes :=
  match w with SBlank b => [blank_byte b] | SEol e => eol_bytes e end.

Definition gap0 := list blank.                      (* zero or more blanks *)
Definition gap1 := (blank * list blank)%type.       (* one or more blanks *)
Definition brk0 := list witem.                      (* any white space *)
Definition brk1 := (witem * list witem)%type.       (* at least one item of white space *)

Definition blanks (g : gap0) : bytes := map blank_byte g.
Definition blanks1 (g : gap1) : bytes := blank_byte (fst g) :: blanks (snd g).
Definition wbytes (g : brk0) : bytes := flat_map witem_bytes g.
Definition wbytes1 (g : brk1) : bytes := witem_bytes (fst g) ++ wbytes (snd g).
Definition sbytes (g : list sitem) : bytes := flat_map sitem_bytes g.

(* ---------- numbers ---------- *)
Definition dec_digit (d : N) : byte := byte_of_N (48 + d).
(* decimal digits, most significant first, prepended to [acc]; 20 rounds cover every count below
   10^20 *)
Fixpoint dec_go (fuel : nat) (n : N) (acc : bytes) : bytes :=
  match fuel with
  | O => dec_digit (n mod 10) :: acc
  | S f => if n <? 10 then dec_digit n :: acc else dec_go f (n / 10) (dec_digit (n mod 10) :: acc)
  end.
Definition dec (n : N) : bytes := dec_go 20 n [].

(* one hexadecimal digit; [up] = upper case *)
Definition hex_digit (up : bool) (d : N) : byte :=
  if d <? 10 then byte_of_N (48 + d) else if up then byte_of_N (55 + d) else byte_of_N (87 + d).

(* the bytes [ds] (values below 256) as hexadecimal digit pairs; [c] = case of each digit *)
Fixpoint hex_bytes (c : list bool) (ds : list N) : bytes :=
  match ds with
  | [] => []
  | d :: ds' =>
    hex_digit (hd false c) (d / 16) :: hex_digit (hd false (tl c)) (d mod 16) :: hex_bytes (tl (tl c)) ds'
  end.

(* the [k] bytes of the code value [v], most significant first *)
Fixpoint be_digits (k : nat) (v : N) : list N :=
  match k with
  | O => []
  | S k' => be_digits k' (v / 256) ++ [v mod 256]
  end.

(* <code> : a source code of [len] bytes *)
Definition code_text (c : list bool) (len v : N) : bytes :=
  [x3c] ++ hex_bytes c (be_digits (N.to_nat len) v) ++ [x3e].

(* ---------- target strings ---------- *)
Record ulay := mkUlay { u_case : list bool; u_after : list sitem }.
Definition ulay_default : ulay := mkUlay [] [].
Definition tlay := list ulay.       (* one entry per UTF-16 unit *)

Fixpoint units_text (tl_ : tlay) (us : list N) : bytes :=
  match us with
  | [] => []
  | u :: us' =>
    let y := hd ulay_default tl_ in
    hex_bytes (u_case y) [u / 256; u mod 256] ++ sbytes (u_after y) ++ units_text (tl tl_) us'
  end.

(* <units> : a target, UTF-16BE *)
Definition target_text (y : tlay) (us : list N) : bytes := [x3c] ++ units_text y us ++ [x3e].

(* ---------- lines ---------- *)
Record line_lay := mkLineLay {
  l_case1 : list bool;                 (* digits of the first code *)
  l_gap1 : gap0;                       (* between the first and the second token *)
  l_case2 : list bool;                 (* digits of the second code of a range *)
  l_gap2 : gap0;                       (* between the second code of a bfrange and its target *)
  l_bracket : bool;                    (* the single target of a one-code range as a one-element array (same meaning) *)
  l_open : brk0;                       (* after [ *)
  l_tgts : list (brk0 * tlay);         (* per target: the white space in front of it (not used for the first), its layout *)
  l_close : brk0;                      (* before ] *)
  l_end : brk1                         (* the line break after the entry *)
}.
Definition sp1 : gap1 := (Space, []).
Definition nl1 : brk1 := (WEol LF, []).
Definition line_default : line_lay := mkLineLay [] [Space] [] [Space] false [] [] [] nl1.
Definition tgt_default : brk0 * tlay := ([WBlank Space], []).

(* <lo> <hi> *)
Definition range_text (y : line_lay) (lo hi len : N) : bytes :=
  code_text (l_case1 y) len lo ++ blanks (l_gap1 y) ++ code_text (l_case2 y) len hi.

(* the targets of an array after the first one, each with its white space in front: the strings
   delimit themselves, so any white space will do, also none, also line breaks and comments *)
Fixpoint more_targets (ts : list (brk0 * tlay)) (dst : list (list N)) : bytes :=
  match dst with
  | [] => []
  | t :: dst' =>
    let y := hd tgt_default ts in
    wbytes (fst y) ++ target_text (snd y) t ++ more_targets (tl ts) dst'
  end.

Definition array_text (y : line_lay) (dst : list (list N)) : bytes :=
  match dst with
  | [] => [x5b] ++ wbytes (l_open y) ++ wbytes (l_close y) ++ [x5d]     (* not well formed: an empty array *)
  | t :: dst' =>
    [x5b] ++ wbytes (l_open y) ++ target_text (snd (hd tgt_default (l_tgts y))) t
      ++ more_targets (tl (l_tgts y)) dst' ++ wbytes (l_close y) ++ [x5d]
  end.

Definition cs_line_text (y : line_lay) (x : N * N * N) : bytes :=
  let '(lo, hi, len) := x in range_text y lo hi len ++ wbytes1 (l_end y).

Definition bfchar_line_text (y : line_lay) (x : (N * N) * list N) : bytes :=
  let '((code, len), dst) := x in
  code_text (l_case1 y) len code ++ blanks (l_gap1 y)
    ++ target_text (snd (hd tgt_default (l_tgts y))) dst ++ wbytes1 (l_end y).

Definition bfrange_line_text (y : line_lay) (x : (N * N * N) * list (list N)) : bytes :=
  let '((lo, hi, len), dst) := x in
  range_text y lo hi len ++ blanks (l_gap2 y)
    ++ (match dst with
        | [t] => if l_bracket y && (lo =? hi) then array_text y dst else target_text (snd (hd tgt_default (l_tgts y))) t
        | _ => array_text y dst
        end)
    ++ wbytes1 (l_end y).

(* a list of entries, each written with its own layout; a missing layout is the default *)
Fixpoint items_text {L A} (dflt : L) (f : L -> A -> bytes) (ys : list L) (l : list A) : bytes :=
  match l with
  | [] => []
  | x :: l' => f (hd dflt ys) x ++ items_text dflt f (tl ys) l'
  end.
Definition lines_text {A} (f : line_lay -> A -> bytes) := items_text line_default f.

(* ---------- sections ---------- *)
Record sec_lay := mkSecLay {
  s_gap : gap1;                 (* between the count and the begin keyword *)
  s_begin : brk1;               (* after the begin keyword *)
  s_lines : list line_lay;
  s_end : brk1                  (* after the end keyword *)
}.
Definition sec_default : sec_lay := mkSecLay sp1 nl1 [] nl1.

Definition K_begincodespacerange := Eval cbv in bs "begincodespacerange".
Definition K_endcodespacerange := Eval cbv in bs "endcodespacerange".
Definition K_beginbfchar := Eval cbv in bs "beginbfchar".
Definition K_endbfchar := Eval cbv in bs "endbfchar".
Definition K_beginbfrange := Eval cbv in bs "beginbfrange".
Definition K_endbfrange := Eval cbv in bs "endbfrange".

(* n begin<kind> / entries / end<kind> *)
Definition section_frame {A} (y : sec_lay) (kbegin kend : bytes) (f : line_lay -> A -> bytes) (l : list A) : bytes :=
  dec (N.of_nat (length l)) ++ blanks1 (s_gap y) ++ kbegin ++ wbytes1 (s_begin y)
    ++ lines_text f (s_lines y) l ++ kend ++ wbytes1 (s_end y).

Definition section_text (y : sec_lay) (s : csection) : bytes :=
  match s with
  | CsRange l => section_frame y K_begincodespacerange K_endcodespacerange cs_line_text l
  | BfChar l => section_frame y K_beginbfchar K_endbfchar bfchar_line_text l
  | BfRange l => section_frame y K_beginbfrange K_endbfrange bfrange_line_text l
  end.

Definition sections_text : list sec_lay -> list csection -> bytes := items_text sec_default section_text.

(* ---------- the file ---------- *)
Record layout := mkLayout {
  y_pre : brk0;                  (* in front of /CIDInit *)
  y_gap0 : list gap0;            (* the optional blanks of header lines, in order of appearance *)
  y_gap1 : list gap1;            (* the mandatory blanks of header and trailer lines, in order *)
  y_brk : list brk1;             (* the line breaks of header and trailer, in order *)
  y_dict : list brk0;            (* the white space inside the CIDSystemInfo dictionary, in order *)
  y_dictsize : N;                (* the operand of "dict" *)
  y_secs : list sec_lay;
  y_post : brk0                  (* after the last "end" *)
}.

Definition g0 (y : layout) (k : nat) : bytes := blanks (nth k (y_gap0 y) [Space]).
Definition g1 (y : layout) (k : nat) : bytes := blanks1 (nth k (y_gap1 y) sp1).
Definition br (y : layout) (k : nat) : bytes := wbytes1 (nth k (y_brk y) nl1).
Definition bs1 (y : layout) (k : nat) : bytes := wbytes1 (nth k (y_brk y) (WBlank Space, [])).   (* same list, default a space *)
Definition dw (y : layout) (k : nat) : bytes := wbytes (nth k (y_dict y) [WBlank Space]).

Definition K_CIDInit := Eval cbv in bs "/CIDInit".
Definition K_ProcSet := Eval cbv in bs "/ProcSet".
Definition K_findresource := Eval cbv in bs "findresource".
Definition K_begin := Eval cbv in bs "begin".
Definition K_dict := Eval cbv in bs "dict".
Definition K_begincmap := Eval cbv in bs "begincmap".
Definition K_CIDSystemInfo := Eval cbv in bs "/CIDSystemInfo".
Definition K_Registry := Eval cbv in bs "/Registry".
Definition K_Adobe := Eval cbv in bs "(Adobe)".
Definition K_Ordering := Eval cbv in bs "/Ordering".
Definition K_UCS := Eval cbv in bs "(UCS)".
Definition K_Supplement := Eval cbv in bs "/Supplement".
Definition K_def := Eval cbv in bs "def".
Definition K_CMapName := Eval cbv in bs "/CMapName".
Definition K_AdobeIdentityUCS := Eval cbv in bs "/Adobe-Identity-UCS".
Definition K_CMapType := Eval cbv in bs "/CMapType".
Definition K_endcmap := Eval cbv in bs "endcmap".
Definition K_CMapNameBare := Eval cbv in bs "CMapName".
Definition K_currentdict := Eval cbv in bs "currentdict".
Definition K_CMap := Eval cbv in bs "/CMap".
Definition K_defineresource := Eval cbv in bs "defineresource".
Definition K_pop := Eval cbv in bs "pop".
Definition K_end := Eval cbv in bs "end".

Definition header_text (y : layout) : bytes :=
  wbytes (y_pre y)
  ++ K_CIDInit ++ g0 y 0 ++ K_ProcSet ++ g1 y 0 ++ K_findresource ++ g1 y 1 ++ K_begin ++ br y 0
  ++ dec (y_dictsize y) ++ g1 y 2 ++ K_dict ++ g1 y 3 ++ K_begin ++ br y 1
  ++ K_begincmap ++ br y 2
  ++ K_CIDSystemInfo ++ dw y 0 ++ [x3c; x3c] ++ dw y 1
       ++ K_Registry ++ dw y 2 ++ K_Adobe ++ dw y 3
       ++ K_Ordering ++ dw y 4 ++ K_UCS ++ dw y 5
       ++ K_Supplement ++ bs1 y 3 ++ [x30] ++ dw y 6 ++ [x3e; x3e] ++ bs1 y 4 ++ K_def ++ br y 5
  ++ K_CMapName ++ g0 y 1 ++ K_AdobeIdentityUCS ++ g1 y 4 ++ K_def ++ br y 6
  ++ K_CMapType ++ g1 y 5 ++ [x32] ++ g1 y 6 ++ K_def ++ br y 7.

Definition trailer_text (y : layout) : bytes :=
  K_endcmap ++ br y 8
  ++ K_CMapNameBare ++ g1 y 7 ++ K_currentdict ++ g1 y 8 ++ K_CMap ++ g1 y 9 ++ K_defineresource ++ g1 y 10 ++ K_pop ++ br y 9
  ++ K_end ++ br y 10
  ++ K_end ++ wbytes (y_post y).

Definition render (y : layout) (secs : list csection) : bytes :=
  header_text y ++ sections_text (y_secs y) secs ++ trailer_text y.

(* ---------- well-formed section lists (the domain of the property) ---------- *)
(* a code of 1 to 4 bytes *)
Definition wf_code (len v : N) : Prop := 1 <= len <= 4 /\ v < 256 ^ len.
(* a target: 1 to 256 UTF-16 units (the destination string is at most 512 bytes long) *)
Definition wf_target (t : list N) : Prop :=
  t <> [] /\ (length t <= 256)%nat /\ Forall (fun u => u < 65536) t.

Definition wf_cs_line (x : N * N * N) : Prop :=
  let '(lo, hi, len) := x in wf_code len lo /\ wf_code len hi.
Definition wf_bfchar_line (x : (N * N) * list N) : Prop :=
  let '((code, len), dst) := x in wf_code len code /\ wf_target dst.
Definition wf_bfrange_line (x : (N * N * N) * list (list N)) : Prop :=
  let '((lo, hi, len), dst) := x in
  wf_code len lo /\ wf_code len hi /\ dst <> [] /\ Forall wf_target dst.

(* a section holds at least one entry.  (The documents cap a section at 100 entries; the renderer
   and the theorems do not need the cap, the generated cases respect it.) *)
Definition wf_section (s : csection) : Prop :=
  match s with
  | CsRange l => l <> [] /\ Forall wf_cs_line l
  | BfChar l => l <> [] /\ Forall wf_bfchar_line l
  | BfRange l => l <> [] /\ Forall wf_bfrange_line l
  end.

Definition wf_sections (secs : list csection) : Prop := secs <> [] /\ Forall wf_section secs.

(* the ranges of a bfrange section run forwards *)
Definition forward_section (s : csection) : Prop :=
  match s with
  | BfRange l => Forall (fun x : (N * N * N) * list (list N) => fst (fst (fst x)) <= snd (fst (fst x))) l
  | _ => True
  end.
Definition forward_sections (secs : list csection) : Prop := Forall forward_section secs.
