(* RenumberSpec.v -- specification side of C10, written from the property text.  Shares only the
   object data model (Obj.v) with the models: renaming of references, the references an object
   holds, reachability from the trailer, and what "the graph is the same up to a one-to-one
   renaming" means. *)
From LV Require Import Base.Bytes Model.Obj.
From Coq Require Export Sorting.Sorted.

Definition ref_obj (id : oid) : obj := ORef (fst id) (snd id).

(* an object with every reference id replaced by its image *)
Fixpoint rename (f : oid -> oid) (o : obj) : obj :=
  match o with
  | OArr l => OArr (map (rename f) l)
  | ODict d => ODict (map (fun kv => (fst kv, rename f (snd kv))) d)
  | OStream d c => OStream (map (fun kv => (fst kv, rename f (snd kv))) d) c
  | ORef i g => ref_obj (f (i, g))
  | _ => o
  end.
Definition rename_dict (f : oid -> oid) (d : dict) : dict := map (fun kv => (fst kv, rename f (snd kv))) d.

(* the reference ids an object holds, left to right *)
Fixpoint refs_of (o : obj) : list oid :=
  match o with
  | OArr l => flat_map refs_of l
  | ODict d => flat_map (fun kv => refs_of (snd kv)) d
  | OStream d _ => flat_map (fun kv => refs_of (snd kv)) d
  | ORef i g => [(i, g)]
  | _ => []
  end.
Definition refs_of_dict (d : dict) : list oid := flat_map (fun kv => refs_of (snd kv)) d.

(* ids reachable from the trailer: targets of references, whether or not they name an object *)
Inductive reach (tr : dict) (m : objmap) : oid -> Prop :=
| reach_root r : In r (refs_of_dict tr) -> reach tr m r
| reach_step id o r : reach tr m id -> lookup m id = Some o -> In r (refs_of o) -> reach tr m r.

Definition has_obj (m : objmap) (id : oid) : Prop := In id (map fst m).

(* every reachable reference names an object *)
Definition closed (tr : dict) (m : objmap) : Prop := forall id, reach tr m id -> has_obj m id.

(* BTreeMap representation invariant: keys strictly increasing *)
Definition oid_lt (a b : oid) : Prop := oid_ltb a b = true.
Definition sorted_keys (m : objmap) : Prop := StronglySorted oid_lt (map fst m).

Definition inj_on (P : oid -> Prop) (f : oid -> oid) : Prop :=
  forall a b, P a -> P b -> f a = f b -> a = b.

(* numbering start, start+1, ... *)
Fixpoint nums_from (s : N) (n : nat) : list N :=
  match n with O => [] | S k => s :: nums_from (s + 1) k end.

(* ---------- references to objects that do not exist ----------
   ISO 32000-1 7.3.10: "An indirect reference to an undefined object shall not be considered an error by a
   conforming reader; it shall be treated as a reference to the null object."
   [rename_o f o]: the object o with every reference id replaced by its image under f; a reference
   without an image is written as what it denotes, the null object. *)
Fixpoint rename_o (f : oid -> option oid) (o : obj) : obj :=
  match o with
  | OArr l => OArr (map (rename_o f) l)
  | ODict d => ODict (map (fun kv => (fst kv, rename_o f (snd kv))) d)
  | OStream d c => OStream (map (fun kv => (fst kv, rename_o f (snd kv))) d) c
  | ORef i g => match f (i, g) with Some id' => ref_obj id' | None => ONull end
  | _ => o
  end.
Definition rename_dict_o (f : oid -> option oid) (d : dict) : dict := map (fun kv => (fst kv, rename_o f (snd kv))) d.

(* the renaming of the ids that name an object of m; every other id has no image *)
Definition live (m : objmap) (rho : oid -> oid) (id : oid) : option oid :=
  match lookup m id with Some _ => Some (rho id) | None => None end.

(* what a value denotes in a document: a reference denotes the object it names, or the null object *)
Definition denote (m : objmap) (o : obj) : obj :=
  match o with
  | ORef i g => match lookup m (i, g) with Some v => v | None => ONull end
  | _ => o
  end.

(* a bookmark target (an id, not an object): renamed if it names an object, else the "no page" id np *)
Definition live_or (m : objmap) (rho : oid -> oid) (np : oid) (p : oid) : oid :=
  match lookup m p with Some _ => rho p | None => np end.
