(* PageTreeEditRef.v -- C11's page-tree clause on the domain the two repairs /repo e03ecb9 and 526b3cc opened (ISO 32000-1
   7.3.10: any value may be an indirect object): a Pages node's Count may sit behind references ([count_reads],
   Spec/PageTreeEditInd.v) AND a page may be a REFERENCE OBJECT: the id listed in Kids names an object that leads, through any
   number of reference objects within the crate's dereference limit, to the page dictionary.

   * [leads m o via d]: the object o is the dictionary d (via = []), or a reference to an object that leads to d; [via] = the
     ids passed, in order (the last one is the object holding d).
   * [page_tree_ref m par t]: [page_tree_ind] with such leaves.
   * [end_of m id]: the id of the object a page id ends at (the id itself for a dictionary object).
   * [page_doc_ref d t]: [page_doc_ind] over it; besides "nodes pairwise different" the dictionaries the page ids END at are
     pairwise different (two ids that end at one dictionary are one page listed twice). *)
From LV Require Import Base.Bytes Model.Obj Model.DocQ Gen.Consts Spec.Dfs Spec.PageTreeEdit Spec.PageTreeEditInd.

Inductive leads (m : objmap) : obj -> list oid -> dict -> Prop :=
| LDict d : leads m (ODict d) [] d
| LRef i g o via d : lookup m (i, g) = Some o -> leads m o via d -> leads m (ORef i g) ((i, g) :: via) d.

Inductive page_tree_ref (m : objmap) : option oid -> ptree -> Prop :=
| PRLeaf par id o via d :
    lookup m id = Some o -> leads m o via d -> (N.of_nat (length via) <= DEREF_LIMIT)%N ->
    unique_keys d ->
    dict_get d K_Type = Some (OName K_Page) ->
    parent_ref (dict_get d K_Parent) = par ->
    page_tree_ref m par (PLeaf id)
| PRNode par id d ks :
    lookup m id = Some (ODict d) -> unique_keys d ->
    dict_get d K_Type = Some (OName K_Pages) ->
    dict_get d K_Kids = Some (OArr (map ref_of ks)) ->
    count_reads m d (Z.of_nat (length (leaves (PNode id ks)))) ->
    parent_ref (dict_get d K_Parent) = par ->
    Forall (page_tree_ref m (Some id)) ks ->
    page_tree_ref m par (PNode id ks).

Definition end_of (m : objmap) (id : oid) : option oid :=
  match lookup m id with
  | None => None
  | Some o => match dereference m o with
              | Some (Some e, _) => Some e
              | Some (None, _) => Some id
              | None => None
              end
  end.

Definition page_doc_ref (d : doc) (t : ptree) : Prop :=
  exists ci cg cat,
    unique_keys (d_trailer d) /\
    dict_get (d_trailer d) K_Root = Some (ORef ci cg) /\
    lookup (d_objects d) (ci, cg) = Some (ODict cat) /\ unique_keys cat /\
    dict_get cat K_Pages = Some (ref_of t) /\
    is_node t /\
    page_tree_ref (d_objects d) None t /\
    NoDup (ids t) /\ ~ In (ci, cg) (ids t) /\
    NoDup (map (end_of (d_objects d)) (leaves t)).
