(* PngSpec.v -- the PNG filter algorithms, written from the PNG specification (version 1.2, section 6;
   ISO 32000-1 7.4.4.4 refers to it for Predictor 10..15), independently of the lopdf code.

   Filter types are the numbers stored in front of each row: 0 None, 1 Sub, 2 Up, 3 Average, 4 Paeth.
   For the byte at position x of a row, with bpp = bytes per complete pixel (rounded up to 1):
       a = Raw(x-bpp)   b = Prior(x)   c = Prior(x-bpp)      (0 where x-bpp < 0; Prior of the first row is 0)
       Filt(x) = Raw(x) - Predictor_t(a, b, c)   mod 256
       Raw(x)  = Filt(x) + Predictor_t(a, b, c)  mod 256
   Predictors: 0 ; a ; b ; floor((a+b)/2) computed without overflow ; PaethPredictor(a,b,c). *)
From LV Require Import Base.Bytes.

Definition val (b : byte) : Z := Z.of_N (N_of_byte b).
Definition of_val (z : Z) : byte := byte_of_N (Z.to_N (z mod 256)).

(* PNG 1.2, 6.6:
     p = a + b - c ; pa = abs(p - a) ; pb = abs(p - b) ; pc = abs(p - c)
     if pa <= pb AND pa <= pc then return a else if pb <= pc then return b else return c *)
Definition PaethPredictor (a b c : Z) : Z :=
  let p := (a + b - c)%Z in
  let pa := Z.abs (p - a) in
  let pb := Z.abs (p - b) in
  let pc := Z.abs (p - c) in
  if Z_le_dec pa pb then (if Z_le_dec pa pc then a else if Z_le_dec pb pc then b else c)
  else if Z_le_dec pb pc then b else c.

Definition predictor (t : N) (a b c : Z) : Z :=
  match t with
  | 0%N => 0
  | 1%N => a
  | 2%N => b
  | 3%N => (a + b) / 2
  | 4%N => PaethPredictor a b c
  | _ => 0
  end.

Definition valid_type (t : N) : Prop := (t < 5)%N.

(* value at position i - bpp, 0 before the start of the row *)
Definition back (row : bytes) (i bpp : nat) : Z :=
  if (i <? bpp)%nat then 0%Z else val (nth (i - bpp) row x00).

Definition filt_byte (t : N) (bpp : nat) (prior raw : bytes) (i : nat) : byte :=
  of_val (val (nth i raw x00) - predictor t (back raw i bpp) (val (nth i prior x00)) (back prior i bpp)).

(* the reference encoder of one row *)
Definition encode_row (t : N) (bpp : nat) (prior raw : bytes) : bytes :=
  map (filt_byte t bpp prior raw) (seq 0 (length raw)).

(* the reconstruction equations of the reference decoder: [raw] is the decoding of [filt] *)
Definition Recon (t : N) (bpp : nat) (prior filt raw : bytes) : Prop :=
  length raw = length filt /\
  forall i, (i < length filt)%nat ->
    val (nth i raw x00) =
    ((val (nth i filt x00) + predictor t (back raw i bpp) (val (nth i prior x00)) (back prior i bpp)) mod 256)%Z.

(* a frame: each row preceded by its type byte, the row above the first one is all zero *)
Fixpoint encode_rows (types : list N) (bpp : nat) (prior : bytes) (rows : list bytes) : bytes :=
  match types, rows with
  | t :: ts, r :: rs => byte_of_N t :: encode_row t bpp prior r ++ encode_rows ts bpp r rs
  | _, _ => []
  end.

Definition encode_frame (types : list N) (bpp bytes_per_row : nat) (rows : list bytes) : bytes :=
  encode_rows types bpp (repeat x00 bytes_per_row) rows.
