(* Inflate.v -- an executable decoder for the zlib format (RFC 1950) holding deflate data (RFC 1951), written from
   the two RFCs; it shares nothing with the lopdf model (lopdf calls the crate flate2 for this).  The stored-block
   encoder and Adler-32 are those of Spec/ZlibStoredSpec.v (also written from the RFCs).

   RFC 1950: CMF (method 8 = deflate in the low nibble, window size <= 7 in the high one), FLG (CMF*256 + FLG is a
             multiple of 31, bit 5 = preset dictionary: not supported here, as in PDF), deflate data, Adler-32 of the
             uncompressed data, most significant byte first.
   RFC 1951: bits are taken from each byte starting at the least significant one; every block starts with BFINAL
             (1 bit) and BTYPE (2 bits, least significant first): 00 stored (skip to the byte boundary, LEN, NLEN =
             one's complement of LEN, LEN bytes), 01 fixed Huffman codes, 10 dynamic Huffman codes (HLIT, HDIST,
             HCLEN, the code-length code in the order 16 17 18 0 8 7 ..., then the literal/length and distance code
             lengths with the repeat codes 16/17/18), 11 error.  Huffman codes are canonical (3.2.2) and are read
             most significant bit first; literal/length symbols: < 256 literal, 256 end of block, 257..285 a length
             (base + extra bits) followed by a distance symbol 0..29 (base + extra bits); the copy may overlap
             the bytes it produces.

   The output is accumulated newest byte first (rev_append is the linear-time reversal).  Recursions that follow the
   data carry a fuel: [inflate] starts [blocks] with one more than the number of bits of the deflate data, [blocks]
   spends one unit per block (a block takes at least 3 bits) and lends what it has left to the loops inside the block,
   which spend one unit per symbol (a symbol takes at least 1 bit) -- so the fuel always exceeds the number of unread
   bits.  [inflate] itself has no fuel parameter, and running out of fuel is the result None like every other
   failure -- the theorems state [= Some ...]. *)
From LV Require Import Base.Bytes Spec.ZlibStoredSpec.

Local Open Scope N_scope.

(* ---------- bit reader: the unread bits of the current byte (least significant first), the unread bytes ---------- *)
Definition bstream := (list bool * bytes)%type.

Definition byte_bits_lsb (b : byte) : list bool :=
  let '(b0, (b1, (b2, (b3, (b4, (b5, (b6, b7))))))) := Byte.to_bits b in [b0; b1; b2; b3; b4; b5; b6; b7].

Definition getbit (s : bstream) : option (bool * bstream) :=
  match s with
  | (b :: cur, rest) => Some (b, (cur, rest))
  | ([], c :: rest) =>
    match byte_bits_lsb c with
    | b :: cur => Some (b, (cur, rest))
    | [] => None
    end
  | ([], []) => None
  end.

(* n bits as a number, the first bit read is the least significant *)
Fixpoint getbits (n : nat) (s : bstream) : option (N * bstream) :=
  match n with
  | O => Some (0, s)
  | S n' =>
    match getbit s with
    | Some (b, s1) =>
      match getbits n' s1 with
      | Some (v, s2) => Some ((if b then 1 else 0) + 2 * v, s2)
      | None => None
      end
    | None => None
    end
  end.

Definition bits_left (s : bstream) : nat := (length (fst s) + 8 * length (snd s))%nat.

(* ---------- canonical Huffman codes (3.2.2) ---------- *)
(* for the code lengths 1, 2, ..., 15: the first code of that length, the number of codes and their symbols in
   increasing order *)
Definition huff := list (N * N * list N).

Fixpoint syms_with (len : N) (lens : list N) (i : N) : list N :=
  match lens with
  | [] => []
  | l :: r => if l =? len then i :: syms_with len r (i + 1) else syms_with len r (i + 1)
  end.

Fixpoint mk_huff (n : nat) (len first : N) (lens : list N) : huff :=
  match n with
  | O => []
  | S n' =>
    let syms := syms_with len lens 0 in
    let count := N.of_nat (length syms) in
    (first, count, syms) :: mk_huff n' (len + 1) ((first + count) * 2) lens
  end.

Definition huffman (lens : list N) : huff := mk_huff 15 1 0 lens.

Fixpoint decode_sym (h : huff) (code : N) (s : bstream) : option (N * bstream) :=
  match h with
  | [] => None
  | (first, count, syms) :: h' =>
    match getbit s with
    | None => None
    | Some (b, s1) =>
      let code' := 2 * code + (if b then 1 else 0) in
      if (first <=? code') && (code' <? first + count) then
        match nth_error syms (N.to_nat (code' - first)) with
        | Some x => Some (x, s1)
        | None => None
        end
      else decode_sym h' code' s1
    end
  end.

(* ---------- 3.2.5: lengths and distances ---------- *)
Definition LBASE : list N :=
  [3; 4; 5; 6; 7; 8; 9; 10; 11; 13; 15; 17; 19; 23; 27; 31; 35; 43; 51; 59; 67; 83; 99; 115; 131; 163; 195; 227; 258].
Definition LEXT : list nat :=
  [0; 0; 0; 0; 0; 0; 0; 0; 1; 1; 1; 1; 2; 2; 2; 2; 3; 3; 3; 3; 4; 4; 4; 4; 5; 5; 5; 5; 0]%nat.
Definition DBASE : list N :=
  [1; 2; 3; 4; 5; 7; 9; 13; 17; 25; 33; 49; 65; 97; 129; 193; 257; 385; 513; 769; 1025; 1537; 2049; 3073; 4097; 6145;
   8193; 12289; 16385; 24577].
Definition DEXT : list nat :=
  [0; 0; 0; 0; 1; 1; 2; 2; 3; 3; 4; 4; 5; 5; 6; 6; 7; 7; 8; 8; 9; 9; 10; 10; 11; 11; 12; 12; 13; 13]%nat.

(* copy [len] bytes from [dist] bytes back; [out] is newest first, so the source stays at index dist - 1 *)
Fixpoint copy (len : nat) (dist : nat) (out : bytes) : option bytes :=
  match len with
  | O => Some out
  | S n =>
    match nth_error out (dist - 1) with
    | Some b => copy n dist (b :: out)
    | None => None
    end
  end.

Fixpoint codes_loop (fuel : nat) (lit dist : huff) (s : bstream) (out : bytes) : option (bytes * bstream) :=
  match fuel with
  | O => None
  | S f =>
    match decode_sym lit 0 s with
    | None => None
    | Some (sym, s1) =>
      if sym <? 256 then codes_loop f lit dist s1 (byte_of_N sym :: out)
      else if sym =? 256 then Some (out, s1)
      else
        let i := N.to_nat (sym - 257) in
        match nth_error LBASE i, nth_error LEXT i with
        | Some lb, Some le =>
          match getbits le s1 with
          | None => None
          | Some (lv, s2) =>
            match decode_sym dist 0 s2 with
            | None => None
            | Some (ds, s3) =>
              let j := N.to_nat ds in
              match nth_error DBASE j, nth_error DEXT j with
              | Some db, Some de =>
                match getbits de s3 with
                | None => None
                | Some (dv, s4) =>
                  let d := db + dv in
                  if d =? 0 then None
                  else
                    match copy (N.to_nat (lb + lv)) (N.to_nat d) out with
                    | Some out' => codes_loop f lit dist s4 out'
                    | None => None
                    end
                end
              | _, _ => None
              end
            end
          end
        | _, _ => None
        end
    end
  end.

(* 3.2.6 *)
Definition FIXED_LIT : list N := repeat 8 144 ++ repeat 9 112 ++ repeat 7 24 ++ repeat 8 8.
Definition FIXED_DIST : list N := repeat 5 30.

(* 3.2.7 *)
Definition CL_ORDER : list N := [16; 17; 18; 0; 8; 7; 9; 6; 10; 5; 11; 4; 12; 3; 13; 2; 14; 1; 15].

Fixpoint getbits_list (count : nat) (n : nat) (s : bstream) : option (list N * bstream) :=
  match count with
  | O => Some ([], s)
  | S c =>
    match getbits n s with
    | None => None
    | Some (v, s1) =>
      match getbits_list c n s1 with
      | Some (vs, s2) => Some (v :: vs, s2)
      | None => None
      end
    end
  end.

(* the code length of code-length symbol [sym]: the value read at its position in CL_ORDER, 0 when not sent *)
Fixpoint cl_len (order : list N) (vals : list N) (sym : N) : N :=
  match order, vals with
  | o :: order', v :: vals' => if o =? sym then v else cl_len order' vals' sym
  | _, _ => 0
  end.

Definition cl_lens (vals : list N) : list N := map (fun k => cl_len CL_ORDER vals (N.of_nat k)) (seq 0 19).

(* [acc]: the lengths read so far, newest first; exactly [total] must come out *)
Fixpoint read_lens (fuel : nat) (h : huff) (total : nat) (acc : list N) (s : bstream) : option (list N * bstream) :=
  if (total <=? length acc)%nat then
    if (length acc =? total)%nat then Some (rev acc, s) else None
  else
    match fuel with
    | O => None
    | S f =>
      match decode_sym h 0 s with
      | None => None
      | Some (sym, s1) =>
        if sym <? 16 then read_lens f h total (sym :: acc) s1
        else if sym =? 16 then
          match acc, getbits 2 s1 with
          | p :: _, Some (v, s2) => read_lens f h total (repeat p (N.to_nat (3 + v)) ++ acc) s2
          | _, _ => None
          end
        else if sym =? 17 then
          match getbits 3 s1 with
          | Some (v, s2) => read_lens f h total (repeat 0 (N.to_nat (3 + v)) ++ acc) s2
          | None => None
          end
        else
          match getbits 7 s1 with
          | Some (v, s2) => read_lens f h total (repeat 0 (N.to_nat (11 + v)) ++ acc) s2
          | None => None
          end
      end
    end.

Definition dynamic_block (fuel : nat) (s : bstream) (out : bytes) : option (bytes * bstream) :=
  match getbits 5 s with
  | None => None
  | Some (hlit, s1) =>
    match getbits 5 s1 with
    | None => None
    | Some (hdist, s2) =>
      match getbits 4 s2 with
      | None => None
      | Some (hclen, s3) =>
        match getbits_list (N.to_nat (hclen + 4)) 3 s3 with
        | None => None
        | Some (vals, s4) =>
          let nlit := N.to_nat (hlit + 257) in
          let ndist := N.to_nat (hdist + 1) in
          match read_lens fuel (huffman (cl_lens vals)) (nlit + ndist) [] s4 with
          | None => None
          | Some (lens, s5) =>
            codes_loop fuel (huffman (firstn nlit lens)) (huffman (skipn nlit lens)) s5 out
          end
        end
      end
    end
  end.

Definition le16_value (b0 b1 : byte) : N := N_of_byte b0 + 256 * N_of_byte b1.

(* 3.2.4: the rest of the current byte is skipped *)
Definition stored_block_in (s : bstream) (out : bytes) : option (bytes * bstream) :=
  match snd s with
  | l0 :: l1 :: n0 :: n1 :: rest =>
    let len := le16_value l0 l1 in
    if len + le16_value n0 n1 =? 65535 then
      let k := N.to_nat len in
      if (k <=? length rest)%nat then Some (rev_append (firstn k rest) out, ([], skipn k rest)) else None
    else None
  | _ => None
  end.

Fixpoint blocks (fuel : nat) (s : bstream) (out : bytes) : option (bytes * bstream) :=
  match fuel with
  | O => None
  | S f =>
    match getbit s with
    | None => None
    | Some (bfinal, s1) =>
      match getbits 2 s1 with
      | None => None
      | Some (btype, s2) =>
        let r := if btype =? 0 then stored_block_in s2 out
                 else if btype =? 1 then codes_loop fuel (huffman FIXED_LIT) (huffman FIXED_DIST) s2 out
                 else if btype =? 2 then dynamic_block fuel s2 out
                 else None in
        match r with
        | None => None
        | Some (out', s') => if bfinal then Some (out', s') else blocks f s' out'
        end
      end
    end
  end.

(* RFC 1950 *)
Definition zlib_header_ok (cmf flg : byte) : bool :=
  let c := N_of_byte cmf in
  let f := N_of_byte flg in
  (c mod 16 =? 8) && (c / 16 <=? 7) && ((c * 256 + f) mod 31 =? 0) && ((f / 32) mod 2 =? 0).

Definition inflate (data : bytes) : option bytes :=
  match data with
  | cmf :: flg :: rest =>
    if zlib_header_ok cmf flg then
      match blocks (S (8 * length rest)%nat) ([], rest) [] with
      | Some (out_rev, s) =>
        let out := rev_append out_rev [] in
        if bytes_eqb (firstn 4 (snd s)) (be32 (adler32 out)) then Some out else None
      | None => None
      end
    else None
  | _ => None
  end.

(* the stored-block encoder of Spec/ZlibStoredSpec.v with blocks of 65535 bytes, the largest the format has *)
Definition deflate_stored (data : bytes) : bytes := zlib_stored 65534 data.
