(* AsciiHexSpec.v -- the ASCIIHexDecode filter as ISO 32000-1 7.4.2 defines its ENCODED form, written from the
   standard, sharing nothing with the model (Model/AsciiHex.v):
   "The ASCIIHexDecode filter decodes data that has been encoded in ASCII hexadecimal form. [...] shall produce one
   byte of binary data for each pair of ASCII hexadecimal digits (0-9 and A-F or a-f).  All white-space characters
   shall be ignored.  A GREATER-THAN SIGN (3Eh) indicates EOD.  [...] If the filter encounters the EOD marker after
   reading an odd number of hexadecimal digits, it shall behave as if a 0 (zero) followed the last digit." *)
From LV Require Import Base.Bytes.
Local Open Scope N_scope.

Definition digits (upper : bool) : bytes := if upper then bs "0123456789ABCDEF" else bs "0123456789abcdef".
Definition digit_char (upper : bool) (d : N) : byte := nth (N.to_nat d) (digits upper) x30.

Definition encode_byte (upper : bool) (b : byte) : bytes :=
  [digit_char upper (N_of_byte b / 16); digit_char upper (N_of_byte b mod 16)].

(* the plain encoder: two digits per byte *)
Definition encode (upper : bool) (data : bytes) : bytes := flat_map (encode_byte upper) data.

Definition EOD : bytes := [x3e].

(* the six white-space characters of table 1 *)
Definition white : bytes := [x00; x09; x0a; x0c; x0d; x20].
Definition all_white (w : bytes) : Prop := Forall (fun b => In b white) w.

(* every legal encoding: per digit its own case, white-space before every digit *)
Record dstyle := { d_ws1 : bytes; d_u1 : bool; d_ws2 : bytes; d_u2 : bool }.
Definition dstyle_ok (y : dstyle) : Prop := all_white (d_ws1 y) /\ all_white (d_ws2 y).

Fixpoint encode_styled (data : bytes) (st : list dstyle) : bytes :=
  match data, st with
  | b :: data', y :: st' =>
    d_ws1 y ++ digit_char (d_u1 y) (N_of_byte b / 16) :: d_ws2 y ++ digit_char (d_u2 y) (N_of_byte b mod 16) ::
    encode_styled data' st'
  | _, _ => encode true data
  end.
