(* StrictReader.v -- specification side of C03: a strict reader of the PDF file structure, written
   from ISO 32000-1 section 7.2 (lexical conventions), 7.3 (objects) and 7.5 (file structure:
   header, body, cross-reference table, trailer, incremental updates, cross-reference streams).

   It shares NO definition with Model/Parser.v, Model/Loader.v, Model/Writer.v or Model/Save.v:
   only Base/Bytes.v (byte strings) and the object DATA type of Model/Obj.v (obj, dict, objmap,
   dict_get, insert) are imported.  Everything is executable and total.

   What [strict_load] enforces (each failure names the violated rule):
     - the file starts with "%PDF-d.d" EOL and a comment line holding at least four bytes >= 128;
     - the file ends with "startxref" EOL <digits> EOL "%%EOF" [EOL];
     - the number after startxref is the offset of the keyword "xref" or of the "n g obj" header
       of a cross-reference stream (/Type /XRef);
     - a table is "xref" EOL, then subsections "first count" EOL followed by exactly [count]
       entries of exactly 20 bytes "dddddddddd ddddd n|f" + 2-byte EOL, then "trailer" and a
       dictionary;
     - a cross-reference stream has no filter, W = three widths, Index = pairs (default
       [0 Size]) and its data length equals (sum of counts) * (sum of widths);
     - every in-use entry's offset is the first byte of "id gen obj" with that id and gen;
     - every stream's Length (direct, or an indirect integer object) is the number of bytes
       between "stream" CRLF|LF and [EOL] "endstream";
     - Size exceeds every object number of the section (and the newest Size every number of all
       sections);
     - /Prev is followed (strictly decreasing offsets); each older section is itself followed by
       its own startxref/%%EOF holding its own offset;
     - EVERY byte of the file belongs to exactly one span: header (+ comment/white-space
       filler), object spans "id gen obj ... endobj" + trailing white space, cross-reference
       span (table + trailer, or the XRef stream object), the startxref..%%EOF marker of each
       revision, the comment/white-space filler opening a later revision, and one optional
       final EOL.  A gap or an overlap is an error. *)
From LV Require Import Base.Bytes Model.Obj.

Local Open Scope N_scope.

(* ------------------------------------------------------------------------------------ *)
(* results                                                                              *)
(* ------------------------------------------------------------------------------------ *)
Inductive rule :=
| R_header | R_binary_comment | R_eof_marker | R_startxref_target
| R_xref_keyword | R_subsection | R_entry20 | R_trailer
| R_xstream_dict | R_xstream_filter | R_xstream_W | R_xstream_Index | R_xstream_Length
| R_xstream_entry
| R_entry_offset | R_object_syntax | R_stream_length | R_generation
| R_size | R_prev | R_dup_entry | R_gap | R_overlap | R_fuel.

Inductive sres (A : Type) := SOk (a : A) | SErr (r : rule) (detail : N).
Arguments SOk {A} a.
Arguments SErr {A} r detail.

Definition sbind {A B} (x : sres A) (f : A -> sres B) : sres B :=
  match x with SOk a => f a | SErr r p => SErr r p end.
Notation "'sdo' x <- e ; k" := (sbind e (fun x => k))
  (at level 200, x pattern, e at level 100, k at level 200).

Definition of_opt {A} (r : rule) (p : N) (o : option A) : sres A :=
  match o with Some a => SOk a | None => SErr r p end.

Definition obnd {A B} (o : option A) (f : A -> option B) : option B :=
  match o with Some a => f a | None => None end.
Notation "'odo' x <- e ; k" := (obnd e (fun x => k))
  (at level 200, x pattern, e at level 100, k at level 200).

(* ------------------------------------------------------------------------------------ *)
(* 7.2 lexical conventions                                                              *)
(* ------------------------------------------------------------------------------------ *)
Definition nb (b : byte) : N := N_of_byte b.
Definition lenN (s : bytes) : N := N.of_nat (length s).

(* Table 1: white-space characters *)
Definition is_ws (b : byte) : bool :=
  match b with x00 | x09 | x0a | x0c | x0d | x20 => true | _ => false end.
Definition is_eol (b : byte) : bool :=
  match b with x0a | x0d => true | _ => false end.
(* Table 2: delimiter characters *)
Definition is_delim (b : byte) : bool :=
  match b with x28 | x29 | x3c | x3e | x5b | x5d | x7b | x7d | x2f | x25 => true | _ => false end.
Definition is_regular (b : byte) : bool := negb (is_ws b || is_delim b).
Definition is_digit (b : byte) : bool := (48 <=? nb b) && (nb b <=? 57).
Definition is_octal (b : byte) : bool := (48 <=? nb b) && (nb b <=? 55).
Definition digit_val (b : byte) : N := nb b - 48.
Definition hexv (b : byte) : option N :=
  let n := nb b in
  if (48 <=? n) && (n <=? 57) then Some (n - 48)
  else if (65 <=? n) && (n <=? 70) then Some (n - 55)
  else if (97 <=? n) && (n <=? 102) then Some (n - 87)
  else None.

(* a token ends at end of input, white space or a delimiter *)
Definition tok_end (s : bytes) : bool :=
  match s with [] => true | c :: _ => negb (is_regular c) end.

(* literal keyword *)
Fixpoint strip (kw s : bytes) : option bytes :=
  match kw, s with
  | [], _ => Some s
  | k :: kw', c :: s' => if byte_eqb k c then strip kw' s' else None
  | _ :: _, [] => None
  end.
Definition kw_tok (kw s : bytes) : option bytes :=
  match strip kw s with
  | Some r => if tok_end r then Some r else None
  | None => None
  end.

(* end-of-line marker: CR LF, CR or LF *)
Definition p_eol (s : bytes) : option bytes :=
  match s with
  | c :: r =>
    if byte_eqb c x0d then
      match r with
      | c2 :: r2 => if byte_eqb c2 x0a then Some r2 else Some r
      | [] => Some r
      end
    else if byte_eqb c x0a then Some r
    else None
  | [] => None
  end.

(* white space only *)
Fixpoint skip_sp (s : bytes) : bytes :=
  match s with
  | c :: s' => if is_ws c then skip_sp s' else s
  | [] => []
  end.
(* at least one white-space byte *)
Definition ws1 (s : bytes) : option bytes :=
  match s with
  | c :: s' => if is_ws c then Some (skip_sp s') else None
  | [] => None
  end.
(* white space and comments (a comment runs from % to the next EOL byte) *)
Fixpoint skip_ws (s : bytes) (in_comment : bool) : bytes :=
  match s with
  | [] => []
  | c :: s' =>
    if in_comment then (if is_eol c then skip_ws s' false else skip_ws s' true)
    else if is_ws c then skip_ws s' false
    else if byte_eqb c x25 then skip_ws s' true
    else s
  end.

Fixpoint span (p : byte -> bool) (s : bytes) : bytes * bytes :=
  match s with
  | c :: s' => if p c then let '(a, r) := span p s' in (c :: a, r) else ([], s)
  | [] => ([], [])
  end.

Definition dec_val (ds : bytes) : N := fold_left (fun a c => a * 10 + digit_val c) ds 0.

(* unsigned decimal integer: one or more digits *)
Definition p_nat (s : bytes) : option (N * bytes) :=
  match span is_digit s with
  | ([], _) => None
  | (ds, r) => Some (dec_val ds, r)
  end.

(* exactly k digits *)
Fixpoint fixed_digits (k : nat) (s : bytes) (acc : N) : option (N * bytes) :=
  match k with
  | O => Some (acc, s)
  | S k' =>
    match s with
    | c :: s' => if is_digit c then fixed_digits k' s' (acc * 10 + digit_val c) else None
    | [] => None
    end
  end.

Fixpoint take_n (n : nat) (s : bytes) : option (bytes * bytes) :=
  match n with
  | O => Some ([], s)
  | S n' =>
    match s with
    | c :: s' => match take_n n' s' with Some (a, r) => Some (c :: a, r) | None => None end
    | [] => None
    end
  end.

Definition ocons {A} (c : A) (o : option (list A * bytes)) : option (list A * bytes) :=
  match o with Some (a, r) => Some (c :: a, r) | None => None end.

(* ------------------------------------------------------------------------------------ *)
(* 7.3 objects                                                                          *)
(* ------------------------------------------------------------------------------------ *)

(* 7.3.5 name: regular characters after the solidus, #xx = the byte with that hex code *)
Fixpoint p_name (s : bytes) : option (bytes * bytes) :=
  match s with
  | [] => Some ([], [])
  | c :: s' =>
    if is_regular c then
      if byte_eqb c x23 then
        match s' with
        | h1 :: h2 :: s'' =>
          match hexv h1, hexv h2 with
          | Some a, Some b => ocons (byte_of_N (a * 16 + b)) (p_name s'')
          | _, _ => None
          end
        | _ => None
        end
      else ocons c (p_name s')
    else Some ([], s)
  end.

(* 7.3.4.2 literal string, after the opening parenthesis; [depth] = open inner parentheses *)
Definition unescape (e : byte) : byte :=
  if byte_eqb e x6e then x0a else if byte_eqb e x72 then x0d else if byte_eqb e x74 then x09
  else if byte_eqb e x62 then x08 else if byte_eqb e x66 then x0c else e.

Fixpoint p_lit (s : bytes) (depth : nat) : option (bytes * bytes) :=
  match s with
  | [] => None
  | c :: s' =>
    if byte_eqb c x29 then
      match depth with O => Some ([], s') | S d => ocons c (p_lit s' d) end
    else if byte_eqb c x28 then ocons c (p_lit s' (S depth))
    else if byte_eqb c x0d then
      (* an unescaped EOL marker reads as one LF *)
      match s' with
      | c2 :: s'' => if byte_eqb c2 x0a then ocons x0a (p_lit s'' depth) else ocons x0a (p_lit s' depth)
      | [] => ocons x0a (p_lit s' depth)
      end
    else if byte_eqb c x5c then
      match s' with
      | [] => None
      | e :: s1 =>
        if is_octal e then
          match s1 with
          | d2 :: s2 =>
            if is_octal d2 then
              match s2 with
              | d3 :: s3 =>
                if is_octal d3
                then ocons (byte_of_N (digit_val e * 64 + digit_val d2 * 8 + digit_val d3)) (p_lit s3 depth)
                else ocons (byte_of_N (digit_val e * 8 + digit_val d2)) (p_lit s2 depth)
              | [] => ocons (byte_of_N (digit_val e * 8 + digit_val d2)) (p_lit s2 depth)
              end
            else ocons (byte_of_N (digit_val e)) (p_lit s1 depth)
          | [] => ocons (byte_of_N (digit_val e)) (p_lit s1 depth)
          end
        else if byte_eqb e x0d then
          (* line continuation *)
          match s1 with
          | c2 :: s2 => if byte_eqb c2 x0a then p_lit s2 depth else p_lit s1 depth
          | [] => p_lit s1 depth
          end
        else if byte_eqb e x0a then p_lit s1 depth
        else ocons (unescape e) (p_lit s1 depth)
      end
    else ocons c (p_lit s' depth)
  end.

(* 7.3.4.3 hexadecimal string, after "<"; white space ignored, odd final digit padded with 0 *)
Fixpoint p_hex (s : bytes) (pending : option N) : option (bytes * bytes) :=
  match s with
  | [] => None
  | c :: s' =>
    if byte_eqb c x3e then
      match pending with None => Some ([], s') | Some h => Some ([byte_of_N (h * 16)], s') end
    else if is_ws c then p_hex s' pending
    else
      match hexv c with
      | Some v =>
        match pending with
        | None => p_hex s' (Some v)
        | Some h => ocons (byte_of_N (h * 16 + v)) (p_hex s' None)
        end
      | None => None
      end
  end.

(* 7.3.3 numbers: [+-]? d+ | [+-]? d* . d*  (at least one digit).  A real keeps its spelling. *)
Definition p_number (s : bytes) : option (obj * bytes) :=
  let '(sign, neg, s1) :=
    match s with
    | c :: r => if byte_eqb c x2b then ([x2b], false, r)
                else if byte_eqb c x2d then ([x2d], true, r) else ([], false, s)
    | [] => ([], false, s)
    end in
  let '(ip, s2) := span is_digit s1 in
  let int_case :=
    match ip with
    | [] => None
    | _ => if tok_end s2
           then Some (OInt (if neg then Z.opp (Z.of_N (dec_val ip)) else Z.of_N (dec_val ip)), s2)
           else None
    end in
  match s2 with
  | c :: s3 =>
    if byte_eqb c x2e then
      let '(fp, s4) := span is_digit s3 in
      match ip, fp with
      | [], [] => None
      | _, _ => if tok_end s4 then Some (OReal (sign ++ ip ++ x2e :: fp), s4) else None
      end
    else int_case
  | [] => int_case
  end.

(* 7.3.10 the rest of an indirect reference after its object number: ws gen ws R *)
Definition p_ref_tail (s : bytes) : option (N * bytes) :=
  odo s1 <- ws1 s;
  odo gr <- p_nat s1;
  odo s3 <- ws1 (snd gr);
  match s3 with
  | c :: s4 => if byte_eqb c x52 && tok_end s4 then Some (fst gr, s4) else None
  | [] => None
  end.

Definition KW_null := Eval cbv in bs "null".
Definition KW_true := Eval cbv in bs "true".
Definition KW_false := Eval cbv in bs "false".
Definition KW_obj := Eval cbv in bs "obj".
Definition KW_endobj := Eval cbv in bs "endobj".
Definition KW_stream := Eval cbv in bs "stream".
Definition KW_endstream := Eval cbv in bs "endstream".
Definition KW_xref := Eval cbv in bs "xref".
Definition KW_trailer := Eval cbv in bs "trailer".
Definition KW_startxref := Eval cbv in bs "startxref".
Definition KW_eof := Eval cbv in bs "%%EOF".
Definition KW_pdf := Eval cbv in bs "%PDF-".
Definition N_Length := Eval cbv in bs "Length".
Definition N_Type := Eval cbv in bs "Type".
Definition N_XRef := Eval cbv in bs "XRef".
Definition N_Size := Eval cbv in bs "Size".
Definition N_W := Eval cbv in bs "W".
Definition N_Index := Eval cbv in bs "Index".
Definition N_Prev := Eval cbv in bs "Prev".
Definition N_Filter := Eval cbv in bs "Filter".

(* direct objects (no streams: a stream is only legal as an indirect object).  [fuel] bounds the
   nesting depth; every level consumes a byte, so [S (length s)] always suffices. *)
Fixpoint p_obj (fuel : nat) (s : bytes) {struct fuel} : option (obj * bytes) :=
  match fuel with
  | O => None
  | S f =>
    match s with
    | [] => None
    | c :: s' =>
      if byte_eqb c x2f then
        match p_name s' with Some (n, r) => Some (OName n, r) | None => None end
      else if byte_eqb c x28 then
        match p_lit s' 0 with Some (t, r) => Some (OStr t false, r) | None => None end
      else if byte_eqb c x3c then
        match s' with
        | c2 :: s'' =>
          if byte_eqb c2 x3c then
            match p_dict f (skip_ws s'' false) with Some (d, r) => Some (ODict d, r) | None => None end
          else match p_hex s' None with Some (t, r) => Some (OStr t true, r) | None => None end
        | [] => None
        end
      else if byte_eqb c x5b then
        match p_arr f (skip_ws s' false) with Some (l, r) => Some (OArr l, r) | None => None end
      else if is_digit c then
        match p_nat s with
        | Some (n, r) =>
          match p_ref_tail r with
          | Some (g, r') => Some (ORef n g, r')
          | None => p_number s
          end
        | None => None
        end
      else if byte_eqb c x2b || byte_eqb c x2d || byte_eqb c x2e then p_number s
      else
        match kw_tok KW_null s with
        | Some r => Some (ONull, r)
        | None =>
          match kw_tok KW_true s with
          | Some r => Some (OBool true, r)
          | None =>
            match kw_tok KW_false s with
            | Some r => Some (OBool false, r)
            | None => None
            end
          end
        end
    end
  end
(* array items up to "]"; [s] has no leading white space *)
with p_arr (fuel : nat) (s : bytes) {struct fuel} : option (list obj * bytes) :=
  match fuel with
  | O => None
  | S f =>
    match s with
    | [] => None
    | c :: s' =>
      if byte_eqb c x5d then Some ([], s')
      else
        match p_obj f s with
        | Some (o, r) =>
          match p_arr f (skip_ws r false) with
          | Some (l, r') => Some (o :: l, r')
          | None => None
          end
        | None => None
        end
    end
  end
(* dictionary entries up to ">>"; [s] has no leading white space *)
with p_dict (fuel : nat) (s : bytes) {struct fuel} : option (dict * bytes) :=
  match fuel with
  | O => None
  | S f =>
    match s with
    | [] => None
    | c :: s' =>
      if byte_eqb c x3e then
        match s' with
        | c2 :: s'' => if byte_eqb c2 x3e then Some ([], s'') else None
        | [] => None
        end
      else if byte_eqb c x2f then
        match p_name s' with
        | Some (k, r) =>
          match p_obj f (skip_ws r false) with
          | Some (v, r2) =>
            match p_dict f (skip_ws r2 false) with
            | Some (d, r3) => Some ((k, v) :: d, r3)
            | None => None
            end
          | None => None
          end
        | None => None
        end
      else None
    end
  end.

Definition p_object (s : bytes) : option (obj * bytes) := p_obj (S (length s)) s.

(* 7.3.10 "id gen obj" *)
Definition p_objhdr (s : bytes) : option (N * N * bytes) :=
  odo a <- p_nat s;
  odo s1 <- ws1 (snd a);
  odo g <- p_nat s1;
  odo s2 <- ws1 (snd g);
  odo s3 <- kw_tok KW_obj s2;
  Some (fst a, fst g, s3).

(* the value of a stream's Length: a direct non-negative integer, or an indirect reference
   resolved by [resolve] (to an integer object) *)
Definition length_value (resolve : N -> N -> option N) (d : dict) : option N :=
  match dict_get d N_Length with
  | Some (OInt z) => if (z <? 0)%Z then None else Some (Z.to_N z)
  | Some (ORef i g) => resolve i g
  | _ => None
  end.

(* the body of an indirect object after "id gen obj": object, optional stream part (7.3.8.1:
   "stream" CRLF|LF, exactly Length bytes, optional EOL, "endstream"), "endobj", then the
   white space that follows.  Returns the object and the rest after that white space. *)
Definition p_objbody (resolve : N -> N -> option N) (id : N) (s : bytes) : sres (obj * bytes) :=
  sdo ob <- of_opt R_object_syntax id (p_object (skip_ws s false));
  let '(o, r0) := ob in
  let r1 := skip_ws r0 false in
  sdo or <-
    match o, strip KW_stream r1 with
    | ODict d, Some r2 =>
      sdo r3 <- of_opt R_object_syntax id
                 (match r2 with
                  | c :: t =>
                    if byte_eqb c x0a then Some t
                    else if byte_eqb c x0d then
                      match t with c2 :: t2 => if byte_eqb c2 x0a then Some t2 else None | [] => None end
                    else None
                  | [] => None
                  end);
      sdo n <- of_opt R_stream_length id (length_value resolve d);
      sdo dr <- of_opt R_stream_length id (take_n (N.to_nat n) r3);
      let '(data, r4) := dr in
      let r5 := match p_eol r4 with Some r => r | None => r4 end in
      sdo r6 <- of_opt R_stream_length id (kw_tok KW_endstream r5);
      SOk (OStream d data, skip_ws r6 false)
    | _, _ => SOk (o, r1)
    end;
  let '(o', r7) := or in
  sdo r8 <- of_opt R_object_syntax id (kw_tok KW_endobj r7);
  SOk (o', skip_sp r8).

(* ------------------------------------------------------------------------------------ *)
(* 7.5.4 cross-reference table                                                          *)
(* ------------------------------------------------------------------------------------ *)
Inductive xent := XFree (next gen : N) | XUse (off gen : N).

(* one entry: exactly 20 bytes *)
Definition p_entry (s : bytes) : option (xent * bytes) :=
  odo a <- fixed_digits 10 s 0;
  match snd a with
  | sp1 :: s1 =>
    if byte_eqb sp1 x20 then
      odo g <- fixed_digits 5 s1 0;
      match snd g with
      | sp2 :: k :: e1 :: e2 :: r =>
        if byte_eqb sp2 x20 &&
           ((byte_eqb e1 x20 && (byte_eqb e2 x0d || byte_eqb e2 x0a)) || (byte_eqb e1 x0d && byte_eqb e2 x0a))
        then
          if byte_eqb k x6e then Some (XUse (fst a) (fst g), r)
          else if byte_eqb k x66 then Some (XFree (fst a) (fst g), r)
          else None
        else None
      | _ => None
      end
    else None
  | [] => None
  end.

Fixpoint p_entries (k : nat) (id : N) (s : bytes) : option (list (N * xent) * bytes) :=
  match k with
  | O => Some ([], s)
  | S k' =>
    match p_entry s with
    | Some (e, r) =>
      match p_entries k' (id + 1) r with
      | Some (l, r') => Some ((id, e) :: l, r')
      | None => None
      end
    | None => None
    end
  end.

(* subsections until the keyword "trailer" *)
Fixpoint p_subsections (fuel : nat) (pos0 : N) (s : bytes) : sres (list (N * xent) * bytes) :=
  match fuel with
  | O => SErr R_fuel pos0
  | S f =>
    match strip KW_trailer s with
    | Some _ => SOk ([], s)
    | None =>
      sdo hd <- of_opt R_subsection pos0
                 (odo a <- p_nat s;
                  match snd a with
                  | sp :: s1 =>
                    if byte_eqb sp x20 then
                      odo c <- p_nat s1;
                      odo s2 <- p_eol (snd c);
                      Some (fst a, fst c, s2)
                    else None
                  | [] => None
                  end);
      let '(first, cnt, s2) := hd in
      if lenN s2 <? cnt * 20 then SErr R_entry20 first
      else
        sdo es <- of_opt R_entry20 first (p_entries (N.to_nat cnt) first s2);
        sdo rest <- p_subsections f pos0 (snd es);
        SOk (fst es ++ fst rest, snd rest)
    end
  end.

(* "xref" EOL subsections "trailer" dictionary, then the white space that follows *)
Definition p_xref_table (x : N) (s : bytes) : sres (list (N * xent) * dict * bytes) :=
  sdo s1 <- of_opt R_xref_keyword x (odo r <- strip KW_xref s; p_eol r);
  sdo es <- p_subsections (S (length s1)) x s1;
  sdo s2 <- of_opt R_trailer x (kw_tok KW_trailer (snd es));
  sdo d <- of_opt R_trailer x
            (match p_object (skip_ws s2 false) with
             | Some (ODict d, r) => Some (d, r)
             | _ => None
             end);
  SOk (fst es, fst d, snd d).

(* ------------------------------------------------------------------------------------ *)
(* 7.5.8 cross-reference streams                                                        *)
(* ------------------------------------------------------------------------------------ *)
Definition as_nat_obj (o : obj) : option N :=
  match o with OInt z => if (z <? 0)%Z then None else Some (Z.to_N z) | _ => None end.

Fixpoint all_nats (l : list obj) : option (list N) :=
  match l with
  | [] => Some []
  | o :: l' =>
    match as_nat_obj o, all_nats l' with
    | Some n, Some r => Some (n :: r)
    | _, _ => None
    end
  end.

Fixpoint pairs_of (l : list N) : option (list (N * N)) :=
  match l with
  | [] => Some []
  | a :: b :: l' => match pairs_of l' with Some r => Some ((a, b) :: r) | None => None end
  | _ => None
  end.

Fixpoint be_val (k : nat) (s : bytes) (acc : N) : option (N * bytes) :=
  match k with
  | O => Some (acc, s)
  | S k' =>
    match s with
    | c :: s' => be_val k' s' (acc * 256 + nb c)
    | [] => None
    end
  end.

Definition p_xs_entry (w1 w2 w3 : nat) (s : bytes) : option (option xent * bytes) :=
  odo t <- be_val w1 s 0;
  odo a <- be_val w2 (snd t) 0;
  odo b <- be_val w3 (snd a) 0;
  let ty := match w1 with O => 1 | _ => fst t end in
  if ty =? 0 then Some (Some (XFree (fst a) (fst b)), snd b)
  else if ty =? 1 then Some (Some (XUse (fst a) (fst b)), snd b)
  else Some (None, snd b).       (* type 2 (compressed) and unknown types: reported by the caller *)

Fixpoint p_xs_entries (w1 w2 w3 : nat) (k : nat) (id : N) (s : bytes) : sres (list (N * xent) * bytes) :=
  match k with
  | O => SOk ([], s)
  | S k' =>
    match p_xs_entry w1 w2 w3 s with
    | Some (Some e, r) =>
      sdo rest <- p_xs_entries w1 w2 w3 k' (id + 1) r;
      SOk ((id, e) :: fst rest, snd rest)
    | Some (None, _) => SErr R_xstream_entry id
    | None => SErr R_xstream_Length id
    end
  end.

Fixpoint p_xs_sections (w1 w2 w3 : nat) (idx : list (N * N)) (s : bytes) : sres (list (N * xent)) :=
  match idx with
  | [] => match s with [] => SOk [] | _ => SErr R_xstream_Length 0 end
  | (first, cnt) :: idx' =>
    sdo es <- p_xs_entries w1 w2 w3 (N.to_nat cnt) first s;
    sdo rest <- p_xs_sections w1 w2 w3 idx' (snd es);
    SOk (fst es ++ rest)
  end.

Definition sum_counts (idx : list (N * N)) : N := fold_right (fun p a => snd p + a) 0 idx.

Definition decode_xstream (x : N) (d : dict) (data : bytes) : sres (list (N * xent)) :=
  match dict_get d N_Type with
  | Some (OName t) =>
    if negb (bytes_eqb t N_XRef) then SErr R_xstream_dict x
    else
      match dict_get d N_Filter with
      | Some _ => SErr R_xstream_filter x
      | None =>
        sdo size <- of_opt R_size x (obnd (dict_get d N_Size) as_nat_obj);
        sdo w <- of_opt R_xstream_W x
                  (match dict_get d N_W with
                   | Some (OArr [a; b; c]) =>
                     match as_nat_obj a, as_nat_obj b, as_nat_obj c with
                     | Some a, Some b, Some c =>
                       if (a <=? 8) && (b <=? 8) && (c <=? 8) then Some (a, b, c) else None
                     | _, _, _ => None
                     end
                   | _ => None
                   end);
        let '(w1, w2, w3) := w in
        sdo idx <- of_opt R_xstream_Index x
                    (match dict_get d N_Index with
                     | None => Some [(0, size)]
                     | Some (OArr l) => obnd (all_nats l) pairs_of
                     | Some _ => None
                     end);
        if negb (lenN data =? sum_counts idx * (w1 + w2 + w3)) then SErr R_xstream_Length x
        else p_xs_sections (N.to_nat w1) (N.to_nat w2) (N.to_nat w3) idx data
      end
  | _ => SErr R_xstream_dict x
  end.

(* ------------------------------------------------------------------------------------ *)
(* 7.5.2 header, 7.5.5 trailer end, 7.5.6 revisions                                     *)
(* ------------------------------------------------------------------------------------ *)
Definition not_eol (b : byte) : bool := negb (is_eol b).
Definition is_high (b : byte) : bool := 128 <=? nb b.

Definition version_ok (v : bytes) : bool :=
  let '(a, r) := span is_digit v in
  match a, r with
  | _ :: _, dot :: r' =>
    byte_eqb dot x2e && match span is_digit r' with (_ :: _, []) => true | _ => false end
  | _, _ => false
  end.

(* "%PDF-M.m" EOL, a comment line with at least four bytes >= 128, then comment / white-space
   filler up to the first object.  Returns the version and the rest. *)
Definition p_header (s : bytes) : sres (bytes * bytes) :=
  sdo s1 <- of_opt R_header 0 (strip KW_pdf s);
  let '(v, s2) := span not_eol s1 in
  if negb (version_ok v) then SErr R_header 5
  else
    sdo s3 <- of_opt R_header 5 (p_eol s2);
    match s3 with
    | c :: s4 =>
      if byte_eqb c x25 then
        let '(m, s5) := span not_eol s4 in
        if (4 <=? length (filter is_high m))%nat then
          sdo s6 <- of_opt R_binary_comment 0 (p_eol s5);
          SOk (v, skip_ws s6 false)
        else SErr R_binary_comment 0
      else SErr R_binary_comment 0
    | [] => SErr R_binary_comment 0
    end.

(* "startxref" ws digits ws "%%EOF": returns the number and the rest after the marker *)
Definition p_tail (s : bytes) : option (N * bytes) :=
  odo s1 <- strip KW_startxref s;
  odo s2 <- ws1 s1;
  odo v <- p_nat s2;
  odo s3 <- ws1 (snd v);
  odo s4 <- strip KW_eof s3;
  Some (fst v, s4).

(* the same structure found from the END of the file (7.5.5: the last line holds %%EOF, the two
   lines before it startxref and the offset): returns the number *)
Definition find_tail (file : bytes) : option N :=
  let r := rev_append file [] in      (* = rev file, computed in linear time *)
  let r1 :=
    match r with
    | c :: t =>
      if byte_eqb c x0a then
        match t with c2 :: t2 => if byte_eqb c2 x0d then t2 else t | [] => t end
      else if byte_eqb c x0d then t else r
    | [] => r
    end in
  odo r2 <- strip (rev KW_eof) r1;
  odo r3 <- ws1 r2;
  match span is_digit r3 with
  | ([], _) => None
  | (ds, r4) =>
    odo r5 <- ws1 r4;
    odo _ <- strip (rev KW_startxref) r5;
    Some (dec_val (rev ds))
  end.

(* one revision: cross-reference section at [x] *)
Record revision := {
  r_x : N;                          (* offset of the section *)
  r_stream : bool;                  (* cross-reference stream? *)
  r_entries : list (N * xent);
  r_trailer : dict;
  r_size : N;
  r_p : N;                          (* end of the section (table + trailer, or XRef stream object) *)
  r_q : N;                          (* end of the %%EOF marker that follows it *)
}.

Definition no_resolve (i g : N) : option N := None.

Definition at_off (file : bytes) (off : N) : bytes := drop (N.to_nat off) file.

Definition read_section (file : bytes) (len x : N) : sres revision :=
  if len <=? x then SErr R_startxref_target x
  else
    let s := at_off file x in
    sdo sec <-
      match strip KW_xref s with
      | Some _ =>
        sdo t <- p_xref_table x s;
        let '(es, d, r) := t in
        SOk (false, es, d, skip_sp r)
      | None =>
        sdo h <- of_opt R_startxref_target x (p_objhdr s);
        let '(id, gen, s1) := h in
        sdo b <- p_objbody no_resolve x s1;
        match b with
        | (OStream d data, r) =>
          sdo es <- decode_xstream x d data;
          SOk (true, es, d, r)
        | _ => SErr R_startxref_target x
        end
      end;
    let '(is_stream, es, d, r) := sec in
    sdo size <- of_opt R_size x (obnd (dict_get d N_Size) as_nat_obj);
    let p := len - lenN r in
    sdo t <- of_opt R_eof_marker p (p_tail r);
    if negb (fst t =? x) then SErr R_startxref_target p
    else
      SOk {| r_x := x; r_stream := is_stream; r_entries := es; r_trailer := d; r_size := size;
             r_p := p; r_q := len - lenN (snd t) |}.

(* the Prev chain, newest first; offsets must strictly decrease *)
Fixpoint read_chain (fuel : nat) (file : bytes) (len x : N) : sres (list revision) :=
  match fuel with
  | O => SErr R_fuel x
  | S f =>
    sdo r <- read_section file len x;
    match dict_get (r_trailer r) N_Prev with
    | None => SOk [r]
    | Some (OInt z) =>
      if ((0 <=? z) && (z <? Z.of_N x))%Z then
        sdo older <- read_chain f file len (Z.to_N z);
        SOk (r :: older)
      else SErr R_prev x
    | Some _ => SErr R_prev x
    end
  end.

(* ------------------------------------------------------------------------------------ *)
(* objects through the entries, spans, tiling                                           *)
(* ------------------------------------------------------------------------------------ *)
Fixpoint find_entry (es : list (N * xent)) (id : N) : option xent :=
  match es with
  | [] => None
  | (i, e) :: es' => if i =? id then Some e else find_entry es' id
  end.

(* newest revision that mentions [id] decides *)
Fixpoint lookup_rev (revs : list revision) (id : N) : option xent :=
  match revs with
  | [] => None
  | r :: revs' =>
    match find_entry (r_entries r) id with
    | Some e => Some e
    | None => lookup_rev revs' id
    end
  end.

(* an indirect Length: the integer object [i g] found through the merged table *)
Definition resolve_len (file : bytes) (revs : list revision) (i g : N) : option N :=
  match lookup_rev revs i with
  | Some (XUse off gen) =>
    if gen =? g then
      match p_objhdr (at_off file off) with
      | Some (i', g', s1) =>
        if (i' =? i) && (g' =? g) then
          match p_objbody no_resolve i s1 with
          | SOk (o, _) => as_nat_obj o
          | SErr _ _ => None
          end
        else None
      | None => None
      end
    else None
  | _ => None
  end.

Record located := { l_id : N; l_gen : N; l_off : N; l_end : N; l_obj : obj }.

(* the object an in-use entry points at: "id gen obj" with the SAME id and gen must start at
   exactly that offset *)
Definition read_at (file : bytes) (len : N) (revs : list revision) (id off gen : N) : sres located :=
  if 65535 <? gen then SErr R_generation id
  else if len <=? off then SErr R_entry_offset id
  else
    match p_objhdr (at_off file off) with
    | Some (i', g', s1) =>
      if (i' =? id) && (g' =? gen) then
        sdo b <- p_objbody (resolve_len file revs) id s1;
        SOk {| l_id := id; l_gen := gen; l_off := off; l_end := len - lenN (snd b); l_obj := fst b |}
      else SErr R_entry_offset id
    | None => SErr R_entry_offset id
    end.

Fixpoint read_entries (file : bytes) (len : N) (revs : list revision) (es : list (N * xent))
  : sres (list located) :=
  match es with
  | [] => SOk []
  | (id, XFree _ _) :: es' => read_entries file len revs es'
  | (id, XUse off gen) :: es' =>
    sdo l <- read_at file len revs id off gen;
    sdo rest <- read_entries file len revs es';
    SOk (l :: rest)
  end.

(* entry numbers: below Size, and no number twice within one section *)
Fixpoint ids_below (size : N) (es : list (N * xent)) : option N :=
  match es with
  | [] => None
  | (id, _) :: es' => if id <? size then ids_below size es' else Some id
  end.
Fixpoint first_dup (es : list (N * xent)) : option N :=
  match es with
  | [] => None
  | (id, _) :: es' =>
    match find_entry es' id with Some _ => Some id | None => first_dup es' end
  end.

(* spans *)
Definition spanT := (N * N)%type.
Fixpoint ins_span (a : spanT) (l : list spanT) : list spanT :=
  match l with
  | [] => [a]
  | b :: l' => if fst a <=? fst b then a :: l else b :: ins_span a l'
  end.
Definition sort_spans (l : list spanT) : list spanT := fold_right ins_span [] l.

(* the sorted spans must cover [cur, len) exactly; an identical span listed twice (one object
   named by the tables of two revisions) counts once; empty spans are ignored *)
Fixpoint tiles (cur : N) (prev : spanT) (l : list spanT) : sres N :=
  match l with
  | [] => SOk cur
  | (a, b) :: l' =>
    if a =? b then tiles cur prev l'
    else if b <? a then SErr R_overlap a
    else if (a =? fst prev) && (b =? snd prev) then tiles cur prev l'
    else if a =? cur then tiles b (a, b) l'
    else if cur <? a then SErr R_gap cur
    else SErr R_overlap a
  end.

Record sdoc := {
  s_version : bytes;
  s_objects : objmap;        (* sorted by id; the newest revision decides per object number *)
  s_trailer : dict;          (* of the newest revision *)
  s_revisions : N;
  s_stream : bool;           (* newest section is a cross-reference stream *)
  s_spans : list spanT;      (* the sorted tiling *)
  s_revs : list revision;    (* the cross-reference sections, newest first *)
  s_located : list (list located);   (* per section: the object each in-use entry points at *)
  s_startxref : N;           (* the number found at the end of the file *)
}.

(* filler opening each revision (oldest first): comment / white space after the previous marker *)
Fixpoint filler_spans (file : bytes) (len : N) (start : N) (revs_oldest_first : list revision) : list spanT :=
  match revs_oldest_first with
  | [] => []
  | r :: rest =>
    let s := at_off file start in
    (start, len - lenN (skip_ws s false)) :: filler_spans file len (r_q r) rest
  end.

Fixpoint check_revs (newest_size : N) (revs : list revision) : sres unit :=
  match revs with
  | [] => SOk tt
  | r :: rest =>
    match ids_below (r_size r) (r_entries r) with
    | Some id => SErr R_size id
    | None =>
      match ids_below newest_size (r_entries r) with
      | Some id => SErr R_size id
      | None =>
        match first_dup (r_entries r) with
        | Some id => SErr R_dup_entry id
        | None => check_revs newest_size rest
        end
      end
    end
  end.

Fixpoint read_all (file : bytes) (len : N) (all : list revision) (revs : list revision)
  : sres (list (list located)) :=
  match revs with
  | [] => SOk []
  | r :: rest =>
    sdo ls <- read_entries file len all (r_entries r);
    sdo more <- read_all file len all rest;
    SOk (ls :: more)
  end.

Definition is_xref_off (revs : list revision) (off : N) : bool :=
  existsb (fun r => r_stream r && (r_x r =? off)) revs.

(* final objects: walk the revisions newest first; the first revision mentioning a number wins *)
Fixpoint merge_objects (revs : list revision) (locs : list (list located)) (seen : list N) (acc : objmap)
  : objmap :=
  match revs, locs with
  | r :: revs', ls :: locs' =>
    let fresh := filter (fun l => negb (existsb (N.eqb (l_id l)) seen)) ls in
    let acc' := fold_left (fun m l => insert m (l_id l, l_gen l) (l_obj l)) fresh acc in
    merge_objects revs' locs' (map fst (r_entries r) ++ seen) acc'
  | _, _ => acc
  end.

Definition strict_load (file : bytes) : sres sdoc :=
  let len := lenN file in
  sdo h <- p_header file;
  let '(ver, after_header) := h in
  sdo x <- of_opt R_eof_marker len (find_tail file);
  sdo revs <- read_chain (S (length file)) file len x;       (* newest first *)
  match revs with
  | [] => SErr R_fuel 0
  | newest :: _ =>
    (* the newest marker ends the file, up to one EOL *)
    let last := at_off file (r_q newest) in
    if negb (match last with [] => true | _ => match p_eol last with Some [] => true | _ => false end end)
    then SErr R_eof_marker (r_q newest)
    else
      sdo _ <- check_revs (r_size newest) revs;
      sdo locs <- read_all file len revs revs;
      let oldest_first := rev revs in
      let e0 := len - lenN after_header in
      let fillers :=
        match oldest_first with
        | [] => []
        | r0 :: rest => (0, e0) :: filler_spans file len (r_q r0) rest
        end in
      let spans :=
        fillers
        ++ flat_map (fun r => [(r_x r, r_p r); (r_p r, r_q r)]) revs
        ++ map (fun l => (l_off l, l_end l)) (concat locs)
        ++ [(r_q newest, len)] in
      let sorted := sort_spans spans in
      sdo fin <- tiles 0 (0, 0) sorted;
      if negb (fin =? len) then SErr R_gap fin
      else
        let objs :=
          merge_objects revs
            (map (filter (fun l => negb (is_xref_off revs (l_off l)))) locs) [] [] in
        SOk {| s_version := ver; s_objects := objs; s_trailer := r_trailer newest;
               s_revisions := N.of_nat (length revs); s_stream := r_stream newest;
               s_spans := sorted; s_revs := revs; s_located := locs; s_startxref := x |}
  end.
