(* IsoConcrete.v -- the primitives ISO 32000 names, instantiated for running the specification:
   MD5 (RFC 1321), SHA-256/384/512 (FIPS 180-4), AES (FIPS 197), RC4, all executable Gallina written
   from the public standards (Model/Crypto/{MD5,SHA2,AES,RC4}.v, each anchored there by the published
   vectors).  Their correctness is NOT proved: it rests on the vectors (there and below) and on the
   differential runs of every check against the md-5, sha2, aes crates and lopdf's own rc4.rs.
   Below: more published vectors, in particular for the pieces Iso.v builds on top of the block
   functions (CBC chaining as NIST SP 800-38A F.2 prints it, RC4 for the key lengths PDF uses). *)
From LV Require Import Base.Bytes Model.Crypto.Word Model.Crypto.MD5 Model.Crypto.SHA2 Model.Crypto.AES
  Model.Crypto.RC4 Spec.Crypto.Iso.

(* RC4 is defined for keys of 1..256 bytes; PDF keys have 5..16 bytes *)
Definition rc4_total (key data : bytes) : bytes :=
  match rc4 key data with Some c => c | None => data end.

Definition iconcrete : iprims :=
  {| i_MD5 := md5; i_SHA256 := sha256; i_SHA384 := sha384; i_SHA512 := sha512;
     i_RC4 := rc4_total; i_AES_E := aes_encrypt_block; i_AES_D := aes_decrypt_block |}.

(* RFC 6229, key stream at offset 0 for the 40-, 56-, 64- and 128-bit keys 0x0102030405... *)
Example rfc6229_40 : rc4_total (hex "0102030405") (zeros 16) = hex "b2396305f03dc027ccc3524a0a1118a8".
Proof. vm_compute. reflexivity. Qed.
Example rfc6229_56 : rc4_total (hex "01020304050607") (zeros 16) = hex "293f02d47f37c9b633f2af5285feb46b".
Proof. vm_compute. reflexivity. Qed.
Example rfc6229_64 : rc4_total (hex "0102030405060708") (zeros 16) = hex "97ab8a1bf0afb96132f2f67258da15a8".
Proof. vm_compute. reflexivity. Qed.
Example rfc6229_128 : rc4_total (hex "0102030405060708090a0b0c0d0e0f10") (zeros 16) = hex "9ac7cc9a609d1ef7b2932899cde41b97".
Proof. vm_compute. reflexivity. Qed.

(* NIST SP 800-38A F.2.1 / F.2.2 (CBC-AES128) and F.2.5 / F.2.6 (CBC-AES256) *)
Definition sp800_38a_plain : bytes :=
  hex "6bc1bee22e409f96e93d7e117393172aae2d8a571e03ac9c9eb76fac45af8e5130c81c46a35ce411e5fbc1191a0a52eff69f2445df4f9b17ad2b417be66c3710".
Definition sp800_38a_iv : bytes := hex "000102030405060708090a0b0c0d0e0f".
Definition sp800_38a_cbc128 : bytes :=
  hex "7649abac8119b246cee98e9b12e9197d5086cb9b507219ee95db113a917678b273bed6b8e3c1743b7116e69e222295163ff1caa1681fac09120eca307586e1a7".
Definition sp800_38a_cbc256 : bytes :=
  hex "f58c4c04d6e5f1ba779eabfb5f7bfbd69cfc4e967edb808d679f777bc6702c7d39f23369a9d9bacfa530e26304231461b2eb05e2c39be9fcda6c19078c6a9d1b".

Example cbc_aes128_encrypt :
  aes_cbc_nopad_e iconcrete (hex "2b7e151628aed2a6abf7158809cf4f3c") sp800_38a_iv sp800_38a_plain = sp800_38a_cbc128.
Proof. vm_compute. reflexivity. Qed.
Example cbc_aes128_decrypt :
  aes_cbc_nopad_d iconcrete (hex "2b7e151628aed2a6abf7158809cf4f3c") sp800_38a_iv sp800_38a_cbc128 = sp800_38a_plain.
Proof. vm_compute. reflexivity. Qed.
Example cbc_aes256_encrypt :
  aes_cbc_nopad_e iconcrete (hex "603deb1015ca71be2b73aef0857d77811f352c073b6108d72d9810a30914dff4") sp800_38a_iv sp800_38a_plain
  = sp800_38a_cbc256.
Proof. vm_compute. reflexivity. Qed.
Example cbc_aes256_decrypt :
  aes_cbc_nopad_d iconcrete (hex "603deb1015ca71be2b73aef0857d77811f352c073b6108d72d9810a30914dff4") sp800_38a_iv sp800_38a_cbc256
  = sp800_38a_plain.
Proof. vm_compute. reflexivity. Qed.

(* the padding rule on the two boundary cases the standard spells out: M mod 16 = 0 gives a whole block of 16 *)
Example pad_full_block : pad_rfc2898 (zeros 16) = zeros 16 ++ repeat x10 16.
Proof. vm_compute. reflexivity. Qed.
Example pad_one : pad_rfc2898 (zeros 15) = zeros 15 ++ [x01].
Proof. vm_compute. reflexivity. Qed.
Example unpad_pad : unpad_rfc2898 (pad_rfc2898 (bs "abc")) = Some (bs "abc").
Proof. vm_compute. reflexivity. Qed.

(* Table 22: all permissions granted is the familiar P = -4 with bits 1-2 cleared: -4 = 0xFFFFFFFC *)
Example P_all : P_of_flags 3900 = (-4)%Z.
Proof. vm_compute. reflexivity. Qed.
Example P_none : P_of_flags 0 = (-3904)%Z.
Proof. vm_compute. reflexivity. Qed.
Example P_conforming : conforming_P (-3904) = true /\ conforming_P (-4) = true /\ conforming_P (-1) = false
                       /\ conforming_P 4294963392 = false.
Proof. vm_compute. repeat split; reflexivity. Qed.
