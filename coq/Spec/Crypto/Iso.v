(* Iso.v -- the standard security handler as ISO 32000 specifies it: ISO 32000-1:2008 7.6 and
   ISO 32000-2:2020 7.6 (Algorithms 1, 1.A, 2, 2.A, 2.B, 3-13, crypt filters, and the rule saying
   what is encrypted), transcribed in the standard's own formulation.  Revision 5 is the Adobe
   Supplement to ISO 32000 (ExtensionLevel 3): Algorithms 2.A, 8-13 with the plain SHA-256 in the
   place of Algorithm 2.B.

   This file is the INDEPENDENT implementation property C06 asks for.  It is written from the
   standard, not from lopdf: it imports the PDF object data type (Model/Obj.v) and byte helpers
   (Model/Crypto/Word.v: xor of bytes), and NOTHING of the handler model (Model/Crypto/Handler.v,
   PKCS5.v).  The cryptographic primitives the standard names -- MD5, SHA-256/384/512, RC4, the AES
   block function -- are a parameter [iprims]; Run/RunC06.v instantiates them with the Gallina
   implementations anchored by the published vectors (Model/Crypto/{MD5,SHA2,AES,RC4}.v).
   All constants (the padding string, 50, 19/20, "sAlT", 127, 64, 32, the reserved permission bits)
   are written here from the standard and are compared with the ones the translator reads out of the
   Rust source by the proofs (Proofs/IsoProofs.v).

   Passwords are the byte strings AFTER the preparation step (PDFDocEncoding for R <= 4, SASLprep +
   UTF-8 for R >= 5): the preparation is an oracle outside this development.
   Definitions only. *)
From LV Require Import Base.Bytes Model.Obj Model.Crypto.Word.
Local Open Scope N_scope.

Record iprims := {
  i_MD5 : bytes -> bytes;
  i_SHA256 : bytes -> bytes;
  i_SHA384 : bytes -> bytes;
  i_SHA512 : bytes -> bytes;
  i_RC4 : bytes -> bytes -> bytes;          (* key, data *)
  i_AES_E : bytes -> bytes -> bytes;        (* key of 16 or 32 bytes, 16-byte block *)
  i_AES_D : bytes -> bytes -> bytes;
}.

(* ---------- names of the dictionary keys and values the standard uses ---------- *)
Definition iK_Encrypt := Eval cbv in bs "Encrypt".
Definition iK_ID := Eval cbv in bs "ID".
Definition iK_Filter := Eval cbv in bs "Filter".
Definition iK_V := Eval cbv in bs "V".
Definition iK_R := Eval cbv in bs "R".
Definition iK_Length := Eval cbv in bs "Length".
Definition iK_O := Eval cbv in bs "O".
Definition iK_U := Eval cbv in bs "U".
Definition iK_OE := Eval cbv in bs "OE".
Definition iK_UE := Eval cbv in bs "UE".
Definition iK_P := Eval cbv in bs "P".
Definition iK_Perms := Eval cbv in bs "Perms".
Definition iK_EncryptMetadata := Eval cbv in bs "EncryptMetadata".
Definition iK_CF := Eval cbv in bs "CF".
Definition iK_StmF := Eval cbv in bs "StmF".
Definition iK_StrF := Eval cbv in bs "StrF".
Definition iK_EFF := Eval cbv in bs "EFF".
Definition iK_CFM := Eval cbv in bs "CFM".
Definition iK_AuthEvent := Eval cbv in bs "AuthEvent".
Definition iK_Type := Eval cbv in bs "Type".
Definition iK_Name := Eval cbv in bs "Name".
Definition iK_DecodeParms := Eval cbv in bs "DecodeParms".
Definition iN_Standard := Eval cbv in bs "Standard".
Definition iN_Identity := Eval cbv in bs "Identity".
Definition iN_None := Eval cbv in bs "None".
Definition iN_V2 := Eval cbv in bs "V2".
Definition iN_AESV2 := Eval cbv in bs "AESV2".
Definition iN_AESV3 := Eval cbv in bs "AESV3".
Definition iN_CryptFilter := Eval cbv in bs "CryptFilter".
Definition iN_DocOpen := Eval cbv in bs "DocOpen".
Definition iN_Crypt := Eval cbv in bs "Crypt".
Definition iN_XRef := Eval cbv in bs "XRef".
Definition iN_Metadata := Eval cbv in bs "Metadata".
Definition iN_EmbeddedFile := Eval cbv in bs "EmbeddedFile".

(* ---------- 7.6.4.3.2 (32000-1: 7.6.3.3) Algorithm 2, step (a): the padding string ---------- *)
(* < 28 BF 4E 5E 4E 75 8A 41 64 00 4E 56 FF FA 01 08 2E 2E 00 B6 D0 68 3E 80 2F 0C A9 FE 64 53 69 7A > *)
Definition padding_string : bytes :=
  [x28; xbf; x4e; x5e; x4e; x75; x8a; x41; x64; x00; x4e; x56; xff; xfa; x01; x08;
   x2e; x2e; x00; xb6; xd0; x68; x3e; x80; x2f; x0c; xa9; xfe; x64; x53; x69; x7a].

(* "Pad or truncate the password string to exactly 32 bytes.  If the password string is more than 32
   bytes long, use only its first 32 bytes; if it is less than 32 bytes long, pad it by appending the
   required number of additional bytes from the beginning of the padding string." *)
Definition pad32 (pw : bytes) : bytes := firstn 32 (pw ++ padding_string).

(* "low-order byte first" *)
Fixpoint le_bytes (n : nat) (x : N) : bytes :=
  match n with O => [] | S k => byte_of_N (x mod 256) :: le_bytes k (x / 256) end.

(* "an unsigned big-endian integer" *)
Definition be_value (l : bytes) : N := fold_left (fun acc b => acc * 256 + N_of_byte b) l 0.

(* Table 22: "the value of the P entry shall be interpreted as an unsigned 32-bit quantity"; Algorithm 2
   (d): "convert the integer value of the P entry to a 32-bit unsigned binary number" *)
Definition P_u32 (p : Z) : N := Z.to_N (p mod 4294967296)%Z.

(* Table 22, user access permissions: bits 3-6 and 9-12 (numbered from 1) carry permissions; bits 1-2
   are reserved and shall be 0; bits 7-8 and 13-32 are reserved and shall be 1.  The P entry is written
   as a (32-bit two's complement) integer: negative because bit 32 is 1. *)
Definition perm_bits_mask : N := 3900.                 (* 0x00000F3C: bits 3,4,5,6,9,10,11,12 *)
Definition perm_reserved_ones : N := 4294963392.       (* 0xFFFFF0C0: bits 7,8,13..32 *)
Definition perm_reserved_mask : N := 4294963395.       (* 0xFFFFF0C3: bits 1,2,7,8,13..32 *)
Definition conforming_P (p : Z) : bool :=
  (-2147483648 <=? p)%Z && (p <? 2147483648)%Z &&
  (N.land (P_u32 p) perm_reserved_mask =? perm_reserved_ones).
Definition P_of_flags (flags : N) : Z :=
  (Z.of_N (N.lor (N.land flags perm_bits_mask) perm_reserved_ones) - 4294967296)%Z.

(* the key length in bytes: "n shall always be 5 for security handlers of revision 2 but, for security
   handlers of revision 3 or greater, shall depend on the value of the encryption dictionary's Length
   entry" (Length is in bits, a multiple of 8) *)
Definition key_bytes (R : Z) (Length : N) : nat :=
  if (R =? 2)%Z then 5%nat else N.to_nat (Length / 8).

(* "an XOR (exclusive or) operation between that byte and the single-byte value of the iteration counter" *)
Definition xor_with (key : bytes) (i : N) : bytes :=
  map (fun b => byte_of_N (N.lxor (N_of_byte b) i)) key.

Definition sixteen (l : bytes) : bytes := firstn 16 (l ++ repeat x00 16).

(* ---------- block chaining (NIST SP 800-38A 6.2) over a byte string whose length is a multiple of 16:
   C_1 = CIPH(P_1 xor IV), C_j = CIPH(P_j xor C_{j-1});  P_1 = CIPH^-1(C_1) xor IV, P_j = CIPH^-1(C_j) xor C_{j-1} *)
Fixpoint cbc_e (blocks : nat) (CIPH : bytes -> bytes) (prev data : bytes) : bytes :=
  match blocks with
  | O => []
  | S k => let c := CIPH (xor_bytes (firstn 16 data) prev) in c ++ cbc_e k CIPH c (skipn 16 data)
  end.
Fixpoint cbc_d (blocks : nat) (CIPHINV : bytes -> bytes) (prev data : bytes) : bytes :=
  match blocks with
  | O => []
  | S k => let c := firstn 16 data in xor_bytes (CIPHINV c) prev ++ cbc_d k CIPHINV c (skipn 16 data)
  end.

(* 7.6.3.1 (32000-1: 7.6.2): "For an original message length of M, the pad shall consist of
   16 - (M mod 16) bytes whose value shall also be 16 - (M mod 16)." *)
Definition pad_rfc2898 (m : bytes) : bytes :=
  let k := Nat.sub 16 (Nat.modulo (length m) 16) in m ++ repeat (byte_of_N (N.of_nat k)) k.
(* removing it: the last byte says how many bytes to drop; a pad that does not have the shape above
   means the data was not produced by a conforming writer with this key *)
Definition unpad_rfc2898 (p : bytes) : option bytes :=
  let k := N.to_nat (N_of_byte (last p x00)) in
  if Nat.eqb k 0 || Nat.ltb 16 k || Nat.ltb (length p) k then None
  else
    let body := firstn (Nat.sub (length p) k) p in
    if bytes_eqb (skipn (Nat.sub (length p) k) p) (repeat (last p x00) k) then Some body else None.

Section ISO.
Variable I : iprims.

Definition zero_iv : bytes := repeat x00 16.

(* AES in CBC mode without padding (Algorithms 2.A, 2.B, 8, 9) *)
Definition aes_cbc_nopad_e (key iv data : bytes) : bytes :=
  cbc_e (Nat.div (length data) 16) (i_AES_E I key) iv data.
Definition aes_cbc_nopad_d (key iv data : bytes) : bytes :=
  cbc_d (Nat.div (length data) 16) (i_AES_D I key) iv data.

(* Algorithm 1 / 1.A, the AES case: "CBC mode with a 16-byte block size and an initialization vector
   that shall be randomly generated and placed as the first 16 bytes in the stream or string", padded
   as above *)
Definition aes_data_encrypt (key iv data : bytes) : bytes :=
  let iv := sixteen iv in
  let p := pad_rfc2898 data in
  iv ++ cbc_e (Nat.div (length p) 16) (i_AES_E I key) iv p.
Definition aes_data_decrypt (key data : bytes) : option bytes :=
  if Nat.ltb (length data) 32 || negb (Nat.eqb (Nat.modulo (length data) 16) 0) then None
  else
    let iv := firstn 16 data in
    let c := skipn 16 data in
    unpad_rfc2898 (cbc_d (Nat.div (length c) 16) (i_AES_D I key) iv c).

(* ---------- Algorithm 2: computing a file encryption key (revision 4 and earlier) ---------- *)
Definition alg2 (R : Z) (Length : N) (O : bytes) (P : Z) (id0 : bytes) (em : bool) (pw : bytes) : bytes :=
  let n := key_bytes R Length in
  (* (a)-(g) *)
  let h0 := i_MD5 I (pad32 pw ++ O ++ le_bytes 4 (P_u32 P) ++ id0
                     ++ (if (4 <=? R)%Z && negb em then [xff; xff; xff; xff] else [])) in
  (* (h) "do the following 50 times: take the output from the previous MD5 hash and pass the first n
     bytes of the output as input into a new MD5 hash" *)
  let h := if (3 <=? R)%Z then Nat.iter 50 (fun h => i_MD5 I (firstn n h)) h0 else h0 in
  (* (i) *)
  firstn n h.

(* ---------- Algorithm 3: the O value (revision 4 and earlier) ---------- *)
(* steps (a)-(d), shared with Algorithm 7 (a) *)
Definition alg3_key (R : Z) (Length : N) (opw : bytes) : bytes :=
  let h0 := i_MD5 I (pad32 opw) in
  let h := if (3 <=? R)%Z then Nat.iter 50 (i_MD5 I) h0 else h0 in
  firstn (key_bytes R Length) h.

Definition rc4_rounds (key : bytes) (counters : list N) (data : bytes) : bytes :=
  fold_left (fun c i => i_RC4 I (xor_with key i) c) counters data.

Definition counters_1_to_19 : list N := map N.of_nat (seq 1 19).
Definition counters_19_to_0 : list N := rev (map N.of_nat (seq 0 20)).

(* (a) "If there is no owner password, use the user password instead." *)
Definition alg3 (R : Z) (Length : N) (owner : option bytes) (user : bytes) : bytes :=
  let key := alg3_key R Length (match owner with Some o => o | None => user end) in
  let c := i_RC4 I key (pad32 user) in
  if (3 <=? R)%Z then rc4_rounds key counters_1_to_19 c else c.

(* ---------- Algorithm 4 (revision 2) and Algorithm 5 (revisions 3, 4): the U value ---------- *)
Definition alg4 (Length : N) (O : bytes) (P : Z) (id0 : bytes) (em : bool) (user : bytes) : bytes :=
  i_RC4 I (alg2 2 Length O P id0 em user) padding_string.

(* steps (a)-(e): the 16 significant bytes *)
Definition alg5_16 (R : Z) (Length : N) (O : bytes) (P : Z) (id0 : bytes) (em : bool) (user : bytes) : bytes :=
  let k := alg2 R Length O P id0 em user in
  rc4_rounds k counters_1_to_19 (i_RC4 I k (i_MD5 I (padding_string ++ id0))).
(* (f) "Append 16 bytes of arbitrary padding" *)
Definition alg5 (R : Z) (Length : N) (O : bytes) (P : Z) (id0 : bytes) (em : bool) (user arbitrary : bytes) : bytes :=
  alg5_16 R Length O P id0 em user ++ sixteen arbitrary.

(* ---------- Algorithm 6: authenticating the user password; [Some key] = authenticated ---------- *)
Definition alg6 (R : Z) (Length : N) (O U : bytes) (P : Z) (id0 : bytes) (em : bool) (pw : bytes) : option bytes :=
  let ok := if (R =? 2)%Z then bytes_eqb (alg4 Length O P id0 em pw) U
            else bytes_eqb (alg5_16 R Length O P id0 em pw) (firstn 16 U) in
  if ok then Some (alg2 R Length O P id0 em pw) else None.

(* ---------- Algorithm 7: authenticating the owner password ---------- *)
(* (a), (b): "(Security handlers of revision 2 only) Decrypt the value of the encryption dictionary's O
   entry, using an RC4 encryption function with the encryption key computed in step (a).  (Revision 3 or
   greater) Do the following 20 times: decrypt the value of the O entry (first iteration) or the output
   from the previous iteration (all subsequent iterations), using an RC4 encryption function with a
   different encryption key at each iteration.  The key shall be generated by taking the original key and
   performing an XOR between each byte of the key and the single-byte value of the iteration counter
   (from 19 to 0)." *)
Definition alg7_user (R : Z) (Length : N) (O : bytes) (pw : bytes) : bytes :=
  let key := alg3_key R Length pw in
  if (R =? 2)%Z then i_RC4 I key O else rc4_rounds key counters_19_to_0 O.
(* (c): "The result of step (b) purports to be the user password.  Authenticate this user password using
   Algorithm 6." *)
Definition alg7 (R : Z) (Length : N) (O U : bytes) (P : Z) (id0 : bytes) (em : bool) (pw : bytes) : option bytes :=
  alg6 R Length O U P id0 em (alg7_user R Length O pw).

(* ---------- Algorithm 2.B: computing a hash (revision 6) ---------- *)
(* steps (a)-(d) of one round: the new K and the E of this round *)
Definition alg2B_round (pw udata K : bytes) : bytes * bytes :=
  let K1 := concat (repeat (pw ++ K ++ udata) 64) in
  let E := aes_cbc_nopad_e (firstn 16 K) (firstn 16 (skipn 16 K)) K1 in
  let K' := match be_value (firstn 16 E) mod 3 with
            | 0 => i_SHA256 I E
            | 1 => i_SHA384 I E
            | _ => i_SHA512 I E
            end in
  (K', E).

(* "Following 64 rounds (round number 0 to round number 63), do the following, starting with round number
   64: (e) Look at the very last byte of E.  If the value of that byte (taken as an unsigned integer) is
   greater than the round number - 32, repeat steps (a-d) again.  (f) Repeat from steps (a-e) until the
   value of the last byte is <= (round number) - 32."
   The last byte is at most 255, so the loop ends at round number 287 at the latest: [fuel] = 256 is never
   exhausted (IsoProofs.alg2B_extra_fuel). *)
Fixpoint alg2B_extra (fuel : nat) (pw udata : bytes) (round_number : N) (KE : bytes * bytes) : bytes :=
  match fuel with
  | O => fst KE
  | S f =>
    if round_number - 32 <? N_of_byte (last (snd KE) x00)
    then alg2B_extra f pw udata (round_number + 1) (alg2B_round pw udata (fst KE))
    else fst KE
  end.

(* [udata] is the 48-byte U string "when checking the owner password or creating the owner key", else empty *)
Definition alg2B (pw salt udata : bytes) : bytes :=
  let K := i_SHA256 I (pw ++ salt ++ udata) in
  let KE := Nat.iter 64 (fun KE => alg2B_round pw udata (fst KE)) (K, []) in
  firstn 32 (alg2B_extra 256 pw udata 64 KE).

(* revision 5 (Adobe Supplement, ExtensionLevel 3): the SHA-256 of the same input *)
Definition hash_r56 (R : Z) (pw salt udata : bytes) : bytes :=
  if (R =? 5)%Z then i_SHA256 I (pw ++ salt ++ udata) else alg2B pw salt udata.

(* Algorithm 2.A (b): "Truncate the UTF-8 representation to 127 bytes if it is longer than 127 bytes." *)
Definition trunc127 (pw : bytes) : bytes := firstn 127 pw.

Definition sub (l : bytes) (from len : nat) : bytes := firstn len (skipn from l).

(* ---------- Algorithm 8: U and UE (revision 6); [rnd]: 16 random bytes ---------- *)
Definition alg8 (R : Z) (fek pw0 rnd : bytes) : bytes * bytes :=
  let pw := trunc127 pw0 in
  let rnd := sixteen rnd in
  let vsalt := firstn 8 rnd in
  let ksalt := skipn 8 rnd in
  (hash_r56 R pw vsalt [] ++ vsalt ++ ksalt,
   aes_cbc_nopad_e (hash_r56 R pw ksalt []) zero_iv fek).

(* ---------- Algorithm 9: O and OE (revision 6); [U]: the 48-byte U string of Algorithm 8 ---------- *)
Definition alg9 (R : Z) (fek pw0 U rnd : bytes) : bytes * bytes :=
  let pw := trunc127 pw0 in
  let rnd := sixteen rnd in
  let vsalt := firstn 8 rnd in
  let ksalt := skipn 8 rnd in
  (hash_r56 R pw vsalt U ++ vsalt ++ ksalt,
   aes_cbc_nopad_e (hash_r56 R pw ksalt U) zero_iv fek).

(* ---------- Algorithm 10: Perms; [rnd]: 4 random bytes ---------- *)
Definition perms_block (P : Z) (em : bool) (rnd : bytes) : bytes :=
  (* (a) "Extend the permissions (contents of the P integer) to 64 bits by setting the upper 32 bits to
     all 1's."  (b) low order byte first *)
  le_bytes 8 (P_u32 P + 4294967295 * 4294967296)
  (* (c) *) ++ [if em then "T"%byte else "F"%byte]
  (* (d) *) ++ [x61; x64; x62]
  (* (e) *) ++ firstn 4 (rnd ++ repeat x00 4).
(* (f) "Encrypt the 16-byte block using AES-256 in ECB mode with an initialization vector of zero, using
   the file encryption key as the key." *)
Definition alg10 (P : Z) (em : bool) (fek rnd : bytes) : bytes := i_AES_E I fek (perms_block P em rnd).

(* ---------- Algorithms 11 and 12: authenticating the user / owner password (revision 6) ---------- *)
Definition alg11 (R : Z) (U pw0 : bytes) : bool :=
  bytes_eqb (hash_r56 R (trunc127 pw0) (sub U 32 8) []) (firstn 32 U).
Definition alg12 (R : Z) (O U pw0 : bytes) : bool :=
  bytes_eqb (hash_r56 R (trunc127 pw0) (sub O 32 8) U) (firstn 32 O).

(* ---------- Algorithm 13: validating the permissions ---------- *)
Definition alg13 (P : Z) (fek Perms : bytes) : bool :=
  let b := i_AES_D I fek Perms in
  bytes_eqb (sub b 9 3) [x61; x64; x62] && bytes_eqb (firstn 4 b) (le_bytes 4 (P_u32 P)).

(* ---------- Algorithm 2.A: retrieving the file encryption key (revision 6) ---------- *)
Definition alg2A (R : Z) (O U OE UE Perms : bytes) (P : Z) (pw0 : bytes) : option bytes :=
  let pw := trunc127 pw0 in
  let fek :=
    (* (c), (d) *)
    if alg12 R O U pw0 then Some (aes_cbc_nopad_d (hash_r56 R pw (sub O 40 8) U) zero_iv OE)
    (* (e), Algorithm 11 *)
    else if alg11 R U pw0 then Some (aes_cbc_nopad_d (hash_r56 R pw (sub U 40 8) []) zero_iv UE)
    else None in
  (* (f) *)
  match fek with
  | Some k => if alg13 P k Perms then Some k else None
  | None => None
  end.

(* ====================================================================================================
   The encryption dictionary (Tables 20, 21, 25) and crypt filters (7.6.6)
   ==================================================================================================== *)
Inductive icfm := ICF_None | ICF_V2 | ICF_AESV2 | ICF_AESV3.

Record iparams := {
  ip_V : Z;
  ip_R : Z;
  ip_Length : N;                       (* bits; default 40 *)
  ip_O : bytes; ip_U : bytes; ip_OE : bytes; ip_UE : bytes; ip_Perms : bytes;
  ip_P : Z;
  ip_EncryptMetadata : bool;           (* default true *)
  ip_CF : list (bytes * icfm);         (* crypt filter name -> CFM (default None) *)
  ip_StmF : bytes;                     (* default Identity *)
  ip_StrF : bytes;                     (* default Identity *)
  ip_EFF : option bytes;               (* default: the value of StmF *)
}.

Inductive imethod := M_Identity | M_RC4 | M_AESV2 | M_AESV3.

Definition method_of_cfm (c : icfm) : imethod :=
  match c with ICF_None => M_Identity | ICF_V2 => M_RC4 | ICF_AESV2 => M_AESV2 | ICF_AESV3 => M_AESV3 end.

Fixpoint cf_lookup (cf : list (bytes * icfm)) (name : bytes) : option icfm :=
  match cf with
  | [] => None
  | (n, c) :: r => if bytes_eqb n name then Some c else cf_lookup r name
  end.

(* 7.6.6, Table 26: "Identity" is the predefined crypt filter that passes the data through unchanged; it
   "shall not" be redefined in CF.  A name that CF does not define has no meaning in a conforming file
   (here: no transformation); the theorems assume the names are defined. *)
Definition resolve (ip : iparams) (name : bytes) : imethod :=
  if bytes_eqb name iN_Identity then M_Identity
  else match cf_lookup (ip_CF ip) name with Some c => method_of_cfm c | None => M_Identity end.

(* strings: V < 4: RC4 (Algorithm 1); V = 4, 5: the crypt filter StrF *)
Definition string_method (ip : iparams) : imethod :=
  if (ip_V ip <? 4)%Z then M_RC4 else resolve ip (ip_StrF ip).

Definition name_in (n : bytes) (l : list obj) : bool :=
  existsb (fun o => match o with OName m => bytes_eqb m n | _ => false end) l.
Fixpoint index_of_name (n : bytes) (l : list obj) : option nat :=
  match l with
  | [] => None
  | OName m :: r => if bytes_eqb m n then Some 0%nat else option_map S (index_of_name n r)
  | _ :: r => option_map S (index_of_name n r)
  end.

(* 7.4.10 Crypt filter: the stream names the crypt filter in the decode parameters belonging to its Crypt
   entry of Filter; "Name ... Default value: Identity".  [None]: the stream has no Crypt filter. *)
Definition crypt_filter_name (sd : dict) : option bytes :=
  let name_of (dp : option obj) : bytes :=
    match dp with
    | Some (ODict p) => match dict_get p iK_Name with Some (OName n) => n | _ => iN_Identity end
    | _ => iN_Identity
    end in
  match dict_get sd iK_Filter with
  | Some (OName f) => if bytes_eqb f iN_Crypt then Some (name_of (dict_get sd iK_DecodeParms)) else None
  | Some (OArr fs) =>
    match index_of_name iN_Crypt fs with
    | Some k =>
      Some (match dict_get sd iK_DecodeParms with
            | Some (OArr ps) => name_of (nth_error ps k)
            | other => name_of other
            end)
    | None => None
    end
  | _ => None
  end.

Definition dict_type_is (d : dict) (t : bytes) : bool :=
  match dict_get d iK_Type with Some (OName n) => bytes_eqb n t | _ => false end.

(* streams: V < 4: RC4; else the stream's own Crypt filter, else EFF for embedded file streams, else StmF *)
Definition stream_method (ip : iparams) (sd : dict) : imethod :=
  if (ip_V ip <? 4)%Z then M_RC4
  else match crypt_filter_name sd with
       | Some n => resolve ip n
       | None =>
         match ip_EFF ip with
         | Some eff => if dict_type_is sd iN_EmbeddedFile then resolve ip eff else resolve ip (ip_StmF ip)
         | None => resolve ip (ip_StmF ip)
         end
       end.

(* ---------- Algorithm 1 and Algorithm 1.A: encryption of data ---------- *)
(* Algorithm 1 (b)-(d): "extend the original n-byte file encryption key to n + 5 bytes by appending the
   low-order 3 bytes of the object number and the low-order 2 bytes of the generation number in that order,
   low-order byte first.  If using the AES algorithm, extend the file encryption key an additional 4 bytes
   by adding the value 'sAlT' ... Use the first (n + 5) bytes, up to a maximum of 16, of the output from
   the MD5 hash as the key" *)
Definition alg1_key (aes : bool) (fek : bytes) (id : oid) : bytes :=
  firstn (Nat.min (length fek + 5) 16)
    (i_MD5 I (fek ++ le_bytes 3 (fst id) ++ le_bytes 2 (snd id) ++ (if aes then [x73; x41; x6c; x54] else []))).

Definition data_encrypt (m : imethod) (fek : bytes) (id : oid) (iv data : bytes) : bytes :=
  match m with
  | M_Identity => data
  | M_RC4 => i_RC4 I (alg1_key false fek id) data
  | M_AESV2 => aes_data_encrypt (alg1_key true fek id) iv data
  | M_AESV3 => aes_data_encrypt fek iv data                      (* Algorithm 1.A *)
  end.
Definition data_decrypt (m : imethod) (fek : bytes) (id : oid) (data : bytes) : option bytes :=
  match m with
  | M_Identity => Some data
  | M_RC4 => Some (i_RC4 I (alg1_key false fek id) data)
  | M_AESV2 => aes_data_decrypt (alg1_key true fek id) data
  | M_AESV3 => aes_data_decrypt fek data
  end.
Definition uses_iv (m : imethod) : bool := match m with M_AESV2 | M_AESV3 => true | _ => false end.

(* ====================================================================================================
   7.6.2 What is encrypted: "Encryption applies to all strings and streams in the document's PDF file,
   with the following exceptions: the values for the ID entry in the trailer; any strings in an Encrypt
   dictionary; any strings that are inside streams such as content streams and compressed object streams,
   which themselves are encrypted" ... "the cross-reference stream shall not be encrypted and strings
   appearing in the cross-reference stream dictionary shall not be encrypted"; with EncryptMetadata false
   the document-level metadata stream is left as it is.  A string is encrypted with the key of the
   indirect object that contains it -- including a string in the dictionary of a stream.
   ==================================================================================================== *)
Definition exempt (ip : iparams) (o : obj) : bool :=
  match o with
  | OStream sd _ => dict_type_is sd iN_XRef || (dict_type_is sd iN_Metadata && negb (ip_EncryptMetadata ip))
  | _ => false
  end.

Definition next_iv (ivs : list bytes) : bytes * list bytes :=
  match ivs with [] => ([], []) | iv :: r => (iv, r) end.

Definition set_length (sd : dict) (n : nat) : dict := dict_set sd iK_Length (OInt (Z.of_nat n)).

(* strings of a direct object (no stream can occur inside a direct object) *)
Fixpoint encrypt_strings (ip : iparams) (fek : bytes) (id : oid) (o : obj) (ivs : list bytes) : obj * list bytes :=
  match o with
  | OStr s h =>
    let m := string_method ip in
    if uses_iv m then let '(iv, ivs') := next_iv ivs in (OStr (data_encrypt m fek id iv s) h, ivs')
    else (OStr (data_encrypt m fek id [] s) h, ivs)
  | OArr l =>
    let r := (fix go (l : list obj) (ivs : list bytes) : list obj * list bytes :=
                match l with
                | [] => ([], ivs)
                | x :: l' => let r1 := encrypt_strings ip fek id x ivs in
                             let r2 := go l' (snd r1) in (fst r1 :: fst r2, snd r2)
                end) l ivs in
    (OArr (fst r), snd r)
  | ODict d =>
    let r := (fix go (d : dict) (ivs : list bytes) : dict * list bytes :=
                match d with
                | [] => ([], ivs)
                | (k, x) :: d' => let r1 := encrypt_strings ip fek id x ivs in
                                  let r2 := go d' (snd r1) in ((k, fst r1) :: fst r2, snd r2)
                end) d ivs in
    (ODict (fst r), snd r)
  | _ => (o, ivs)
  end.

Definition encrypt_dict_strings (ip : iparams) (fek : bytes) (id : oid) (d : dict) (ivs : list bytes) : dict * list bytes :=
  match encrypt_strings ip fek id (ODict d) ivs with
  | (ODict d', ivs') => (d', ivs')
  | (_, ivs') => (d, ivs')
  end.

(* one indirect object *)
Definition encrypt_indirect (ip : iparams) (fek : bytes) (id : oid) (o : obj) (ivs : list bytes) : obj * list bytes :=
  if exempt ip o then (o, ivs)
  else match o with
       | OStream sd c =>
         let '(sd', ivs1) := encrypt_dict_strings ip fek id sd ivs in
         let m := stream_method ip sd in
         let '(iv, ivs2) := if uses_iv m then next_iv ivs1 else ([], ivs1) in
         let c' := data_encrypt m fek id iv c in
         (OStream (set_length sd' (length c')) c', ivs2)
       | _ => encrypt_strings ip fek id o ivs
       end.

Fixpoint decrypt_strings (ip : iparams) (fek : bytes) (id : oid) (o : obj) : option obj :=
  match o with
  | OStr s h => option_map (fun p => OStr p h) (data_decrypt (string_method ip) fek id s)
  | OArr l =>
    option_map OArr ((fix go (l : list obj) : option (list obj) :=
                        match l with
                        | [] => Some []
                        | x :: l' => match decrypt_strings ip fek id x, go l' with
                                     | Some x', Some r => Some (x' :: r) | _, _ => None end
                        end) l)
  | ODict d =>
    option_map ODict ((fix go (d : dict) : option dict :=
                         match d with
                         | [] => Some []
                         | (k, x) :: d' => match decrypt_strings ip fek id x, go d' with
                                           | Some x', Some r => Some ((k, x') :: r) | _, _ => None end
                         end) d)
  | _ => Some o
  end.

Definition decrypt_indirect (ip : iparams) (fek : bytes) (id : oid) (o : obj) : option obj :=
  if exempt ip o then Some o
  else match o with
       | OStream sd c =>
         match decrypt_strings ip fek id (ODict sd), data_decrypt (stream_method ip sd) fek id c with
         | Some (ODict sd'), Some c' => Some (OStream (set_length sd' (length c')) c')
         | _, _ => None
         end
       | _ => decrypt_strings ip fek id o
       end.

(* the initialization vectors an encrypted object carries, in the order [encrypt_indirect] draws them
   (for replaying another writer's random choices) *)
Fixpoint ivs_of_strings (ip : iparams) (o : obj) : list bytes :=
  match o with
  | OStr s _ => if uses_iv (string_method ip) then [firstn 16 s] else []
  | OArr l => flat_map (ivs_of_strings ip) l
  | ODict d => flat_map (fun kv => ivs_of_strings ip (snd kv)) d
  | _ => []
  end.
Definition ivs_of_indirect (ip : iparams) (o : obj) : list bytes :=
  if exempt ip o then []
  else match o with
       | OStream sd c => ivs_of_strings ip (ODict sd) ++ (if uses_iv (stream_method ip sd) then [firstn 16 c] else [])
       | _ => ivs_of_strings ip o
       end.

(* ====================================================================================================
   Writing and reading the encryption dictionary
   ==================================================================================================== *)
Definition cfm_name (c : icfm) : bytes :=
  match c with ICF_None => iN_None | ICF_V2 => iN_V2 | ICF_AESV2 => iN_AESV2 | ICF_AESV3 => iN_AESV3 end.

Definition cf_length (c : icfm) : Z :=   (* Table 25 Length, in bytes *)
  match c with ICF_AESV3 => 32%Z | _ => 16%Z end.

Definition write_cf (cf : list (bytes * icfm)) : dict :=
  map (fun nc => (fst nc, ODict [(iK_Type, OName iN_CryptFilter); (iK_CFM, OName (cfm_name (snd nc)));
                                  (iK_AuthEvent, OName iN_DocOpen); (iK_Length, OInt (cf_length (snd nc)))])) cf.

Definition write_params (ip : iparams) : dict :=
  [(iK_Filter, OName iN_Standard); (iK_V, OInt (ip_V ip)); (iK_R, OInt (ip_R ip))]
  ++ (if (ip_V ip =? 1)%Z || (ip_V ip =? 5)%Z then [] else [(iK_Length, OInt (Z.of_N (ip_Length ip)))])
  ++ [(iK_O, OStr (ip_O ip) true); (iK_U, OStr (ip_U ip) true); (iK_P, OInt (ip_P ip))]
  ++ (if (4 <=? ip_V ip)%Z
      then [(iK_CF, ODict (write_cf (ip_CF ip))); (iK_StmF, OName (ip_StmF ip)); (iK_StrF, OName (ip_StrF ip))]
           ++ (match ip_EFF ip with Some e => [(iK_EFF, OName e)] | None => [] end)
           ++ (if ip_EncryptMetadata ip then [] else [(iK_EncryptMetadata, OBool false)])
      else [])
  ++ (if (5 <=? ip_R ip)%Z
      then [(iK_OE, OStr (ip_OE ip) true); (iK_UE, OStr (ip_UE ip) true); (iK_Perms, OStr (ip_Perms ip) true)]
      else []).

Definition read_cfm (f : dict) : option icfm :=
  match dict_get f iK_CFM with
  | None => Some ICF_None
  | Some (OName n) =>
    if bytes_eqb n iN_None then Some ICF_None
    else if bytes_eqb n iN_V2 then Some ICF_V2
    else if bytes_eqb n iN_AESV2 then Some ICF_AESV2
    else if bytes_eqb n iN_AESV3 then Some ICF_AESV3
    else None
  | Some _ => None
  end.

Fixpoint read_cf (cf : dict) : option (list (bytes * icfm)) :=
  match cf with
  | [] => Some []
  | (n, ODict f) :: r =>
    match read_cfm f, read_cf r with Some c, Some l => Some ((n, c) :: l) | _, _ => None end
  | _ => None
  end.

Definition str_or_empty (o : option obj) : bytes := match o with Some (OStr s _) => s | _ => [] end.
Definition name_or (o : option obj) (dflt : bytes) : bytes := match o with Some (OName n) => n | _ => dflt end.

(* Tables 20 and 21 with their default values; [None]: not a dictionary of the standard security handler *)
Definition read_params (e : dict) : option iparams :=
  match dict_get e iK_Filter, dict_get e iK_V, dict_get e iK_R, dict_get e iK_O, dict_get e iK_U, dict_get e iK_P with
  | Some (OName f), Some (OInt v), Some (OInt r), Some (OStr o _), Some (OStr u _), Some (OInt p) =>
    if negb (bytes_eqb f iN_Standard) then None
    else
      match (match dict_get e iK_CF with
             | None => Some []
             | Some (ODict cf) => if (4 <=? v)%Z then read_cf cf else Some []
             | Some _ => None
             end) with
      | None => None
      | Some cf =>
        Some {| ip_V := v; ip_R := r;
                ip_Length := (if (v =? 5)%Z then 256
                              else match dict_get e iK_Length with Some (OInt l) => Z.to_N l | _ => 40 end);
                ip_O := o; ip_U := u;
                ip_OE := str_or_empty (dict_get e iK_OE); ip_UE := str_or_empty (dict_get e iK_UE);
                ip_Perms := str_or_empty (dict_get e iK_Perms);
                ip_P := p;
                ip_EncryptMetadata := (match dict_get e iK_EncryptMetadata with Some (OBool b) => b | _ => true end);
                ip_CF := cf;
                ip_StmF := name_or (dict_get e iK_StmF) iN_Identity;
                ip_StrF := name_or (dict_get e iK_StrF) iN_Identity;
                ip_EFF := (match dict_get e iK_EFF with Some (OName n) => Some n | _ => None end) |}
      end
  | _, _, _, _, _, _ => None
  end.

(* ====================================================================================================
   Producing an encrypted document
   ==================================================================================================== *)
(* what the user of a conforming writer chooses *)
Record irequest := {
  rq_V : Z; rq_R : Z; rq_Length : N;
  rq_EncryptMetadata : bool;
  rq_CF : list (bytes * icfm); rq_StmF : bytes; rq_StrF : bytes; rq_EFF : option bytes;
  rq_owner : option bytes;           (* None: no owner password *)
  rq_user : bytes;
  rq_P : Z;
  rq_fek : bytes;                    (* R >= 5: the 32 random bytes chosen as file encryption key *)
}.

(* first element of the file identifier array of the trailer *)
Definition file_id0 (trailer : dict) : bytes :=
  match dict_get trailer iK_ID with Some (OArr (OStr s _ :: _)) => s | _ => [] end.

Definition draw (rnd : list bytes) (k : nat) : bytes := nth k rnd [].

(* the encryption dictionary values and the file encryption key; [rnd]: the writer's random choices
   (R <= 4: [U padding]; R >= 5: [U salts; O salts; Perms filler]) *)
Definition make_params (rq : irequest) (id0 : bytes) (rnd : list bytes) : iparams * bytes :=
  let R := rq_R rq in
  if (R <=? 4)%Z then
    let O := alg3 R (rq_Length rq) (rq_owner rq) (rq_user rq) in
    let em := rq_EncryptMetadata rq in
    let U := if (R =? 2)%Z then alg4 (rq_Length rq) O (rq_P rq) id0 em (rq_user rq)
             else alg5 R (rq_Length rq) O (rq_P rq) id0 em (rq_user rq) (draw rnd 0) in
    ({| ip_V := rq_V rq; ip_R := R; ip_Length := rq_Length rq; ip_O := O; ip_U := U; ip_OE := []; ip_UE := [];
        ip_Perms := []; ip_P := rq_P rq; ip_EncryptMetadata := em; ip_CF := rq_CF rq; ip_StmF := rq_StmF rq;
        ip_StrF := rq_StrF rq; ip_EFF := rq_EFF rq |},
     alg2 R (rq_Length rq) O (rq_P rq) id0 em (rq_user rq))
  else
    let fek := rq_fek rq in
    (* Algorithm 9 has no counterpart of Algorithm 3 (a): without an owner password the owner password is the
       empty string *)
    let '(Uv, UE) := alg8 R fek (rq_user rq) (draw rnd 0) in
    let '(Ov, OE) := alg9 R fek (match rq_owner rq with Some o => o | None => [] end) Uv (draw rnd 1) in
    ({| ip_V := rq_V rq; ip_R := R; ip_Length := rq_Length rq; ip_O := Ov; ip_U := Uv; ip_OE := OE; ip_UE := UE;
        ip_Perms := alg10 (rq_P rq) (rq_EncryptMetadata rq) fek (draw rnd 2); ip_P := rq_P rq;
        ip_EncryptMetadata := rq_EncryptMetadata rq; ip_CF := rq_CF rq; ip_StmF := rq_StmF rq;
        ip_StrF := rq_StrF rq; ip_EFF := rq_EFF rq |},
     fek).

Fixpoint encrypt_objects (ip : iparams) (fek : bytes) (m : objmap) (ivs : list bytes) : objmap * list bytes :=
  match m with
  | [] => ([], ivs)
  | (id, o) :: m' =>
    let r1 := encrypt_indirect ip fek id o ivs in
    let r2 := encrypt_objects ip fek m' (snd r1) in
    ((id, fst r1) :: fst r2, snd r2)
  end.

(* the encrypted document: every indirect object encrypted; the encryption dictionary is the value of the
   trailer's Encrypt entry, either directly ([eid] = None) or as the indirect object [eid] (any unused object
   number) *)
Definition encrypt_document (rq : irequest) (eid : option oid) (rnd ivs : list bytes) (d : doc) : doc :=
  let '(ip, fek) := make_params rq (file_id0 (d_trailer d)) rnd in
  let objs := fst (encrypt_objects ip fek (d_objects d) ivs) in
  match eid with
  | Some eid =>
    {| d_version := d_version d; d_binary_mark := d_binary_mark d;
       d_trailer := dict_set (d_trailer d) iK_Encrypt (ORef (fst eid) (snd eid));
       d_objects := insert objs eid (ODict (write_params ip));
       d_max_id := N.max (d_max_id d) (fst eid) |}
  | None =>
    {| d_version := d_version d; d_binary_mark := d_binary_mark d;
       d_trailer := dict_set (d_trailer d) iK_Encrypt (ODict (write_params ip));
       d_objects := objs;
       d_max_id := d_max_id d |}
  end.

(* ====================================================================================================
   Opening an encrypted document
   ==================================================================================================== *)
(* the encryption dictionary: the trailer's Encrypt entry, a dictionary or a reference to one *)
Definition find_encrypt (d : doc) : option (option oid * dict) :=
  match dict_get (d_trailer d) iK_Encrypt with
  | Some (ORef i g) => match lookup (d_objects d) (i, g) with Some (ODict e) => Some (Some (i, g), e) | _ => None end
  | Some (ODict e) => Some (None, e)
  | _ => None
  end.

(* 7.6.4.4 / 7.6.4.3: the file encryption key for a supplied password: as user password (Algorithm 6 /
   Algorithm 2.A user branch), else as owner password (Algorithm 7 / owner branch) *)
Definition open_key (ip : iparams) (id0 pw : bytes) : option bytes :=
  let R := ip_R ip in
  if (R <=? 4)%Z then
    match alg6 R (ip_Length ip) (ip_O ip) (ip_U ip) (ip_P ip) id0 (ip_EncryptMetadata ip) pw with
    | Some k => Some k
    | None => alg7 R (ip_Length ip) (ip_O ip) (ip_U ip) (ip_P ip) id0 (ip_EncryptMetadata ip) pw
    end
  else alg2A R (ip_O ip) (ip_U ip) (ip_OE ip) (ip_UE ip) (ip_Perms ip) (ip_P ip) pw.

Fixpoint decrypt_objects (ip : iparams) (fek : bytes) (skip : option oid) (m : objmap) : option objmap :=
  match m with
  | [] => Some []
  | (id, o) :: m' =>
    let o' := if (match skip with Some s => oid_eqb s id | None => false end) then Some o
              else decrypt_indirect ip fek id o in
    match o', decrypt_objects ip fek skip m' with
    | Some o', Some r => Some ((id, o') :: r)
    | _, _ => None
    end
  end.

Inductive opened := Opened (d : doc) (fek : bytes) | WrongPassword | NotStandard | Damaged.

(* the plaintext document: every object decrypted, the encryption dictionary and the Encrypt entry gone *)
Definition open_document (d : doc) (pw : bytes) : opened :=
  match find_encrypt d with
  | None => NotStandard
  | Some (eid, e) =>
    match read_params e with
    | None => NotStandard
    | Some ip =>
      match open_key ip (file_id0 (d_trailer d)) pw with
      | None => WrongPassword
      | Some fek =>
        match decrypt_objects ip fek eid (d_objects d) with
        | None => Damaged
        | Some objs =>
          Opened {| d_version := d_version d; d_binary_mark := d_binary_mark d;
                    d_trailer := dict_remove_plain (d_trailer d) iK_Encrypt;
                    d_objects := (match eid with Some i => remove objs i | None => objs end);
                    d_max_id := d_max_id d |} fek
        end
      end
    end
  end.

End ISO.
