(* RefWriter.v -- a reference PDF producer: ref_write : fstyle -> adoc -> option bytes.
   Written from ISO 32000-1 7.2 (lexical conventions), 7.3 (objects), 7.5 (file structure); it shares with the
   models only Base and the object data type Model/Obj.v.  The [style] is a tree of the choices the standard
   leaves to a producer; every style yields a legal file (an illegal local choice falls back to a legal one, an
   illegal global structure -- sections that do not cover the objects, members of object streams that cannot
   be compressed -- yields None).

   Choices: white-space and comments between tokens (7.2.2, 7.2.3: NUL HT LF FF CR SP; a comment runs to the
   next end-of-line marker); names (7.3.5: any byte may be written #xx, hex digits in either case); literal
   strings (7.3.4.2: balanced parentheses raw; \n \r \t \b \f \( \) \\; \ddd with one to three octal digits;
   a backslash before any other character is ignored; backslash end-of-line continues the line; a raw
   end-of-line marker CR, LF or CR LF denotes LF); hexadecimal strings (7.3.4.3: white-space ignored, either
   case, a missing final digit is 0); numbers (7.3.3: sign, leading zeros, 5. and .5); indirect objects and
   streams (7.3.8: "stream" followed by CR LF or LF; an end-of-line marker before "endstream" not counted in
   Length; Length direct or indirect -- that choice lives in the abstract document); object order and what
   lies between objects; cross-reference table with any subsections and entry end-of-lines (7.5.4) or
   cross-reference stream with any W and Index (7.5.8), optionally filtered; object streams (7.5.7); bytes
   before the header (Annex H, implementation note 13: offsets count from the "%PDF-"). *)
From LV Require Import Base.Bytes Base.Sx Model.Obj.
From LV Require Spec.A85Spec Spec.PngSpec.
From LV Require Import Spec.XrefSpec Spec.ZlibStoredSpec.

Local Open Scope N_scope.

(* ---------- abstract documents ---------- *)
Record adoc := { a_version : bytes; a_trailer : dict; a_objs : list (oid * obj) }.

(* ---------- 7.2.2 character classes ---------- *)
Definition ws_table : bytes := [x20; x0a; x0d; x09; x0c; x00].
Definition delim_table : bytes := [x28; x29; x3c; x3e; x5b; x5d; x7b; x7d; x2f; x25].
Definition is_ws (b : byte) : bool := byte_in b ws_table.
Definition is_delim (b : byte) : bool := byte_in b delim_table.
Definition is_reg (b : byte) : bool := negb (is_ws b) && negb (is_delim b).
Definition is_eol_byte (b : byte) : bool := byte_eqb b x0d || byte_eqb b x0a.

(* ---------- fillers: what may stand between two tokens ---------- *)
Inductive fill1 :=
| FWs (k : N)                          (* the k-th white-space character (mod 6) *)
| FComment (text : bytes) (e : eolk).  (* % text end-of-line; end-of-line bytes are dropped from text *)
Definition filler := list fill1.

Definition ws_byte (k : N) : byte := nth (N.to_nat (k mod 6)) ws_table x20.
Definition fill1_bytes (f : fill1) : bytes :=
  match f with
  | FWs k => [ws_byte k]
  | FComment t e => x25 :: filter (fun b => negb (is_eol_byte b)) t ++ eol_bytes e
  end.
Definition fill_bytes (f : filler) : bytes := flat_map fill1_bytes f.
Definition ws_bytes (l : list N) : bytes := map ws_byte l.

(* two tokens made of regular characters need a separator; so does the empty name "/" before a regular
   character, which would otherwise become part of the name *)
Definition sep_bytes (left : bytes) (f : filler) (right : bytes) : bytes :=
  match fill_bytes f with
  | [] => if (is_reg (last left x20) || byte_eqb (last left x20) x2f) && is_reg (hd x20 right) then [x20] else []
  | fb => fb
  end.

(* tokens, each with the filler that follows it *)
Fixpoint join (toks : list (bytes * filler)) : bytes :=
  match toks with
  | [] => []
  | (t, f) :: rest =>
    match rest with
    | [] => t ++ fill_bytes f
    | (t2, _) :: _ => t ++ sep_bytes t f t2 ++ join rest
    end
  end.

(* ---------- styles of tokens ---------- *)
Inductive nch := NPlain | NHex (u1 u2 : bool).
Definition nstyle := list nch.

Inductive lch :=
| LRaw                 (* the byte itself (0x0A: a raw LF) *)
| LRawCR | LRawCRLF    (* 0x0A written as another end-of-line marker *)
| LShort               (* two-character escape *)
| LOct (digits : nat)  (* octal escape with that many digits, more when needed *)
| LIgn.                (* ignored backslash in front of the byte *)
Record lpos := { l_cont : list eolk; l_ch : lch }.   (* line continuations before the byte, then the byte *)

Record hpos := { h_ws1 : list N; h_u1 : bool; h_ws2 : list N; h_u2 : bool }.

Inductive sstyle :=
| SLit (l : list lpos) (tail_cont : list eolk)
| SHex (l : list hpos) (tail_ws : list N) (drop_last : bool).

Record rstyle := { r_plus : bool; r_lz : nat; r_tz : nat; r_drop0 : bool }.

Inductive ostyle :=
| YDefault
| YInt (plus : bool) (zeros : nat)
| YReal (r : rstyle)
| YName (n : nstyle)
| YStr (s : sstyle)
| YRef (z1 z2 : nat) (f1 f2 : filler)
| YArr (f0 : filler) (items : list (ostyle * filler))
| YDict (f0 : filler) (entries : list (nstyle * filler * ostyle * filler)).

(* ---------- names ---------- *)
Definition hexd (upper : bool) (d : N) : byte :=
  if d <? 10 then byte_of_N (48 + d) else byte_of_N ((if upper then 55 else 87) + d).
Definition name_must_escape (b : byte) : bool := negb (is_reg b) || byte_eqb b x23.
Definition w_name_byte (b : byte) (c : nch) : bytes :=
  let esc u1 u2 := [x23; hexd u1 (N_of_byte b / 16); hexd u2 (N_of_byte b mod 16)] in
  match c with
  | NHex u1 u2 => esc u1 u2
  | NPlain => if name_must_escape b then esc true true else [b]
  end.
Fixpoint w_name_body (n : bytes) (st : nstyle) : bytes :=
  match n with
  | [] => []
  | b :: n' =>
    match st with
    | [] => w_name_byte b NPlain ++ w_name_body n' []
    | c :: st' => w_name_byte b c ++ w_name_body n' st'
    end
  end.
Definition w_name (n : bytes) (st : nstyle) : bytes := x2f :: w_name_body n st.

(* ---------- numbers ---------- *)
Definition zeros (k : nat) : bytes := repeat x30 k.
Definition w_int (z : Z) (plus : bool) (lz : nat) : bytes :=
  match z with
  | Zneg p => x2d :: zeros lz ++ N_dec (Npos p)
  | _ => (if plus then [x2b] else []) ++ zeros lz ++ N_dec (Z.to_N z)
  end.

Definition is_digit_b (b : byte) : bool := (48 <=? N_of_byte b) && (N_of_byte b <=? 57).
Fixpoint span_digits (s : bytes) : bytes * bytes :=
  match s with
  | c :: t => if is_digit_b c then let '(a, r) := span_digits t in (c :: a, r) else ([], s)
  | [] => ([], [])
  end.
(* the canonical text of a real is [-]digits[.digits]; any other text is written as it is *)
Definition w_real (r : bytes) (y : rstyle) : bytes :=
  let '(neg, t) := match r with x2d :: t => (true, t) | _ => (false, r) end in
  let '(ip, rest) := span_digits t in
  let frac := match rest with
              | [] => Some []
              | x2e :: f => let '(fd, r') := span_digits f in
                            match fd, r' with _ :: _, [] => Some fd | _, _ => None end
              | _ => None
              end in
  match ip, frac with
  | _ :: _, Some fd =>
    let fr := fd ++ zeros (r_tz y) in
    let sign := if neg then [x2d] else if r_plus y then [x2b] else [] in
    let all_zero := forallb (fun b => byte_eqb b x30) ip in
    let ipart := match fr with
                 | _ :: _ => if r_drop0 y && all_zero then [] else zeros (r_lz y) ++ ip
                 | [] => zeros (r_lz y) ++ ip
                 end in
    sign ++ ipart ++ x2e :: fr
  | _, _ => r
  end.

Definition default_rstyle : rstyle := {| r_plus := false; r_lz := 0; r_tz := 0; r_drop0 := false |}.

(* ---------- literal strings ---------- *)
Definition oct_digit (d : N) : byte := byte_of_N (48 + d).
Definition is_oct_b (b : byte) : bool := (48 <=? N_of_byte b) && (N_of_byte b <=? 55).
Definition oct_escape (digits : nat) (b : byte) : bytes :=
  let v := N_of_byte b in
  let d3 := [oct_digit (v / 64); oct_digit ((v / 8) mod 8); oct_digit (v mod 8)] in
  x5c :: (match digits with
          | 1%nat => if v <? 8 then [oct_digit v] else if v <? 64 then [oct_digit (v / 8); oct_digit (v mod 8)] else d3
          | 2%nat => if v <? 64 then [oct_digit (v / 8); oct_digit (v mod 8)] else d3
          | _ => d3
          end).

Definition short_escape (b : byte) : option byte :=
  if byte_eqb b x0a then Some x6e else if byte_eqb b x0d then Some x72
  else if byte_eqb b x09 then Some x74 else if byte_eqb b x08 then Some x62
  else if byte_eqb b x0c then Some x66 else if byte_eqb b x28 then Some x28
  else if byte_eqb b x29 then Some x29 else if byte_eqb b x5c then Some x5c
  else None.

(* a backslash before [b] is ignored only when b is none of: n r t b f ( ) \ octal digit CR LF *)
Definition ign_ok (b : byte) : bool :=
  negb (byte_in b [x6e; x72; x74; x62; x66; x28; x29; x5c; x0d; x0a] || is_oct_b b).

Definition is_paren (b : byte) : bool := byte_eqb b x28 || byte_eqb b x29.

(* are the parentheses that the style leaves raw balanced?  [depth] = currently open *)
Fixpoint raw_parens_balanced (s : bytes) (st : list lpos) (depth : nat) : bool :=
  match s with
  | [] => Nat.eqb depth 0
  | b :: s' =>
    let '(c, st') := match st with [] => (LRaw, []) | p :: t => (l_ch p, t) end in   (* as w_lit_body: a byte without a style is raw *)
    match c with
    | LRaw =>
      if byte_eqb b x28 then raw_parens_balanced s' st' (S depth)
      else if byte_eqb b x29 then match depth with O => false | S d => raw_parens_balanced s' st' d end
      else raw_parens_balanced s' st' depth
    | _ => raw_parens_balanced s' st' depth
    end
  end.

(* one byte, given what follows it in the output *)
Definition w_lit_byte (parens_ok : bool) (b : byte) (c : lch) (next : bytes) : bytes :=
  let fallback := oct_escape 3 b in
  let next_is_lf := match next with x0a :: _ => true | _ => false end in
  let next_is_oct := match next with d :: _ => is_oct_b d | [] => false end in
  match c with
  | LRaw =>
    if byte_eqb b x5c || byte_eqb b x0d then fallback
    else if is_paren b then (if parens_ok then [b] else [x5c; b])
    else [b]
  | LRawCR => if byte_eqb b x0a && negb next_is_lf then [x0d] else fallback
  | LRawCRLF => if byte_eqb b x0a then [x0d; x0a] else fallback
  | LShort => match short_escape b with Some e => [x5c; e] | None => fallback end
  | LOct d => let e := oct_escape d b in
              if (length e <? 4)%nat && next_is_oct then fallback else e
  | LIgn => if ign_ok b then [x5c; b] else fallback
  end.

(* line continuations; a CR continuation must not be followed by a LF of the text *)
Fixpoint w_conts (cs : list eolk) (next : bytes) : bytes :=
  match cs with
  | [] => []
  | e :: cs' =>
    let rest := w_conts cs' next in
    let follow := rest ++ next in
    match e, follow with
    | ECR, x0a :: _ => rest
    | _, _ => x5c :: eol_bytes e ++ rest
    end
  end.

Fixpoint w_lit_body (parens_ok : bool) (s : bytes) (st : list lpos) (tail : bytes) : bytes :=
  match s with
  | [] => tail
  | b :: s' =>
    let '(p, st') := match st with [] => ({| l_cont := []; l_ch := LRaw |}, []) | p :: t => (p, t) end in
    let rest := w_lit_body parens_ok s' st' tail in
    let me := w_lit_byte parens_ok b (l_ch p) rest in
    w_conts (l_cont p) (me ++ rest) ++ me ++ rest
  end.

Definition w_literal (s : bytes) (st : list lpos) (tail_cont : list eolk) : bytes :=
  let ok := raw_parens_balanced s st 0 in
  x28 :: w_lit_body ok s st (w_conts tail_cont [x29] ++ [x29]).

(* the default literal spelling: raw where possible, unbalanced parentheses escaped *)
Definition default_lit (s : bytes) : list lpos := map (fun _ => {| l_cont := []; l_ch := LRaw |}) s.

(* ---------- hexadecimal strings ---------- *)
Definition default_hpos : hpos := {| h_ws1 := []; h_u1 := true; h_ws2 := []; h_u2 := true |}.
Fixpoint w_hex_body (s : bytes) (st : list hpos) (drop_last : bool) : bytes :=
  match s with
  | [] => []
  | b :: s' =>
    let '(p, st') := match st with [] => (default_hpos, []) | p :: t => (p, t) end in
    let hi := hexd (h_u1 p) (N_of_byte b / 16) in
    let lo := hexd (h_u2 p) (N_of_byte b mod 16) in
    match s' with
    | [] => if drop_last && (N_of_byte b mod 16 =? 0) then ws_bytes (h_ws1 p) ++ [hi]
            else ws_bytes (h_ws1 p) ++ hi :: ws_bytes (h_ws2 p) ++ [lo]
    | _ => ws_bytes (h_ws1 p) ++ hi :: ws_bytes (h_ws2 p) ++ lo :: w_hex_body s' st' drop_last
    end
  end.
Definition w_hexstr (s : bytes) (st : list hpos) (tail_ws : list N) (drop_last : bool) : bytes :=
  x3c :: w_hex_body s st drop_last ++ ws_bytes tail_ws ++ [x3e].

Definition w_string (s : bytes) (hex : bool) (y : ostyle) : bytes :=
  match y with
  | YStr (SLit l tc) => w_literal s l tc
  | YStr (SHex l tw dl) => w_hexstr s l tw dl
  | _ => if hex then w_hexstr s [] [] false else w_literal s (default_lit s) []
  end.

(* ---------- objects ---------- *)
Definition w_ref (i g : N) (y : ostyle) : bytes :=
  match y with
  | YRef z1 z2 f1 f2 => join [(zeros z1 ++ N_dec i, f1); (zeros z2 ++ N_dec g, f2); ([x52], [])]
  | _ => join [(N_dec i, []); (N_dec g, []); ([x52], [])]
  end.

Fixpoint w_obj (o : obj) (y : ostyle) {struct o} : bytes :=
  match o with
  | ONull => bs "null"
  | OBool true => bs "true"
  | OBool false => bs "false"
  | OInt z => match y with YInt p lz => w_int z p lz | _ => w_int z false 0 end
  | OReal r => match y with YReal ry => w_real r ry | _ => w_real r default_rstyle end
  | OName n => w_name n (match y with YName st => st | _ => [] end)
  | OStr s h => w_string s h y
  | ORef i g => w_ref i g y
  | OArr l =>
    let '(f0, sts) := match y with YArr f0 sts => (f0, sts) | _ => ([], []) end in
    join ((bs "[", f0) ::
          (fix go (l : list obj) (sts : list (ostyle * filler)) : list (bytes * filler) :=
             match l with
             | [] => [(bs "]", [])]
             | x :: l' =>
               let '(sy, f, sts') := match sts with [] => (YDefault, [], []) | (sy, f) :: t => (sy, f, t) end in
               (w_obj x sy, f) :: go l' sts'
             end) l sts)
  | ODict d | OStream d _ =>     (* a stream nested in an object is not legal; its dictionary is written *)
    let '(f0, sts) := match y with YDict f0 sts => (f0, sts) | _ => ([], []) end in
    join ((bs "<<", f0) ::
          (fix go (d : list (bytes * obj)) (sts : list (nstyle * filler * ostyle * filler)) : list (bytes * filler) :=
             match d with
             | [] => [(bs ">>", [])]
             | (k, v) :: d' =>
               let '(ks, fk, vs, fv, sts') :=
                 match sts with [] => ([], [], YDefault, [], []) | (ks, fk, vs, fv) :: t => (ks, fk, vs, fv, t) end in
               (w_name k ks, fk) :: (w_obj v vs, fv) :: go d' sts'
             end) d sts)
  end.

(* ---------- indirect objects ---------- *)
Record istyle := {
  i_f1 : filler; i_f2 : filler; i_f3 : filler; i_f4 : filler; i_gap : filler;
  i_obj : ostyle;
  i_fs : filler;            (* between the stream dictionary and "stream" *)
  i_crlf : bool;            (* "stream" CR LF instead of "stream" LF *)
  i_eeol : option eolk      (* end-of-line marker before "endstream" *)
}.
Definition default_istyle : istyle :=
  {| i_f1 := []; i_f2 := []; i_f3 := [FWs 1]; i_f4 := [FWs 1]; i_gap := [FWs 1]; i_obj := YDefault;
     i_fs := [FWs 1]; i_crlf := false; i_eeol := Some ELF |}.

Definition opt_eol (e : option eolk) : bytes := match e with Some e => eol_bytes e | None => [] end.

Definition w_indirect (id gen : N) (o : obj) (y : istyle) : bytes :=
  match o with
  | OStream d c =>
    join [(N_dec id, i_f1 y); (N_dec gen, i_f2 y); (bs "obj", i_f3 y); (w_obj (ODict d) (i_obj y), i_fs y);
          (bs "stream" ++ (if i_crlf y then [x0d; x0a] else [x0a]) ++ c ++ opt_eol (i_eeol y) ++ bs "endstream",
           i_f4 y);
          (bs "endobj", [])]
  | _ =>
    join [(N_dec id, i_f1 y); (N_dec gen, i_f2 y); (bs "obj", i_f3 y); (w_obj o (i_obj y), i_f4 y);
          (bs "endobj", [])]
  end.

(* what follows "endobj": at least an end-of-line *)
Definition gap_bytes (f : filler) : bytes := match fill_bytes f with [] => [x0a] | fb => fb end.

(* ---------- filters on structural streams ---------- *)
(* PNG predictors (7.4.4.4): Predictor 10..15 all mean "each row starts with its own PNG filter type"; the row
   types are the producer's choice PER ROW among None / Sub / Up / Average / Paeth.  A row holds Columns pixels of
   Colors components of BitsPerComponent bits; the filters work on bytes, at distance bpp = bytes per pixel. *)
Record pstyle := {
  p_pred : N;             (* Predictor 10 + p_pred mod 6 *)
  p_cols : N;             (* wanted pixels per row, where the data leaves a choice *)
  p_types : list N;       (* row types, consumed row by row, cyclic, mod 5 *)
  p_colors : N;           (* Colors 1 + p_colors mod 4 *)
  p_bpc16 : bool;         (* BitsPerComponent 16 instead of 8 *)
  p_explicit : bool       (* write Colors / BitsPerComponent although they have their default value *)
}.
Inductive sfilter :=
| SfNone
| SfA85
| SfFlate (blk : N) (pred : option pstyle)
| SfA85Flate (blk : N) (pred : option pstyle)
| SfAHx (upper : bool) (ws : list N).     (* ASCIIHexDecode, 7.4.2: two hex digits per byte, white-space ignored, '>' ends *)

Fixpoint ahx_encode (upper : bool) (ws all : list N) (data : bytes) : bytes :=
  match data with
  | [] => [x3e]
  | b :: data' =>
    let sep := match ws with k :: _ => if k mod 7 =? 0 then [ws_byte (k / 7)] else [] | [] => [] end in
    sep ++ hexd upper (N_of_byte b / 16) :: hexd upper (N_of_byte b mod 16) ::
    ahx_encode upper (match ws with _ :: t => t | [] => all end) all data'
  end.

Fixpoint chunks (fuel : nat) (n : nat) (data : bytes) : list bytes :=
  match fuel with
  | O => []
  | S f => match data with [] => [] | _ => firstn n data :: chunks f n (skipn n data) end
  end.
Fixpoint cyc_types (k : nat) (ts all : list N) : list N :=
  match k with
  | O => []
  | S k' => match ts with
            | [] => match all with [] => 0 :: cyc_types k' [] all | t :: ts' => (t mod 5) :: cyc_types k' ts' all end
            | t :: ts' => (t mod 5) :: cyc_types k' ts' all
            end
  end.

(* The geometry actually used.  [natural] is the row width the data has by itself (the entry width of a
   cross-reference stream), 0 when there is none (an object stream: the producer may choose any width and fill
   the last row with white-space, which is legal after the last object).
   Returns (bytes per pixel, bytes per row, Columns, Colors, BitsPerComponent). *)
Definition geometry (p : pstyle) (natural : nat) : nat * nat * nat * nat * nat :=
  let colors := S (N.to_nat (p_colors p mod 4)) in
  let bpc := if p_bpc16 p then 16%nat else 8%nat in
  let bpp := (colors * (bpc / 8))%nat in
  match natural with
  | O => let c := Nat.max 1 (N.to_nat (p_cols p)) in (bpp, (c * bpp)%nat, c, colors, bpc)
  | _ => if Nat.eqb (Nat.modulo natural bpp) 0 then (bpp, natural, Nat.div natural bpp, colors, bpc)
         else (1%nat, natural, natural, 1%nat, 8%nat)
  end.

Definition pad_to (row : nat) (data : bytes) : bytes :=
  data ++ repeat x20 (Nat.modulo (row - Nat.modulo (length data) row) row).

Definition predict (p : pstyle) (natural : N) (data : bytes) : bytes * list (bytes * obj) :=
  match data with
  | [] => (data, [])
  | _ =>
    let '(bpp, row, cols, colors, bpc) := geometry p (N.to_nat natural) in
    let data := match natural with 0 => pad_to row data | _ => data end in
    let rows := chunks (length data) row data in
    (PngSpec.encode_frame (cyc_types (length rows) (p_types p) (p_types p)) bpp row rows,
     [(bs "Predictor", OInt (Z.of_N (10 + p_pred p mod 6))); (bs "Columns", OInt (Z.of_nat cols))] ++
     (if p_explicit p || negb (Nat.eqb colors 1) then [(bs "Colors", OInt (Z.of_nat colors))] else []) ++
     (if p_explicit p || negb (Nat.eqb bpc 8) then [(bs "BitsPerComponent", OInt (Z.of_nat bpc))] else []))
  end.

(* encoded data and the entries Filter / DecodeParms.  [cols]: the natural row width of the data (0: none, the
   style chooses and the data is filled up with spaces to whole rows). *)
Definition apply_filter (f : sfilter) (cols : N) (as_array : bool) (data : bytes) : bytes * list (bytes * obj) :=
  let one n := if as_array then OArr [OName n] else OName n in
  let pred_of (p : option pstyle) :=
    match p with
    | Some p => predict p cols data
    | None => (data, [])
    end in
  match f with
  | SfNone => (data, [])
  | SfA85 => (A85Spec.encode data ++ A85Spec.EOD, [(bs "Filter", one (bs "ASCII85Decode"))])
  | SfFlate blk p =>
    let '(d1, parms) := pred_of p in
    (zlib_stored blk d1,
     (bs "Filter", one (bs "FlateDecode")) ::
     match parms with [] => [] | _ => [(bs "DecodeParms", if as_array then OArr [ODict parms] else ODict parms)] end)
  | SfAHx u ws => (ahx_encode u ws ws data, [(bs "Filter", one (bs "ASCIIHexDecode"))])
  | SfA85Flate blk p =>
    let '(d1, parms) := pred_of p in
    (A85Spec.encode (zlib_stored blk d1) ++ A85Spec.EOD,
     (bs "Filter", OArr [OName (bs "ASCII85Decode"); OName (bs "FlateDecode")]) ::
     match parms with [] => [] | _ => [(bs "DecodeParms", OArr [ONull; ODict parms])] end)
  end.

(* ---------- object streams ---------- *)
Record ostm := {
  os_id : N;
  os_members : list N;                                   (* object numbers, generation 0 *)
  os_items : list (ostyle * list N * list N * list N);   (* per member: spelling, white-space after the object,
                                                            before the pair, between number and offset *)
  os_hdr_end : list N;
  os_filter : sfilter;
  os_array : bool;
  os_istyle : istyle
}.

Definition at_least_ws (l : list N) : bytes := match l with [] => [x20] | _ => ws_bytes l end.

Fixpoint find_obj (objs : list (oid * obj)) (num : N) : option (N * obj) :=
  match objs with
  | [] => None
  | ((i, g), o) :: t => if i =? num then Some (g, o) else find_obj t num
  end.

Fixpoint os_build (objs : list (oid * obj)) (members : list N)
         (sts : list (ostyle * list N * list N * list N)) (first : bool) : option (list ositem) :=
  match members with
  | [] => Some []
  | m :: ms =>
    let '(sy, wa, w1, w2, sts') :=
      match sts with [] => (YDefault, [], [], [], []) | (sy, wa, w1, w2) :: t => (sy, wa, w1, w2, t) end in
    match find_obj objs m, os_build objs ms sts' false with
    | Some (0, o), Some rest =>
      match o with
      | OStream _ _ => None
      | _ => Some ({| oi_num := m; oi_ws1 := if first then ws_bytes w1 else at_least_ws w1;
                      oi_ws2 := at_least_ws w2; oi_text := w_obj o sy ++ at_least_ws wa |} :: rest)
      end
    | _, _ => None
    end
  end.

Definition os_object (objs : list (oid * obj)) (s : ostm) : option obj :=
  match os_build objs (os_members s) (os_items s) true with
  | None => None
  | Some items =>
    let '(first, payload) := os_payload items (at_least_ws (os_hdr_end s)) in
    let '(data, fent) := apply_filter (os_filter s) 0 (os_array s) payload in
    Some (OStream ([(bs "Type", OName (bs "ObjStm")); (bs "N", OInt (Z.of_nat (length items)));
                    (bs "First", OInt (Z.of_N first))] ++ fent ++ [(bs "Length", OInt (Z.of_nat (length data)))])
                  data)
  end.

(* ---------- cross-reference styles ---------- *)
Record tstyle := {
  t_secs : list (N * N);        (* (first, count); must cover object 0 and every object in use *)
  t_eols : list N;              (* per entry, cyclic, mod 3: SP CR, SP LF, CR LF *)
  t_kw_eol : eolk;
  t_sec_eols : list eolk;       (* per subsection, cyclic *)
  t_sec_sp : list bool;
  t_f1 : filler; t_trailer : ostyle; t_f2 : filler
}.
Record xsstyle := {
  xs_id : N;
  xs_w : nat * nat * nat;
  xs_secs : list (N * N);
  xs_omit_index : bool;         (* leave Index out when it is [0 Size] *)
  xs_filter : sfilter;
  xs_array : bool;
  xs_istyle : istyle
}.
Inductive xstyle := XTable (t : tstyle) | XStream (x : xsstyle).

Record fstyle := {
  s_junk : bytes;
  s_hdr_eol : eolk;
  s_binary : option (bytes * eolk);
  s_order : list N;
  s_objs : list (N * istyle);
  s_ostms : list ostm;
  s_xref : xstyle;
  s_sx_eol1 : eolk; s_sx_sp1 : nat; s_sx_sp2 : nat; s_sx_eol2 : eolk; s_final_eol : option eolk
}.

Fixpoint find_istyle (l : list (N * istyle)) (num : N) : istyle :=
  match l with
  | [] => default_istyle
  | (k, y) :: t => if k =? num then y else find_istyle t num
  end.

Definition mem_N (x : N) (l : list N) : bool := existsb (N.eqb x) l.

(* ---------- layout ---------- *)
(* the top-level objects: adoc objects that are not members of an object stream, then the containers *)
Definition compressed_nums (st : fstyle) : list N := flat_map os_members (s_ostms st).

Fixpoint containers (objs : list (oid * obj)) (l : list ostm) : option (list (oid * obj * istyle)) :=
  match l with
  | [] => Some []
  | s :: l' =>
    match os_object objs s, containers objs l' with
    | Some o, Some r => Some (((os_id s, 0), o, os_istyle s) :: r)
    | _, _ => None
    end
  end.

Fixpoint nodup_N (l : list N) : bool :=
  match l with [] => true | x :: t => negb (mem_N x t) && nodup_N t end.

(* file order: the numbers of [order] first (those that exist), then the rest in their own order *)
Definition take_num (tops : list (oid * obj * istyle)) (num : N) : list (oid * obj * istyle) :=
  filter (fun t => fst (fst (fst t)) =? num) tops.
Definition ordered (order : list N) (tops : list (oid * obj * istyle)) : list (oid * obj * istyle) :=
  let order := nodup N.eq_dec order in
  flat_map (take_num tops) order ++ filter (fun t => negb (mem_N (fst (fst (fst t))) order)) tops.

(* emit the objects one after the other from position [pos]; returns the text and (number, generation, offset) *)
Fixpoint emit_objs (pos : N) (tops : list (oid * obj * istyle)) : bytes * list (N * N * N) :=
  match tops with
  | [] => ([], [])
  | ((i, g), o, y) :: rest =>
    let text := w_indirect i g o y ++ gap_bytes (i_gap y) in
    let '(t2, offs) := emit_objs (pos + N.of_nat (length text)) rest in
    (text ++ t2, (i, g, pos) :: offs)
  end.

Fixpoint find_off (offs : list (N * N * N)) (num : N) : option (N * N) :=
  match offs with
  | [] => None
  | (i, g, p) :: t => if i =? num then Some (g, p) else find_off t num
  end.

Fixpoint index_of (x : N) (l : list N) (k : N) : option N :=
  match l with [] => None | y :: t => if x =? y then Some k else index_of x t (k + 1) end.
Fixpoint find_comp (l : list ostm) (num : N) : option (N * N) :=
  match l with
  | [] => None
  | s :: t => match index_of num (os_members s) 0 with Some k => Some (os_id s, k) | None => find_comp t num end
  end.

(* what the file says about object number [num] *)
Definition entry_of (offs : list (N * N * N)) (st : fstyle) (num : N) : sentry :=
  if num =? 0 then SFree 0 65535
  else match find_off offs num with
       | Some (g, p) => SInUse p g
       | None => match find_comp (s_ostms st) num with
                 | Some (c, k) => SComp c k
                 | None => SFree 0 0
                 end
       end.
Definition is_used (e : sentry) : bool := match e with SFree _ _ => false | _ => true end.

Fixpoint range_N (first : N) (count : nat) : list N :=
  match count with O => [] | S c => first :: range_N (first + 1) c end.

(* subsections must be increasing, disjoint, and cover 0 and every used number below [size] *)
Fixpoint secs_increasing (lo : N) (secs : list (N * N)) : bool :=
  match secs with
  | [] => true
  | (f, c) :: t => (lo <=? f) && (1 <=? c) && secs_increasing (f + c) t
  end.
Definition secs_cover (secs : list (N * N)) (size : N) (used : N -> bool) : bool :=
  forallb (fun n => negb (used n) || existsb (fun fc => (fst fc <=? n) && (n <? fst fc + snd fc)) secs)
          (range_N 0 (N.to_nat size)).
Definition secs_ok (secs : list (N * N)) (size : N) (used : N -> bool) : bool :=
  secs_increasing 0 secs && secs_cover secs size used &&
  forallb (fun fc => fst fc + snd fc <=? size) secs.
Definition use_secs (secs : list (N * N)) (size : N) (used : N -> bool) : list (N * N) :=
  if secs_ok secs size used then secs else [(0, size)].

Fixpoint cyc {A} (k : nat) (l all : list A) (d : A) : list A :=
  match k with
  | O => []
  | S k' => match l with
            | [] => match all with [] => d :: cyc k' [] all d | x :: l' => x :: cyc k' l' all d end
            | x :: l' => x :: cyc k' l' all d
            end
  end.
Definition eol2_of (k : N) : eol2 := match k mod 3 with 0 => E2_SPCR | 1 => E2_SPLF | _ => E2_CRLF end.

(* consume per-entry / per-section style lists along the sections *)
Fixpoint build_tsecs (secs : list (N * N)) (entry : N -> sentry) (eols : list N) (all_eols : list N)
         (seols : list eolk) (ssp : list bool) : list tsection :=
  match secs with
  | [] => []
  | (f, c) :: t =>
    let n := N.to_nat c in
    let es := cyc n eols all_eols 1 in
    {| ts_first := f;
       ts_entries := combine (map entry (range_N f n)) (map eol2_of es);
       ts_sp := match ssp with b :: _ => b | [] => false end;
       ts_eol := match seols with e :: _ => e | [] => ELF end |}
    :: build_tsecs t entry (skipn n eols) all_eols (tl seols) (tl ssp)
  end.

Definition max_num (l : list N) : N := fold_left N.max l 0.

Definition K_Size := Eval cbv in bs "Size".
Definition K_Length := Eval cbv in bs "Length".

(* ---------- the writer ---------- *)
Definition contains (pat s : bytes) : bool :=
  (fix go (s : bytes) : bool := match s with [] => prefixb pat [] | _ :: t => prefixb pat s || go t end) s.

Definition header (st : fstyle) (version : bytes) : bytes :=
  bs "%PDF-" ++ version ++ eol_bytes (s_hdr_eol st) ++
  match s_binary st with
  | Some (m, e) => x25 :: filter (fun b => negb (is_eol_byte b)) m ++ eol_bytes e
  | None => []
  end.

Definition startxref_text (st : fstyle) (pos : N) : bytes :=
  bs "startxref" ++ eol_bytes (s_sx_eol1 st) ++ repeat x20 (s_sx_sp1 st) ++ N_dec pos ++
  repeat x20 (s_sx_sp2 st) ++ eol_bytes (s_sx_eol2 st) ++ bs "%%EOF" ++ opt_eol (s_final_eol st).

Definition ref_write (st : fstyle) (a : adoc) : option bytes :=
  let comp := compressed_nums st in
  let nums := map (fun io => fst (fst io)) (a_objs a) in
  let cids := map os_id (s_ostms st) in
  let xid := match s_xref st with XStream x => [xs_id x] | XTable _ => [] end in
  if contains (bs "%PDF-") (s_junk st) || contains [x0d] (a_version a) || contains [x0a] (a_version a)
  then None
  else if negb (nodup_N (nums ++ cids ++ xid) && nodup_N comp && negb (mem_N 0 (nums ++ cids ++ xid)))
  then None
  else match s_xref st, comp with
  | XTable _, _ :: _ => None                       (* compressed objects need a cross-reference stream *)
  | _, _ =>
    match containers (a_objs a) (s_ostms st) with
    | None => None
    | Some conts =>
      let tops := map (fun io => (fst io, snd io, find_istyle (s_objs st) (fst (fst io))))
                      (filter (fun io => negb (mem_N (fst (fst io)) comp)) (a_objs a)) ++ conts in
      let hdr := header st (a_version a) in
      let '(body, offs) := emit_objs (N.of_nat (length hdr)) (ordered (s_order st) tops) in
      let xpos := N.of_nat (length hdr + length body) in
      let size := 1 + max_num (nums ++ cids ++ xid) in
      match s_xref st with
      | XTable t =>
        let entry := entry_of offs st in
        let secs := use_secs (t_secs t) size (fun n => (n =? 0) || is_used (entry n)) in
        let tsecs := build_tsecs secs entry (t_eols t) (t_eols t) (t_sec_eols t) (t_sec_sp t) in
        Some (s_junk st ++ hdr ++ body ++ table_text (t_kw_eol t) tsecs ++
              join [(bs "trailer", t_f1 t);
                    (w_obj (ODict (a_trailer a ++ [(K_Size, OInt (Z.of_N size))])) (t_trailer t), t_f2 t);
                    (startxref_text st xpos, [])])
      | XStream x =>
        let offs' := offs ++ [(xs_id x, 0, xpos)] in
        let entry := entry_of offs' st in
        (* 7.5.8: a cross-reference stream lists the objects its Index names; nothing obliges it to list object 0
           (the head of the free list matters to a cross-reference TABLE, 7.5.4).  When no listed entry is free or
           compressed the type field may have width 0 (table 18: default type 1); when every generation is 0 the third
           field may have width 0. *)
        let secs := use_secs (xs_secs x) size (fun n => is_used (entry n)) in
        let xsecs : xsections := map (fun fc => (fst fc, map entry (range_N (fst fc) (N.to_nat (snd fc))))) secs in
        let '(w0, w1, w2) := xs_w x in
        let ents := flat_map snd xsecs in
        let need (sel : sentry -> N) := fold_left N.max (map sel ents) 0 in
        let fit (w : nat) (v : N) : nat :=      (* widen a field that is too narrow, at most 8 *)
          (fix go (k : nat) (w : nat) : nat :=
             match k with O => w | S k' => if v <? 256 ^ N.of_nat w then w else go k' (S w) end) 8%nat w in
        let t_of e := fst (fst (entry_fields e)) in
        let a_of e := snd (fst (entry_fields e)) in
        let b_of e := snd (entry_fields e) in
        let w0' := if forallb (fun e => t_of e =? 1) ents then w0 else fit (Nat.max w0 1) (need t_of) in
        let w1' := fit w1 (need a_of) in
        let w2' := if forallb (fun e => b_of e =? 0) ents then w2 else fit (Nat.max w2 1) (need b_of) in
        let raw := enc_sections w0' w1' w2' xsecs in
        let '(data, fent) := apply_filter (xs_filter x) (N.of_nat (w0' + w1' + w2')) (xs_array x) raw in
        let d := [(bs "Type", OName (bs "XRef")); (K_Size, OInt (Z.of_N size));
                  (bs "W", OArr [OInt (Z.of_nat w0'); OInt (Z.of_nat w1'); OInt (Z.of_nat w2')])] ++
                 (match secs with
                  | [(0, c)] => if xs_omit_index x && (c =? size) then [] else [(bs "Index", index_array xsecs)]
                  | _ => [(bs "Index", index_array xsecs)]
                  end) ++ a_trailer a ++ fent ++ [(K_Length, OInt (Z.of_nat (length data)))] in
        Some (s_junk st ++ hdr ++ body ++
              w_indirect (xs_id x) 0 (OStream d data) (xs_istyle x) ++ gap_bytes (i_gap (xs_istyle x)) ++
              startxref_text st xpos)
      end
    end
  end.


(* ---------- files with several cross-reference sections (7.5.4 trailer Prev, 7.5.6, 7.5.8.2) ----------
   A file may consist of several PARTS: objects, then a cross-reference section (table and trailer, or cross-reference
   stream) whose Prev entry names the section of the part before it, then startxref and %%EOF; the section of the last
   part is the one startxref leads to.  This is how a producer appends to a file, whether it adds objects only (every
   section lists its own objects: disjoint sets), lists an object of an earlier part again with the entry it already
   has (legal: the entry says the same), or REPLACES an object of an earlier part by writing a new definition under the
   same number and generation (7.5.6: the newest entry for a number is the one that counts).  What the file defines is
   the abstract document [a]; the superseded definitions ([mp_old]) are in the file but not in its content.
   Outside (the property's domain excludes them): entries that free an object of an earlier part -- so a section of a
   later part lists only entries in use (and possibly object 0) -- and hybrid files (XRefStm). *)
Record mpart := {
  mp_nums : list N;             (* top-level objects of the document (and object-stream containers) written in this part *)
  mp_old : list (N * obj);      (* superseded definitions written in this part; the current one is in a LATER part *)
  mp_relist : list N;           (* numbers of earlier parts that this part's section lists again, entry unchanged *)
  mp_order : list N;
  mp_xref : xstyle;
  mp_sx : eolk * nat * nat * eolk * option eolk     (* the startxref block of this part *)
}.

Definition K_PrevW := Eval cbv in bs "Prev".

(* the style of one part: a part that is not the last ends with an end-of-line marker (the next object starts a line) *)
Definition with_part (st : fstyle) (p : mpart) (last : bool) : fstyle :=
  let '(e1, s1, s2, e2, fe) := mp_sx p in
  {| s_junk := s_junk st; s_hdr_eol := s_hdr_eol st; s_binary := s_binary st; s_order := mp_order p; s_objs := s_objs st;
     s_ostms := s_ostms st; s_xref := mp_xref p; s_sx_eol1 := e1; s_sx_sp1 := s1; s_sx_sp2 := s2; s_sx_eol2 := e2;
     s_final_eol := if last then fe else Some (match fe with Some e => e | None => ELF end) |}.

(* sub-sections of a later part: cover what the part defines, every listed entry in use (or object 0) *)
Definition secs_ok_later (secs : list (N * N)) (size : N) (here : N -> bool) (entry : N -> sentry) : bool :=
  secs_increasing 0 secs && secs_cover secs size here &&
  forallb (fun fc => (fst fc + snd fc <=? size) &&
                     forallb (fun n => (n =? 0) || is_used (entry n)) (range_N (fst fc) (N.to_nat (snd fc)))) secs.

(* the maximal runs of the numbers a part defines *)
Fixpoint runs_of (here : N -> bool) (n : N) (count : nat) : list (N * N) :=
  match count with
  | O => []
  | S c =>
    if here n then
      match runs_of here (n + 1) c with
      | (f, k) :: t => if f =? n + 1 then (n, k + 1) :: t else (n, 1) :: (f, k) :: t
      | [] => [(n, 1)]
      end
    else runs_of here (n + 1) c
  end.

Fixpoint lookup_entry (known : list (N * sentry)) (n : N) : option sentry :=
  match known with
  | [] => None
  | (k, e) :: t => if k =? n then Some e else lookup_entry t n
  end.

(* the cross-reference section of one part, with its trailer / dictionary, startxref and %%EOF *)
Definition section_text (st : fstyle) (a : adoc) (secs : list (N * N)) (entry : N -> sentry) (size xpos : N)
           (prev : list (bytes * obj)) : bytes :=
  match s_xref st with
  | XTable t =>
    let tsecs := build_tsecs secs entry (t_eols t) (t_eols t) (t_sec_eols t) (t_sec_sp t) in
    table_text (t_kw_eol t) tsecs ++
    join [(bs "trailer", t_f1 t);
          (w_obj (ODict (a_trailer a ++ [(K_Size, OInt (Z.of_N size))] ++ prev)) (t_trailer t), t_f2 t);
          (startxref_text st xpos, [])]
  | XStream x =>
    let xsecs : xsections := map (fun fc => (fst fc, map entry (range_N (fst fc) (N.to_nat (snd fc))))) secs in
    let '(w0, w1, w2) := xs_w x in
    let ents := flat_map snd xsecs in
    let need (sel : sentry -> N) := fold_left N.max (map sel ents) 0 in
    let fit (w : nat) (v : N) : nat :=
      (fix go (k : nat) (w : nat) : nat :=
         match k with O => w | S k' => if v <? 256 ^ N.of_nat w then w else go k' (S w) end) 8%nat w in
    let t_of e := fst (fst (entry_fields e)) in
    let a_of e := snd (fst (entry_fields e)) in
    let b_of e := snd (entry_fields e) in
    let w0' := if forallb (fun e => t_of e =? 1) ents then w0 else fit (Nat.max w0 1) (need t_of) in
    let w1' := fit w1 (need a_of) in
    let w2' := if forallb (fun e => b_of e =? 0) ents then w2 else fit (Nat.max w2 1) (need b_of) in
    let raw := enc_sections w0' w1' w2' xsecs in
    let '(data, fent) := apply_filter (xs_filter x) (N.of_nat (w0' + w1' + w2')) (xs_array x) raw in
    let d := [(bs "Type", OName (bs "XRef")); (K_Size, OInt (Z.of_N size));
              (bs "W", OArr [OInt (Z.of_nat w0'); OInt (Z.of_nat w1'); OInt (Z.of_nat w2')])] ++
             (match secs with
              | [(0, c)] => if xs_omit_index x && (c =? size) then [] else [(bs "Index", index_array xsecs)]
              | _ => [(bs "Index", index_array xsecs)]
              end) ++ a_trailer a ++ prev ++ fent ++ [(K_Length, OInt (Z.of_nat (length data)))] in
    w_indirect (xs_id x) 0 (OStream d data) (xs_istyle x) ++ gap_bytes (i_gap (xs_istyle x)) ++ startxref_text st xpos
  end.

Definition part_containers (st : fstyle) (p : mpart) : list ostm :=
  filter (fun s => mem_N (os_id s) (mp_nums p)) (s_ostms st).
(* the numbers whose current definition a part holds: its top-level objects and the members of its object streams *)
Definition part_defines (st : fstyle) (p : mpart) : list N :=
  mp_nums p ++ flat_map os_members (part_containers st p).

Fixpoint write_parts (st : fstyle) (a : adoc) (tops : list (oid * obj * istyle)) (parts : list mpart)
         (pos : N) (prev : option N) (known : list (N * sentry)) (maxnum : N) : option bytes :=
  match parts with
  | [] => Some []
  | p :: rest =>
    let stp := with_part st p (match rest with [] => true | _ => false end) in
    let later := flat_map (part_defines st) rest in
    let olds := flat_map (fun no => match find_obj (a_objs a) (fst no) with
                                    | Some (g, _) => [((fst no, g), snd no, find_istyle (s_objs st) (fst no))]
                                    | None => []
                                    end) (mp_old p) in
    let mine := filter (fun t => mem_N (fst (fst (fst t))) (mp_nums p)) tops ++ olds in
    let here_nums := map (fun t => fst (fst (fst t))) mine in
    if negb (nodup_N here_nums && forallb (fun no => mem_N (fst no) later) (mp_old p) &&
             Nat.eqb (length olds) (length (mp_old p)))
    then None
    else
      let '(body, offs) := emit_objs pos (ordered (mp_order p) mine) in
      let xpos := pos + N.of_nat (length body) in
      let xid := match mp_xref p with XStream x => [xs_id x] | XTable _ => [] end in
      let offs' := offs ++ map (fun i => (i, 0, xpos)) xid in
      let conts := part_containers st p in
      match mp_xref p, conts with
      | XTable _, _ :: _ => None                   (* compressed objects need a cross-reference stream *)
      | _, _ =>
        let entry_here n :=
          match find_off offs' n with
          | Some (g, q) => SInUse q g
          | None => match find_comp conts n with Some (c, k) => SComp c k | None => SFree 0 0 end
          end in
        let here n := is_used (entry_here n) in
        let entry n :=
          if here n then entry_here n
          else if mem_N n (mp_relist p) then match lookup_entry known n with Some e => e | None => SFree 0 0 end
          else if n =? 0 then SFree 0 65535 else SFree 0 0 in
        let size := 1 + N.max maxnum (max_num (here_nums ++ xid ++ flat_map os_members conts)) in
        if negb (existsb here (range_N 0 (N.to_nat size))) then None
        else
          let secs :=
            match prev, mp_xref p with
            | None, XTable t => use_secs (t_secs t) size (fun n => (n =? 0) || here n)
            | None, XStream x => use_secs (xs_secs x) size here
            | Some _, xr =>
              let s0 := match xr with XTable t => t_secs t | XStream x => xs_secs x end in
              if secs_ok_later s0 size here entry then s0 else runs_of here 0 (N.to_nat size)
            end in
          let prev_ent := match prev with Some q => [(K_PrevW, OInt (Z.of_N q))] | None => [] end in
          let text := body ++ section_text stp a secs entry size xpos prev_ent in
          let known' := map (fun n => (n, entry n)) (filter here (range_N 0 (N.to_nat size))) ++ known in
          match write_parts st a tops rest (pos + N.of_nat (length text)) (Some xpos) known' (size - 1) with
          | Some r => Some (text ++ r)
          | None => None
          end
      end
  end.

Definition part_xids (parts : list mpart) : list N :=
  flat_map (fun p => match mp_xref p with XStream x => [xs_id x] | XTable _ => [] end) parts.

(* [s_xref] and [s_order] of [st] are not used: every part has its own *)
Definition ref_write_multi (st : fstyle) (parts : list mpart) (a : adoc) : option bytes :=
  let comp := compressed_nums st in
  let nums := map (fun io => fst (fst io)) (a_objs a) in
  let cids := map os_id (s_ostms st) in
  let xids := part_xids parts in
  if contains (bs "%PDF-") (s_junk st) || contains [x0d] (a_version a) || contains [x0a] (a_version a)
  then None
  else if negb (nodup_N (nums ++ cids ++ xids) && nodup_N comp && negb (mem_N 0 (nums ++ cids ++ xids)))
  then None
  else
    match containers (a_objs a) (s_ostms st) with
    | None => None
    | Some conts =>
      let tops := map (fun io => (fst io, snd io, find_istyle (s_objs st) (fst (fst io))))
                      (filter (fun io => negb (mem_N (fst (fst io)) comp)) (a_objs a)) ++ conts in
      let placed := flat_map mp_nums parts in
      (* every top-level object is written in exactly one part *)
      if negb (nodup_N placed && forallb (fun t => mem_N (fst (fst (fst t))) placed) tops) then None
      else
        let hdr := header st (a_version a) in
        match write_parts st a tops parts (N.of_nat (length hdr)) None [] 0 with
        | Some r => match parts with [] => None | _ => Some (s_junk st ++ hdr ++ r) end
        | None => None
        end
    end.

(* ---------- known finding C02-raw-eol: the style spells some LF of a literal string as a raw CR or CR LF ---------- *)
Fixpoint lit_raw_cr (s : bytes) (st : list lpos) : bool :=
  match s, st with
  | b :: s', p :: st' =>
    (byte_eqb b x0a && match l_ch p with LRawCR | LRawCRLF => true | _ => false end) || lit_raw_cr s' st'
  | _, _ => false
  end.

Fixpoint obj_raw_cr (o : obj) (y : ostyle) {struct o} : bool :=
  match o with
  | OStr s _ => match y with YStr (SLit l _) => lit_raw_cr s l | _ => false end
  | OArr l =>
    match y with
    | YArr _ sts =>
      (fix go (l : list obj) (sts : list (ostyle * filler)) : bool :=
         match l, sts with
         | x :: l', (sy, _) :: sts' => obj_raw_cr x sy || go l' sts'
         | _, _ => false
         end) l sts
    | _ => false
    end
  | ODict d | OStream d _ =>
    match y with
    | YDict _ sts =>
      (fix go (d : list (bytes * obj)) (sts : list (nstyle * filler * ostyle * filler)) : bool :=
         match d, sts with
         | (_, v) :: d', (_, _, vs, _) :: sts' => obj_raw_cr v vs || go d' sts'
         | _, _ => false
         end) d sts
    | _ => false
    end
  | _ => false
  end.

Definition Known_raw_eol (st : fstyle) (a : adoc) : bool :=
  existsb (fun io => obj_raw_cr (snd io) (i_obj (find_istyle (s_objs st) (fst (fst io))))) (a_objs a) ||
  existsb (fun s => (fix go (ms : list N) (its : list (ostyle * list N * list N * list N)) : bool :=
                       match ms, its with
                       | m :: ms', (sy, _, _, _) :: its' =>
                         match find_obj (a_objs a) m with Some (_, o) => obj_raw_cr o sy | None => false end || go ms' its'
                       | _, _ => false
                       end) (os_members s) (os_items s)) (s_ostms st) ||
  match s_xref st with
  | XTable t => obj_raw_cr (ODict (a_trailer a)) (t_trailer t)
  | XStream _ => false      (* the generator never draws raw CR spellings inside a cross-reference stream dictionary *)
  end.

(* with several parts: the trailer that counts is the last part's *)
Fixpoint last_part (parts : list mpart) : option mpart :=
  match parts with [] => None | [p] => Some p | _ :: t => last_part t end.
Definition Known_raw_eol_multi (st : fstyle) (parts : list mpart) (a : adoc) : bool :=
  match last_part parts with Some p => Known_raw_eol (with_part st p true) a | None => false end.

(* ---------- known finding C02-deep-parens: a string whose parentheses nest deeper than 100 ---------- *)
Fixpoint paren_depth_gt (limit : nat) (s : bytes) (depth : nat) : bool :=
  match s with
  | [] => false
  | b :: s' =>
    if byte_eqb b x28 then (limit <? S depth)%nat || paren_depth_gt limit s' (S depth)
    else if byte_eqb b x29 then paren_depth_gt limit s' (Nat.pred depth)
    else paren_depth_gt limit s' depth
  end.

Fixpoint obj_deep (o : obj) : bool :=
  match o with
  | OStr s _ => paren_depth_gt 100 s 0
  | OArr l => existsb obj_deep l
  | ODict d | OStream d _ => existsb (fun kv => obj_deep (snd kv)) d
  | _ => false
  end.

Definition Known_deep_parens (a : adoc) : bool :=
  existsb (fun io => obj_deep (snd io)) (a_objs a) || obj_deep (ODict (a_trailer a)).

(* ---------- known finding C02-asciihex: a structural stream is encoded with ASCIIHexDecode ---------- *)
Definition is_ahx (f : sfilter) : bool := match f with SfAHx _ _ => true | _ => false end.
Definition Known_asciihex (st : fstyle) : bool :=
  existsb (fun s => is_ahx (os_filter s)) (s_ostms st) ||
  match s_xref st with XStream x => is_ahx (xs_filter x) | XTable _ => false end.

(* ---------- what the file defines ---------- *)
(* A stream's Length entry is the number of bytes of its data, whether it was written directly or through
   an indirect object. *)
Definition norm_stream (o : obj) : obj :=
  match o with
  | OStream d c =>
    OStream (map (fun kv => if bytes_eqb (fst kv) K_Length then (fst kv, OInt (Z.of_nat (length c))) else kv) d) c
  | _ => o
  end.

Definition content (a : adoc) : list (oid * obj) := map (fun io => (fst io, norm_stream (snd io))) (a_objs a).
