(* LzwSpec.v -- the LZW codec of PDF (ISO 32000-1 7.4.4.2, LZWDecode) and TIFF 6.0 section 13, written from the
   standard; it shares nothing with the lopdf model (lopdf calls the crate weezl for this).

   * The data are coded as a sequence of codes of 9 to 12 bits, packed into bytes "high-order bit first".
   * Codes 0..255 stand for the single bytes, 256 is the clear-table marker, 257 the EOD marker, 258.. are the
     table entries for the multi-byte sequences met so far; entry 4095 is the last one.
   * "The encoder shall begin by issuing a clear-table code.  It shall issue a clear-table code when the table
     becomes full; it may do so sooner."  [limit] below is the table size (number of codes, 259..4096) at which
     the encoder clears; lzw_encode uses 4096 ("when the table becomes full").
   * Whenever both sides have seen k codes since the last clear-table marker the encoder has assigned the codes
     up to 257 + k and the decoder (which is one entry behind) those up to 256 + k.  The code length for the next
     code is the smallest of 9..12 bits that holds 257 + k -- the standard's table: 9 bits up to entry 511, 10 bits
     up to 1023, ... -- and with EarlyChange = 1 (the default, and the TIFF behaviour) the length grows "one code
     early", as if the value were 258 + k.

   Definitions only; the proofs are in Proofs/LzwProofs.v (lzw_decode_encode : for every byte string and both
   EarlyChange values, and every legal clearing limit, lzw_decode ec (lzw_encode ec bs) = Some bs).
   No fuel anywhere: every recursion is structural (on the input bytes, on the code list, on the bit list). *)
From LV Require Import Base.Bytes.

Local Open Scope N_scope.

Definition CLEAR : N := 256.
Definition EOD : N := 257.
Definition FIRST : N := 258.
Definition TABLE_MAX : N := 4096.

(* code length in bits when k codes have gone by since the last clear-table marker *)
Definition width (ec : bool) (k : N) : nat :=
  let n := 257 + k + (if ec then 1 else 0) in
  if n <? 512 then 9%nat else if n <? 1024 then 10%nat else if n <? 2048 then 11%nat else 12%nat.

(* ---------- the table: the multi-byte entries in the order of their codes 258, 259, ... ---------- *)
Definition table := list bytes.

Definition in_table (t : table) (w : bytes) : bool :=
  match w with
  | [_] => true
  | _ => existsb (bytes_eqb w) t
  end.

Fixpoint index_of (w : bytes) (t : table) : N :=
  match t with
  | [] => 0
  | e :: t' => if bytes_eqb w e then 0 else 1 + index_of w t'
  end.

Definition code_of (t : table) (w : bytes) : N :=
  match w with
  | [b] => N_of_byte b
  | _ => FIRST + index_of w t
  end.

Definition entry (t : table) (c : N) : option bytes :=
  if c <? 256 then Some [byte_of_N c]
  else if c <? FIRST then None
  else nth_error t (N.to_nat (c - FIRST)).

(* ---------- encoder: bytes -> codes ---------- *)
(* [w] is the sequence matched so far (not empty, in the table); the longest sequence of the table that is a
   prefix of the remaining data is coded, and the sequence one byte longer gets the next code *)
Fixpoint enc (limit : N) (t : table) (w : bytes) (data : bytes) : list N :=
  match data with
  | [] => [code_of t w; EOD]
  | c :: data' =>
    let wc := w ++ [c] in
    if in_table t wc then enc limit t wc data'
    else code_of t w ::
         (let t' := t ++ [wc] in
          if limit <=? FIRST + N.of_nat (length t') then CLEAR :: enc limit [] [c] data'
          else enc limit t' [c] data')
  end.

Definition lzw_codes (limit : N) (data : bytes) : list N :=
  CLEAR :: match data with
           | [] => [EOD]
           | c :: data' => enc limit [] [c] data'
           end.

(* ---------- decoder: codes -> bytes ---------- *)
(* [prev] is the sequence of the previous code (None at the start and after a clear-table marker).  A code that
   is exactly the next free one stands for prev ++ [first byte of prev] (the encoder used the entry it had just
   made).  Every code after the first adds prev ++ [first byte of the new sequence], while there is room. *)
Fixpoint dec (t : table) (prev : option bytes) (cs : list N) : option bytes :=
  match cs with
  | [] => None                                   (* no EOD marker *)
  | c :: cs' =>
    if c =? EOD then Some []
    else if c =? CLEAR then dec [] None cs'
    else
      match prev with
      | None =>
        match entry t c with
        | Some e => option_map (app e) (dec t (Some e) cs')
        | None => None
        end
      | Some p =>
        let e := match entry t c with
                 | Some e => Some e
                 | None => if c =? FIRST + N.of_nat (length t) then Some (p ++ firstn 1 p) else None
                 end in
        match e with
        | Some e =>
          let t' := if FIRST + N.of_nat (length t) <? TABLE_MAX then t ++ [p ++ firstn 1 e] else t in
          option_map (app e) (dec t' (Some e) cs')
        | None => None
        end
      end
  end.

(* ---------- codes <-> bits <-> bytes, high-order bit first ---------- *)
Fixpoint bits_of (w : nat) (v : N) : list bool :=
  match w with
  | O => []
  | S w' => N.testbit v (N.of_nat w') :: bits_of w' v
  end.

(* [k] = number of codes since the last clear-table marker *)
Fixpoint pack (ec : bool) (k : N) (cs : list N) : list bool :=
  match cs with
  | [] => []
  | c :: cs' => bits_of (width ec k) c ++ pack ec (if c =? CLEAR then 0 else k + 1) cs'
  end.

(* [need] >= 1 bits are still missing from the current code, [acc] holds the bits read so far.  Reading stops
   behind the EOD marker (what follows is padding) or when the bits run out. *)
Fixpoint unpack (ec : bool) (k : N) (need : nat) (acc : N) (bits : list bool) : list N :=
  match bits with
  | [] => []
  | b :: r =>
    let acc' := 2 * acc + (if b then 1 else 0) in
    match need with
    | S (S n) => unpack ec k (S n) acc' r
    | _ =>
      if acc' =? EOD then [EOD]
      else let k' := if acc' =? CLEAR then 0 else k + 1 in
           acc' :: unpack ec k' (width ec k') 0 r
    end
  end.

(* every code fits the width of its position *)
Fixpoint fits (ec : bool) (k : N) (cs : list N) : Prop :=
  match cs with
  | [] => True
  | c :: cs' => c < 2 ^ N.of_nat (width ec k) /\ fits ec (if c =? CLEAR then 0 else k + 1) cs'
  end.

(* a code sequence up to and including its first EOD marker *)
Fixpoint cut (cs : list N) : list N :=
  match cs with
  | [] => []
  | c :: cs' => if c =? EOD then [EOD] else c :: cut cs'
  end.

Definition byte_bits (b : byte) : list bool :=
  let '(b0, (b1, (b2, (b3, (b4, (b5, (b6, b7))))))) := Byte.to_bits b in [b7; b6; b5; b4; b3; b2; b1; b0].

Definition bits_of_bytes (data : bytes) : list bool := flat_map byte_bits data.

(* whole groups of eight bits; an incomplete last group is dropped *)
Fixpoint bytes_of_bits8 (l : list bool) : bytes :=
  match l with
  | b7 :: b6 :: b5 :: b4 :: b3 :: b2 :: b1 :: b0 :: r =>
    Byte.of_bits (b0, (b1, (b2, (b3, (b4, (b5, (b6, b7))))))) :: bytes_of_bits8 r
  | _ => []
  end.

(* the last byte is filled up with zero bits *)
Definition bytes_of_bits (l : list bool) : bytes := bytes_of_bits8 (l ++ repeat false 7).

(* ---------- the codec ---------- *)
Definition lzw_encode_lim (limit : N) (ec : bool) (data : bytes) : bytes :=
  bytes_of_bits (pack ec 0 (lzw_codes limit data)).

Definition lzw_encode : bool -> bytes -> bytes := lzw_encode_lim TABLE_MAX.

Definition lzw_decode (ec : bool) (data : bytes) : option bytes :=
  dec [] None (unpack ec 0 (width ec 0) 0 (bits_of_bytes data)).
