(* RunC06.v -- runner for C06: the extracted ISO 32000 specification (Spec/Crypto/Iso.v) is the
   independent implementation of the standard security handler.  No part of the model of lopdf's handler
   is used here.

   (enc <doc> <ver> (rnd xB ...) (ivs xB ...) [(opts [(eff xNAME)] [direct] [len256])])
       encrypt <doc> as ISO 32000 says, with explicit randomness -> (encdoc <doc'>)
       opts: an EFF entry (crypt filter of embedded file streams); the encryption dictionary as a direct object;
       the entry Length 256 added to the dictionary (what producers write for V 5)
   (case <doc> <ver> <isoenc> <implenc> (pws (right|wrong xPW) ...) (flags ...) [(raw xTEXT ...)])
       <isoenc>: <doc> encrypted by this specification, <implenc>: <doc> encrypted by lopdf.
       Every password here (in <ver> and in pws) is the byte string AFTER password preparation (PDFDocEncoding for
       revisions 2-4, SASLprep + UTF-8 for 5-6) -- what the standard's algorithms are defined on; preparation stays an
       oracle: the harness prepares the Unicode texts (raw ...) with the crate's own preparation, gives them to lopdf,
       and checks that the prepared bytes of the line are what it got.  The element (raw ...) is not read here.
       answer (res (dec r ...) (reenc b)):
         r = this specification opening <implenc> with each password:
             (ok <objects> <trailer, sorted by key> xFILEKEY) | (rejected) | (notstandard) | (damaged)
         b = 1 iff encrypting <doc> by the specification with the random choices read back from <implenc>
             (U padding / salts / Perms filler / per-object IVs) reproduces <implenc>: the same encryption
             dictionary values (read with the standard's defaults) and the same bytes in every object;
             else (0 <what differs>); "skipped" with the flag noreenc.
       The harness answers with lopdf opening <isoenc> in the same notation and (reenc 1).

   (isoref <ver> <implenc> (pws xPW ...))
       the reference for the direct verdict on the file LOPDF wrote (revisions 2-4; the generator asks this before it
       writes the `case` line, whose last element is the answer; the harness compares):
       (isoref (o xO) (u xU) (auth (xPW a6 a7) ...)) | (isoref none) (revision 5, 6) | (isoref unreadable)
         O = Algorithm 3 for the passwords and the key length of <ver>; U = Algorithm 4 / 5 for that O, the P of <ver>,
         the file identifier of <implenc> and -- the only thing read from lopdf's dictionary -- the 16 arbitrary bytes
         lopdf appended; a6 / a7 = does Algorithm 6 / Algorithm 7 authenticate xPW against the dictionary of <implenc>
         (read with read_params) as user / as owner password.

   <ver> ::= (v1 xOWNER xUSER perms) | (v2 xOWNER xUSER keylen perms)
           | (v4 em <cfs> xSTMF xSTRF xOWNER xUSER perms)
           | (r5 em <cfs> xFEK xSTMF xSTRF xOWNER xUSER perms) | (v5 ... same ...)
   <cfs> ::= (cfs (xNAME id|rc4|aesv2|aesv3) ...)
   perms: the permission flags; the P entry is the conforming word carrying them.  An empty owner password
   means that there is no owner password. *)
From LV Require Import Base.Bytes Base.Sx Model.Obj Model.Crypto.Word Spec.Crypto.Iso Spec.Crypto.IsoConcrete.
Local Open Scope N_scope.

Definition I := iconcrete.

Definition icfm_of_sx (x : sx) : option icfm :=
  if is_id x "id" then Some ICF_None
  else if is_id x "rc4" then Some ICF_V2
  else if is_id x "aesv2" then Some ICF_AESV2
  else if is_id x "aesv3" then Some ICF_AESV3
  else None.

Definition cfs_of_sx (x : sx) : option (list (bytes * icfm)) :=
  match x with
  | SL (_ :: l) =>
    omap (fun e => match e with
                   | SL [n; f] => match as_bytes n, icfm_of_sx f with Some n, Some f => Some (n, f) | _, _ => None end
                   | _ => None
                   end) l
  | _ => None
  end.

Definition owner_of (o : bytes) : option bytes := match o with [] => None | _ => Some o end.

Definition mk_request (V R : Z) (len : N) (em : bool) (cf : list (bytes * icfm)) (stmf strf fek o u : bytes) (perms : N)
  : irequest :=
  {| rq_V := V; rq_R := R; rq_Length := len; rq_EncryptMetadata := em; rq_CF := cf; rq_StmF := stmf; rq_StrF := strf;
     rq_EFF := None; rq_owner := owner_of o; rq_user := u; rq_P := P_of_flags perms; rq_fek := fek |}.

Definition request_of_sx (x : sx) : option irequest :=
  match x with
  | SL [t; o; u; p] =>
    if is_id t "v1" then
      match as_bytes o, as_bytes u, as_N p with
      | Some o, Some u, Some p => Some (mk_request 1 2 40 true [] [] [] [] o u p) | _, _, _ => None end
    else None
  | SL [t; o; u; kl; p] =>
    if is_id t "v2" then
      match as_bytes o, as_bytes u, as_N kl, as_N p with
      | Some o, Some u, Some kl, Some p => Some (mk_request 2 3 kl true [] [] [] [] o u p) | _, _, _, _ => None end
    else None
  | SL [t; em; cfs; stmf; strf; o; u; p] =>
    if is_id t "v4" then
      match as_bool em, cfs_of_sx cfs, as_bytes stmf, as_bytes strf, as_bytes o, as_bytes u, as_N p with
      | Some em, Some cfs, Some stmf, Some strf, Some o, Some u, Some p =>
        Some (mk_request 4 4 128 em cfs stmf strf [] o u p)
      | _, _, _, _, _, _, _ => None end
    else None
  | SL [t; em; cfs; fek; stmf; strf; o; u; p] =>
    match as_bool em, cfs_of_sx cfs, as_bytes fek, as_bytes stmf, as_bytes strf, as_bytes o, as_bytes u, as_N p with
    | Some em, Some cfs, Some fek, Some stmf, Some strf, Some o, Some u, Some p =>
      if is_id t "r5" then Some (mk_request 5 5 256 em cfs stmf strf fek o u p)
      else if is_id t "v5" then Some (mk_request 5 6 256 em cfs stmf strf fek o u p)
      else None
    | _, _, _, _, _, _, _, _ => None end
  | _ => None
  end.

Definition bytes_list_of_sx (x : sx) : option (list bytes) :=
  match x with SL (_ :: l) => omap as_bytes l | _ => None end.

(* ---------- canonical printing ---------- *)
Fixpoint lex_ltb (a b : bytes) : bool :=
  match a, b with
  | [], [] => false
  | [], _ :: _ => true
  | _ :: _, [] => false
  | x :: a', y :: b' => (N_of_byte x <? N_of_byte y) || ((N_of_byte x =? N_of_byte y) && lex_ltb a' b')
  end.
Fixpoint ins_sorted (e : bytes * obj) (l : dict) : dict :=
  match l with
  | [] => [e]
  | e' :: r => if lex_ltb (fst e) (fst e') then e :: l else e' :: ins_sorted e r
  end.
Definition sort_dict (d : dict) : dict := fold_right ins_sorted [] d.

Definition sx_opened (r : opened) : sx :=
  match r with
  | Opened d fek => SL [sx_id "ok"; objmap_to_sx (d_objects d); dict_to_sx (sort_dict (d_trailer d)); sx_bytes fek]
  | WrongPassword => SL [sx_id "rejected"]
  | NotStandard => SL [sx_id "notstandard"]
  | Damaged => SL [sx_id "damaged"]
  end.

(* ---------- re-encryption with the other writer's random choices ---------- *)
Definition cf_eqb (a b : list (bytes * icfm)) : bool :=
  let icfm_eqb (x y : icfm) : bool :=
    match x, y with ICF_None, ICF_None | ICF_V2, ICF_V2 | ICF_AESV2, ICF_AESV2 | ICF_AESV3, ICF_AESV3 => true | _, _ => false end in
  let sub (a b : list (bytes * icfm)) :=
    forallb (fun nc => match cf_lookup b (fst nc), cf_lookup a (fst nc) with
                       | Some c, Some c' => icfm_eqb c c' | _, _ => false end) a in
  sub a b && sub b a.

Definition opt_bytes_eqb (a b : option bytes) : bool :=
  match a, b with Some x, Some y => bytes_eqb x y | None, None => true | _, _ => false end.

(* which entries of the encryption dictionary differ *)
Definition params_diff (a b : iparams) : list sx :=
  (if (ip_V a =? ip_V b)%Z then [] else [sx_id "V"]) ++
  (if (ip_R a =? ip_R b)%Z then [] else [sx_id "R"]) ++
  (if ip_Length a =? ip_Length b then [] else [sx_id "Length"]) ++
  (if bytes_eqb (ip_O a) (ip_O b) then [] else [sx_id "O"]) ++
  (if bytes_eqb (ip_U a) (ip_U b) then [] else [sx_id "U"]) ++
  (if bytes_eqb (ip_OE a) (ip_OE b) then [] else [sx_id "OE"]) ++
  (if bytes_eqb (ip_UE a) (ip_UE b) then [] else [sx_id "UE"]) ++
  (if bytes_eqb (ip_Perms a) (ip_Perms b) then [] else [sx_id "Perms"]) ++
  (if (ip_P a =? ip_P b)%Z then [] else [sx_id "P"]) ++
  (if Bool.eqb (ip_EncryptMetadata a) (ip_EncryptMetadata b) then [] else [sx_id "EncryptMetadata"]) ++
  (if (ip_V a <? 4)%Z then []
   else (if cf_eqb (ip_CF a) (ip_CF b) then [] else [sx_id "CF"]) ++
        (if bytes_eqb (ip_StmF a) (ip_StmF b) then [] else [sx_id "StmF"]) ++
        (if bytes_eqb (ip_StrF a) (ip_StrF b) then [] else [sx_id "StrF"]) ++
        (if opt_bytes_eqb (ip_EFF a) (ip_EFF b) then [] else [sx_id "EFF"])).

Definition obj_eqb (a b : obj) : bool := bytes_eqb (sx_print (obj_to_sx a)) (sx_print (obj_to_sx b)).

Definition reenc (d : doc) (rq : irequest) (impl : doc) : sx :=
  match find_encrypt impl with
  | None => SL [sx_id "0"; sx_id "no-encryption-dictionary"]
  | Some (eid, e) =>
    match read_params e with
    | None => SL [sx_id "0"; sx_id "unreadable-encryption-dictionary"]
    | Some ipL =>
      let id0 := file_id0 (d_trailer d) in
      let rnd := if (rq_R rq <=? 4)%Z then [skipn 16 (ip_U ipL)]
                 else [skipn 32 (ip_U ipL); skipn 32 (ip_O ipL);
                       skipn 12 (i_AES_D I (rq_fek rq) (ip_Perms ipL))] in
      let '(ip, fek) := make_params I rq id0 rnd in
      match params_diff ip ipL with
      | _ :: _ as l => SL (sx_id "0" :: sx_id "encryption-dictionary" :: l)
      | [] =>
        let ivs := flat_map (fun io => match lookup (d_objects impl) (fst io) with
                                       | Some o => ivs_of_indirect ip o
                                       | None => []
                                       end) (d_objects d) in
        let mine := fst (encrypt_objects I ip fek (d_objects d) ivs) in
        let theirs := match eid with Some i => remove (d_objects impl) i | None => d_objects impl end in
        let bad := filter (fun io => match lookup theirs (fst io) with
                                     | Some o => negb (obj_eqb (snd io) o)
                                     | None => true
                                     end) mine in
        match bad with
        | [] => if Nat.eqb (length mine) (length theirs) then sx_id "1" else SL [sx_id "0"; sx_id "object-count"]
        | io :: _ => SL [sx_id "0"; sx_id "object"; oid_to_sx (fst io)]
        end
      end
    end
  end.

(* (opts [(eff xNAME)] [direct]): an EFF entry; the encryption dictionary as a direct object of the trailer *)
Definition opt_eff (opts : list sx) : option bytes :=
  fold_left (fun acc o => match o with
                          | SL [t; n] => if is_id t "eff" then as_bytes n else acc
                          | _ => acc
                          end) opts None.
Definition opt_direct (opts : list sx) : bool := existsb (fun o => is_id o "direct") opts.

Definition with_eff (rq : irequest) (e : option bytes) : irequest :=
  {| rq_V := rq_V rq; rq_R := rq_R rq; rq_Length := rq_Length rq; rq_EncryptMetadata := rq_EncryptMetadata rq;
     rq_CF := rq_CF rq; rq_StmF := rq_StmF rq; rq_StrF := rq_StrF rq; rq_EFF := e; rq_owner := rq_owner rq;
     rq_user := rq_user rq; rq_P := rq_P rq; rq_fek := rq_fek rq |}.

(* len256: the entry "Length 256" most producers (Acrobat, qpdf) add to a V 5 dictionary.  Table 20 defines Length for
   V 2 and 3 only, so a reader ignores it there; the standard's writer (write_params) does not emit it *)
Definition opt_len256 (opts : list sx) : bool := existsb (fun o => is_id o "len256") opts.
Definition with_length256 (eid : option oid) (d : doc) : doc :=
  match eid with
  | Some id =>
    match lookup (d_objects d) id with
    | Some (ODict e) =>
      {| d_version := d_version d; d_binary_mark := d_binary_mark d; d_trailer := d_trailer d;
         d_objects := insert (d_objects d) id (ODict (dict_set e iK_Length (OInt 256))); d_max_id := d_max_id d |}
    | _ => d
    end
  | None =>
    match dict_get (d_trailer d) iK_Encrypt with
    | Some (ODict e) =>
      {| d_version := d_version d; d_binary_mark := d_binary_mark d;
         d_trailer := dict_set (d_trailer d) iK_Encrypt (ODict (dict_set e iK_Length (OInt 256)));
         d_objects := d_objects d; d_max_id := d_max_id d |}
    | _ => d
    end
  end.

Definition run_enc (d : doc) (rq : irequest) (rnd ivs : list bytes) (opts : list sx) : sx :=
  let rq := match opt_eff opts with Some e => with_eff rq (Some e) | None => rq end in
  let eid := if opt_direct opts then None else Some (d_max_id d + 1, 0) in
  let enc := encrypt_document I rq eid rnd ivs d in
  SL [sx_id "encdoc"; doc_to_sx (if opt_len256 opts then with_length256 eid enc else enc)].

Definition has_flag (x : sx) (f : String.string) : bool :=
  match x with SL l => existsb (fun y => is_id y f) l | _ => false end.
Arguments has_flag _ _%string_scope.

Definition pw_of_sx (x : sx) : option bytes :=
  match x with SL [_; p] => as_bytes p | _ => None end.

Definition run_case (dx vx lx : sx) (pws : list sx) (fl : sx) : sx :=
  match doc_of_sx dx, request_of_sx vx, doc_of_sx lx, omap pw_of_sx pws with
  | Some d, Some rq, Some impl, Some pws =>
    SL [sx_id "res";
        SL (sx_id "dec" :: map (fun pw => sx_opened (open_document I impl pw)) pws);
        SL [sx_id "reenc"; if has_flag fl "noreenc" then sx_id "skipped" else reenc d rq impl]]
  | _, _, _, _ => sx_id "badcase"
  end.

Definition is_some {A} (o : option A) : bool := match o with Some _ => true | None => false end.

Definition run_isoref (vx lx : sx) (pws : list sx) : sx :=
  match request_of_sx vx, doc_of_sx lx, omap as_bytes pws with
  | Some rq, Some impl, Some pws =>
    match find_encrypt impl with
    | None => SL [sx_id "isoref"; sx_id "unreadable"]
    | Some (_, e) =>
      match read_params e with
      | None => SL [sx_id "isoref"; sx_id "unreadable"]
      | Some ipL =>
        if (rq_R rq <=? 4)%Z then
          let id0 := file_id0 (d_trailer impl) in
          let '(ip, _) := make_params I rq id0 [skipn 16 (ip_U ipL)] in
          let a6 pw := alg6 I (ip_R ipL) (ip_Length ipL) (ip_O ipL) (ip_U ipL) (ip_P ipL) id0 (ip_EncryptMetadata ipL) pw in
          let a7 pw := alg7 I (ip_R ipL) (ip_Length ipL) (ip_O ipL) (ip_U ipL) (ip_P ipL) id0 (ip_EncryptMetadata ipL) pw in
          SL [sx_id "isoref"; SL [sx_id "o"; sx_bytes (ip_O ip)]; SL [sx_id "u"; sx_bytes (ip_U ip)];
              SL (sx_id "auth" :: map (fun pw => SL [sx_bytes pw; sx_bool (is_some (a6 pw)); sx_bool (is_some (a7 pw))]) pws)]
        else SL [sx_id "isoref"; sx_id "none"]
      end
    end
  | _, _, _ => sx_id "badcase"
  end.

Definition run (x : sx) : sx :=
  match x with
  | SL [t; vx; lx; SL (_ :: pws)] => if is_id t "isoref" then run_isoref vx lx pws else sx_id "badcase"
  | SL [t; dx; vx; rx; ix] =>
    if is_id t "enc" then
      match doc_of_sx dx, request_of_sx vx, bytes_list_of_sx rx, bytes_list_of_sx ix with
      | Some d, Some rq, Some rnd, Some ivs => run_enc d rq rnd ivs []
      | _, _, _, _ => sx_id "badcase"
      end
    else sx_id "badcase"
  | SL [t; dx; vx; rx; ix; SL (_ :: opts)] =>
    if is_id t "enc" then
      match doc_of_sx dx, request_of_sx vx, bytes_list_of_sx rx, bytes_list_of_sx ix with
      | Some d, Some rq, Some rnd, Some ivs => run_enc d rq rnd ivs opts
      | _, _, _, _ => sx_id "badcase"
      end
    else sx_id "badcase"
  | SL [t; dx; vx; _; lx; SL (_ :: pws); fl] => if is_id t "case" then run_case dx vx lx pws fl else sx_id "badcase"
  (* a seventh element (raw xTEXT ...): the Unicode texts of the passwords, for the harness only -- this side works
     on the prepared bytes *)
  | SL [t; dx; vx; _; lx; SL (_ :: pws); fl; _] => if is_id t "case" then run_case dx vx lx pws fl else sx_id "badcase"
  (* and an (isoref ...) element (the answer to an `isoref` line, see above): for the harness only as well *)
  | SL [t; dx; vx; _; lx; SL (_ :: pws); fl; _; _] => if is_id t "case" then run_case dx vx lx pws fl else sx_id "badcase"
  | _ => sx_id "badcase"
  end.

Definition run_line : bytes -> bytes := run_line_with run.
