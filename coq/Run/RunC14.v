(* RunC14.v -- runner for C14 (content streams).
   (enc (ops (op xOP operand ...) ...))  ->  (res xENCODED <dec>)
   (dec xBYTES)                          ->  (res2 <dec1> xREENCODED <dec2>)   (re-encode only when dec1 is ok)
   (decv xBYTES K)                       ->  as dec (K = number of operations the producer wrote; used by the harness only)
   (real xTEXT)                          ->  (real <is a source real: the real parser takes the whole text> <it overflows f32>)
   <dec> ::= (ops (op xOP operand ...) ...) | err | panic | out *)
From LV Require Import Base.Bytes Base.Sx Model.Obj Model.Writer Model.Parser.

Definition op_to_sx (o : operation) : sx :=
  SL (sx_id "op" :: sx_bytes (op_operator o) :: map obj_to_sx (op_operands o)).
Definition op_of_sx (x : sx) : option operation :=
  match x with
  | SL (t :: o :: args) =>
    if is_id t "op" then
      match as_bytes o, omap obj_of_sx args with
      | Some o, Some a => Some {| op_operator := o; op_operands := a |}
      | _, _ => None
      end
    else None
  | _ => None
  end.

Definition dec_to_sx (r : decode_res) : sx :=
  match r with
  | DecOk ops => SL (sx_id "ops" :: map op_to_sx ops)
  | DecErr => sx_id "err"
  | DecPanic => sx_id "panic"
  | DecOut => sx_id "out"
  end.

Definition run_dec (b : bytes) : sx :=
  let d1 := decode_content b in
  match d1 with
  | DecOk ops => let e := encode_content ops in
                 SL [sx_id "res2"; dec_to_sx d1; sx_bytes e; dec_to_sx (decode_content e)]
  | _ => SL [sx_id "res2"; dec_to_sx d1]
  end.

Definition run_real (t : bytes) : sx :=
  match real t with
  | POk _ [] => SL [sx_id "real"; sx_bool true; sx_bool (real_overflow t)]
  | _ => SL [sx_id "real"; sx_bool false; sx_bool false]
  end.

Definition run (x : sx) : sx :=
  match x with
  | SL (t :: SL (_ :: ops) :: _) =>
    if is_id t "enc" then
      match omap op_of_sx ops with
      | Some ops => let e := encode_content ops in SL [sx_id "res"; sx_bytes e; dec_to_sx (decode_content e)]
      | None => sx_id "badcase"
      end
    else sx_id "badcase"
  | SL [t; b] =>
    if is_id t "dec" then
      match as_bytes b with Some b => run_dec b | None => sx_id "badcase" end
    else if is_id t "real" then
      match as_bytes b with Some b => run_real b | None => sx_id "badcase" end
    else sx_id "badcase"
  | SL [t; b; _] =>
    if is_id t "decv" then
      match as_bytes b with Some b => run_dec b | None => sx_id "badcase" end
    else sx_id "badcase"
  | _ => sx_id "badcase"
  end.

Definition run_line : bytes -> bytes := run_line_with run.
