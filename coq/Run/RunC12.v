(* RunC12.v -- runner for C12: one case = a document; result = page_iter, get_pages and the size_hint of the
   fresh iterator and after every yielded page.
   A case may carry (edits ((id gen) obj) ...): objects that REPLACE existing objects in place (same identifiers: neither
   the number of objects nor max_id changes).  Then the result has a further element (after <page_iter> <get_pages>) =
   the enumeration and the numbering of the EDITED document: get_pages is a function of the document as it is at the time
   of the call. *)
From LV Require Import Base.Bytes Base.Sx Model.Obj Model.DocQ Model.PageTree Model.PageTreeHint.

Definition pages_sx (d : doc) : list sx :=
  [SL (map oid_to_sx (page_iter d));
   SL (map (fun p => SL [sx_N (fst p); oid_to_sx (snd p)]) (get_pages d))].

(* the first (edits ...) element of the case, if any *)
Fixpoint find_edits (l : list sx) : option (list sx) :=
  match l with
  | [] => None
  | SL (t :: es) :: l' => if is_id t "edits" then Some es else find_edits l'
  | _ :: l' => find_edits l'
  end.

(* in-place replacement: the identifier must exist *)
Definition apply_edits (d : doc) (es : list sx) : option doc :=
  fold_left (fun acc x =>
    match acc, x with
    | Some d, SL [id; o] =>
      match oid_of_sx id, obj_of_sx o with
      | Some id, Some o =>
        match lookup (d_objects d) id with
        | Some _ => Some {| d_version := d_version d; d_binary_mark := d_binary_mark d; d_trailer := d_trailer d;
                            d_objects := insert (d_objects d) id o; d_max_id := d_max_id d |}
        | None => None
        end
      | _, _ => None
      end
    | _, _ => None
    end) es (Some d).

Definition run (x : sx) : sx :=
  match (match x with SL (_ :: dx :: _) => doc_of_sx dx | _ => None end) with
  | None => sx_id "badcase"
  | Some d =>
    let base :=
      sx_id "pages" :: pages_sx d ++
        [let '(h0, steps) := page_hints d in
         SL (sx_id "hints" :: SL [sx_N (fst h0); sx_N (snd h0)] ::
             map (fun s => SL [oid_to_sx (fst s); sx_N (fst (snd s)); sx_N (snd (snd s))]) steps)] in
    match (match x with SL (_ :: _ :: rest) => find_edits rest | _ => None end) with
    | None => SL base
    | Some es =>
      match apply_edits d es with
      | None => sx_id "badcase"
      | Some d' => SL (base ++ [SL (sx_id "after" :: pages_sx d')])
      end
    end
  end.

Definition run_line : bytes -> bytes := run_line_with run.
