(* RunC12.v -- runner for C12: one case = a document; result = page_iter and get_pages. *)
From LV Require Import Base.Bytes Base.Sx Model.Obj Model.DocQ Model.PageTree.

Definition run (x : sx) : sx :=
  match (match x with SL (_ :: dx :: _) => doc_of_sx dx | _ => None end) with
  | None => sx_id "badcase"
  | Some d =>
    SL [sx_id "pages"; SL (map oid_to_sx (page_iter d));
        SL (map (fun p => SL [sx_N (fst p); oid_to_sx (snd p)]) (get_pages d))]
  end.

Definition run_line : bytes -> bytes := run_line_with run.
