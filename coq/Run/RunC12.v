(* RunC12.v -- runner for C12: one case = a document; result = page_iter, get_pages and the size_hint of the
   fresh iterator and after every yielded page. *)
From LV Require Import Base.Bytes Base.Sx Model.Obj Model.DocQ Model.PageTree Model.PageTreeHint.

Definition run (x : sx) : sx :=
  match (match x with SL (_ :: dx :: _) => doc_of_sx dx | _ => None end) with
  | None => sx_id "badcase"
  | Some d =>
    SL [sx_id "pages"; SL (map oid_to_sx (page_iter d));
        SL (map (fun p => SL [sx_N (fst p); oid_to_sx (snd p)]) (get_pages d));
        (let '(h0, steps) := page_hints d in
         SL (sx_id "hints" :: SL [sx_N (fst h0); sx_N (snd h0)] ::
             map (fun s => SL [oid_to_sx (fst s); sx_N (fst (snd s)); sx_N (snd (snd s))]) steps))]
  end.

Definition run_line : bytes -> bytes := run_line_with run.
