From Coq Require Extraction ExtrOcamlBasic.
From LV Require Import Base.Bytes Run.RunC03.
Extraction Language OCaml.
Extraction "runmod_c03.ml" run_line N_of_byte byte_of_N.
