From Coq Require Extraction ExtrOcamlBasic.
From LV Require Import Base.Bytes Run.RunC06.
Extraction Language OCaml.
Extraction "runmod_c06.ml" run_line N_of_byte byte_of_N.
