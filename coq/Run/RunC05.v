(* RunC05.v -- runner for C05 (security handler round trip).  Two kinds of lines:

   (enc <doc> <ver> (rnd xB ...) (ivs xB ...))
       encrypt <doc> with explicit randomness; answer (encdoc <doc'>) | (err C) | (panic)
   (case <doc> <ver> <encdoc> (pws xPW ...) (flags [noreenc] ...))
       <encdoc> is <doc> encrypted under <ver> by the implementation or by the model.
       answer (res (reenc b) (dec r ...)) where
         b = "skipped" with the flag noreenc, else 1 iff encrypting <doc> in the model, with the random choices read back from <encdoc>
             (U padding / salts / Perms filler / per-object IVs), reproduces <encdoc> exactly;
         r = outcome of decrypt(pw) on <encdoc> for each password:
             (ok <doc''> xFILEKEY) | (err C) | (panic) | (unmodelled)

   <ver> ::= (v1 xOWNER xUSER perms) | (v2 xOWNER xUSER keylen perms)
           | (v4 em <cfs> xSTMF xSTRF xOWNER xUSER perms)
           | (r5 em <cfs> xFEK xSTMF xSTRF xOWNER xUSER perms) | (v5 ... same ...)
   <cfs> ::= (cfs (xNAME id|rc4|aesv2|aesv3) ...) *)
From LV Require Import Base.Bytes Base.Sx Model.Obj Model.DocQ Gen.Crypto
  Model.Crypto.Word Model.Crypto.Handler Model.Crypto.Concrete.
Local Open Scope N_scope.

Definition P := concrete.

Definition cfm_of_sx (x : sx) : option cfm :=
  if is_id x "id" then Some CF_Identity
  else if is_id x "rc4" then Some CF_RC4
  else if is_id x "aesv2" then Some CF_AESV2
  else if is_id x "aesv3" then Some CF_AESV3
  else None.

Definition cfs_of_sx (x : sx) : option cfmap :=
  match x with
  | SL (_ :: l) =>
    fold_left (fun acc e =>
      match acc, e with
      | Some m, SL [n; f] => match as_bytes n, cfm_of_sx f with
                             | Some n, Some f => Some (bt_insert m n f) | _, _ => None end
      | _, _ => None
      end) l (Some [])
  | _ => None
  end.

Definition perms_of_sx (x : sx) : option N := option_map (fun n => N.land n PERM_FLAGS) (as_N x).

Definition ver_of_sx (x : sx) : option eversion :=
  match x with
  | SL [t; o; u; p] =>
    if is_id t "v1" then
      match as_bytes o, as_bytes u, perms_of_sx p with
      | Some o, Some u, Some p => Some (EV1 o u p) | _, _, _ => None end
    else None
  | SL [t; o; u; kl; p] =>
    if is_id t "v2" then
      match as_bytes o, as_bytes u, as_N kl, perms_of_sx p with
      | Some o, Some u, Some kl, Some p => Some (EV2 o u kl p) | _, _, _, _ => None end
    else None
  | SL [t; em; cfs; stmf; strf; o; u; p] =>
    if is_id t "v4" then
      match as_bool em, cfs_of_sx cfs, as_bytes stmf, as_bytes strf, as_bytes o, as_bytes u, perms_of_sx p with
      | Some em, Some cfs, Some stmf, Some strf, Some o, Some u, Some p => Some (EV4 em cfs stmf strf o u p)
      | _, _, _, _, _, _, _ => None end
    else None
  | SL [t; em; cfs; fek; stmf; strf; o; u; p] =>
    match as_bool em, cfs_of_sx cfs, as_bytes fek, as_bytes stmf, as_bytes strf, as_bytes o, as_bytes u, perms_of_sx p with
    | Some em, Some cfs, Some fek, Some stmf, Some strf, Some o, Some u, Some p =>
      if is_id t "r5" then Some (ER5 em cfs fek stmf strf o u p)
      else if is_id t "v5" then Some (EV5 em cfs fek stmf strf o u p)
      else None
    | _, _, _, _, _, _, _, _ => None end
  | _ => None
  end.

Definition bytes_list_of_sx (x : sx) : option (list bytes) :=
  match x with SL (_ :: l) => omap as_bytes l | _ => None end.

Definition err_name (e : err) : sx :=
  match e with
  | E_NotEncrypted => sx_id "NotEncrypted" | E_AlreadyEncrypted => sx_id "AlreadyEncrypted"
  | E_DictKey => sx_id "DictKey" | E_ObjectType => sx_id "ObjectType" | E_TryFromInt => sx_id "TryFromInt"
  | E_UnsupportedSecurityHandler => sx_id "UnsupportedSecurityHandler"
  | D_MissingEncryptDictionary => sx_id "MissingEncryptDictionary" | D_MissingVersion => sx_id "MissingVersion"
  | D_MissingRevision => sx_id "MissingRevision" | D_MissingOwnerPassword => sx_id "MissingOwnerPassword"
  | D_MissingUserPassword => sx_id "MissingUserPassword" | D_MissingPermissions => sx_id "MissingPermissions"
  | D_MissingFileID => sx_id "MissingFileID" | D_InvalidHashLength => sx_id "InvalidHashLength"
  | D_InvalidKeyLength => sx_id "InvalidKeyLength" | D_InvalidCipherTextLength => sx_id "InvalidCipherTextLength"
  | D_InvalidVersion => sx_id "InvalidVersion" | D_InvalidRevision => sx_id "InvalidRevision"
  | D_InvalidType => sx_id "InvalidType" | D_IncorrectPassword => sx_id "IncorrectPassword"
  | D_UnsupportedVersion => sx_id "UnsupportedVersion" | D_UnsupportedRevision => sx_id "UnsupportedRevision"
  | D_Padding => sx_id "Padding"
  end.

Definition sx_err (e : err) : sx := SL [sx_id "err"; err_name e].

(* the random choices visible in an encrypted document *)
Definition rnd_of_encdoc (v : eversion) (encd : doc) : list bytes :=
  match get_encrypted encd with
  | None => []
  | Some e =>
    let U := opt_str (dict_get e K_U) in
    let O := opt_str (dict_get e K_O) in
    let r6 fek := [skipn 32 U; skipn 32 O; skipn 12 (p_aes_dec P fek (opt_str (dict_get e K_Perms)))] in
    match v with
    | EV1 _ _ _ => []
    | EV2 _ _ _ _ => [skipn 16 U]
    | EV4 _ _ _ _ _ _ _ => [skipn 16 U]
    | ER5 _ _ fek _ _ _ _ _ => r6 fek
    | EV5 _ _ fek _ _ _ _ _ => r6 fek
    end
  end.

Definition ivs_of_encdoc (st : estate) (d encd : doc) : list bytes :=
  flat_map (fun io => match lookup (d_objects encd) (fst io) with
                      | Some o => collect_ivs st o
                      | None => []
                      end) (d_objects d).

Definition doc_eqb (a b : doc) : bool := bytes_eqb (sx_print (doc_to_sx a)) (sx_print (doc_to_sx b)).

Definition run_enc (d : doc) (v : eversion) (rnd ivs : list bytes) : sx :=
  match try_from_version P d v rnd with
  | Err e => sx_err e
  | Panic => SL [sx_id "panic"]
  | Ok st =>
    match doc_encrypt P st d ivs with
    | DOk d' _ => SL [sx_id "encdoc"; doc_to_sx d']
    | DErr e => sx_err e
    | DErrMid e => sx_err e
    | DPanic => SL [sx_id "panic"]
    end
  end.

Definition reenc_ok (d : doc) (v : eversion) (encd : doc) : bool :=
  match try_from_version P d v (rnd_of_encdoc v encd) with
  | Ok st =>
    match doc_encrypt P st d (ivs_of_encdoc st d encd) with
    | DOk d' _ => doc_eqb d' encd
    | _ => false
    end
  | _ => false
  end.

(* [P] carries no model of the stream filters ([p_decompress] answers None: right for a stream without Filter,
   where Stream::decompress fails in filters()).  decrypt_raw calls it on the streams of Type ObjStm only; a case
   in which such a stream has a Filter entry is answered "unmodelled" -- by the harness too, which looks at the
   same entry (names are not encrypted) -- and is judged by the direct verdict alone. *)
Definition filtered_objstm (d : doc) : bool :=
  existsb (fun io => match snd io with
                     | OStream sd _ => has_type sd N_ObjStm && dict_has sd K_Filter
                     | _ => false
                     end) (d_objects d).

Definition run_dec (encd : doc) (pw : bytes) : sx :=
  match doc_decrypt P encd pw with
  | DOk d' st => if filtered_objstm encd then SL [sx_id "unmodelled"]
                 else SL [sx_id "ok"; doc_to_sx d'; sx_bytes (es_key st)]
  | DErr e => sx_err e
  | DErrMid e => sx_err e
  | DPanic => SL [sx_id "panic"]
  end.

Definition has_flag (x : sx) (f : String.string) : bool :=
  match x with SL l => existsb (fun y => is_id y f) l | _ => false end.
Arguments has_flag _ _%string_scope.

Definition run (x : sx) : sx :=
  match x with
  | SL (t :: dx :: vx :: rx :: ix :: rest) =>
    if is_id t "enc" then
      match doc_of_sx dx, ver_of_sx vx, bytes_list_of_sx rx, bytes_list_of_sx ix with
      | Some d, Some v, Some rnd, Some ivs => run_enc d v rnd ivs
      | _, _, _, _ => sx_id "badcase"
      end
    else if is_id t "case" then
      match doc_of_sx dx, ver_of_sx vx, doc_of_sx rx, bytes_list_of_sx ix with
      | Some d, Some v, Some encd, Some pws =>
        let noreenc := match rest with f :: _ => has_flag f "noreenc" | [] => false end in
        SL [sx_id "res";
            SL [sx_id "reenc"; if noreenc then sx_id "skipped" else sx_bool (reenc_ok d v encd)];
            SL (sx_id "dec" :: map (run_dec encd) pws)]
      | _, _, _, _ => sx_id "badcase"
      end
    else sx_id "badcase"
  | _ => sx_id "badcase"
  end.

Definition run_line : bytes -> bytes := run_line_with run.
