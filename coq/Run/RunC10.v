(* RunC10.v -- runner for C10.  Case:
     (case <ver> (rdoc <doc> (bms (<parent> (<num> <gen>)) ...)) <start>)
   ver = v1 (the model of the current code, with the i32 page counter) | v0 (the model of the pinned, unrepaired code)
       | vd (the model before the repair of dangling-in-range, Model/RenumberV1.v)
       | kc (no renumbering: evaluate the known-finding class predicate KnownClass of Props/C10.v on the
         input, result (known 0|1); props/c10.py checks its Python mirror `classify` against it);
   bookmarks are added one by one with add_bookmark (parent = none | <bookmark id>).
   Result: (done <doc'> (bm (<id> (<child>...) (<num> <gen>)) ...) (pages (<num> <gen>)...))
         | (panic) | (stackoverflow) | (outoffuel) | badcase *)
From LV Require Import Base.Bytes Base.Sx Model.Obj Model.DocQ Model.PageTree Model.Traverse
  Model.Renumber Model.RenumberV0 Model.RenumberV1 Proofs.RenumberProofsTop.

Definition bm_spec_of_sx (x : sx) : option (option N * oid) :=
  match x with
  | SL [p; pg] =>
    match oid_of_sx pg with
    | Some pg => if is_id p "none" then Some (None, pg)
                 else match as_N p with Some n => Some (Some n, pg) | None => None end
    | None => None
    end
  | _ => None
  end.

Definition rdoc_of_sx (x : sx) : option rdoc :=
  match x with
  | SL [tag; dx; SL (_ :: bms)] =>
    if is_id tag "rdoc" then
      match doc_of_sx dx, omap bm_spec_of_sx bms with
      | Some d, Some specs =>
        Some (fold_left (fun acc s => add_bookmark acc (snd s) (fst s)) specs
                {| base := d; max_bookmark_id := 0; bookmarks := []; bm_table := [] |})
      | _, _ => None
      end
    else None
  | _ => None
  end.

Definition bm_to_sx (kb : N * bookmark) : sx :=
  SL [sx_N (fst kb); SL (map sx_N (bm_children (snd kb))); oid_to_sx (bm_page (snd kb))].

Definition outcome_to_sx (o : outcome) : sx :=
  match o with
  | Done d => SL [sx_id "done"; doc_to_sx (base d); SL (sx_id "bm" :: map bm_to_sx (bm_table d));
                  SL (sx_id "pages" :: map oid_to_sx (page_iter (base d)))]
  | Panic => SL [sx_id "panic"]
  | StackOverflow => SL [sx_id "stackoverflow"]
  | OutOfFuel => SL [sx_id "outoffuel"]
  end.

Definition run (x : sx) : sx :=
  match x with
  | SL [_; ver; rx; st] =>
    match rdoc_of_sx rx, as_N st with
    | Some d, Some start =>
      if is_id ver "v0" then outcome_to_sx (renumber_objects_with_v0 start d)
      else if is_id ver "v1" then outcome_to_sx (renumber_objects_with_i32 start d)
      else if is_id ver "vd" then outcome_to_sx (renumber_objects_with_v1 start d)
      else if is_id ver "kc" then SL [sx_id "known"; sx_N (if KnownClass start d then 1 else 0)]
      else sx_id "badcase"
    | _, _ => sx_id "badcase"
    end
  | _ => sx_id "badcase"
  end.

Definition run_line : bytes -> bytes := run_line_with run.
