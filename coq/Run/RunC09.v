(* RunC09.v -- runner for C09.  Cases (see harness/src/bin/c09.rs):
     (case stream <st> <orc> <expect> xNEW) | (case row t bpp xPREV xCUR <expect>) | (case frame bpp ppr xC <expect>)
     | (case paeth lo hi) | (case doc <doc> (nocomp (i g)...) <orc>)
     | (case lzwrt ec limit xDATA (encs xE...)) | (case lzwdec ec xE) | (case zrt k xDATA (encs xE...)) | (case zdec xE)
       : the executable codecs of Spec/LzwSpec.v and Spec/Inflate.v against weezl and flate2 (the encoders' output for
         DATA, and the decoders' answers on the streams E: the spec's own, the crates', the Python references')
     | (case lzwenc ec limit xDATA) | (case zenc k xDATA) : generator queries, answered by the spec encoders only
     | (case big stream ..) | (case big doc ..) | (case big zrtn DATA (encs xE...)) | (case big lzwrtn ec DATA (encs xE...))
     | (case big echo DATA) : large, highly compressible data written as forms (rep / cat), results rendered run by run
       (section "large, highly compressible data" below) | (case bigd ..) : the same on the implementation only
   The third-party oracles are instantiated by the table <orc> = (orc (tag xIN xOUT)...), tags f / l0 / l1 / z,
   which the generator fills with reference answers (Python zlib, reference LZW) or with flate2's / weezl's own
   answers (harness oracle mode).  A missing entry yields the bytes "ORACLE-MISS", which can never agree. *)
From LV Require Import Base.Bytes Base.Sx Model.Obj Gen.Filters Model.A85 Model.Png Model.StreamFilt.
From LV Require Spec.LzwSpec Spec.Inflate Spec.ZlibStoredSpec.

Definition orc := list (bytes * bytes * bytes).

Definition orc_of_sx (x : sx) : option orc :=
  match x with
  | SL (_ :: es) =>
    omap (fun e => match e with
                   | SL [SA t; i; o] => match as_bytes i, as_bytes o with
                                        | Some i, Some o => Some (t, i, o)
                                        | _, _ => None
                                        end
                   | _ => None
                   end) es
  | _ => None
  end.

Definition MISS : bytes := Eval cbv in bs "ORACLE-MISS".

Fixpoint orc_get (t : bytes) (tbl : orc) (i : bytes) : bytes :=
  match tbl with
  | [] => MISS
  | (t', i', o) :: r => if bytes_eqb t t' && bytes_eqb i i' then o else orc_get t r i
  end.

Definition T_f := Eval cbv in bs "f".
Definition T_l0 := Eval cbv in bs "l0".
Definition T_l1 := Eval cbv in bs "l1".
Definition T_z := Eval cbv in bs "z".

Definition o_inflate (tbl : orc) : bytes -> bytes := orc_get T_f tbl.
Definition o_lzw (tbl : orc) (e : bool) : bytes -> bytes := orc_get (if e then T_l1 else T_l0) tbl.
Definition o_deflate (tbl : orc) : bytes -> bytes := orc_get T_z tbl.

Definition err_sx (e : err) : sx :=
  match e with
  | EDictKey => sx_id "dictkey" | EType => sx_id "type" | EUnimpl => sx_id "unimpl" | EA85 => sx_id "a85"
  | EIoEof => sx_id "io-eof" | EIoData => sx_id "io-data" | EIoOther => sx_id "io-other"
  end.

Definition res_sx {A} (f : A -> list sx) (r : res A) : sx :=
  match r with
  | Ok a => SL (sx_id "ok" :: f a)
  | Err e => SL [sx_id "err"; err_sx e]
  | Panic => sx_id "panic"
  | Fuel => sx_id "fuel"
  end.

Definition rbytes_sx (r : res bytes) : sx := res_sx (fun b => [sx_bytes b]) r.
Definition st_sx (s : stream) : sx := obj_to_sx (OStream (s_dict s) (s_content s)).

(* [pb] prints a byte string (sx_bytes for the ordinary cases; the run-length form below for the large cases) *)
Definition rbytes_sx_with (pb : bytes -> sx) (r : res bytes) : sx := res_sx (fun b => [pb b]) r.
Definition st_sx_with (pb : bytes -> sx) (s : stream) : sx :=
  match obj_to_sx (OStream (s_dict s) []) with
  | SL [t; d; _] => SL [t; d; pb (s_content s)]
  | x => x
  end.

Definition run_stream_with (pb : bytes -> sx) (d : dict) (c : bytes) (tbl : orc) (newc : bytes) : sx :=
  let s := {| s_dict := d; s_content := c |} in
  let inf := o_inflate tbl in
  let lz := o_lzw tbl in
  let de := o_deflate tbl in
  let cs := compress de s in
  SL [sx_id "stream";
      SL [sx_id "filters"; res_sx (map sx_bytes) (filters d)];
      SL [sx_id "dec"; rbytes_sx_with pb (decompressed_content inf lz s)];
      SL [sx_id "plain"; rbytes_sx_with pb (get_plain_content inf lz s)];
      SL [sx_id "decompress"; res_sx (fun s' => [st_sx_with pb s']) (decompress inf lz s)];
      SL [sx_id "compress"; match get_plain_content inf lz cs with
                            | Panic => sx_id "panic"       (* the harness decodes inside the same guarded call *)
                            | r => SL [st_sx_with pb cs; rbytes_sx_with pb r]
                            end];
      SL [sx_id "setc"; st_sx_with pb (set_content s newc)];
      SL [sx_id "setp"; st_sx_with pb (set_plain_content s newc)]].

Definition run_stream : dict -> bytes -> orc -> bytes -> sx := run_stream_with sx_bytes.

Definition ftype_of_case (n : N) : option ftype := ftype_of_N n.

(* for k = start .. start+n-1 *)
Fixpoint upto (n : nat) (start : N) (f : N -> N -> N) (acc : N) : N :=
  match n with
  | O => acc
  | S n' => upto n' (start + 1)%N f (f start acc)
  end.

Definition paeth_via_row (l a ul : N) : N :=
  match decode_row FPaeth 1 [byte_of_N ul; byte_of_N a] [byte_of_N (l + 256 - ul); x00] with
  | Ok [_; p] => N_of_byte p
  | _ => 999%N
  end.

Definition paeth_sum (lo : N) (cnt : nat) : N :=
  upto cnt lo (fun l acc =>
    upto 256 0%N (fun a acc =>
      upto 256 0%N (fun ul acc => ((acc * 31 + paeth_via_row l a ul) mod 4294967296)%N) acc) acc) 0%N.

Definition nocomp_of_sx (x : sx) : list oid :=
  match x with
  | SL (_ :: l) => fold_right (fun e acc => match oid_of_sx e with Some i => i :: acc | None => acc end) [] l
  | _ => []
  end.

Definition set_objects (d : doc) (m : objmap) : doc :=
  {| d_version := d_version d; d_binary_mark := d_binary_mark d; d_trailer := d_trailer d;
     d_objects := m; d_max_id := d_max_id d |}.

(* ---- the executable codecs of Spec/LzwSpec.v and Spec/Inflate.v ---- *)
Definition obytes_sx (r : option bytes) : sx :=
  match r with Some b => SL [sx_id "ok"; sx_bytes b] | None => sx_id "err" end.

Definition encs_of_sx (x : sx) : option (list bytes) :=
  match x with SL (_ :: es) => omap as_bytes es | _ => None end.

Definition run_codec (kind : bytes) (args : list sx) : sx :=
  if bytes_eqb kind (bs "lzwenc") then
    match args with
    | [ex; lx; dx] =>
      match as_N ex, as_N lx, as_bytes dx with
      | Some e, Some limit, Some data => SL [sx_id "lzwenc"; sx_bytes (LzwSpec.lzw_encode_lim limit (negb (e =? 0)%N) data)]
      | _, _, _ => sx_id "badcase"
      end
    | _ => sx_id "badcase"
    end
  else if bytes_eqb kind (bs "lzwrt") then
    match args with
    | [ex; lx; dx; encs] =>
      match as_N ex, as_N lx, as_bytes dx, encs_of_sx encs with
      | Some e, Some limit, Some data, Some es =>
        let ec := negb (e =? 0)%N in
        SL (sx_id "lzwrt" :: sx_bytes (LzwSpec.lzw_encode_lim limit ec data) :: map (fun x => obytes_sx (LzwSpec.lzw_decode ec x)) es)
      | _, _, _, _ => sx_id "badcase"
      end
    | _ => sx_id "badcase"
    end
  else if bytes_eqb kind (bs "lzwdec") then
    match args with
    | [ex; dx] =>
      match as_N ex, as_bytes dx with
      | Some e, Some data => SL [sx_id "lzwdec"; obytes_sx (LzwSpec.lzw_decode (negb (e =? 0)%N) data)]
      | _, _ => sx_id "badcase"
      end
    | _ => sx_id "badcase"
    end
  else if bytes_eqb kind (bs "zenc") then
    match args with
    | [kx; dx] =>
      match as_N kx, as_bytes dx with
      | Some k, Some data => SL [sx_id "zenc"; sx_bytes (ZlibStoredSpec.zlib_stored k data)]
      | _, _ => sx_id "badcase"
      end
    | _ => sx_id "badcase"
    end
  else if bytes_eqb kind (bs "zrt") then
    match args with
    | [kx; dx; encs] =>
      match as_N kx, as_bytes dx, encs_of_sx encs with
      | Some k, Some data, Some es =>
        SL (sx_id "zrt" :: sx_bytes (ZlibStoredSpec.zlib_stored k data) :: map (fun x => obytes_sx (Inflate.inflate x)) es)
      | _, _, _ => sx_id "badcase"
      end
    | _ => sx_id "badcase"
    end
  else if bytes_eqb kind (bs "zdec") then
    match args with
    | [dx] =>
      match as_bytes dx with
      | Some data => SL [sx_id "zdec"; obytes_sx (Inflate.inflate data)]
      | None => sx_id "badcase"
      end
    | _ => sx_id "badcase"
    end
  else sx_id "badcase".

(* ---- large, highly compressible data: (case big <kind> ...) ----
   Deflate reaches about 1000 : 1 on runs of equal bytes (blank scans, zero padding), LZW several hundred : 1.  Such data is
   written compactly in the case and expanded here exactly as in the harness (c09.rs `expand`) and in the generator:
     form ::= xHEX | (rep form n) -- n copies | (cat form ...) -- concatenation
   and results longer than BIG_ATOM bytes are printed run by run: (rl LENGTH item ...), item = xHEX literal bytes |
   (xPATTERN total) a stretch of period |PATTERN|; an exact, compact rendering (no checksum).  Everything below is tail recursive on the data: the extracted runner has an 8 MB stack. *)
Definition rep_bytes (pat : bytes) (n : N) : bytes :=
  let rp := rev_append pat [] in N.iter n (fun acc => rev_append rp acc) [].

Fixpoint bytes_form (x : sx) : option bytes :=
  match x with
  | SA _ => as_bytes x
  | SL (SA t :: args) =>
    if bytes_eqb t (bs "rep") then
      match args with
      | [p; n] => match bytes_form p, as_N n with Some p, Some n => Some (rep_bytes p n) | _, _ => None end
      | _ => None
      end
    else if bytes_eqb t (bs "cat") then
      (fix go (l : list sx) (acc : bytes) : option bytes :=
         match l with
         | [] => Some (rev_append acc [])
         | y :: l' => match bytes_form y with Some b => go l' (rev_append b acc) | None => None end
         end) args []
    else None
  | _ => None
  end.

Definition lenN (s : bytes) : N := fold_left (fun n _ => N.succ n) s 0%N.

(* the run-by-run rendering: at a position where, for the first lag p of LAGS, the bytes repeat with period p over at
   least MINSEG bytes (s[j] = s[j-p] for as long as it holds), the item (xPATTERN total) -- PATTERN = the first p bytes,
   total = the length of the stretch -- and the stretch is skipped; other bytes are collected into literal items xHEX.
   A constant run is lag 1, one colour of 3 / 4 / 6 / 8 bytes a pixel the lag of that size. *)
Definition LAGS : list nat := [1; 2; 3; 4; 6; 8]%nat.
Definition MINSEG : N := 64.

Fixpoint lag_run (a b : bytes) (n : N) : N :=
  match a, b with
  | x :: a', y :: b' => if byte_eqb x y then lag_run a' b' (N.succ n) else n
  | _, _ => n
  end.

Fixpoint find_lag (s : bytes) (ps : list nat) : option (nat * N) :=
  match ps with
  | [] => None
  | p :: ps' =>
    let total := (N.of_nat p + lag_run (skipn p s) s 0)%N in
    if (MINSEG <=? total)%N then Some (p, total) else find_lag s ps'
  end.

Definition flush_lit (lit : bytes) (acc : list sx) : list sx :=
  match lit with [] => acc | _ => sx_bytes (rev_append lit []) :: acc end.

(* [skip] bytes still belong to the stretch found last; [lit] reversed literal under construction; [acc] reversed items *)
Fixpoint rle_go (s : bytes) (skip : N) (lit : bytes) (acc : list sx) : list sx :=
  match s with
  | [] => rev_append (flush_lit lit acc) []
  | b :: s' =>
    if (0 <? skip)%N then rle_go s' (N.pred skip) lit acc
    else match find_lag s LAGS with
         | Some (p, total) => rle_go s' (N.pred total) [] (SL [sx_bytes (firstn p s); sx_N total] :: flush_lit lit acc)
         | None => rle_go s' 0%N (b :: lit) acc
         end
  end.

Definition rle_sx (s : bytes) : sx := SL (sx_id "rl" :: sx_N (lenN s) :: rle_go s 0%N [] []).

Definition BIG_ATOM : N := 16384.
Definition big_bytes_sx (s : bytes) : sx := if (BIG_ATOM <? lenN s)%N then rle_sx s else sx_bytes s.

Definition orc_of_sx_big (x : sx) : option orc :=
  match x with
  | SL (_ :: es) =>
    omap (fun e => match e with
                   | SL [SA t; i; o] => match bytes_form i, bytes_form o with
                                        | Some i, Some o => Some (t, i, o)
                                        | _, _ => None
                                        end
                   | _ => None
                   end) es
  | _ => None
  end.

(* an object whose stream content may be a form *)
Definition obj_of_sx_big (x : sx) : option obj :=
  match x with
  | SL [SA t; dx; cx] =>
    if bytes_eqb t (bs "st") then
      match dict_of_sx dx, bytes_form cx with Some d, Some c => Some (OStream d c) | _, _ => None end
    else obj_of_sx x
  | _ => obj_of_sx x
  end.

Definition objmap_of_sx_big (l : list sx) : option objmap :=
  fold_left (fun acc x =>
    match acc, x with
    | Some m, SL [id; o] => match oid_of_sx id, obj_of_sx_big o with
                           | Some id, Some o => Some (insert m id o) | _, _ => None end
    | _, _ => None
    end) l (Some []).

Definition obj_sx_big (o : obj) : sx :=
  match o with
  | OStream d c => st_sx_with big_bytes_sx {| s_dict := d; s_content := c |}
  | _ => obj_to_sx o
  end.

(* doc_to_sx with big_bytes_sx for the stream contents; [mk] is the sx the document came from (version, mark, trailer, max id echoed) *)
Definition doc_sx_big (hd : list sx) (mx : sx) (m : objmap) : sx :=
  SL (sx_id "doc" :: hd ++ [SL (sx_id "objs" :: map (fun io => SL [oid_to_sx (fst io); obj_sx_big (snd io)]) m); mx]).

Definition obytes_sx_big (r : option bytes) : sx :=
  match r with Some b => SL [sx_id "ok"; big_bytes_sx b] | None => sx_id "err" end.

Definition run_big (kind : bytes) (args : list sx) : sx :=
  if bytes_eqb kind (bs "stream") then
    match args with
    | SL [SA t; dx; cx] :: ox :: _ :: nx :: _ =>
      match dict_of_sx dx, bytes_form cx, orc_of_sx_big ox, as_bytes nx with
      | Some d, Some c, Some tbl, Some newc =>
        if bytes_eqb t (bs "st") then run_stream_with big_bytes_sx d c tbl newc else sx_id "badcase"
      | _, _, _, _ => sx_id "badcase"
      end
    | _ => sx_id "badcase"
    end
  else if bytes_eqb kind (bs "doc") then
    match args with
    | SL [tag; v; bm; tr; SL (_ :: os); mx] :: ncx :: ox :: _ =>
      match objmap_of_sx_big os, orc_of_sx_big ox with
      | Some m0, Some tbl =>
        let m1 := doc_compress (o_deflate tbl) (nocomp_of_sx ncx) m0 in
        SL [sx_id "doc2"; doc_sx_big [v; bm; tr] mx m1;
            match doc_decompress (o_inflate tbl) (o_lzw tbl) m1 with
            | Ok m2 => doc_sx_big [v; bm; tr] mx m2
            | Err e => err_sx e | Panic => sx_id "panic" | Fuel => sx_id "fuel"
            end]
      | _, _ => sx_id "badcase"
      end
    | _ => sx_id "badcase"
    end
  else if bytes_eqb kind (bs "echo") then
    match args with
    | [fx] => match bytes_form fx with Some b => SL [sx_id "echo"; rle_sx b] | None => sx_id "badcase" end
    | _ => sx_id "badcase"
    end
  else if bytes_eqb kind (bs "zrtn") then
    (* the Gallina inflate itself on streams of a very high ratio (no stored-block encoder part) *)
    match args with
    | [_; encs] =>
      match encs_of_sx encs with
      | Some es => SL (sx_id "zrtn" :: map (fun x => obytes_sx_big (Inflate.inflate x)) es)
      | None => sx_id "badcase"
      end
    | _ => sx_id "badcase"
    end
  else if bytes_eqb kind (bs "lzwrtn") then
    match args with
    | [ex; _; encs] =>
      match as_N ex, encs_of_sx encs with
      | Some e, Some es => SL (sx_id "lzwrtn" :: map (fun x => obytes_sx_big (LzwSpec.lzw_decode (negb (e =? 0)%N) x)) es)
      | _, _ => sx_id "badcase"
      end
    | _ => sx_id "badcase"
    end
  else sx_id "badcase".

Definition run (x : sx) : sx :=
  match x with
  | SL (_ :: SA kind :: args) =>
    if bytes_eqb kind (bs "big") then
      match args with
      | SA k2 :: args2 => SL [sx_id "big"; run_big k2 args2]
      | _ => sx_id "badcase"
      end
    else if bytes_eqb kind (bs "bigd") then
      (* a large case the generator chose to run on the implementation only (ordinary page geometries: the model's frame_go
         measures the remaining data once a row, minutes for a megabyte); its direct verdict decides, nothing is compared *)
      sx_id "model-skipped"
    else
    if bytes_eqb kind (bs "stream") then
      match args with
      | stx :: ox :: _ :: nx :: _ =>
        match obj_of_sx stx, orc_of_sx ox, as_bytes nx with
        | Some (OStream d c), Some tbl, Some newc => run_stream d c tbl newc
        | _, _, _ => sx_id "badcase"
        end
      | _ => sx_id "badcase"
      end
    else if bytes_eqb kind (bs "row") then
      match args with
      | tx :: bx :: px :: cx :: _ =>
        match obind (as_N tx) ftype_of_case, as_N bx, as_bytes px, as_bytes cx with
        | Some t, Some bpp, Some prev, Some cur =>
          SL [sx_id "row"; match decode_row t bpp prev cur with
                           | Ok r => sx_bytes r | Err e => err_sx e | Panic => sx_id "panic" | Fuel => sx_id "fuel" end]
        | _, _, _, _ => sx_id "badcase"
        end
      | _ => sx_id "badcase"
      end
    else if bytes_eqb kind (bs "frame") then
      match args with
      | bx :: px :: cx :: _ =>
        match as_N bx, as_N px, as_bytes cx with
        | Some bpp, Some ppr, Some content => SL [sx_id "frame"; rbytes_sx (decode_frame content bpp ppr)]
        | _, _, _ => sx_id "badcase"
        end
      | _ => sx_id "badcase"
      end
    else if bytes_eqb kind (bs "paeth") then
      match args with
      | [lx; hx] =>
        match as_N lx, as_N hx with
        | Some lo, Some hi =>
          if (lo <=? hi)%N && (hi <=? 256)%N then SL [sx_id "paeth"; sx_N (paeth_sum lo (N.to_nat (hi - lo)))]
          else sx_id "badcase"
        | _, _ => sx_id "badcase"
        end
      | _ => sx_id "badcase"
      end
    else if bytes_eqb kind (bs "doc") then
      match args with
      | dx :: ncx :: ox :: _ =>
        match doc_of_sx dx, orc_of_sx ox with
        | Some d, Some tbl =>
          let m1 := doc_compress (o_deflate tbl) (nocomp_of_sx ncx) (d_objects d) in
          SL [sx_id "doc2"; doc_to_sx (set_objects d m1);
              match doc_decompress (o_inflate tbl) (o_lzw tbl) m1 with
              | Ok m2 => doc_to_sx (set_objects d m2)
              | Err e => err_sx e | Panic => sx_id "panic" | Fuel => sx_id "fuel"
              end]
        | _, _ => sx_id "badcase"
        end
      | _ => sx_id "badcase"
      end
    else run_codec kind args
  | _ => sx_id "badcase"
  end.

Definition run_line : bytes -> bytes := run_line_with run.
