(* RunC09.v -- runner for C09.  Cases (see harness/src/bin/c09.rs):
     (case stream <st> <orc> <expect> xNEW) | (case row t bpp xPREV xCUR <expect>) | (case frame bpp ppr xC <expect>)
     | (case paeth lo hi) | (case doc <doc> (nocomp (i g)...) <orc>)
     | (case lzwrt ec limit xDATA (encs xE...)) | (case lzwdec ec xE) | (case zrt k xDATA (encs xE...)) | (case zdec xE)
       : the executable codecs of Spec/LzwSpec.v and Spec/Inflate.v against weezl and flate2 (the encoders' output for
         DATA, and the decoders' answers on the streams E: the spec's own, the crates', the Python references')
     | (case lzwenc ec limit xDATA) | (case zenc k xDATA) : generator queries, answered by the spec encoders only
   The third-party oracles are instantiated by the table <orc> = (orc (tag xIN xOUT)...), tags f / l0 / l1 / z,
   which the generator fills with reference answers (Python zlib, reference LZW) or with flate2's / weezl's own
   answers (harness oracle mode).  A missing entry yields the bytes "ORACLE-MISS", which can never agree. *)
From LV Require Import Base.Bytes Base.Sx Model.Obj Gen.Filters Model.A85 Model.Png Model.StreamFilt.
From LV Require Spec.LzwSpec Spec.Inflate Spec.ZlibStoredSpec.

Definition orc := list (bytes * bytes * bytes).

Definition orc_of_sx (x : sx) : option orc :=
  match x with
  | SL (_ :: es) =>
    omap (fun e => match e with
                   | SL [SA t; i; o] => match as_bytes i, as_bytes o with
                                        | Some i, Some o => Some (t, i, o)
                                        | _, _ => None
                                        end
                   | _ => None
                   end) es
  | _ => None
  end.

Definition MISS : bytes := Eval cbv in bs "ORACLE-MISS".

Fixpoint orc_get (t : bytes) (tbl : orc) (i : bytes) : bytes :=
  match tbl with
  | [] => MISS
  | (t', i', o) :: r => if bytes_eqb t t' && bytes_eqb i i' then o else orc_get t r i
  end.

Definition T_f := Eval cbv in bs "f".
Definition T_l0 := Eval cbv in bs "l0".
Definition T_l1 := Eval cbv in bs "l1".
Definition T_z := Eval cbv in bs "z".

Definition o_inflate (tbl : orc) : bytes -> bytes := orc_get T_f tbl.
Definition o_lzw (tbl : orc) (e : bool) : bytes -> bytes := orc_get (if e then T_l1 else T_l0) tbl.
Definition o_deflate (tbl : orc) : bytes -> bytes := orc_get T_z tbl.

Definition err_sx (e : err) : sx :=
  match e with
  | EDictKey => sx_id "dictkey" | EType => sx_id "type" | EUnimpl => sx_id "unimpl" | EA85 => sx_id "a85"
  | EIoEof => sx_id "io-eof" | EIoData => sx_id "io-data" | EIoOther => sx_id "io-other"
  end.

Definition res_sx {A} (f : A -> list sx) (r : res A) : sx :=
  match r with
  | Ok a => SL (sx_id "ok" :: f a)
  | Err e => SL [sx_id "err"; err_sx e]
  | Panic => sx_id "panic"
  | Fuel => sx_id "fuel"
  end.

Definition rbytes_sx (r : res bytes) : sx := res_sx (fun b => [sx_bytes b]) r.
Definition st_sx (s : stream) : sx := obj_to_sx (OStream (s_dict s) (s_content s)).

Definition run_stream (d : dict) (c : bytes) (tbl : orc) (newc : bytes) : sx :=
  let s := {| s_dict := d; s_content := c |} in
  let inf := o_inflate tbl in
  let lz := o_lzw tbl in
  let de := o_deflate tbl in
  let cs := compress de s in
  SL [sx_id "stream";
      SL [sx_id "filters"; res_sx (map sx_bytes) (filters d)];
      SL [sx_id "dec"; rbytes_sx (decompressed_content inf lz s)];
      SL [sx_id "plain"; rbytes_sx (get_plain_content inf lz s)];
      SL [sx_id "decompress"; res_sx (fun s' => [st_sx s']) (decompress inf lz s)];
      SL [sx_id "compress"; match get_plain_content inf lz cs with
                            | Panic => sx_id "panic"       (* the harness decodes inside the same guarded call *)
                            | r => SL [st_sx cs; rbytes_sx r]
                            end];
      SL [sx_id "setc"; st_sx (set_content s newc)];
      SL [sx_id "setp"; st_sx (set_plain_content s newc)]].

Definition ftype_of_case (n : N) : option ftype := ftype_of_N n.

(* for k = start .. start+n-1 *)
Fixpoint upto (n : nat) (start : N) (f : N -> N -> N) (acc : N) : N :=
  match n with
  | O => acc
  | S n' => upto n' (start + 1)%N f (f start acc)
  end.

Definition paeth_via_row (l a ul : N) : N :=
  match decode_row FPaeth 1 [byte_of_N ul; byte_of_N a] [byte_of_N (l + 256 - ul); x00] with
  | Ok [_; p] => N_of_byte p
  | _ => 999%N
  end.

Definition paeth_sum (lo : N) (cnt : nat) : N :=
  upto cnt lo (fun l acc =>
    upto 256 0%N (fun a acc =>
      upto 256 0%N (fun ul acc => ((acc * 31 + paeth_via_row l a ul) mod 4294967296)%N) acc) acc) 0%N.

Definition nocomp_of_sx (x : sx) : list oid :=
  match x with
  | SL (_ :: l) => fold_right (fun e acc => match oid_of_sx e with Some i => i :: acc | None => acc end) [] l
  | _ => []
  end.

Definition set_objects (d : doc) (m : objmap) : doc :=
  {| d_version := d_version d; d_binary_mark := d_binary_mark d; d_trailer := d_trailer d;
     d_objects := m; d_max_id := d_max_id d |}.

(* ---- the executable codecs of Spec/LzwSpec.v and Spec/Inflate.v ---- *)
Definition obytes_sx (r : option bytes) : sx :=
  match r with Some b => SL [sx_id "ok"; sx_bytes b] | None => sx_id "err" end.

Definition encs_of_sx (x : sx) : option (list bytes) :=
  match x with SL (_ :: es) => omap as_bytes es | _ => None end.

Definition run_codec (kind : bytes) (args : list sx) : sx :=
  if bytes_eqb kind (bs "lzwenc") then
    match args with
    | [ex; lx; dx] =>
      match as_N ex, as_N lx, as_bytes dx with
      | Some e, Some limit, Some data => SL [sx_id "lzwenc"; sx_bytes (LzwSpec.lzw_encode_lim limit (negb (e =? 0)%N) data)]
      | _, _, _ => sx_id "badcase"
      end
    | _ => sx_id "badcase"
    end
  else if bytes_eqb kind (bs "lzwrt") then
    match args with
    | [ex; lx; dx; encs] =>
      match as_N ex, as_N lx, as_bytes dx, encs_of_sx encs with
      | Some e, Some limit, Some data, Some es =>
        let ec := negb (e =? 0)%N in
        SL (sx_id "lzwrt" :: sx_bytes (LzwSpec.lzw_encode_lim limit ec data) :: map (fun x => obytes_sx (LzwSpec.lzw_decode ec x)) es)
      | _, _, _, _ => sx_id "badcase"
      end
    | _ => sx_id "badcase"
    end
  else if bytes_eqb kind (bs "lzwdec") then
    match args with
    | [ex; dx] =>
      match as_N ex, as_bytes dx with
      | Some e, Some data => SL [sx_id "lzwdec"; obytes_sx (LzwSpec.lzw_decode (negb (e =? 0)%N) data)]
      | _, _ => sx_id "badcase"
      end
    | _ => sx_id "badcase"
    end
  else if bytes_eqb kind (bs "zenc") then
    match args with
    | [kx; dx] =>
      match as_N kx, as_bytes dx with
      | Some k, Some data => SL [sx_id "zenc"; sx_bytes (ZlibStoredSpec.zlib_stored k data)]
      | _, _ => sx_id "badcase"
      end
    | _ => sx_id "badcase"
    end
  else if bytes_eqb kind (bs "zrt") then
    match args with
    | [kx; dx; encs] =>
      match as_N kx, as_bytes dx, encs_of_sx encs with
      | Some k, Some data, Some es =>
        SL (sx_id "zrt" :: sx_bytes (ZlibStoredSpec.zlib_stored k data) :: map (fun x => obytes_sx (Inflate.inflate x)) es)
      | _, _, _ => sx_id "badcase"
      end
    | _ => sx_id "badcase"
    end
  else if bytes_eqb kind (bs "zdec") then
    match args with
    | [dx] =>
      match as_bytes dx with
      | Some data => SL [sx_id "zdec"; obytes_sx (Inflate.inflate data)]
      | None => sx_id "badcase"
      end
    | _ => sx_id "badcase"
    end
  else sx_id "badcase".

Definition run (x : sx) : sx :=
  match x with
  | SL (_ :: SA kind :: args) =>
    if bytes_eqb kind (bs "stream") then
      match args with
      | stx :: ox :: _ :: nx :: _ =>
        match obj_of_sx stx, orc_of_sx ox, as_bytes nx with
        | Some (OStream d c), Some tbl, Some newc => run_stream d c tbl newc
        | _, _, _ => sx_id "badcase"
        end
      | _ => sx_id "badcase"
      end
    else if bytes_eqb kind (bs "row") then
      match args with
      | tx :: bx :: px :: cx :: _ =>
        match obind (as_N tx) ftype_of_case, as_N bx, as_bytes px, as_bytes cx with
        | Some t, Some bpp, Some prev, Some cur =>
          SL [sx_id "row"; match decode_row t bpp prev cur with
                           | Ok r => sx_bytes r | Err e => err_sx e | Panic => sx_id "panic" | Fuel => sx_id "fuel" end]
        | _, _, _, _ => sx_id "badcase"
        end
      | _ => sx_id "badcase"
      end
    else if bytes_eqb kind (bs "frame") then
      match args with
      | bx :: px :: cx :: _ =>
        match as_N bx, as_N px, as_bytes cx with
        | Some bpp, Some ppr, Some content => SL [sx_id "frame"; rbytes_sx (decode_frame content bpp ppr)]
        | _, _, _ => sx_id "badcase"
        end
      | _ => sx_id "badcase"
      end
    else if bytes_eqb kind (bs "paeth") then
      match args with
      | [lx; hx] =>
        match as_N lx, as_N hx with
        | Some lo, Some hi =>
          if (lo <=? hi)%N && (hi <=? 256)%N then SL [sx_id "paeth"; sx_N (paeth_sum lo (N.to_nat (hi - lo)))]
          else sx_id "badcase"
        | _, _ => sx_id "badcase"
        end
      | _ => sx_id "badcase"
      end
    else if bytes_eqb kind (bs "doc") then
      match args with
      | dx :: ncx :: ox :: _ =>
        match doc_of_sx dx, orc_of_sx ox with
        | Some d, Some tbl =>
          let m1 := doc_compress (o_deflate tbl) (nocomp_of_sx ncx) (d_objects d) in
          SL [sx_id "doc2"; doc_to_sx (set_objects d m1);
              match doc_decompress (o_inflate tbl) (o_lzw tbl) m1 with
              | Ok m2 => doc_to_sx (set_objects d m2)
              | Err e => err_sx e | Panic => sx_id "panic" | Fuel => sx_id "fuel"
              end]
        | _, _ => sx_id "badcase"
        end
      | _ => sx_id "badcase"
      end
    else run_codec kind args
  | _ => sx_id "badcase"
  end.

Definition run_line : bytes -> bytes := run_line_with run.
