(* RunC17.v -- runner for C17.
   case   = (case <doc> (ops (add (t cp ...) fmt (c xR xG xB) (pid pgen) parent|none) ...) (flags adjust reload) ...)
   result = (res (bm max_bookmark_id (roots ...) (tbl (id (pid pgen) (children ...)) ...))
                 (root none | (id gen)) <doc after build_outline + attach> <toc> <toc after reload>)
   The model of save_to + load_mem is the identity on objects (Props/C17.v states the reload
   theorem over exactly that hypothesis); the harness really saves and reloads. *)
From LV Require Import Base.Bytes Base.Sx Model.Obj Model.DocQ Model.PageTree Model.Outline Model.Toc.

Definition ustring_to_sx (s : ustring) : sx := SL (sx_id "t" :: map sx_N s).
Definition ustring_of_sx (x : sx) : option ustring :=
  match x with SL (_ :: cs) => omap as_N cs | _ => None end.

Definition op_of_sx (x : sx) : option bop :=
  match x with
  | SL [_; t; f; SL [_; c0; c1; c2]; pg; par] =>
    do t <- ustring_of_sx t;
    do f <- as_N f;
    do c0 <- as_bytes c0; do c1 <- as_bytes c1; do c2 <- as_bytes c2;
    do pg <- oid_of_sx pg;
    let par := if is_id par "none" then Some None else option_map Some (as_N par) in
    do par <- par;
    Some {| op_title := t; op_format := f; op_color := (c0, c1, c2); op_page := pg; op_parent := par |}
  | _ => None
  end.

Definition toc_to_sx (t : tres) : sx :=
  match t with
  | TOk rows errs =>
    SL [sx_id "toc";
        SL (map (fun r => SL [sx_id "row"; sx_N (te_level r); ustring_to_sx (te_title r); sx_N (te_page r)]) rows);
        sx_N errs]
  | TErr => SL [sx_id "toc"; sx_id "err"]
  | TPanic => SL [sx_id "toc"; sx_id "panic"]
  | TFuel => SL [sx_id "toc"; sx_id "fuel"]
  | TUnmodelled => SL [sx_id "toc"; sx_id "unmodelled"]
  end.

Definition bm_to_sx (b : bdoc) : sx :=
  SL [sx_id "bm"; sx_N (max_bookmark_id b); SL (sx_id "roots" :: map sx_N (bookmarks b));
      SL (sx_id "tbl" :: map (fun kv => SL [sx_N (fst kv); oid_to_sx (bm_page (snd kv));
                                            SL (map sx_N (bm_children (snd kv)))]) (bookmark_table b))].

Definition toc_fuel (d : doc) : nat := 4 * length (d_objects d) + 1024.

Definition run_case (d : doc) (ops : list bop) (adjust reload : bool) : sx :=
  let b := add_all (fresh_bdoc d) ops in
  let rb := if adjust then adjust_zero_pages (default_fuel b) b else OOk b in
  match rb with
  | OPanic => SL [sx_id "res"; sx_id "panic"]
  | OFuel => SL [sx_id "res"; sx_id "fuel"]
  | OOk b1 =>
    match build_outline (default_fuel b1) b1 with
    | OPanic => SL [sx_id "res"; sx_id "panic"]
    | OFuel => SL [sx_id "res"; sx_id "fuel"]
    | OOk (root, b2) =>
      let d2 := match root, root_id (base b2) with
                | Some n, Some cid => attach (base b2) cid n
                | _, _ => base b2
                end in
      let t := toc_to_sx (get_toc (toc_fuel d2) d2) in
      SL [sx_id "res"; bm_to_sx b2;
          SL [sx_id "root"; match root with Some n => oid_to_sx n | None => sx_id "none" end];
          doc_to_sx d2; t;
          if reload then SL [sx_id "reload"; t; sx_N 1] else SL [sx_id "reload"; sx_id "skipped"]]
    end
  end.

Definition run (x : sx) : sx :=
  match x with
  | SL (_ :: dx :: SL (_ :: opsx) :: SL [_; adj; rel] :: _) =>
    match doc_of_sx dx, omap op_of_sx opsx, as_bool adj, as_bool rel with
    | Some d, Some ops, Some adj, Some rel => run_case d ops adj rel
    | _, _, _, _ => sx_id "badcase"
    end
  | _ => sx_id "badcase"
  end.

Definition run_line : bytes -> bytes := run_line_with run.
