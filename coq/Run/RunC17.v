(* RunC17.v -- runner for C17.
   case   = (case <doc> (ops (add (t cp ...) fmt (c xR xG xB) (pid pgen) parent|none) ...) (flags adjust reload) ...)
   result = (res (bm max_bookmark_id (roots ...) (tbl (id (pid pgen) (children ...)) ...))
                 (root none | (id gen)) <doc after build_outline + attach> <toc> <toc after reload>)
   The model of save_to + load_mem is the identity on objects (Props/C17.v states the reload
   theorem over exactly that hypothesis); the harness really saves and reloads.
   get_toc is Model/TocNamed.v's: the complete model, which runs get_named_destinations (Model/Query.v) on the
   catalog's Dests / Names tree first. *)
From LV Require Import Base.Bytes Base.Sx Model.Obj Model.DocQ Model.PageTree Model.Outline Model.Toc.
From LV Require Model.TocNamed.

Definition ustring_to_sx (s : ustring) : sx := SL (sx_id "t" :: map sx_N s).
Definition ustring_of_sx (x : sx) : option ustring :=
  match x with SL (_ :: cs) => omap as_N cs | _ => None end.

Definition op_of_sx (x : sx) : option bop :=
  match x with
  | SL [_; t; f; SL [_; c0; c1; c2]; pg; par] =>
    do t <- ustring_of_sx t;
    do f <- as_N f;
    do c0 <- as_bytes c0; do c1 <- as_bytes c1; do c2 <- as_bytes c2;
    do pg <- oid_of_sx pg;
    let par := if is_id par "none" then Some None else option_map Some (as_N par) in
    do par <- par;
    Some {| op_title := t; op_format := f; op_color := (c0, c1, c2); op_page := pg; op_parent := par |}
  | _ => None
  end.

Definition toc_to_sx (t : tres) : sx :=
  match t with
  | TOk rows errs =>
    SL [sx_id "toc";
        SL (map (fun r => SL [sx_id "row"; sx_N (te_level r); ustring_to_sx (te_title r); sx_N (te_page r)]) rows);
        sx_N errs]
  | TErr => SL [sx_id "toc"; sx_id "err"]
  | TPanic => SL [sx_id "toc"; sx_id "panic"]
  | TFuel => SL [sx_id "toc"; sx_id "fuel"]
  | TUnmodelled => SL [sx_id "toc"; sx_id "unmodelled"]
  end.

Definition bm_to_sx (b : bdoc) : sx :=
  SL [sx_id "bm"; sx_N (max_bookmark_id b); SL (sx_id "roots" :: map sx_N (bookmarks b));
      SL (sx_id "tbl" :: map (fun kv => SL [sx_N (fst kv); oid_to_sx (bm_page (snd kv));
                                            SL (map sx_N (bm_children (snd kv)))]) (bookmark_table b))].

Definition toc_fuel (d : doc) : nat := 4 * length (d_objects d) + 1024.

Definition run_case (d : doc) (ops : list bop) (adjust reload : bool) : sx :=
  let b := add_all (fresh_bdoc d) ops in
  let rb := if adjust then adjust_zero_pages (default_fuel b) b else OOk b in
  match rb with
  | OPanic => SL [sx_id "res"; sx_id "panic"]
  | OFuel => SL [sx_id "res"; sx_id "fuel"]
  | OOk b1 =>
    match build_outline (default_fuel b1) b1 with
    | OPanic => SL [sx_id "res"; sx_id "panic"]
    | OFuel => SL [sx_id "res"; sx_id "fuel"]
    | OOk (root, b2) =>
      let d2 := match root, root_id (base b2) with
                | Some n, Some cid => attach (base b2) cid n
                | _, _ => base b2
                end in
      let t := toc_to_sx (TocNamed.get_toc (toc_fuel d2) d2) in
      SL [sx_id "res"; bm_to_sx b2;
          SL [sx_id "root"; match root with Some n => oid_to_sx n | None => sx_id "none" end];
          doc_to_sx d2; t;
          if reload then SL [sx_id "reload"; t; sx_N 1] else SL [sx_id "reload"; sx_id "skipped"]]
    end
  end.

Definition run (x : sx) : sx :=
  match x with
  | SL (_ :: dx :: SL (_ :: opsx) :: SL [_; adj; rel] :: _) =>
    match doc_of_sx dx, omap op_of_sx opsx, as_bool adj, as_bool rel with
    | Some d, Some ops, Some adj, Some rel => run_case d ops adj rel
    | _, _, _, _ => sx_id "badcase"
    end
  | _ => sx_id "badcase"
  end.

(* The printer of the answer.  [Sx.sx_print] computes [sx_print y ++ x20 :: go l']: the extracted [app] recurses (not in tail
   position) over its LEFT operand, which for the item "document after build_outline" is the whole printed document -- one
   native stack frame per byte of the answer.  A forest of ~2000 bookmarks prints to ~700 kB and the extracted runner died
   with Stack_overflow under the usual 8 MB stack ("model-stack-overflow" != the implementation's answer: a false alarm of the
   thorough tier; the model's VALUE was the implementation's, see notes/C17.md).  [sx_print_onto] prints onto an accumulator:
   [app] only ever runs over one atom, the recursion depth is (nesting of the answer) + (length of its longest lists), i.e.
   a few thousand frames for a few thousand objects.  [run_line_eq]: it is the same function as [run_line_with run]. *)
Fixpoint sx_print_onto (x : sx) (acc : bytes) : bytes :=
  match x with
  | SA a => a ++ acc
  | SL l =>
    x28 :: (fix go (l : list sx) : bytes :=
              match l with
              | [] => x29 :: acc
              | [y] => sx_print_onto y (x29 :: acc)
              | y :: l' => sx_print_onto y (x20 :: go l')
              end) l
  end.

Definition run_line (line : bytes) : bytes :=
  match sx_parse line with
  | Some [x] => sx_print_onto (run x) []
  | _ => bs "(badline)"
  end.

Fixpoint sx_size (x : sx) : nat :=
  match x with
  | SA _ => 1
  | SL l => S ((fix go (l : list sx) : nat := match l with [] => 0 | y :: l' => sx_size y + go l' end) l)
  end.

Lemma sx_print_onto_eq_n : forall n x acc, (sx_size x <= n)%nat -> sx_print_onto x acc = sx_print x ++ acc.
Proof.
  induction n as [|n IH]; intros x acc Hn.
  - destruct x; cbn in Hn; inversion Hn.
  - destruct x as [a|l]; [reflexivity|].
    cbn [sx_print_onto sx_print]. rewrite <- app_comm_cons. f_equal.
    cbn [sx_size] in Hn. apply le_S_n in Hn.
    revert Hn. induction l as [|y l' IHl]; intros Hn; [reflexivity|].
    assert (Hy : (sx_size y <= n)%nat) by (eapply Nat.le_trans; [apply Nat.le_add_r|exact Hn]).
    assert (Hl : ((fix go (l : list sx) : nat := match l with [] => 0%nat | y :: l' => (sx_size y + go l')%nat end) l' <= n)%nat)
      by (eapply Nat.le_trans; [|exact Hn]; rewrite Nat.add_comm; apply Nat.le_add_r).
    destruct l' as [|z l''].
    + rewrite (IH y _ Hy), <- app_assoc. reflexivity.
    + rewrite (IH y _ Hy), <- app_assoc. cbn [app]. do 2 f_equal. exact (IHl Hl).
Qed.

Lemma run_line_eq : forall line, run_line line = run_line_with run line.
Proof.
  intro line. unfold run_line, run_line_with.
  destruct (sx_parse line) as [[|x [|? ?]]|]; try reflexivity.
  rewrite (sx_print_onto_eq_n (sx_size (run x)) (run x) [] (Nat.le_refl _)). apply app_nil_r.
Qed.
