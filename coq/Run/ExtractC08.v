From Coq Require Extraction ExtrOcamlBasic.
From LV Require Import Base.Bytes Run.RunC08.
Extraction Language OCaml.
Extraction "runmod_c08.ml" run_line N_of_byte byte_of_N.
