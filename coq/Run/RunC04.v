(* RunC04.v -- runner for C04 (cases: see harness/src/bin/c04.rs).
   Result: (r <class> (c STEPS ALLOC DEPTH)) for the entry points that have a Safe* model (class = (ok N) | (err) |
   (panic) | (fuel)), (r <class>) for entry points run through another property's model (no cost annotation), and
   (r any) where no model exists (the direct evaluation on the implementation still decides). *)
From LV Require Import Base.Bytes Base.Sx Model.Obj Model.A85 Model.Png Model.Parser Model.RangeMap Model.CMap Model.CMapParser
     Model.Xref Model.ObjStm Model.Safe Model.SafeFilt Model.SafeText Model.SafeXref.
From LV Require Model.Loader Model.LoaderExt.

Definition class_sx (o : out N) : sx :=
  match o with
  | SOk n => SL [sx_id "ok"; sx_N n]
  | SErr => SL [sx_id "err"]
  | SPanic _ => SL [sx_id "panic"]
  | SFuel => SL [sx_id "fuel"]
  end.

Definition m_sx (m : M N) : sx :=
  SL [sx_id "r"; class_sx (outcome m); SL [sx_id "c"; sx_N (steps m); sx_N (max_alloc m); sx_N (max_depth m)]].

Definition plain_sx (o : out N) : sx := SL [sx_id "r"; class_sx o].
Definition any_sx : sx := SL [sx_id "r"; sx_id "any"].

Definition nlen {A} (l : list A) : N := N.of_nat (length l).

(* a bytes argument: one atom xHEX, or a list of such atoms (chunks; Sx.v reverses every atom with the quadratic
   List.rev, so long inputs arrive in pieces) *)
Definition as_chunks (x : sx) : option bytes :=
  match x with
  | SA _ => as_bytes x
  | SL l => option_map (@concat byte) (omap as_bytes l)
  end.

(* the parser models are quadratic in the extracted runner: beyond this size only the implementation is run *)
Definition MODEL_MAX : N := 2500.

Definition run (x : sx) : sx :=
  match x with
  | SL (_ :: SA kind :: args) =>
    if bytes_eqb kind (bs "a85") then
      match args with
      | [d] => match as_chunks d with Some b => m_sx (sa85 b) | None => sx_id "badcase" end
      | _ => sx_id "badcase"
      end
    else if bytes_eqb kind (bs "frame") then
      match args with
      | [bx; px; d] =>
        match as_N bx, as_N px, as_chunks d with
        | Some bpp, Some ppr, Some b => m_sx (sdecode_frame b bpp ppr)
        | _, _, _ => sx_id "badcase"
        end
      | _ => sx_id "badcase"
      end
    else if bytes_eqb kind (bs "pred") then
      match args with
      | [p; c; k; b; d] =>
        match as_Z p, as_Z c, as_Z k, as_Z b, as_chunks d with
        | Some p, Some c, Some k, Some b, Some d => m_sx (spredictor p c k b d)
        | _, _, _, _, _ => sx_id "badcase"
        end
      | _ => sx_id "badcase"
      end
    else if bytes_eqb kind (bs "textstr") then
      match args with
      | [d] => match as_chunks d with Some b => m_sx (stext_string b) | None => sx_id "badcase" end
      | _ => sx_id "badcase"
      end
    else if bytes_eqb kind (bs "cmap") then
      match args with
      | [c; t] =>
        match as_chunks c, as_chunks t with
        | Some c, Some t =>
          match cmap_parse c with
          | ParseOk cm => m_sx (scmap_text cm t)
          | ParseErrParse | ParseErrRange => plain_sx SErr
          | ParseUnmodelled => any_sx
          | ParseOutOfFuel => plain_sx SFuel
          end
        | _, _ => sx_id "badcase"
        end
      | _ => sx_id "badcase"
      end
    else if bytes_eqb kind (bs "content") then
      match args with
      | [d] =>
        match as_chunks d with
        | Some b =>
          if (MODEL_MAX <? nlen b)%N then any_sx else
          match decode_content b with
          | DecOk ops => plain_sx (SOk (nlen ops))
          | DecErr => plain_sx SErr
          | DecPanic => plain_sx (SPanic ROverflow)
          | DecOut => plain_sx SFuel
          end
        | None => sx_id "badcase"
        end
      | _ => sx_id "badcase"
      end
    else if bytes_eqb kind (bs "objstm") then
      match args with
      | [dx; c] =>
        match dict_of_sx dx, as_chunks c with
        | Some d, Some c =>
          match dict_get d (bs "Filter") with
          | Some _ => any_sx
          | None =>
            if (MODEL_MAX <? nlen c)%N then any_sx else
            match objstm_plain d c with
            | OsOk m => plain_sx (SOk (nlen m))
            | OsErr _ => plain_sx SErr
            end
          end
        | _, _ => sx_id "badcase"
        end
      | _ => sx_id "badcase"
      end
    else if bytes_eqb kind (bs "xrefstm") then
      match args with
      | [dx; c] =>
        match dict_of_sx dx, as_chunks c with
        | Some d, Some c =>
          match dict_get d (bs "Filter") with
          | Some _ => any_sx
          | None =>
            (* the outcome and the number of entries from C02's model, the cost from the Safe model; the two models
               must agree on the outcome class *)
            let cls := match decode_xref_plain d c with
                       | XOk (x, _) => SOk (nlen (x_entries x))
                       | XErr _ => SErr
                       | XPanic => SPanic ROverflow
                       | XOut => SFuel
                       | XNoMatch => SErr
                       end in
            match dict_get d (bs "Size") with
            | Some (OInt size) =>
              let index := match dict_get d (bs "Index") with
                           | Some o => match parse_integer_array o with Some l => l | None => [0%Z; size] end
                           | None => [0%Z; size]
                           end in
              match dict_get d (bs "W") with
              | Some o =>
                match parse_integer_array o with
                | Some ws =>
                  let m := sxref_stream index ws c in
                  let same := match cls, outcome m with
                              | SOk _, SOk _ | SErr, SErr | SPanic _, SPanic _ | SFuel, SFuel => true
                              | _, _ => false
                              end in
                  if same then SL [sx_id "r"; class_sx cls; SL [sx_id "c"; sx_N (steps m); sx_N (max_alloc m); sx_N (max_depth m)]]
                  else SL [sx_id "r"; sx_id "models-disagree"]
                | None => plain_sx cls
                end
              | None => plain_sx cls
              end
            | _ => plain_sx cls
            end
          end
        | _, _ => sx_id "badcase"
        end
      | _ => sx_id "badcase"
      end
    else if bytes_eqb kind (bs "loadm") || bytes_eqb kind (bs "incloadm") then
      (* Reader::read as c01's LoaderExt.load_plain -- the model C04_load_no_panic_partial / C04_load_terminates_partial are
         about (IncrementalDocument::load_from is read plus a copy of the buffer): class and number of objects *)
      match args with
      | [d] =>
        match as_chunks d with
        | Some b =>
          if (MODEL_MAX <? nlen b)%N then any_sx else
          match LoaderExt.load_plain b with
          | Loader.LOk doc _ => plain_sx (SOk (nlen (d_objects doc)))
          | Loader.LErr _ => plain_sx SErr
          | Loader.LPanic => plain_sx (SPanic ROverflow)
          | Loader.LOut => plain_sx SFuel
          | Loader.LUnmodelled => any_sx
          end
        | None => sx_id "badcase"
        end
      | _ => sx_id "badcase"
      end
    else if bytes_eqb kind (bs "stream") || bytes_eqb kind (bs "load") || bytes_eqb kind (bs "loadtext") || bytes_eqb kind (bs "incload") then any_sx
    else sx_id "badcase"
  | _ => sx_id "badcase"
  end.

Definition run_line : bytes -> bytes := run_line_with run.
