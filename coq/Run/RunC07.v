(* RunC07.v -- runner for C07.  Cases (see harness/src/bin/c07.rs):
     (load HDR xBYTES LAYOUT REVS)  -> ((loaded (xref ..) TRAILER maxid stream? xref_start (objs ..)) (expect ..))
                                     | ((err CLASS) (expect ..))
   The model never looks at xBYTES: it loads the LAYOUT with Model/XrefMerge.v and computes the
   expectation with Spec/History.v. *)
From LV Require Import Base.Bytes Base.Sx Model.Obj Model.XrefMerge Spec.History.

(* ---- decoding ---- *)
Definition rawent_of_sx (x : sx) : option rawent :=
  match x with
  | SL [t; a] => if is_id t "f" then option_map RFree (as_N a) else None
  | SL [t; a; b] =>
    match as_N a, as_N b with
    | Some a, Some b => if is_id t "n" then Some (RNormal a b) else if is_id t "c" then Some (RComp a b) else None
    | _, _ => None
    end
  | _ => None
  end.

Definition ent_of_sx (x : sx) : option (N * rawent) :=
  match x with
  | SL [i; e] => match as_N i, rawent_of_sx e with Some i, Some e => Some (i, e) | _, _ => None end
  | _ => None
  end.

Definition sec_of_sx (x : sx) : option (Z * section) :=
  match x with
  | SL [off; st; size; SL (_ :: ents); tr] =>
    match as_Z off, as_bool st, as_N size, omap ent_of_sx ents, dict_of_sx tr with
    | Some off, Some st, Some size, Some ents, Some tr =>
      Some (off, {| s_stream := st; s_size := size; s_raw := ents; s_trailer := tr |})
    | _, _, _, _, _ => None
    end
  | _ => None
  end.

Definition member_of_sx (x : sx) : option (oid * obj) :=
  match x with
  | SL [id; o] => match oid_of_sx id, obj_of_sx o with Some id, Some o => Some (id, o) | _, _ => None end
  | _ => None
  end.

Definition placed_of_sx (x : sx) : option (N * placed) :=
  match x with
  | SL [off; id; o; mem] =>
    match as_N off, oid_of_sx id, obj_of_sx o with
    | Some off, Some id, Some o =>
      match mem with
      | SL (_ :: ms) =>
        match omap member_of_sx ms with
        | Some ms => Some (off, {| p_id := id; p_obj := o; p_members := Some ms |})
        | None => None
        end
      | _ => Some (off, {| p_id := id; p_obj := o; p_members := None |})
      end
    | _, _, _ => None
    end
  | _ => None
  end.

Definition layout_of_sx (x : sx) : option layout :=
  match x with
  | SL [tag; bl; sx0; SL (_ :: secs); SL (_ :: objs)] =>
    if is_id tag "layout" then
      match as_Z bl, as_Z sx0, omap sec_of_sx secs, omap placed_of_sx objs with
      | Some bl, Some sx0, Some secs, Some objs =>
        Some {| l_buflen := bl; l_startxref := sx0; l_secs := secs; l_objs := objs |}
      | _, _, _, _ => None
      end
    else None
  | _ => None
  end.

Definition rev_of_sx (x : sx) : option rev :=
  match x with
  | SL [_; SL (_ :: puts); SL (_ :: dels)] =>
    match omap member_of_sx puts, omap oid_of_sx dels with
    | Some puts, Some dels => Some {| r_puts := puts; r_dels := dels |}
    | _, _ => None
    end
  | _ => None
  end.

Definition revs_of_sx (x : sx) : option (list rev) :=
  match x with
  | SL (_ :: rs) => omap rev_of_sx rs
  | _ => None
  end.

(* ---- encoding ---- *)
Definition xentry_to_sx (e : xentry) : sx :=
  match e with
  | XFree => SL [sx_id "free"]
  | XUnusable => SL [sx_id "ufree"]
  | XNormal o g => SL [sx_id "n"; sx_N o; sx_N g]
  | XComp c i => SL [sx_id "c"; sx_N c; sx_N i]
  end.

(* trailers are compared up to the order of their keys: insertion sort by key *)
Fixpoint bytes_leb (a b : bytes) : bool :=
  match a, b with
  | [], _ => true
  | _ :: _, [] => false
  | x :: a', y :: b' =>
    if (N_of_byte x <? N_of_byte y)%N then true
    else if (N_of_byte y <? N_of_byte x)%N then false
    else bytes_leb a' b'
  end.
Fixpoint ins_sorted (kv : bytes * obj) (d : dict) : dict :=
  match d with
  | [] => [kv]
  | kv' :: d' => if bytes_leb (fst kv) (fst kv') then kv :: kv' :: d' else kv' :: ins_sorted kv d'
  end.
Definition sort_dict (d : dict) : dict := fold_right ins_sorted [] d.

Definition lerr_to_sx (e : lerr) : sx :=
  match e with
  | EStart => sx_id "xref-start"
  | EPrevStart => sx_id "prev-start"
  | EStreamStart => sx_id "stream-start"
  | EInvalidTrailer => sx_id "invalid-trailer"
  | EInvalidXref => sx_id "invalid-xref"
  end.

Definition expect_to_sx (m : objmap) : sx :=
  SL (sx_id "expect" :: map (fun io => SL [oid_to_sx (fst io); obj_to_sx (snd io)]) m).

Definition loaded_to_sx (d : loaded) : sx :=
  SL [sx_id "loaded";
      SL (sx_id "xref" :: map (fun kv => SL [sx_N (fst kv); xentry_to_sx (snd kv)]) (xr_entries (ld_xref d)));
      dict_to_sx (sort_dict (ld_trailer d)); sx_N (ld_max_id d); sx_bool (xr_stream (ld_xref d));
      sx_N (ld_start d); objmap_to_sx (ld_objects d)].

Definition run_load (lx rx : sx) : sx :=
  match layout_of_sx lx, revs_of_sx rx with
  | Some L, Some revs =>
    let e := expect_to_sx (latest_wins revs) in
    match load_abs (load_fuel L) L with
    | LOk d => SL [loaded_to_sx d; e]
    | LErr er => SL [SL [sx_id "err"; lerr_to_sx er]; e]
    | LOutOfFuel => sx_id "outoffuel"
    end
  | _, _ => sx_id "badcase"
  end.

Definition run (x : sx) : sx :=
  match x with
  | SL [tag; _; _; lx; rx] => if is_id tag "load" then run_load lx rx else sx_id "badcase"
  | _ => sx_id "badcase"
  end.

Definition run_line : bytes -> bytes := run_line_with run.
