(* RunC07.v -- runner for C07.  Cases (see harness/src/bin/c07.rs):
     (load HDR xBYTES LAYOUT REVS)  -> ((loaded (xref ..) TRAILER maxid stream? xref_start (objs ..)) (expect ..))
                                     | ((err CLASS) (expect ..))
   The model never looks at xBYTES: it loads the LAYOUT with Model/XrefMerge.v and computes the
   expectation with Spec/History.v. *)
From LV Require Import Base.Bytes Base.Sx Model.Obj Model.DocQ Model.Writer Model.Save Model.XrefMerge Model.Incremental Spec.History.

(* ---- decoding ---- *)
Definition rawent_of_sx (x : sx) : option rawent :=
  match x with
  | SL [t; a] => if is_id t "f" then option_map RFree (as_N a) else None
  | SL [t; a; b] =>
    match as_N a, as_N b with
    | Some a, Some b => if is_id t "n" then Some (RNormal a b) else if is_id t "c" then Some (RComp a b) else None
    | _, _ => None
    end
  | _ => None
  end.

Definition ent_of_sx (x : sx) : option (N * rawent) :=
  match x with
  | SL [i; e] => match as_N i, rawent_of_sx e with Some i, Some e => Some (i, e) | _, _ => None end
  | _ => None
  end.

Definition sec_of_sx (x : sx) : option (Z * section) :=
  match x with
  | SL [off; st; size; SL (_ :: ents); tr] =>
    match as_Z off, as_bool st, as_N size, omap ent_of_sx ents, dict_of_sx tr with
    | Some off, Some st, Some size, Some ents, Some tr =>
      Some (off, {| s_stream := st; s_size := size; s_raw := ents; s_trailer := tr |})
    | _, _, _, _, _ => None
    end
  | _ => None
  end.

Definition member_of_sx (x : sx) : option (oid * obj) :=
  match x with
  | SL [id; o] => match oid_of_sx id, obj_of_sx o with Some id, Some o => Some (id, o) | _, _ => None end
  | _ => None
  end.

Definition placed_of_sx (x : sx) : option (N * placed) :=
  match x with
  | SL [off; id; o; mem] =>
    match as_N off, oid_of_sx id, obj_of_sx o with
    | Some off, Some id, Some o =>
      match mem with
      | SL (_ :: ms) =>
        match omap member_of_sx ms with
        | Some ms => Some (off, {| p_id := id; p_obj := o; p_members := Some ms |})
        | None => None
        end
      | _ => Some (off, {| p_id := id; p_obj := o; p_members := None |})
      end
    | _, _, _ => None
    end
  | _ => None
  end.

Definition layout_of_sx (x : sx) : option layout :=
  match x with
  | SL [tag; bl; sx0; SL (_ :: secs); SL (_ :: objs)] =>
    if is_id tag "layout" then
      match as_Z bl, as_Z sx0, omap sec_of_sx secs, omap placed_of_sx objs with
      | Some bl, Some sx0, Some secs, Some objs =>
        Some {| l_buflen := bl; l_startxref := sx0; l_secs := secs; l_objs := objs |}
      | _, _, _, _ => None
      end
    else None
  | _ => None
  end.

Definition rev_of_sx (x : sx) : option revision :=
  match x with
  | SL [_; SL (_ :: puts); SL (_ :: dels)] =>
    match omap member_of_sx puts, omap oid_of_sx dels with
    | Some puts, Some dels => Some {| r_puts := puts; r_dels := dels |}
    | _, _ => None
    end
  | _ => None
  end.

Definition revs_of_sx (x : sx) : option (list revision) :=
  match x with
  | SL (_ :: rs) => omap rev_of_sx rs
  | _ => None
  end.

(* ---- encoding ---- *)
Definition xentry_to_sx (e : xentry) : sx :=
  match e with
  | XFree => SL [sx_id "free"]
  | XUnusable => SL [sx_id "ufree"]
  | XNormal o g => SL [sx_id "n"; sx_N o; sx_N g]
  | XCompressed c i => SL [sx_id "c"; sx_N c; sx_N i]
  end.

(* trailers are compared up to the order of their keys: insertion sort by key *)
Fixpoint bytes_leb (a b : bytes) : bool :=
  match a, b with
  | [], _ => true
  | _ :: _, [] => false
  | x :: a', y :: b' =>
    if (N_of_byte x <? N_of_byte y)%N then true
    else if (N_of_byte y <? N_of_byte x)%N then false
    else bytes_leb a' b'
  end.
Fixpoint ins_sorted (kv : bytes * obj) (d : dict) : dict :=
  match d with
  | [] => [kv]
  | kv' :: d' => if bytes_leb (fst kv) (fst kv') then kv :: kv' :: d' else kv' :: ins_sorted kv d'
  end.
Definition sort_dict (d : dict) : dict := fold_right ins_sorted [] d.

Definition lerr_to_sx (e : lerr) : sx :=
  match e with
  | EStart => sx_id "xref-start"
  | EPrevStart => sx_id "prev-start"
  | EStreamStart => sx_id "stream-start"
  | EInvalidTrailer => sx_id "invalid-trailer"
  | EInvalidXref => sx_id "invalid-xref"
  end.

Definition expect_to_sx (m : objmap) : sx :=
  SL (sx_id "expect" :: map (fun io => SL [oid_to_sx (fst io); obj_to_sx (snd io)]) m).

Definition loaded_to_sx (d : loaded) : sx :=
  SL [sx_id "loaded";
      SL (sx_id "xref" :: map (fun kv => SL [sx_N (fst kv); xentry_to_sx (snd kv)]) (xr_entries (ld_xref d)));
      dict_to_sx (sort_dict (ld_trailer d)); sx_N (ld_max_id d); sx_bool (xr_stream (ld_xref d));
      sx_N (ld_start d); objmap_to_sx (ld_objects d)].

Definition run_load (lx rx : sx) : sx :=
  match layout_of_sx lx, revs_of_sx rx with
  | Some L, Some revs =>
    let e := expect_to_sx (latest_wins revs) in
    match load_abs (load_fuel L) L with
    | LOk d => SL [loaded_to_sx d; e]
    | LErr er => SL [SL [sx_id "err"; lerr_to_sx er]; e]
    | LOutOfFuel => sx_id "outoffuel"
    end
  | _, _ => sx_id "badcase"
  end.

(* ---------- replaying edits through IncrementalDocument ----------
     (inc DOC STYLE xJUNK (steps (step OP...)...))
       -> (inc xBASE (step (ops R...) (objs ..) prefix? xSUFFIX) (reload TRAILER maxid start (objs ..)) ...)
     (incraw HDR xBYTES LAYOUT (steps ...)) -> (incraw (step ..) (reload ..) ...)
   What a reload returns is PREDICTED here (the plain-loader round trip of Proofs/IncrementalProofs.v made
   executable): the objects are the overlay of the previous view and the new objects, the trailer is the one just
   written minus the keys the reader removes, max_id is the largest object number of the merged table. *)
Inductive op :=
| OpSet (id : oid) (o : obj) | OpAdd (o : obj) | OpClone (id : oid) | OpSetKey (id : oid) (k : bytes) (o : obj)
| OpRes (id : oid) | OpXobj (page : oid) (name : bytes) (x : oid) | OpGs (page : oid) (name : bytes) (x : oid).

(* IncrementalDocument::add_graphics_state (src/incremental_document.rs), beside Model/Incremental.v's add_xobject:
   Ok(()) also when the resources are not a dictionary (the `if let Ok` swallows it); inside, an ExtGState entry that
   is not a DIRECT dictionary is an error (`get_mut(..).and_then(Object::as_dict_mut)?`: no reference is followed),
   after the missing entry has been created.  Result: state, true = Ok *)
Definition K_ExtGState := Eval cbv in bs "ExtGState".
Definition add_graphics_state (s : incdoc) (page : oid) (name : bytes) (gid : oid) : incdoc * bool :=
  match get_or_create_resources s page with
  | (s1, Some rp) =>
    match place_get (new_objects s1) rp with
    | Some (ODict rd) =>
      let rd1 := if dict_has rd K_ExtGState then rd else dict_set rd K_ExtGState (ODict []) in
      match dict_get rd1 K_ExtGState with
      | Some (ODict gd) =>
        let rd2 := dict_set rd1 K_ExtGState (ODict (dict_set gd name (ORef (fst gid) (snd gid)))) in
        (set_new_objects s1 (place_set (new_objects s1) rp (ODict rd2)), true)
      | _ => (set_new_objects s1 (place_set (new_objects s1) rp (ODict rd1)), false)
      end
    | _ => (s1, true)
    end
  | (s1, None) => (s1, true)
  end.

Definition op_of_sx (x : sx) : option op :=
  match x with
  | SL [t; a] =>
    if is_id t "add" then option_map OpAdd (obj_of_sx a)
    else if is_id t "clone" then option_map OpClone (oid_of_sx a)
    else if is_id t "res" then option_map OpRes (oid_of_sx a)
    else None
  | SL [t; a; b] =>
    if is_id t "set" then match oid_of_sx a, obj_of_sx b with Some i, Some o => Some (OpSet i o) | _, _ => None end
    else None
  | SL [t; a; b; c] =>
    if is_id t "setkey" then
      match oid_of_sx a, as_bytes b, obj_of_sx c with Some i, Some k, Some o => Some (OpSetKey i k o) | _, _, _ => None end
    else if is_id t "xobj" then
      match oid_of_sx a, as_bytes b, oid_of_sx c with Some p, Some n, Some i => Some (OpXobj p n i) | _, _, _ => None end
    else if is_id t "gs" then
      match oid_of_sx a, as_bytes b, oid_of_sx c with Some p, Some n, Some i => Some (OpGs p n i) | _, _, _ => None end
    else None
  | _ => None
  end.

Definition sx_okerr (b : bool) : sx := if b then sx_id "ok" else sx_id "err".

(* one edit: new state and the harness-visible result; None = outside the model (u32 overflow) *)
Definition apply_op (s : incdoc) (o : op) : option (incdoc * sx) :=
  match o with
  | OpSet id ob => Some (set_object s id ob, sx_id "ok")
  | OpAdd ob => match add_object s ob with Some (s', id) => Some (s', oid_to_sx id) | None => None end
  | OpClone id => match opt_clone s id with Some s' => Some (s', sx_id "ok") | None => Some (s, sx_id "err") end
  | OpSetKey id k ob =>
    match opt_clone s id with
    | None => Some (s, sx_id "err")
    | Some s1 =>
      match get_object_mut_id (new_objects s1) id with
      | Some t =>
        match lookup (new_objects s1) t with
        | Some (ODict d) => Some (set_new_objects s1 (insert (new_objects s1) t (ODict (dict_set d k ob))), sx_id "ok")
        | _ => Some (s1, sx_id "err")
        end
      | None => Some (s1, sx_id "err")
      end
    end
  | OpRes id =>
    match get_or_create_resources s id with
    | (s', Some p) =>
      match place_get (new_objects s') p with
      | Some ob => Some (s', SL [sx_id "ok"; obj_to_sx ob])
      | None => Some (s', sx_id "err")
      end
    | (s', None) => Some (s', sx_id "err")
    end
  | OpXobj p n i => let r := add_xobject s p n i in Some (fst r, sx_okerr (snd r))
  | OpGs p n i => let r := add_graphics_state s p n i in Some (fst r, sx_okerr (snd r))
  end.

Fixpoint apply_ops (s : incdoc) (ops : list op) (acc : list sx) : option (incdoc * list sx) :=
  match ops with
  | [] => Some (s, rev acc)
  | o :: ops' => match apply_op s o with Some (s', r) => apply_ops s' ops' (r :: acc) | None => None end
  end.

(* the trailer a reader returns for a written cross-reference stream dictionary: decode_xref_stream removes
   Length, W, Index; Reader::read removes Prev and, once the Prev loop has run, XRefStm *)
Definition read_back_trailer (stream : bool) (t : dict) : dict :=
  let t1 := if stream then dict_swap_remove (dict_swap_remove (dict_swap_remove t K_Length) K_W) K_Index else t in
  dict_swap_remove (dict_swap_remove t1 K_Prev) K_XRefStm.

Definition xmap_max (x : xmap) : N := fold_left (fun acc kv => N.max acc (fst kv)) x 0%N.

(* the view after loading the plain save of [d] *)
Definition reload_plain (xt : xref_type) (d : doc) : option (bytes * xdoc) :=
  let r := save xt d in
  match so_status r with
  | SaveOk =>
    let '(body, pos, x) := save_body d in
    match xt with
    | XTable =>
      Some (so_bytes r,
            {| xd_doc := {| d_version := d_version d; d_binary_mark := d_binary_mark d;
                            d_trailer := read_back_trailer false (trailer_table d);
                            d_objects := written (d_objects d);
                            d_max_id := xmap_max (filter (fun kv => (fst kv <? d_max_id d + 1)%N) x) |};
               xd_start := pos; xd_type := XTable |})
    | XStream =>
      let '(t, content, x1) := xstream_parts d x (pos mod u32_mod)%N in
      Some (so_bytes r,
            {| xd_doc := {| d_version := d_version d; d_binary_mark := d_binary_mark d;
                            d_trailer := read_back_trailer true t;
                            d_objects := insert (written (d_objects d)) ((d_max_id d + 1)%N, 0%N) (OStream t content);
                            d_max_id := xmap_max (filter (fun kv => (fst kv <=? d_max_id d + 1)%N) x1) |};
               xd_start := pos; xd_type := XStream |})
    end
  | _ => None
  end.

(* the view after loading the incremental save of [s] *)
Definition reload_inc (s : incdoc) : xdoc :=
  let nd := xd_doc (i_new s) in
  let pd := xd_doc (i_prev s) in
  let prev := i_bytes s in
  let '(ob, pos, x) := write_objects (start_count prev + blen (inc_head s))%N (d_objects nd) [] in
  match xd_type (i_prev s) with
  | XTable =>
    {| xd_doc := {| d_version := d_version pd; d_binary_mark := d_binary_mark pd;
                    d_trailer := read_back_trailer false (trailer_table nd);
                    d_objects := overlay (d_objects pd) (d_objects nd);
                    d_max_id := N.max (d_max_id pd) (xmap_max (filter (fun kv => (fst kv <? d_max_id nd + 1)%N) x)) |};
       xd_start := pos; xd_type := XTable |}
  | XStream =>
    let '(t, content, x1) := xstream_parts nd x (pos mod u32_mod)%N in
    {| xd_doc := {| d_version := d_version pd; d_binary_mark := d_binary_mark pd;
                    d_trailer := read_back_trailer true t;
                    d_objects := insert (overlay (d_objects pd) (d_objects nd)) ((d_max_id nd + 1)%N, 0%N) (OStream t content);
                    d_max_id := N.max (d_max_id pd) (xmap_max (filter (fun kv => (fst kv <=? d_max_id nd + 1)%N) x1)) |};
       xd_start := pos; xd_type := XStream |}
  end.

Definition steps_of_sx (x : sx) : option (list (list op)) :=
  match x with
  | SL (_ :: sts) => omap (fun st => match st with SL (_ :: ops) => omap op_of_sx ops | _ => None end) sts
  | _ => None
  end.

Fixpoint run_steps (bytes0 : bytes) (prev : xdoc) (steps : list (list op)) : list sx :=
  match steps with
  | [] => []
  | ops :: steps' =>
    let s := create_from bytes0 prev in
    match apply_ops s ops [] with
    | None => [sx_id "outside-model"]
    | Some (s1, rs) =>
      let out := inc_save s1 in
      match io_status out with
      | IncOk =>
        let suffix := skipn (length bytes0) (io_bytes out) in
        let rl := reload_inc s1 in
        SL [sx_id "step"; SL (sx_id "ops" :: rs); objmap_to_sx (new_objects s1); sx_bool true; sx_bytes suffix]
        :: SL [sx_id "reload"; dict_to_sx (sort_dict (d_trailer (xd_doc rl))); sx_N (d_max_id (xd_doc rl));
               sx_N (xd_start rl); objmap_to_sx (d_objects (xd_doc rl))]
        :: run_steps (io_bytes out) rl steps'
      | _ => [SL [sx_id "saveerr"]]
      end
    end
  end.

Definition run_inc (dx stx jx stepsx : sx) : sx :=
  match doc_of_sx dx, as_bytes jx, steps_of_sx stepsx with
  | Some d, Some junk, Some steps =>
    let xt := if is_id stx "stream" then XStream else XTable in
    match reload_plain xt d with
    | Some (b, prev) => SL (sx_id "inc" :: sx_bytes b :: run_steps (junk ++ b) prev steps)
    | None => SL [sx_id "inc"; sx_id "basesaveerr"]
    end
  | _, _, _ => sx_id "badcase"
  end.

Definition run_incraw (bx lx stepsx : sx) : sx :=
  match as_bytes bx, layout_of_sx lx, steps_of_sx stepsx with
  | Some b, Some L, Some steps =>
    match load_abs (load_fuel L) L with
    | LOk d =>
      let prev := {| xd_doc := {| d_version := []; d_binary_mark := []; d_trailer := ld_trailer d;
                                  d_objects := ld_objects d; d_max_id := ld_max_id d |};
                     xd_start := ld_start d;
                     xd_type := if xr_stream (ld_xref d) then XStream else XTable |} in
      SL (sx_id "incraw" :: run_steps b prev steps)
    | LErr e => SL [sx_id "incraw"; SL [sx_id "loaderr"; lerr_to_sx e]]
    | LOutOfFuel => sx_id "outoffuel"
    end
  | _, _, _ => sx_id "badcase"
  end.

Definition run (x : sx) : sx :=
  match x with
  | SL [tag; a; b; c; d] =>
    if is_id tag "load" then run_load c d
    else if is_id tag "inc" then run_inc a b c d
    else if is_id tag "incraw" then run_incraw b c d
    else sx_id "badcase"
  | _ => sx_id "badcase"
  end.

Definition run_line : bytes -> bytes := run_line_with run.
