From Coq Require Extraction ExtrOcamlBasic.
From LV Require Import Base.Bytes Run.RunC05.
Extraction Language OCaml.
Extraction "runmod_c05.ml" run_line N_of_byte byte_of_N.
