(* RunC16.v -- runner for C16.  Case kinds (strings are lists of scalar values "(u 104 105)"):
     (ts (u ..))                      text_string then decode_text_string
     (dts <obj>)                      decode_text_string on any object
     (u8 (u ..)) / (u16 (u ..))       encode_utf8 / encode_utf16_be then decode_text_string
     (table <fontdict>)               get_font_encoding, all 256 cells of the table it selects
     (font <fontdict> xBYTES (u ..))  get_font_encoding; decode_text BYTES; encode_text of the decoded
                                      text; decode_text of that; encode_text of the given string
     (rt <fontdict> (u ..))           get_font_encoding; encode_text of the string; decode_text of those bytes
     (rtall <fontdict>)               the same for the string made of every defined cell of the selected table
     (extract (pages (page (fonts (xNAME <dict>)..) (ops (xOPERATOR <obj>..)..))..) (nums n..) ..)
                                      extract_text_chunks and extract_text *)
From LV Require Import Base.Bytes Base.Sx Model.Utf Model.Obj Model.OneByte Model.TextString
  Model.TextExtract Gen.Tables.
Local Open Scope N_scope.

Definition sx_ustring (s : ustring) : sx := SL (sx_id "u" :: map sx_N s).
Definition ustring_of_sx (x : sx) : option ustring :=
  match x with
  | SL (t :: l) => if is_id t "u" then omap as_N l else None
  | _ => None
  end.

Definition err_name (e : err) : sx :=
  match e with
  | EObjectType => sx_id "ObjectType"
  | EDictType => sx_id "DictType"
  | EDictKey => sx_id "DictKey"
  | ETextStringDecode => sx_id "TextStringDecode"
  | ECharacterEncoding => sx_id "CharacterEncoding"
  | ESyntax => sx_id "Syntax"
  | EPageNumberNotFound => sx_id "PageNumberNotFound"
  end.

Definition sx_res {A} (f : A -> sx) (r : res A) : sx :=
  match r with
  | Ok a => SL [sx_id "ok"; f a]
  | Err e => SL [sx_id "err"; err_name e]
  | Panic => SL [sx_id "panic"]
  | Unmodelled => SL [sx_id "unmodelled"]
  end.

Definition sx_cell (c : option N) : sx := match c with Some v => sx_N v | None => sx_id "-" end.

Definition sx_enc (r : res encoding) : sx :=
  match r with
  | Ok (EncOneByte _) => SL [sx_id "onebyte"]
  | Ok (EncSimple n) => SL [sx_id "simple"; sx_bytes n]
  | Ok EncCMap => SL [sx_id "cmap"]
  | Err e => SL [sx_id "err"; err_name e]
  | Panic => SL [sx_id "panic"]
  | Unmodelled => SL [sx_id "unmodelled"]
  end.

Definition rbind {A B} (r : res A) (f : A -> res B) : res B :=
  match r with Ok a => f a | Err e => Err e | Panic => Panic | Unmodelled => Unmodelled end.

Definition op_of_sx (x : sx) : option op :=
  match x with
  | SL (o :: args) =>
    match as_bytes o, omap obj_of_sx args with
    | Some o, Some a => Some (o, a)
    | _, _ => None
    end
  | _ => None
  end.

Definition font_of_sx (x : sx) : option (bytes * dict) :=
  match x with
  | SL [n; d] => match as_bytes n, dict_of_sx d with Some n, Some d => Some (n, d) | _, _ => None end
  | _ => None
  end.

Definition page_of_sx (x : sx) : option page :=
  match x with
  | SL [t; SL (_ :: fs); SL (_ :: os)] =>
    if is_id t "page" then
      match omap font_of_sx fs, omap op_of_sx os with
      | Some fs, Some os => Some {| p_fonts := fs; p_ops := os |}
      | _, _ => None
      end
    else None
  | _ => None
  end.

Definition all_byte_values : bytes := Eval cbv in all_bytes.

Definition run (x : sx) : sx :=
  match x with
  | SL (tag :: args) =>
    if is_id tag "ts" then
      match args with
      | [s] =>
        match ustring_of_sx s with
        | Some s => let o := text_string s in
                    SL [sx_id "ts"; obj_to_sx o; sx_res sx_ustring (decode_text_string o)]
        | None => sx_id "badcase"
        end
      | _ => sx_id "badcase"
      end
    else if is_id tag "dts" then
      match args with
      | [o] =>
        match obj_of_sx o with
        | Some o => SL [sx_id "dts"; sx_res sx_ustring (decode_text_string o)]
        | None => sx_id "badcase"
        end
      | _ => sx_id "badcase"
      end
    else if is_id tag "u8" then
      match args with
      | [s] =>
        match ustring_of_sx s with
        | Some s => let b := encode_utf8 s in
                    SL [sx_id "u8"; sx_bytes b; sx_res sx_ustring (decode_text_string (OStr b false))]
        | None => sx_id "badcase"
        end
      | _ => sx_id "badcase"
      end
    else if is_id tag "u16" then
      match args with
      | [s] =>
        match ustring_of_sx s with
        | Some s => let b := encode_utf16_be s in
                    SL [sx_id "u16"; sx_bytes b; sx_res sx_ustring (decode_text_string (OStr b true))]
        | None => sx_id "badcase"
        end
      | _ => sx_id "badcase"
      end
    else if is_id tag "table" then
      match args with
      | [d] =>
        match dict_of_sx d with
        | Some d =>
          match get_font_encoding d with
          | Ok (EncOneByte t) => SL (sx_id "table" :: map (fun b => sx_cell (cell t b)) all_byte_values)
          | r => sx_enc r
          end
        | None => sx_id "badcase"
        end
      | _ => sx_id "badcase"
      end
    else if is_id tag "font" then
      match args with
      | [d; b; s] =>
        match dict_of_sx d, as_bytes b, ustring_of_sx s with
        | Some d, Some b, Some s =>
          let e := get_font_encoding d in
          match e with
          | Ok enc =>
            let dec := enc_bytes_to_string enc b in
            let re := rbind dec (enc_string_to_bytes enc) in
            let dec2 := rbind re (enc_bytes_to_string enc) in
            SL [sx_id "font"; sx_enc e; sx_res sx_ustring dec; sx_res sx_bytes re; sx_res sx_ustring dec2;
                sx_res sx_bytes (enc_string_to_bytes enc s)]
          | _ => SL [sx_id "font"; sx_enc e]
          end
        | _, _, _ => sx_id "badcase"
        end
      | _ => sx_id "badcase"
      end
    else if is_id tag "rt" then
      match args with
      | [d; s] =>
        match dict_of_sx d, ustring_of_sx s with
        | Some d, Some s =>
          let e := get_font_encoding d in
          match e with
          | Ok enc =>
            let en := enc_string_to_bytes enc s in
            SL [sx_id "rt"; sx_enc e; sx_res sx_bytes en; sx_res sx_ustring (rbind en (enc_bytes_to_string enc))]
          | _ => SL [sx_id "rt"; sx_enc e]
          end
        | _, _ => sx_id "badcase"
        end
      | _ => sx_id "badcase"
      end
    else if is_id tag "rtall" then
      match args with
      | [d] =>
        match dict_of_sx d with
        | Some d =>
          let e := get_font_encoding d in
          match e with
          | Ok (EncOneByte t) =>
            let s := bytes_to_units t all_byte_values in
            let en := string_to_bytes t s in
            SL [sx_id "rtall"; sx_enc e; sx_ustring s; sx_bytes en; sx_res sx_ustring (bytes_to_string t en)]
          | _ => SL [sx_id "rtall"; sx_enc e]
          end
        | None => sx_id "badcase"
        end
      | _ => sx_id "badcase"
      end
    else if is_id tag "extract" then
      match args with
      | SL (_ :: ps) :: SL (_ :: ns) :: _ =>
        match omap page_of_sx ps, omap as_N ns with
        | Some ps, Some ns =>
          SL [sx_id "extract";
              sx_res (fun cs => SL (map (sx_res sx_ustring) cs)) (extract_text_chunks ps ns);
              sx_res sx_ustring (extract_text ps ns)]
        | _, _ => sx_id "badcase"
        end
      | _ => sx_id "badcase"
      end
    else sx_id "badcase"
  | _ => sx_id "badcase"
  end.

Definition run_line : bytes -> bytes := run_line_with run.
