(* RunC02.v -- runner for C02.  Cases:
     (write <fstyle> <adoc>)            -> (file xBYTES <expected>) | (none)      reference writer (Spec/RefWriter.v)
     (writem <fstyle> (<part>..) <adoc>) -> the same for a file of several parts (ref_write_multi)
     (load xBYTES (ids...) <expected>)  -> <expected>                             what the file defines
     (xrefstream (d ...) xCONTENT)      -> decode_xref_stream (Model/Xref.v)
     (xreftable xBYTES)                 -> xref_and_trailer, first alternative (Model/Xref.v)
     (objstm (d ...) xCONTENT)          -> ObjectStream::new (Model/ObjStm.v)
     (ahx xENCODED expected)            -> Stream::decode_asciihex (Model/AsciiHex.v); expected is for the harness
     (loadz BYTES (ids...) <expected>)  -> Reader::read as Model/LoaderExt.v load_ext, Stream::decompress = lopdf's filter plumbing
                                           (Model/StreamFilt.v) on the GALLINA decoders (Spec/Inflate.v reads fixed and dynamic Huffman
                                           blocks): files whose structural streams were compressed by a real deflate encoder
     (objstmz (d ...) BYTES n)          -> ObjectStream::new with the same Stream::decompress; n is for the harness
   BYTES = one atom xHEX or a list of such atoms (Base/Sx.v reads a long atom in quadratic time)
   <expected> = (loaded xVERSION (trailer sorted by key) (objs ...)) *)
From LV Require Import Base.Bytes Base.Sx Model.Obj Model.Parser Model.Xref Model.ObjStm Model.Loader
  Spec.XrefSpec Spec.RefWriter.
From LV Require Model.A85 Model.AsciiHex Model.LoaderExt Model.StreamFilt Spec.StreamCodecSpec.

Local Open Scope N_scope.

(* ---------- decoding styles ---------- *)
Definition as_nat (x : sx) : option nat := option_map N.to_nat (as_N x).
Definition as_list (x : sx) : option (list sx) := match x with SL l => Some l | SA _ => None end.
Definition as_eolk (x : sx) : option eolk :=
  match as_N x with Some 0 => Some ECR | Some 1 => Some ELF | Some 2 => Some ECRLF | _ => None end.
Definition as_opt_eolk (x : sx) : option (option eolk) :=
  if is_id x "none" then Some None else option_map Some (as_eolk x).
Definition as_Ns (x : sx) : option (list N) := do l <- as_list x; omap as_N l.

Definition fill1_of (x : sx) : option fill1 :=
  match x with
  | SL [t; k] => if is_id t "w" then option_map FWs (as_N k) else None
  | SL [t; txt; e] => if is_id t "c" then do b <- as_bytes txt; do e <- as_eolk e; Some (FComment b e) else None
  | _ => None
  end.
Definition filler_of (x : sx) : option filler := do l <- as_list x; omap fill1_of l.

Definition nch_of (x : sx) : option nch :=
  match x with
  | SL [t; a; b] => if is_id t "h" then do a <- as_bool a; do b <- as_bool b; Some (NHex a b) else None
  | _ => if is_id x "p" then Some NPlain else None
  end.
Definition nstyle_of (x : sx) : option nstyle := do l <- as_list x; omap nch_of l.

Definition lch_of (x : sx) : option lch :=
  match x with
  | SL [t; d] => if is_id t "oct" then option_map LOct (as_nat d) else None
  | _ => if is_id x "raw" then Some LRaw else if is_id x "cr" then Some LRawCR
         else if is_id x "crlf" then Some LRawCRLF else if is_id x "short" then Some LShort
         else if is_id x "ign" then Some LIgn else None
  end.
Definition lpos_of (x : sx) : option lpos :=
  match x with
  | SL [cs; c] => do cs <- as_list cs; do cs <- omap as_eolk cs; do c <- lch_of c;
                  Some {| l_cont := cs; l_ch := c |}
  | _ => None
  end.
Definition hpos_of (x : sx) : option hpos :=
  match x with
  | SL [w1; u1; w2; u2] =>
    do w1 <- as_Ns w1; do u1 <- as_bool u1; do w2 <- as_Ns w2; do u2 <- as_bool u2;
    Some {| h_ws1 := w1; h_u1 := u1; h_ws2 := w2; h_u2 := u2 |}
  | _ => None
  end.
Definition sstyle_of (x : sx) : option sstyle :=
  match x with
  | SL [t; l; tc] =>
    if is_id t "lit" then do l <- as_list l; do l <- omap lpos_of l; do tc <- as_list tc; do tc <- omap as_eolk tc;
                          Some (SLit l tc) else None
  | SL [t; l; tw; dl] =>
    if is_id t "hex" then do l <- as_list l; do l <- omap hpos_of l; do tw <- as_Ns tw; do dl <- as_bool dl;
                          Some (SHex l tw dl) else None
  | _ => None
  end.

Fixpoint ostyle_of (x : sx) : option ostyle :=
  match x with
  | SA _ => if is_id x "def" then Some YDefault else None
  | SL (t :: args) =>
    if is_id t "int" then
      match args with [p; z] => do p <- as_bool p; do z <- as_nat z; Some (YInt p z) | _ => None end
    else if is_id t "real" then
      match args with
      | [p; lz; tz; d0] => do p <- as_bool p; do lz <- as_nat lz; do tz <- as_nat tz; do d0 <- as_bool d0;
                           Some (YReal {| r_plus := p; r_lz := lz; r_tz := tz; r_drop0 := d0 |})
      | _ => None end
    else if is_id t "name" then option_map YName (omap nch_of args)
    else if is_id t "str" then match args with [s] => option_map YStr (sstyle_of s) | _ => None end
    else if is_id t "ref" then
      match args with
      | [z1; z2; f1; f2] => do z1 <- as_nat z1; do z2 <- as_nat z2; do f1 <- filler_of f1; do f2 <- filler_of f2;
                            Some (YRef z1 z2 f1 f2)
      | _ => None end
    else if is_id t "arr" then
      match args with
      | f0 :: items =>
        do f0 <- filler_of f0;
        do its <- (fix go (l : list sx) : option (list (ostyle * filler)) :=
                     match l with
                     | [] => Some []
                     | SL [s; f] :: l' => match ostyle_of s, filler_of f, go l' with
                                          | Some s, Some f, Some r => Some ((s, f) :: r) | _, _, _ => None end
                     | _ => None
                     end) items;
        Some (YArr f0 its)
      | _ => None end
    else if is_id t "dict" then
      match args with
      | f0 :: items =>
        do f0 <- filler_of f0;
        do its <- (fix go (l : list sx) : option (list (nstyle * filler * ostyle * filler)) :=
                     match l with
                     | [] => Some []
                     | SL [ks; fk; vs; fv] :: l' =>
                       match nstyle_of ks, filler_of fk, ostyle_of vs, filler_of fv, go l' with
                       | Some ks, Some fk, Some vs, Some fv, Some r => Some ((ks, fk, vs, fv) :: r)
                       | _, _, _, _, _ => None end
                     | _ => None
                     end) items;
        Some (YDict f0 its)
      | _ => None end
    else None
  | _ => None
  end.

Definition istyle_of (x : sx) : option istyle :=
  match x with
  | SL [f1; f2; f3; f4; gap; o; fs; crlf; ee] =>
    do f1 <- filler_of f1; do f2 <- filler_of f2; do f3 <- filler_of f3; do f4 <- filler_of f4;
    do gap <- filler_of gap; do o <- ostyle_of o; do fs <- filler_of fs; do crlf <- as_bool crlf;
    do ee <- as_opt_eolk ee;
    Some {| i_f1 := f1; i_f2 := f2; i_f3 := f3; i_f4 := f4; i_gap := gap; i_obj := o; i_fs := fs;
            i_crlf := crlf; i_eeol := ee |}
  | _ => if is_id x "def" then Some default_istyle else None
  end.

Definition pred_of (x : sx) : option (option pstyle) :=
  match x with
  | SL [t; p; c; ts; co; b16; ex] =>
    if is_id t "pred" then do p <- as_N p; do c <- as_N c; do ts <- as_Ns ts; do co <- as_N co;
                           do b16 <- as_bool b16; do ex <- as_bool ex;
                           Some (Some {| p_pred := p; p_cols := c; p_types := ts; p_colors := co; p_bpc16 := b16;
                                         p_explicit := ex |}) else None
  | _ => if is_id x "none" then Some None else None
  end.
Definition sfilter_of (x : sx) : option sfilter :=
  match x with
  | SL [t; b; p] =>
    if is_id t "flate" then do b <- as_N b; do p <- pred_of p; Some (SfFlate b p)
    else if is_id t "ahx" then do u <- as_bool b; do ws <- as_Ns p; Some (SfAHx u ws)
    else if is_id t "a85flate" then do b <- as_N b; do p <- pred_of p; Some (SfA85Flate b p)
    else None
  | _ => if is_id x "none" then Some SfNone else if is_id x "a85" then Some SfA85 else None
  end.

Definition pair_NN (x : sx) : option (N * N) :=
  match x with SL [a; b] => do a <- as_N a; do b <- as_N b; Some (a, b) | _ => None end.

Definition ositem_style_of (x : sx) : option (ostyle * list N * list N * list N) :=
  match x with
  | SL [s; wa; w1; w2] => do s <- ostyle_of s; do wa <- as_Ns wa; do w1 <- as_Ns w1; do w2 <- as_Ns w2;
                          Some (s, wa, w1, w2)
  | _ => None
  end.
Definition ostm_of (x : sx) : option ostm :=
  match x with
  | SL [id; ms; its; he; f; arr; ist] =>
    do id <- as_N id; do ms <- as_Ns ms; do its <- as_list its; do its <- omap ositem_style_of its;
    do he <- as_Ns he; do f <- sfilter_of f; do arr <- as_bool arr; do ist <- istyle_of ist;
    Some {| os_id := id; os_members := ms; os_items := its; os_hdr_end := he; os_filter := f;
            os_array := arr; os_istyle := ist |}
  | _ => None
  end.

Definition xstyle_of (x : sx) : option xstyle :=
  match x with
  | SL [t; secs; eols; kw; seols; ssp; f1; ts; f2] =>
    if is_id t "table" then
      do secs <- as_list secs; do secs <- omap pair_NN secs; do eols <- as_Ns eols; do kw <- as_eolk kw;
      do seols <- as_list seols; do seols <- omap as_eolk seols;
      do ssp <- as_list ssp; do ssp <- omap as_bool ssp;
      do f1 <- filler_of f1; do ts <- ostyle_of ts; do f2 <- filler_of f2;
      Some (XTable {| t_secs := secs; t_eols := eols; t_kw_eol := kw; t_sec_eols := seols; t_sec_sp := ssp;
                      t_f1 := f1; t_trailer := ts; t_f2 := f2 |})
    else None
  | SL [t; id; w0; w1; w2; secs; omit; f; arr; ist] =>
    if is_id t "stream" then
      do id <- as_N id; do w0 <- as_nat w0; do w1 <- as_nat w1; do w2 <- as_nat w2;
      do secs <- as_list secs; do secs <- omap pair_NN secs; do omit <- as_bool omit;
      do f <- sfilter_of f; do arr <- as_bool arr; do ist <- istyle_of ist;
      Some (XStream {| xs_id := id; xs_w := (w0, w1, w2); xs_secs := secs; xs_omit_index := omit;
                       xs_filter := f; xs_array := arr; xs_istyle := ist |})
    else None
  | _ => None
  end.

Definition fstyle_of (x : sx) : option fstyle :=
  match x with
  | SL [t; junk; he; bin; order; objs; ostms; xr; e1; s1; s2; e2; fe] =>
    if is_id t "style" then
      do junk <- as_bytes junk; do he <- as_eolk he;
      do bin <- (match bin with
                 | SL [m; e] => do m <- as_bytes m; do e <- as_eolk e; Some (Some (m, e))
                 | _ => if is_id bin "none" then Some None else None
                 end);
      do order <- as_Ns order;
      do objs <- as_list objs;
      do objs <- omap (fun p => match p with SL [n; y] => do n <- as_N n; do y <- istyle_of y; Some (n, y) | _ => None end) objs;
      do ostms <- as_list ostms; do ostms <- omap ostm_of ostms;
      do xr <- xstyle_of xr; do e1 <- as_eolk e1; do s1 <- as_nat s1; do s2 <- as_nat s2; do e2 <- as_eolk e2;
      do fe <- as_opt_eolk fe;
      Some {| s_junk := junk; s_hdr_eol := he; s_binary := bin; s_order := order; s_objs := objs;
              s_ostms := ostms; s_xref := xr; s_sx_eol1 := e1; s_sx_sp1 := s1; s_sx_sp2 := s2;
              s_sx_eol2 := e2; s_final_eol := fe |}
    else None
  | _ => None
  end.

Definition sxblock_of (x : sx) : option (eolk * nat * nat * eolk * option eolk) :=
  match x with
  | SL [e1; s1; s2; e2; fe] =>
    do e1 <- as_eolk e1; do s1 <- as_nat s1; do s2 <- as_nat s2; do e2 <- as_eolk e2; do fe <- as_opt_eolk fe;
    Some (e1, s1, s2, e2, fe)
  | _ => None
  end.
Definition mpart_of (x : sx) : option mpart :=
  match x with
  | SL [t; nums; olds; relist; order; xr; sxb] =>
    if is_id t "part" then
      do nums <- as_Ns nums; do olds <- as_list olds;
      do olds <- omap (fun p => match p with
                                | SL [n; o] => do n <- as_N n; do o <- obj_of_sx o; Some (n, o)
                                | _ => None end) olds;
      do relist <- as_Ns relist; do order <- as_Ns order; do xr <- xstyle_of xr; do sxb <- sxblock_of sxb;
      Some {| mp_nums := nums; mp_old := olds; mp_relist := relist; mp_order := order; mp_xref := xr; mp_sx := sxb |}
    else None
  | _ => None
  end.

Definition adoc_of (x : sx) : option adoc :=
  match x with
  | SL [t; v; tr; SL (_ :: os)] =>
    if is_id t "adoc" then
      do v <- as_bytes v; do tr <- dict_of_sx tr;
      do os <- omap (fun p => match p with
                              | SL [id; o] => do id <- oid_of_sx id; do o <- obj_of_sx o; Some (id, o)
                              | _ => None end) os;
      Some {| a_version := v; a_trailer := tr; a_objs := os |}
    else None
  | _ => None
  end.

(* ---------- printing what a file defines ---------- *)
(* strings are printed without their format (literal or hexadecimal is a matter of spelling) *)
Fixpoint cobj_to_sx (o : obj) : sx :=
  match o with
  | OStr s _ => SL [sx_id "s"; sx_bytes s]
  | OArr l => SL (sx_id "a" :: map cobj_to_sx l)
  | ODict d => SL (sx_id "d" :: map (fun kv => SL [sx_bytes (fst kv); cobj_to_sx (snd kv)]) d)
  | OStream d c =>
    SL [sx_id "st"; SL (sx_id "d" :: map (fun kv => SL [sx_bytes (fst kv); cobj_to_sx (snd kv)]) d); sx_bytes c]
  | _ => obj_to_sx o
  end.

Fixpoint bytes_ltb (a b : bytes) : bool :=
  match a, b with
  | _, [] => false
  | [], _ :: _ => true
  | x :: a', y :: b' => (N_of_byte x <? N_of_byte y) || ((N_of_byte x =? N_of_byte y) && bytes_ltb a' b')
  end.
Fixpoint ins_key (kv : bytes * obj) (l : dict) : dict :=
  match l with
  | [] => [kv]
  | kv' :: t => if bytes_ltb (fst kv) (fst kv') then kv :: l else kv' :: ins_key kv t
  end.
Definition sort_dict (d : dict) : dict := fold_right ins_key [] d.

Fixpoint ins_obj (io : oid * obj) (l : list (oid * obj)) : list (oid * obj) :=
  match l with
  | [] => [io]
  | io' :: t => if oid_ltb (fst io) (fst io') then io :: l else io' :: ins_obj io t
  end.

Definition expected_sx (a : adoc) (size : N) : sx :=
  SL [sx_id "loaded"; sx_bytes (a_version a);
      cobj_to_sx (ODict (sort_dict (a_trailer a ++ [(K_Size, OInt (Z.of_N size))])));
      SL (sx_id "objs" :: map (fun io => SL [oid_to_sx (fst io); cobj_to_sx (snd io)])
                              (fold_right ins_obj [] (content a)))].

(* Size as the writer computes it *)
Definition size_of (st : fstyle) (a : adoc) : N :=
  1 + max_num (map (fun io => fst (fst io)) (a_objs a) ++ map os_id (s_ostms st) ++
               match s_xref st with XStream x => [xs_id x] | XTable _ => [] end).

Definition size_of_multi (st : fstyle) (parts : list mpart) (a : adoc) : N :=
  1 + max_num (map (fun io => fst (fst io)) (a_objs a) ++ map os_id (s_ostms st) ++ part_xids parts).

(* ---------- model cases ---------- *)
Definition no_decompress (d : dict) (c : bytes) : option (dict * bytes) := None.

Definition xres_to_sx (r : xres (xref * dict)) (with_size : bool) : sx :=
  match r with
  | XOk (x, d) =>
    if (xref_max_id x =? 4294967295) && negb with_size then SL [sx_id "err"; sx_id "InvalidXref"]
    else SL [sx_id "ok"; (if with_size then sx_N (x_size x) else sx_id "-"); xmap_to_sx (x_entries x);
             cobj_to_sx (ODict (if with_size then d else sort_dict d))]
  | XErr e => SL [sx_id "err"; xerr_to_sx e]
  | XPanic => sx_id "panic"
  | XOut => sx_id "outoffuel"
  | XNoMatch => SL [sx_id "err"; sx_id "InvalidTrailer"]
  end.

Definition objmap_to_csx (m : objmap) : sx :=
  SL (sx_id "objs" :: map (fun io => SL [oid_to_sx (fst io); cobj_to_sx (snd io)]) m).

(* the loader model (Model/Loader.v, C01) on a reference file: printed like the harness prints the real
   document; where the loader model does not cover a feature (LUnmodelled) the expected content is echoed *)
Definition bookkeeping : list bytes :=
  [bs "Type"; bs "W"; bs "Index"; bs "Length"; bs "Filter"; bs "DecodeParms"].
Definition model_loaded_sx (d : doc) (ignore : list N) : sx :=
  SL [sx_id "loaded"; sx_bytes (d_version d);
      cobj_to_sx (ODict (sort_dict (filter (fun kv => negb (existsb (bytes_eqb (fst kv)) bookkeeping)) (d_trailer d))));
      SL (sx_id "objs" :: map (fun io => SL [oid_to_sx (fst io); cobj_to_sx (snd io)])
                              (filter (fun io => negb (existsb (N.eqb (fst (fst io))) ignore)) (d_objects d)))].

(* Stream::decompress (Model/StreamFilt.v, C09) on the Gallina decoders of the standards -- the definition of
   Proofs/LoadsFilterProofs.v decompress_ref, repeated here so that the runner does not depend on a proof file *)
Definition decompress_gallina (d : dict) (c : bytes) : option (dict * bytes) :=
  match StreamFilt.decompress StreamCodecSpec.gallina_inflate StreamCodecSpec.gallina_lzw
          {| StreamFilt.s_dict := d; StreamFilt.s_content := c |} with
  | A85.Ok s => Some (StreamFilt.s_dict s, StreamFilt.s_content s)
  | _ => None
  end.

Definition as_chunks (x : sx) : option bytes :=
  match x with
  | SA _ => as_bytes x
  | SL l => option_map (@concat byte) (omap as_bytes l)
  end.

Definition run (x : sx) : sx :=
  match x with
  | SL [t; a; b] =>
    if is_id t "write" then
      match fstyle_of a, adoc_of b with
      | Some st, Some ad =>
        match ref_write st ad with
        | Some f => SL [sx_id "file"; sx_bytes f; expected_sx ad (size_of st ad);
                        SL [sx_id "known"; sx_bool (Known_raw_eol st ad); sx_bool (Known_deep_parens ad); sx_bool (Known_asciihex st)]]
        | None => SL [sx_id "none"]
        end
      | None, _ => sx_id "badstyle"
      | _, None => sx_id "baddoc"
      end
    else if is_id t "xrefstream" then
      match dict_of_sx a, as_bytes b with
      | Some d, Some c => xres_to_sx (decode_xref_stream no_decompress d c) true
      | _, _ => sx_id "badcase"
      end
    else if is_id t "ahx" then
      match as_bytes a with
      | Some c =>
        match AsciiHex.decode c with
        | A85.Ok o => SL [sx_id "ok"; sx_bytes o]
        | A85.Err _ => SL [sx_id "err"; sx_id "io-data"]
        | A85.Panic => sx_id "panic"
        | A85.Fuel => sx_id "outoffuel"
        end
      | None => sx_id "badcase"
      end
    else if is_id t "objstm" then
      match dict_of_sx a, as_bytes b with
      | Some d, Some c =>
        match snd (objstm_new no_decompress d c) with
        | OsOk m => SL [sx_id "ok"; objmap_to_csx m]
        | OsErr e => SL [sx_id "err"; oserr_to_sx e]
        end
      | _, _ => sx_id "badcase"
      end
    else sx_id "badcase"
  | SL [t; a] =>
    if is_id t "xreftable" then
      match as_bytes a with
      | Some s => xres_to_sx (xref_and_trailer_table s) false
      | None => sx_id "badcase"
      end
    else if is_id t "asset" then SL [sx_id "asset"; sx_id "ok"]
    else sx_id "badcase"
  | SL [t; b; ig; e] =>
    if is_id t "writem" then
      (* (writem <fstyle> (<part> ...) <adoc>): a file of several parts, each with its own cross-reference section *)
      match fstyle_of b, (do l <- as_list ig; omap mpart_of l), adoc_of e with
      | Some st, Some parts, Some ad =>
        match ref_write_multi st parts ad with
        | Some f => SL [sx_id "file"; sx_bytes f; expected_sx ad (size_of_multi st parts ad);
                        SL [sx_id "known"; sx_bool (Known_raw_eol_multi st parts ad); sx_bool (Known_deep_parens ad);
                            sx_bool (Known_asciihex st)]]
        | None => SL [sx_id "none"]
        end
      | None, _, _ => sx_id "badstyle"
      | _, None, _ => sx_id "badparts"
      | _, _, None => sx_id "baddoc"
      end
    else if is_id t "load" then
      match as_bytes b, as_Ns ig with
      | Some f, Some ignore =>
        match load f with
        | LOk d _ => model_loaded_sx d ignore
        | LUnmodelled => e
        | LErr _ => SL [sx_id "loaderr"; sx_id "model"]
        | LPanic => sx_id "panic"
        | LOut => sx_id "outoffuel"
        end
      | _, _ => sx_id "badcase"
      end
    else if is_id t "loadz" then
      match as_chunks b, as_Ns ig with
      | Some f, Some ignore =>
        match LoaderExt.load_ext decompress_gallina (fun _ => true) f with
        | LOk d _ => model_loaded_sx d ignore
        | LUnmodelled => SL [sx_id "unmodelled"]
        | LErr _ => SL [sx_id "loaderr"; sx_id "model"]
        | LPanic => sx_id "panic"
        | LOut => sx_id "outoffuel"
        end
      | _, _ => sx_id "badcase"
      end
    else if is_id t "objstmz" then
      match dict_of_sx b, as_chunks ig with
      | Some d, Some c =>
        match snd (objstm_new decompress_gallina d c) with
        | OsOk m => SL [sx_id "ok"; objmap_to_csx m]
        | OsErr e => SL [sx_id "err"; oserr_to_sx e]
        end
      | _, _ => sx_id "badcase"
      end
    else sx_id "badcase"
  | _ => sx_id "badcase"
  end.

Definition run_line : bytes -> bytes := run_line_with run.
