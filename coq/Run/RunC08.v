(* RunC08.v -- runner for C08.  One case = the abstract view of a file (what every task reads) plus its bytes:
     (case xFILE (meta xVER xMARK (d trailer...) MAXID ENC [(xc (NUM CONTAINER) ...)]) (entries E ...) [(model pinned|skipped)] [CRYPT])
     E ::= (KEY OFF fail) | (KEY OFF (obj (ID GEN) OBJ)) | (KEY OFF (stm (ID GEN) (d ...) xCONTENT START MEMBERS))
     START ::= none | N          MEMBERS ::= none | (m ((ID GEN) OBJ) ...)
     CRYPT ::= (crypt OPENS (dec ((ID GEN) OBJ OBJ|err) ...) (osm (xCONTENT MEMBERS) ...))
       for an encrypted file: OPENS = the empty password authenticates; dec = what decrypt_object makes of the object found
       under that id (an object that is not listed is left as it is, `err` = Err); osm = what ObjectStream::new finds in a
       decrypted stream with that content (not listed = Err).  A load that fails prints (err) for its document.
   Result: (res (b I ...) (z I ...) (docs DOC ...)) : the document of the sequential load is docs[0]; [b] gives, for every
   permutation of the blocks (all of them up to 6 blocks, lexicographic in the positions of the key order; identity and
   reversal beyond), the index in [docs] of the document that order produces (zero-length ids in key order); [z] the same for
   the orders of the zero-length ids (all up to 4 ids) with the blocks in key order. *)
From LV Require Import Base.Bytes Base.Sx Model.Obj Model.DocQ Model.Sched.

Definition member_of_sx (x : sx) : option member :=
  match x with
  | SL [id; o] => do id <- oid_of_sx id; do o <- obj_of_sx o; Some (id, o)
  | _ => None
  end.

Definition parsed_of_sx (x : sx) : option parsed :=
  match x with
  | SA _ => if is_id x "fail" then Some PFailed else None
  | SL [tag; id; o] =>
    if is_id tag "obj" then do id <- oid_of_sx id; do o <- obj_of_sx o; Some (PObj id o) else None
  | SL [tag; id; d; c; st; ms] =>
    if is_id tag "stm" then
      do id <- oid_of_sx id; do d <- dict_of_sx d; do c <- as_bytes c;
      do st <- (if is_id st "none" then Some None else option_map Some (as_N st));
      do ms <- (match ms with
                | SA _ => if is_id ms "none" then Some None else None
                | SL (_ :: l) => option_map Some (omap member_of_sx l)
                | _ => None
                end);
      Some (PStm id d c st ms)
    else None
  | _ => None
  end.

Definition entry_of_sx (x : sx) : option entry :=
  match x with
  | SL [k; off; p] => do k <- as_N k; do off <- as_N off; do p <- parsed_of_sx p; Some (mkEntry k off p)
  | _ => None
  end.

Definition file_of_sx (x : sx) : option (file * bool) :=
  match x with
  | SL (_ :: fb :: SL (_ :: v :: mk :: tr :: mx :: enc :: xc) :: SL (_ :: es) :: rest) =>
    do fb <- as_bytes fb; do v <- as_bytes v; do mk <- as_bytes mk; do tr <- dict_of_sx tr;
    do mx <- as_N mx; do enc <- as_bool enc; do es <- omap entry_of_sx es;
    do xc <- (match xc with
              | [] => Some []
              | SL (_ :: l) :: _ =>
                omap (fun e => match e with
                               | SL [n; c] => do n <- as_N n; do c <- as_N c; Some (n, c)
                               | _ => None
                               end) l
              | _ => None
              end);
    Some (mkFile fb v mk tr mx enc es xc,
          match rest with SL [_; m] :: _ => is_id m "pinned" | _ => false end)
  | _ => None
  end.

(* ---- the data of the decryption phase ---- *)
Definition find_tag (tag : String.string) (l : list sx) : option (list sx) :=
  match find (fun e => match e with SL (t :: _) => is_id t tag | _ => false end) l with
  | Some (SL (_ :: r)) => Some r
  | _ => None
  end.

Arguments find_tag _%string_scope _.

Definition members_of_sx (ms : sx) : option (option (list member)) :=
  match ms with
  | SA _ => if is_id ms "none" then Some None else None
  | SL (_ :: l) => option_map Some (omap member_of_sx l)
  | _ => None
  end.

Definition dec_entry_of_sx (x : sx) : option (oid * bytes * option obj) :=
  match x with
  | SL [id; e; p] =>
    do id <- oid_of_sx id; do e <- obj_of_sx e;
    do p <- (if is_id p "err" then Some None else option_map Some (obj_of_sx p));
    Some (id, sx_print (obj_to_sx e), p)
  | _ => None
  end.

Definition osm_entry_of_sx (x : sx) : option (bytes * option (list member)) :=
  match x with
  | SL [c; ms] => do c <- as_bytes c; do ms <- members_of_sx ms; Some (c, ms)
  | _ => None
  end.

Fixpoint dec_lookup (t : list (oid * bytes * option obj)) (id : oid) (key : bytes) : option (option obj) :=
  match t with
  | [] => None
  | (i, k, p) :: t' => if oid_eqb i id && bytes_eqb k key then Some p else dec_lookup t' id key
  end.
Fixpoint osm_lookup (t : list (bytes * option (list member))) (c : bytes) : option (list member) :=
  match t with
  | [] => None
  | (k, ms) :: t' => if bytes_eqb k c then ms else osm_lookup t' c
  end.

Definition no_crypt : crypt := mkCrypt false (fun _ o => Some o) (fun _ _ => None).

Definition crypt_of_sx (x : sx) : option crypt :=
  match x with
  | SL l =>
    match find_tag "crypt" l with
    | None => Some no_crypt
    | Some [opens; SL (_ :: dt); SL (_ :: ot)] =>
      do opens <- as_bool opens; do dt <- omap dec_entry_of_sx dt; do ot <- omap osm_entry_of_sx ot;
      Some (mkCrypt opens
              (fun id o => match dt with
                           | [] => Some o
                           | _ => match dec_lookup dt id (sx_print (obj_to_sx o)) with Some p => p | None => Some o end
                           end)
              (fun _ c => osm_lookup ot c))
    | Some _ => None
    end
  | _ => None
  end.

Definition lres_to_sx (r : lres) : sx :=
  match r with LDoc d => doc_to_sx d | LErr => SL [sx_id "err"] end.

Fixpoint find_idx (x : bytes) (l : list (bytes * sx)) (k : nat) : option nat :=
  match l with
  | [] => None
  | (y, _) :: l' => if bytes_eqb x y then Some k else find_idx x l' (S k)
  end.

(* index of each document in the list of distinct documents (first occurrence order), extending [uniq] *)
Definition classify (uniq : list (bytes * sx)) (ds : list sx) : list nat * list (bytes * sx) :=
  fold_left (fun st d =>
               let p := sx_print d in
               match find_idx p (snd st) 0 with
               | Some k => (fst st ++ [k], snd st)
               | None => (fst st ++ [length (snd st)], snd st ++ [(p, d)])
               end) ds ([], uniq).

Definition orders {A} (limit : nat) (l : list A) : list (list A) :=
  if Nat.leb (length l) limit then perms l else [l; rev l].

(* A case marked (model skipped) is decided on the implementation alone (all loads equal, equal to the sequential build): the
   list-based maps of the model are quadratic, a file of several thousand object streams takes it half a minute.  Nothing is
   computed for such a case and nothing truncated: the answer says so and props/c08.py counts it as not compared. *)
Definition model_skipped (x : sx) : bool :=
  match x with
  | SL l => existsb (fun e => match e with SL [t; m] => is_id t "model" && is_id m "skipped" | _ => false end) l
  | _ => false
  end.

Definition run_model (x : sx) : sx :=
  match file_of_sx x, crypt_of_sx x with
  | None, _ | _, None => sx_id "badcase"
  | Some (f, pinned), Some c =>
    let os := outcomes f in
    let rs := results os in
    let bl := blocks_of os in
    let zl := zeros_of os in
    let tail := fun rs bl zl => finish c f ((if pinned then load_tail_pinned f else load_tail f) rs bl zl) in
    let d0 := lres_to_sx (if pinned then finish c f (load_seq_pinned f) else load_full_seq c f) in
    let u0 := [(sx_print d0, d0)] in
    let bdocs := map (fun bl' => lres_to_sx (tail rs bl' zl)) (orders 6 bl) in
    let zdocs := map (fun zl' => lres_to_sx (tail rs bl zl')) (orders 4 zl) in
    let '(bi, u1) := classify u0 bdocs in
    let '(zi, u2) := classify u1 zdocs in
    SL [sx_id "res"; SL (sx_id "b" :: map (fun k => sx_N (N.of_nat k)) bi);
        SL (sx_id "z" :: map (fun k => sx_N (N.of_nat k)) zi);
        SL (sx_id "docs" :: map snd u2)]
  end.

Definition run (x : sx) : sx :=
  if model_skipped x then SL [sx_id "model-skipped"] else run_model x.

(* Base.Sx.sx_parse reverses every atom with List.rev, which is quadratic, and a case carries its whole file as ONE atom
   (files with a container of a few thousand members are 50 kB).  The same stack machine with rev_append, proved equal to it. *)
Definition flush_lin (cur : bytes) (top : list sx) : list sx :=
  match cur with [] => top | _ => SA (rev_append cur []) :: top end.

Fixpoint sx_parse_lin (s : bytes) (cur : bytes) (top : list sx) (stk : list (list sx)) : option (list sx) :=
  match s with
  | [] => match stk with [] => Some (rev_append (flush_lin cur top) []) | _ => None end
  | c :: s' =>
    if byte_eqb c x28 then sx_parse_lin s' [] [] (flush_lin cur top :: stk)
    else if byte_eqb c x29 then
      match stk with
      | [] => None
      | up :: stk' => sx_parse_lin s' [] (SL (rev_append (flush_lin cur top) []) :: up) stk'
      end
    else if byte_eqb c x20 || byte_eqb c x0a || byte_eqb c x0d || byte_eqb c x09 then
      sx_parse_lin s' [] (flush_lin cur top) stk
    else sx_parse_lin s' (c :: cur) top stk
  end.

Lemma flush_lin_eq : forall cur top, flush_lin cur top = flush cur top.
Proof. intros [|c cur] top; [reflexivity|]. unfold flush_lin, flush. now rewrite rev_append_rev, app_nil_r. Qed.

Lemma sx_parse_lin_eq : forall s cur top stk, sx_parse_lin s cur top stk = sx_parse_aux s cur top stk.
Proof.
  induction s as [|c s IH]; intros cur top stk; cbn [sx_parse_lin sx_parse_aux].
  - destruct stk; [|reflexivity]. now rewrite flush_lin_eq, rev_append_rev, app_nil_r.
  - rewrite !flush_lin_eq, rev_append_rev, app_nil_r.
    destruct (byte_eqb c x28); [apply IH|].
    destruct (byte_eqb c x29); [destruct stk; [reflexivity|apply IH]|].
    destruct (_ || _); apply IH.
Qed.

Definition run_line (line : bytes) : bytes :=
  match sx_parse_lin line [] [] [] with
  | Some [x] => sx_print (run x)
  | _ => bs "(badline)"
  end.

Lemma run_line_eq : forall line, run_line line = run_line_with run line.
Proof. intro line. unfold run_line, run_line_with, sx_parse. now rewrite sx_parse_lin_eq. Qed.
