(* RunC13.v -- runner for C13.  case = (case <doc>); result = (res (obj ..) (cat ..) ... (text ..)), group by
   group in the order and format of harness/src/bin/c13.rs.  Every fuelled query runs with its proved fuel
   bound; an OutOfFuel anywhere in a group prints that group as (diverge) (what the harness prints for a hang
   or an abort), a Panic prints (panic <class>) for the call.
   Filter decoding inside get_page_content is instantiated by the C09 model (Model/StreamFilt.v) with empty
   flate/LZW oracles: the C13 generator only emits FlateDecode/LZWDecode over empty stream contents. *)
From LV Require Import Base.Bytes Base.Sx Model.Obj Model.DocQ Model.PageTree Model.Utf Model.Query Gen.Tables.
From LV Require Model.Toc Model.A85 Model.StreamFilt.

Definition decomp (sd : dict) (c : bytes) : option bytes :=
  match StreamFilt.decompressed_content (fun _ => []) (fun _ _ => [])
          {| StreamFilt.s_dict := sd; StreamFilt.s_content := c |} with
  | A85.Ok o => Some o
  | _ => None
  end.

Definition DANGLING : oid := (9999, 0)%N.
Definition all_ids (m : objmap) : list oid := map fst m ++ [DANGLING].

Definition s_err : sx := sx_id "err".
Definition s_ok (x : sx) : sx := SL [sx_id "ok"; x].
Definition s_none : sx := sx_id "none".
Definition s_opt {A} (f : A -> sx) (o : option A) : sx := match o with Some a => f a | None => s_none end.
Definition s_ustr (s : ustring) : sx := SL (sx_id "u" :: map sx_N s).
Definition s_ids (l : list oid) : sx := SL (map oid_to_sx l).

Definition reason_id (r : preason) : sx :=
  match r with
  | PIndex => sx_id "index" | PUnwrap => sx_id "unwrap" | POverflow => sx_id "overflow"
  | PCapacity => sx_id "capacity" | PUnimpl => sx_id "unimpl"
  end.

(* a call result; None = the call diverges (group-level) *)
Definition s_out {A} (f : A -> sx) (o : out A) : option sx :=
  match o with
  | Ok a => Some (s_ok (f a))
  | Err => Some s_err
  | Panic r => Some (SL [sx_id "panic"; reason_id r])
  | OutOfFuel => None
  end.
Definition s_optres {A} (f : A -> sx) (o : option A) : sx :=
  match o with Some a => s_ok (f a) | None => s_err end.

Definition group (name : String.string) (body : option sx) : sx :=
  SL [sx_id name; match body with Some b => b | None => SL [sx_id "diverge"] end].
Arguments group _%string_scope _.

Definition per {A} (ids : list A) (id_sx : A -> sx) (f : A -> option sx) : option sx :=
  option_map SL (omap (fun id => option_map (fun r => SL [id_sx id; r]) (f id)) ids).

Definition dict_ids (m : objmap) : list (oid * dict) :=
  flat_map (fun id => match get_dictionary m id with Some d => [(id, d)] | None => [] end) (all_ids m).

Definition s_dest (d : dest) : sx :=
  let '(t, p, _) := d in SL [sx_id "dest"; obj_to_sx t; obj_to_sx p].
Fixpoint s_outline (o : outline) : sx :=
  match o with
  | ODest d => s_dest d
  | OSub l => SL (sx_id "sub" :: map s_outline l)
  end.
Definition s_named (nm : nmap) : sx := SL (map (fun kv => SL [sx_bytes (fst kv); s_dest (snd kv)]) nm).

Definition s_image (im : image) : sx :=
  SL [sx_id "img"; oid_to_sx (im_id im); sx_Z (im_width im); sx_Z (im_height im);
      s_opt s_ustr (im_cs im); s_opt sx_Z (im_bpc im); SL (map s_ustr (im_filters im))].

Definition probe_bytes : list byte := [x27; x60; x80; xa4; xe0].
Definition s_cell (t : list (option N)) (b : byte) : sx :=
  match nth (N.to_nat (N_of_byte b)) t None with Some n => sx_N n | None => sx_Z (-1) end.
Definition s_enc (e : option enc_class) : sx :=
  match e with
  | Some (EOneByte t) => SL (sx_id "onebyte" :: map (s_cell t) probe_bytes)
  | Some (ESimple n) => SL [sx_id "simple"; sx_bytes n]
  | Some (EToUnicode _ _) => sx_id "tounicode"
  | None => s_err
  end.

Definition s_hint (h : N * N) : sx := SL [sx_N (fst h); sx_N (snd h)].

(* what the std adapters of the harness's probe return when size_hint keeps its promises *)
Definition s_adapters (n : nat) : sx :=
  let n' := N.of_nat n in
  SL [sx_N n'; sx_N (n' / 2); sx_N (2 * n'); sx_N n'; sx_N (N.min n' 3)].

Definition run_doc (d : doc) : sx :=
  let m := d_objects d in
  let ids := all_ids m in
  let fr := fuel_resources m in
  SL [sx_id "res";
    group "obj" (per ids oid_to_sx (fun id =>
      match s_out obj_to_sx (q_get_object m id),
            s_out (fun r => SL [s_opt oid_to_sx (fst r); obj_to_sx (snd r)]) (q_dereference m (ORef (fst id) (snd id))),
            s_out dict_to_sx (q_get_dictionary m id) with
      | Some a, Some b, Some c => Some (SL [a; b; c])
      | _, _, _ => None
      end));
    group "cat" (s_out dict_to_sx (q_catalog d));
    group "did" (per (dict_ids m) (fun x => oid_to_sx (fst x)) (fun x =>
      Some (SL (map (fun k => s_optres dict_to_sx (get_dict_in_dict m (snd x) k))
                    [Q_Resources; Q_Next; Q_A; Q_XObject]))));
    group "hint" (let '(h0, y, h1) := hint_probe d in
                  Some (SL [s_hint h0; s_opt oid_to_sx y; s_hint h1; s_adapters (length (page_iter d))]));
    group "pages" (Some (SL [s_ids (page_iter d);
                             SL (map (fun p => SL [sx_N (fst p); oid_to_sx (snd p)]) (get_pages d))]));
    group "contents" (per ids oid_to_sx (fun id =>
      match get_page_contents fuel_contents m id with
      | Ok l => Some (s_ids l)
      | Err => Some s_err
      | Panic r => Some (SL [sx_id "panic"; reason_id r])
      | OutOfFuel => None
      end));
    group "content" (per ids oid_to_sx (fun id => s_out sx_bytes (get_page_content decomp fuel_contents m id)));
    group "resources" (per ids oid_to_sx (fun id =>
      s_out (fun r => SL [s_opt dict_to_sx (fst r); s_ids (snd r)]) (get_page_resources fr m id)));
    group "fonts" (per ids oid_to_sx (fun id =>
      s_out (fun l => SL (map (fun kv => SL [sx_bytes (fst kv); dict_to_sx (snd kv)]) l)) (get_page_fonts fr m id)));
    group "annots" (per ids oid_to_sx (fun id =>
      Some (s_optres (fun l => SL (map dict_to_sx l)) (get_page_annotations m id))));
    group "images" (per ids oid_to_sx (fun id =>
      Some (s_optres (fun l => SL (map s_image l)) (get_page_images m id))));
    group "nd" (per (dict_ids m) (fun x => oid_to_sx (fst x)) (fun x =>
      let '(nm, r) := get_named_destinations (fuel_nd m) m (snd x) [] in
      match r with
      | Ok _ => Some (SL [sx_id "ok"; s_named nm])
      | Err => Some (SL [s_err; s_named nm])
      | Panic p => Some (SL [sx_id "panic"; reason_id p])
      | OutOfFuel => None
      end));
    group "outlines" (let '(nm, r) := get_outlines (fuel_toc m) d in
                      option_map (fun x => SL [x; s_named nm]) (s_out (fun l => SL (map s_outline l)) r));
    group "toc" (s_out (fun t => SL [SL (map (fun r => SL [sx_id "row"; sx_N (Toc.te_level r); s_ustr (Toc.te_title r);
                                                             sx_N (Toc.te_page r)]) (fst t));
                                     sx_N (snd t)])
                       (get_toc (fuel_toc m) d));
    group "enc" (per (dict_ids m) (fun x => oid_to_sx (fst x)) (fun x => Some (s_enc (get_font_encoding m (snd x)))));
    group "text" (Some (SL []))].

(* (big KIND N STACK_KIB): a document of N + 4 objects that the harness builds itself (seeded defect C13/p1: nesting of First
   links on a document whose reference budget exceeds the stack).  The object map of the model is an association list and
   every query is asked for every id: nothing is computed here, the answer says so and props/c13.py never compares it
   with the implementation's (the case is decided by the direct verdict alone). *)
Definition run (x : sx) : sx :=
  match x with
  | SL (tag :: _ :: _) =>
    if is_id tag "big" then sx_id "model-skipped"
    else
      match (match x with SL (_ :: dx :: _) => doc_of_sx dx | _ => None end) with
      | None => sx_id "badcase"
      | Some d => run_doc d
      end
  | _ => sx_id "badcase"
  end.

Definition run_line : bytes -> bytes := run_line_with run.
