(* RunC15.v -- runner for C15.  Case:
     (case <enc> <cmap> (texts <bytes>...) (probes (<code> <len>)...) <expect>)
   result = what harness/src/bin/c15.rs prints for the same case.  The head `case0` runs the model
   of the pinned (pre-repair) code instead; it is used only to re-derive the recorded defects. *)
From LV Require Import Base.Bytes Base.Sx Model.RangeMap Model.CMap Model.CMapParser.

Definition sx_units (o : option (list N)) : sx :=
  match o with
  | None => sx_id "none"
  | Some v => SL (sx_id "some" :: map sx_N v)
  end.

Definition probe_of (x : sx) : option (N * N) :=
  match x with
  | SL [c; l] => do c' <- as_N c; do l' <- as_N l; Some (c', l')
  | _ => None
  end.

Definition args (x : sx) : list sx := match x with SL (_ :: l) => l | _ => [] end.

Definition filter_some {A} (l : list (option A)) : list A :=
  flat_map (fun o => match o with Some a => [a] | None => [] end) l.

Definition run_cur (cm : cmap) (texts : list bytes) (probes : list (N * N)) : sx :=
  SL [sx_id "res"; sx_id "cmap";
      SL (sx_id "gets" :: map (fun p => sx_units (get cm (fst p) (snd p))) probes);
      SL (sx_id "texts" :: map (fun t => SL (sx_id "ok" :: map sx_N (bytes_to_string cm t))) texts)].

Definition sx_gres (g : gres) : sx :=
  match g with GNone => sx_id "none" | GSome v => SL (sx_id "some" :: map sx_N v) | GPanic => SL [sx_id "panic"] end.
Definition sx_sres (s : sres) : sx :=
  match s with SOk c => SL (sx_id "ok" :: map sx_N c) | SPanic => SL [sx_id "panic"] | SUnmodelledUtf8 => SL [sx_id "unmodelled-utf8"] end.

Definition run_v0 (cm : cmap_v0) (texts : list bytes) (probes : list (N * N)) : sx :=
  SL [sx_id "res"; sx_id "cmap";
      SL (sx_id "gets" :: map (fun p => sx_gres (get_v0 cm (fst p) (snd p))) probes);
      SL (sx_id "texts" :: map (fun t => sx_sres (bytes_to_string_v0 cm t)) texts)].

Definition err (c : String.string) : sx := SL [sx_id "res"; SL [sx_id "err"; SA (bs c)]].
Arguments err _%string_scope.

Definition run (x : sx) : sx :=
  match x with
  | SL (hd :: enc :: cm :: texts :: probes :: _) =>
    match as_bytes cm with
    | None => sx_id "badcase"
    | Some stream =>
      let e := if is_id enc "none" then None else as_bytes enc in
      let ts := filter_some (map as_bytes (args texts)) in
      let ps := filter_some (map probe_of (args probes)) in
      match font_encoding_choice e with
      | EcToUnicode =>
        match cmap_stream stream with
        | POk secs _ =>
          if is_id hd "case0" then
            match from_sections_v0 secs with
            | FsOk cm0 => run_v0 cm0 ts ps
            | FsInvalidCodeRange => err "range"
            end
          else
            match from_sections secs with
            | FsOk c => run_cur c ts ps
            | FsInvalidCodeRange => err "range"
            end
        | PErr | PFail => err "parse"
        | PUnmodelled => SL [sx_id "unmodelled"]
        | POutOfFuel => SL [sx_id "outoffuel"]
        end
      | _ => SL [sx_id "res"; sx_id "notcmap"]
      end
    end
  | _ => sx_id "badcase"
  end.

Definition run_line : bytes -> bytes := run_line_with run.
