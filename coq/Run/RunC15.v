(* RunC15.v -- runner for C15.  Case:
     (case <enc> <cmap> (texts <bytes>...) (probes (<code> <len>)...) <expect>)
   result = what harness/src/bin/c15.rs prints for the same case.  The head `case0` runs the model
   of the pinned (pre-repair) code instead; it is used only to re-derive the recorded defects.

   The renderer of Spec/CMapRender.v (the one the theorems of Proofs/CMapRenderProofs.v talk about)
   is extracted with the runner:
     (rendertext <layout> <secs>)                         -> x<hex of render layout secs>
     (render <enc> <cmap> <texts> <probes> <expect> <layout> <secs>)
        <cmap> was produced by `rendertext`; the runner renders again, refuses a text that is not
        its own ((res render-differs)), checks the instance of the round-trip theorem on it
        ((res roundtrip-differs) if cmap_stream does not return exactly <secs> and an empty rest)
        and then answers like `case`; the harness treats `render` like `case`.
   layout ::= (layout (pre W...) (gap0 (B...)...) (gap1 (B...)...) (brk (W...)...) (dict (W...)...) <n> (secs SEC...) (post W...))
   SEC ::= (sec (B...) (W...) (lines LINE...) (W...))
   LINE ::= (line <bits> (B...) <bits> (B...) <0|1> (W...) (tgts ((W...) (U...))...) (W...) (W...))
   U ::= (<bits> (S...))      B ::= s | t      S ::= B | cr | lf | crlf      W ::= S | (c <bytes> cr|lf|crlf)
   <bits> = an atom of 0 / 1 (1 = upper case digit), "-" for none
   secs ::= (secs (cs (lo hi len)...) | (bfchar (code len (u...))...) | (bfrange (lo hi len ((u...)...))...) ...) *)
From LV Require Import Base.Bytes Base.Sx Model.RangeMap Model.CMap Model.CMapParser Spec.CMapRender.

Definition sx_units (o : option (list N)) : sx :=
  match o with
  | None => sx_id "none"
  | Some v => SL (sx_id "some" :: map sx_N v)
  end.

Definition probe_of (x : sx) : option (N * N) :=
  match x with
  | SL [c; l] => do c' <- as_N c; do l' <- as_N l; Some (c', l')
  | _ => None
  end.

Definition args (x : sx) : list sx := match x with SL (_ :: l) => l | _ => [] end.

Definition filter_some {A} (l : list (option A)) : list A :=
  flat_map (fun o => match o with Some a => [a] | None => [] end) l.

Definition run_cur (cm : cmap) (texts : list bytes) (probes : list (N * N)) : sx :=
  SL [sx_id "res"; sx_id "cmap";
      SL (sx_id "gets" :: map (fun p => sx_units (get cm (fst p) (snd p))) probes);
      SL (sx_id "texts" :: map (fun t => SL (sx_id "ok" :: map sx_N (bytes_to_string cm t))) texts)].

Definition sx_gres (g : gres) : sx :=
  match g with GNone => sx_id "none" | GSome v => SL (sx_id "some" :: map sx_N v) | GPanic => SL [sx_id "panic"] end.
Definition sx_sres (s : sres) : sx :=
  match s with SOk c => SL (sx_id "ok" :: map sx_N c) | SPanic => SL [sx_id "panic"] | SUnmodelledUtf8 => SL [sx_id "unmodelled-utf8"] end.

Definition run_v0 (cm : cmap_v0) (texts : list bytes) (probes : list (N * N)) : sx :=
  SL [sx_id "res"; sx_id "cmap";
      SL (sx_id "gets" :: map (fun p => sx_gres (get_v0 cm (fst p) (snd p))) probes);
      SL (sx_id "texts" :: map (fun t => sx_sres (bytes_to_string_v0 cm t)) texts)].

Definition err (c : String.string) : sx := SL [sx_id "res"; SL [sx_id "err"; SA (bs c)]].
Arguments err _%string_scope.

(* ---------- decoding layouts and section lists ---------- *)
Definition dec_blank (x : sx) : option blank :=
  if is_id x "s" then Some Space else if is_id x "t" then Some Tab else None.
Definition dec_eol (x : sx) : option eol :=
  if is_id x "cr" then Some CR else if is_id x "lf" then Some LF else if is_id x "crlf" then Some CRLF else None.
Definition dec_sitem (x : sx) : option sitem :=
  match dec_blank x with Some b => Some (SBlank b) | None => option_map SEol (dec_eol x) end.
Definition dec_witem (x : sx) : option witem :=
  match x with
  | SL [c; t; e] => if is_id c "c" then do t' <- as_bytes t; do e' <- dec_eol e; Some (WComment t' e') else None
  | SL _ => None
  | SA _ => match dec_blank x with Some b => Some (WBlank b) | None => option_map WEol (dec_eol x) end
  end.
Definition dec_list {A} (f : sx -> option A) (x : sx) : option (list A) :=
  match x with SL l => omap f l | SA _ => None end.
Definition dec_ne {A} (f : sx -> option A) (x : sx) : option (A * list A) :=
  match dec_list f x with Some (a :: r) => Some (a, r) | _ => None end.
Definition dec_bits (x : sx) : option (list bool) :=
  match x with SA a => Some (map (fun c => byte_eqb c x31) a) | SL _ => None end.

Definition dec_ulay (x : sx) : option ulay :=
  match x with
  | SL [b; g] => do b' <- dec_bits b; do g' <- dec_list dec_sitem g; Some (mkUlay b' g')
  | _ => None
  end.
Definition dec_tgt (x : sx) : option (brk0 * tlay) :=
  match x with
  | SL [g; t] => do g' <- dec_list dec_witem g; do t' <- dec_list dec_ulay t; Some (g', t')
  | _ => None
  end.
Definition dec_line (x : sx) : option line_lay :=
  match x with
  | SL [_; c1; g1; c2; g2; br; op; tg; cl; en] =>
    do c1' <- dec_bits c1; do g1' <- dec_list dec_blank g1; do c2' <- dec_bits c2; do g2' <- dec_list dec_blank g2;
    do br' <- as_bool br; do op' <- dec_list dec_witem op; do tg' <- omap dec_tgt (args tg);
    do cl' <- dec_list dec_witem cl; do en' <- dec_ne dec_witem en;
    Some (mkLineLay c1' g1' c2' g2' br' op' tg' cl' en')
  | _ => None
  end.
Definition dec_sec (x : sx) : option sec_lay :=
  match x with
  | SL [_; g; b; ls; e] =>
    do g' <- dec_ne dec_blank g; do b' <- dec_ne dec_witem b; do ls' <- omap dec_line (args ls); do e' <- dec_ne dec_witem e;
    Some (mkSecLay g' b' ls' e')
  | _ => None
  end.
Definition dec_layout (x : sx) : option layout :=
  match x with
  | SL [_; pre; g0s; g1s; brks; dict; n; secs; post] =>
    do pre' <- omap dec_witem (args pre); do g0' <- omap (dec_list dec_blank) (args g0s);
    do g1' <- omap (dec_ne dec_blank) (args g1s); do br' <- omap (dec_ne dec_witem) (args brks);
    do di' <- omap (dec_list dec_witem) (args dict); do n' <- as_N n; do se' <- omap dec_sec (args secs);
    do po' <- omap dec_witem (args post);
    Some (mkLayout pre' g0' g1' br' di' n' se' po')
  | _ => None
  end.

Definition dec_units (x : sx) : option (list N) := dec_list as_N x.
Definition dec_cs_line (x : sx) : option (N * N * N) :=
  match x with SL [a; b; c] => do a' <- as_N a; do b' <- as_N b; do c' <- as_N c; Some (a', b', c') | _ => None end.
Definition dec_bfchar_line (x : sx) : option ((N * N) * list N) :=
  match x with SL [a; b; t] => do a' <- as_N a; do b' <- as_N b; do t' <- dec_units t; Some ((a', b'), t') | _ => None end.
Definition dec_bfrange_line (x : sx) : option ((N * N * N) * list (list N)) :=
  match x with
  | SL [a; b; c; t] => do a' <- as_N a; do b' <- as_N b; do c' <- as_N c; do t' <- dec_list dec_units t; Some ((a', b', c'), t')
  | _ => None
  end.
(* code lengths above 4 are refused here: be_digits is unary in the length *)
Definition small_len (n : N) : bool := (n <=? 4)%N.
Definition dec_section (x : sx) : option csection :=
  match x with
  | SL (h :: l) =>
    if is_id h "cs" then do l' <- omap dec_cs_line l; if forallb (fun y => small_len (snd y)) l' then Some (CsRange l') else None
    else if is_id h "bfchar" then do l' <- omap dec_bfchar_line l; if forallb (fun y => small_len (snd (fst y))) l' then Some (BfChar l') else None
    else if is_id h "bfrange" then do l' <- omap dec_bfrange_line l; if forallb (fun y => small_len (snd (fst y))) l' then Some (BfRange l') else None
    else None
  | _ => None
  end.
Definition dec_secs (x : sx) : option (list csection) := omap dec_section (args x).

(* ---------- equality of section lists ---------- *)
Fixpoint list_eqb {A} (e : A -> A -> bool) (a b : list A) : bool :=
  match a, b with
  | [], [] => true
  | x :: a', y :: b' => e x y && list_eqb e a' b'
  | _, _ => false
  end.
Definition csection_eqb (a b : csection) : bool :=
  match a, b with
  | CsRange x, CsRange y =>
    list_eqb (fun p q => (fst (fst p) =? fst (fst q))%N && (snd (fst p) =? snd (fst q))%N && (snd p =? snd q)%N) x y
  | BfChar x, BfChar y =>
    list_eqb (fun p q => (fst (fst p) =? fst (fst q))%N && (snd (fst p) =? snd (fst q))%N && listN_eqb (snd p) (snd q)) x y
  | BfRange x, BfRange y =>
    list_eqb (fun p q => (fst (fst (fst p)) =? fst (fst (fst q)))%N && (snd (fst (fst p)) =? snd (fst (fst q)))%N
                         && (snd (fst p) =? snd (fst q))%N && listlistN_eqb (snd p) (snd q)) x y
  | _, _ => false
  end.

(* the checks of a `render` case: the text is the renderer's own, and the parser model gives the
   sections back *)
Definition render_check (x : sx) (stream : bytes) : option sx :=
  match x with
  | SL (_ :: _ :: _ :: _ :: _ :: _ :: lay :: secs :: _) =>
    match dec_layout lay, dec_secs secs with
    | Some y, Some ss =>
      if negb (bytes_eqb (render y ss) stream) then Some (SL [sx_id "res"; sx_id "render-differs"])
      else match cmap_stream stream with
           | POk ss' [] => if list_eqb csection_eqb ss ss' then None else Some (SL [sx_id "res"; sx_id "roundtrip-differs"])
           | _ => Some (SL [sx_id "res"; sx_id "roundtrip-differs"])
           end
    | _, _ => Some (sx_id "badcase")
    end
  | _ => Some (sx_id "badcase")
  end.

Definition run_rendertext (x : sx) : sx :=
  match x with
  | SL [_; lay; secs] =>
    match dec_layout lay, dec_secs secs with
    | Some y, Some ss => sx_bytes (render y ss)
    | _, _ => sx_id "badcase"
    end
  | _ => sx_id "badcase"
  end.

Definition run_case (x : sx) : sx :=
  match x with
  | SL (hd :: enc :: cm :: texts :: probes :: _) =>
    match as_bytes cm with
    | None => sx_id "badcase"
    | Some stream =>
      let e := if is_id enc "none" then None else as_bytes enc in
      let ts := filter_some (map as_bytes (args texts)) in
      let ps := filter_some (map probe_of (args probes)) in
      match font_encoding_choice e with
      | EcToUnicode =>
        match cmap_stream stream with
        | POk secs _ =>
          if is_id hd "case0" then
            match from_sections_v0 secs with
            | FsOk cm0 => run_v0 cm0 ts ps
            | FsInvalidCodeRange => err "range"
            end
          else
            match from_sections secs with
            | FsOk c => run_cur c ts ps
            | FsInvalidCodeRange => err "range"
            end
        | PErr | PFail => err "parse"
        | PUnmodelled => SL [sx_id "unmodelled"]
        | POutOfFuel => SL [sx_id "outoffuel"]
        end
      | _ => SL [sx_id "res"; sx_id "notcmap"]
      end
    end
  | _ => sx_id "badcase"
  end.

Definition run (x : sx) : sx :=
  match x with
  | SL (hd :: rest) =>
    if is_id hd "rendertext" then run_rendertext x
    else if is_id hd "render" then
      match rest with
      | _ :: cm :: _ =>
        match as_bytes cm with
        | Some stream => match render_check x stream with Some bad => bad | None => run_case x end
        | None => sx_id "badcase"
        end
      | _ => sx_id "badcase"
      end
    else run_case x
  | _ => sx_id "badcase"
  end.

Definition run_line : bytes -> bytes := run_line_with run.
