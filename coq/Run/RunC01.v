(* RunC01.v -- runner for C01 (save then load).
   (save <fmt> <doc>)  ->  <saveres>            fmt ::= table | stream
   (rt <fmt> <doc>)    ->  (rt <saveres> <loadres> <saveres2> <loadres2>)   (later parts only while ok;
                           the second cycle uses the format the loader recorded)
   (load xBYTES)       ->  <loadres>
   (rt-enc <fmt> <plain doc> <encrypted doc> xPW)
                       ->  (rt-enc <saveres> <loadres> <decres>)   the ENCRYPTED document saved and loaded (Model/LoaderCrypt.v:
                           the reader's Encrypt branch, the decrypt attempt with the empty password = property C05's handler);
                           <decres> ::= (dec <doc>) | (dec-err <class>) | (dec-panic): Document::decrypt(PW) on what came back,
                           when that still has an Encrypt entry, else (nodec).  The plain document is for the harness' verdict.
   (rt-hist <fmt> xFILE) ->  (rt-hist <loadres> <saveres> <loadres> <saveres2> <loadres2>)   the property on a document
                           OBTAINED BY LOADING: FILE (several cross-reference sections: incremental updates, appended
                           revisions) is loaded, the loaded document goes through the parts of an rt case
   <saveres> ::= (saved xBYTES <doc-after-save>) | (invalid-mark xBYTES) | (save-panic xBYTES)
   <loadres> ::= (loaded <doc> table|stream) | (err <class>) | (load-panic) | (out) | (unmodelled)
                 | (models-disagree <loadres of Loader.load> <loadres of LoaderExt.load_plain>)
   Every file is loaded by BOTH loader models: Model/Loader.v (the one the theorems are about) and its extension
   Model/LoaderExt.v (Length as a reference, object streams).  Where Loader.load answers, the two must agree (else
   models-disagree, which no implementation output equals); where it says (unmodelled) the extension answers; where that
   says (unmodelled) too -- Encrypt in the trailer -- Model/LoaderCrypt.v answers (the executable primitives of
   Model/Crypto/Concrete.v, no filter model: a file whose Encrypt branch would meet a filtered object stream stays
   (unmodelled)). *)
From LV Require Import Base.Bytes Base.Sx Model.Obj Model.Writer Model.Save Model.Xref Model.Loader Model.LoaderExt
  Model.LoaderEnc.
From LV Require Model.Crypto.Handler Model.Crypto.Concrete Model.LoaderCrypt.

Definition saveres_to_sx (r : save_out) : sx :=
  match so_status r with
  | SaveOk => SL [sx_id "saved"; sx_bytes (so_bytes r); doc_to_sx (so_doc r)]
  | SaveInvalidMark => SL [sx_id "invalid-mark"; sx_bytes (so_bytes r)]
  | SavePanic => SL [sx_id "save-panic"; sx_bytes (so_bytes r)]
  end.

Definition fmt_of_sx (x : sx) : option xref_type :=
  if is_id x "table" then Some XTable else if is_id x "stream" then Some XStream else None.

Definition lerr_to_sx (e : lerr) : sx :=
  match e with
  | LeHeader => sx_id "parse-InvalidFileHeader"
  | LeXrefStart => sx_id "xref-Start"
  | LePrevStart => sx_id "xref-PrevStart"
  | LeStreamStart => sx_id "xref-StreamStart"
  | LeTrailer => sx_id "parse-InvalidTrailer"
  | LeInvalidXref => sx_id "parse-InvalidXref"
  | LeIo => sx_id "other-IO"
  end.

Definition loadres_to_sx (r : lres) : sx :=
  match r with
  | LOk d t => SL [sx_id "loaded"; doc_to_sx d; match t with XTTable => sx_id "table" | XTStream => sx_id "stream" end]
  | LErr e => SL [sx_id "err"; lerr_to_sx e]
  | LPanic => SL [sx_id "load-panic"]
  | LOut => SL [sx_id "out"]
  | LUnmodelled => SL [sx_id "unmodelled"]
  end.

(* lopdf::Error classes as harness/src/bin/c01.rs prints them: every DecryptionError is Error::Decryption *)
Definition crypt_err_to_sx (e : Handler.err) : sx :=
  match e with
  | Handler.E_NotEncrypted => sx_id "other-NotEncrypted"
  | Handler.E_AlreadyEncrypted => sx_id "other-AlreadyEncrypted"
  | Handler.E_DictKey => sx_id "other-DictKey"
  | Handler.E_ObjectType => sx_id "other-ObjectType"
  | Handler.E_TryFromInt => sx_id "other-TryFromInt"
  | Handler.E_UnsupportedSecurityHandler => sx_id "other-UnsupportedSecurityHandler"
  | _ => sx_id "other-Decryption"
  end.

(* the executable instance has no filter model: decrypt_raw's object-stream pass on a filtered stream of Type ObjStm
   (ObjectStream::new decompresses it) is not answered *)
Definition filtered_objstm (d : doc) : bool :=
  existsb (fun io => match snd io with
                     | OStream sd _ => has_type sd K_ObjStm && dict_has sd K_Filter
                     | _ => false
                     end) (d_objects d).

Definition after_run (x : xmap) (d : doc) (t : xtype) : LoaderCrypt.cres :=
  if filtered_objstm d then LoaderCrypt.CLoad LUnmodelled else LoaderCrypt.after_crypt Concrete.concrete x d t.

(* Document::load_mem on every file: Reader::read with the Encrypt branch *)
Definition load_crypt_run (b : bytes) : LoaderCrypt.cres :=
  load_encx (fun _ _ => None) (fun _ => false) LoaderCrypt.cres LoaderCrypt.CLoad after_run b.

Definition cres_to_sx (r : LoaderCrypt.cres) : sx :=
  match r with
  | LoaderCrypt.CLoad l => loadres_to_sx l
  | LoaderCrypt.CDecryptErr e => SL [sx_id "err"; crypt_err_to_sx e]
  | LoaderCrypt.CDecryptPanic => SL [sx_id "load-panic"]
  end.
Definition lres_of_cres (r : LoaderCrypt.cres) : lres :=
  match r with LoaderCrypt.CLoad l => l | LoaderCrypt.CDecryptErr _ => LErr LeIo | LoaderCrypt.CDecryptPanic => LPanic end.

Definition load_both (b : bytes) : lres * sx :=
  let a := load b in
  let e := load_plain b in
  match a with
  | LUnmodelled =>
    match e with
    | LUnmodelled => let c := load_crypt_run b in (lres_of_cres c, cres_to_sx c)
    | _ => (e, loadres_to_sx e)
    end
  | _ =>
    let sa := loadres_to_sx a in
    let se := loadres_to_sx e in
    if bytes_eqb (sx_print sa) (sx_print se) then (a, sa) else (a, SL [sx_id "models-disagree"; sa; se])
  end.

Definition fmt_of_xtype (t : xtype) : xref_type := match t with XTTable => XTable | XTStream => XStream end.

Definition rt_parts (xt : xref_type) (d : doc) : list sx :=
  let s1 := save xt d in
     (saveres_to_sx s1 ::
      match so_status s1 with
      | SaveOk =>
        let '(l1, x1) := load_both (so_bytes s1) in
        x1 ::
        match l1 with
        | LOk d1 t1 =>
          let s2 := save (fmt_of_xtype t1) d1 in
          saveres_to_sx s2 ::
          match so_status s2 with
          | SaveOk => [snd (load_both (so_bytes s2))]
          | _ => []
          end
        | _ => []
        end
      | _ => []
      end).

Definition run_rt (xt : xref_type) (d : doc) : sx := SL (sx_id "rt" :: rt_parts xt d).

(* a document obtained by loading: the file, then the save / load / save / load of what came back *)
Definition run_rt_hist (xt : xref_type) (b : bytes) : sx :=
  let '(l0, x0) := load_both b in
  SL (sx_id "rt-hist" :: x0 :: match l0 with LOk d _ => rt_parts xt d | _ => [] end).

(* Document::decrypt(pw) on a loaded document that still has its Encrypt entry; a file lopdf wrote has no Compressed
   entries in its table *)
Definition decres_to_sx (d : doc) (pw : bytes) : sx :=
  if dict_has (d_trailer d) K_Encrypt then
    match Handler.doc_decrypt Concrete.concrete d pw with
    | Handler.DOk d' _ => SL [sx_id "dec"; doc_to_sx d']
    | Handler.DErr e => SL [sx_id "dec-err"; crypt_err_to_sx e]
    | Handler.DErrMid e => SL [sx_id "dec-err"; crypt_err_to_sx e]
    | Handler.DPanic => SL [sx_id "dec-panic"]
    end
  else SL [sx_id "nodec"].

Definition run_rt_enc (xt : xref_type) (d1 : doc) (pw : bytes) : sx :=
  let s1 := save xt d1 in
  SL (sx_id "rt-enc" :: saveres_to_sx s1 ::
      match so_status s1 with
      | SaveOk =>
        let '(l1, x1) := load_both (so_bytes s1) in
        x1 :: match l1 with LOk d t => [decres_to_sx d pw] | _ => [] end
      | _ => []
      end).

Definition run (x : sx) : sx :=
  match x with
  | SL [t; f; _; ex; pw] =>
    if is_id t "rt-enc" then
      match fmt_of_sx f, doc_of_sx ex, as_bytes pw with
      | Some xt, Some d1, Some pw => run_rt_enc xt d1 pw
      | _, _, _ => sx_id "badcase"
      end
    else sx_id "badcase"
  | SL [t; f; dx] =>
    if is_id t "rt-hist" then
      match fmt_of_sx f, as_bytes dx with
      | Some xt, Some b => run_rt_hist xt b
      | _, _ => sx_id "badcase"
      end
    else if is_id t "save" || is_id t "rt" then
      match fmt_of_sx f, doc_of_sx dx with
      | Some xt, Some d => if is_id t "save" then saveres_to_sx (save xt d) else run_rt xt d
      | _, _ => sx_id "badcase"
      end
    else sx_id "badcase"
  | SL [t; b] =>
    if is_id t "load" then
      match as_bytes b with
      | Some b => snd (load_both b)
      | None => sx_id "badcase"
      end
    else sx_id "badcase"
  | _ => sx_id "badcase"
  end.

Definition run_line : bytes -> bytes := run_line_with run.
