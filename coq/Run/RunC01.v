(* RunC01.v -- runner for C01 (save then load).
   (save <fmt> <doc>)  ->  <saveres>            fmt ::= table | stream
   (rt <fmt> <doc>)    ->  (rt <saveres> <loadres> <saveres2> <loadres2>)   (later parts only while ok;
                           the second cycle uses the format the loader recorded)
   (load xBYTES)       ->  <loadres>
   <saveres> ::= (saved xBYTES <doc-after-save>) | (invalid-mark xBYTES) | (save-panic xBYTES)
   <loadres> ::= (loaded <doc> table|stream) | (err <class>) | (load-panic) | (out) | (unmodelled)
                 | (models-disagree <loadres of Loader.load> <loadres of LoaderExt.load_plain>)
   Every file is loaded by BOTH loader models: Model/Loader.v (the one the theorems are about) and its extension
   Model/LoaderExt.v (Length as a reference, object streams).  Where Loader.load answers, the two must agree (else
   models-disagree, which no implementation output equals); where it says (unmodelled) the extension answers. *)
From LV Require Import Base.Bytes Base.Sx Model.Obj Model.Writer Model.Save Model.Xref Model.Loader Model.LoaderExt.

Definition saveres_to_sx (r : save_out) : sx :=
  match so_status r with
  | SaveOk => SL [sx_id "saved"; sx_bytes (so_bytes r); doc_to_sx (so_doc r)]
  | SaveInvalidMark => SL [sx_id "invalid-mark"; sx_bytes (so_bytes r)]
  | SavePanic => SL [sx_id "save-panic"; sx_bytes (so_bytes r)]
  end.

Definition fmt_of_sx (x : sx) : option xref_type :=
  if is_id x "table" then Some XTable else if is_id x "stream" then Some XStream else None.

Definition lerr_to_sx (e : lerr) : sx :=
  match e with
  | LeHeader => sx_id "parse-InvalidFileHeader"
  | LeXrefStart => sx_id "xref-Start"
  | LePrevStart => sx_id "xref-PrevStart"
  | LeStreamStart => sx_id "xref-StreamStart"
  | LeTrailer => sx_id "parse-InvalidTrailer"
  | LeInvalidXref => sx_id "parse-InvalidXref"
  | LeIo => sx_id "other-IO"
  end.

Definition loadres_to_sx (r : lres) : sx :=
  match r with
  | LOk d t => SL [sx_id "loaded"; doc_to_sx d; match t with XTTable => sx_id "table" | XTStream => sx_id "stream" end]
  | LErr e => SL [sx_id "err"; lerr_to_sx e]
  | LPanic => SL [sx_id "load-panic"]
  | LOut => SL [sx_id "out"]
  | LUnmodelled => SL [sx_id "unmodelled"]
  end.

Definition load_both (b : bytes) : lres * sx :=
  let a := load b in
  let e := load_plain b in
  match a with
  | LUnmodelled => (e, loadres_to_sx e)
  | _ =>
    let sa := loadres_to_sx a in
    let se := loadres_to_sx e in
    if bytes_eqb (sx_print sa) (sx_print se) then (a, sa) else (a, SL [sx_id "models-disagree"; sa; se])
  end.

Definition fmt_of_xtype (t : xtype) : xref_type := match t with XTTable => XTable | XTStream => XStream end.

Definition run_rt (xt : xref_type) (d : doc) : sx :=
  let s1 := save xt d in
  SL (sx_id "rt" :: saveres_to_sx s1 ::
      match so_status s1 with
      | SaveOk =>
        let '(l1, x1) := load_both (so_bytes s1) in
        x1 ::
        match l1 with
        | LOk d1 t1 =>
          let s2 := save (fmt_of_xtype t1) d1 in
          saveres_to_sx s2 ::
          match so_status s2 with
          | SaveOk => [snd (load_both (so_bytes s2))]
          | _ => []
          end
        | _ => []
        end
      | _ => []
      end).

Definition run (x : sx) : sx :=
  match x with
  | SL [t; f; dx] =>
    if is_id t "save" || is_id t "rt" then
      match fmt_of_sx f, doc_of_sx dx with
      | Some xt, Some d => if is_id t "save" then saveres_to_sx (save xt d) else run_rt xt d
      | _, _ => sx_id "badcase"
      end
    else sx_id "badcase"
  | SL [t; b] =>
    if is_id t "load" then
      match as_bytes b with
      | Some b => snd (load_both b)
      | None => sx_id "badcase"
      end
    else sx_id "badcase"
  | _ => sx_id "badcase"
  end.

Definition run_line : bytes -> bytes := run_line_with run.
