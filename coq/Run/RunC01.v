(* RunC01.v -- runner for C01 (save then load).
   (save <fmt> <doc>)  ->  <saveres>            fmt ::= table | stream
   <saveres> ::= (saved xBYTES <doc-after-save>) | (invalid-mark xBYTES) | (save-panic xBYTES) *)
From LV Require Import Base.Bytes Base.Sx Model.Obj Model.Writer Model.Save.

Definition saveres_to_sx (r : save_out) : sx :=
  match so_status r with
  | SaveOk => SL [sx_id "saved"; sx_bytes (so_bytes r); doc_to_sx (so_doc r)]
  | SaveInvalidMark => SL [sx_id "invalid-mark"; sx_bytes (so_bytes r)]
  | SavePanic => SL [sx_id "save-panic"; sx_bytes (so_bytes r)]
  end.

Definition fmt_of_sx (x : sx) : option xref_type :=
  if is_id x "table" then Some XTable else if is_id x "stream" then Some XStream else None.

Definition run (x : sx) : sx :=
  match x with
  | SL [t; f; dx] =>
    if is_id t "save" then
      match fmt_of_sx f, doc_of_sx dx with
      | Some xt, Some d => saveres_to_sx (save xt d)
      | _, _ => sx_id "badcase"
      end
    else sx_id "badcase"
  | _ => sx_id "badcase"
  end.

Definition run_line : bytes -> bytes := run_line_with run.
