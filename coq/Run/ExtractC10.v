From Coq Require Extraction ExtrOcamlBasic.
From LV Require Import Base.Bytes Run.RunC10.
Extraction Language OCaml.
Extraction "runmod_c10.ml" run_line N_of_byte byte_of_N.
