(* RunC03.v -- runner for C03: one case = the bytes of a file, (file xHEX xHEX ...) (the file cut into
   chunks, concatenated here: Base/Sx.v reverses each atom naively); the result is what the
   strict reader of Spec/StrictReader.v makes of them:
     (ok xVERSION (objs ((id gen) obj) ...) (d trailer...) nrevisions isstream)   or   (err RULE detail) *)
From Coq Require Import Strings.String.
From LV Require Import Base.Bytes Base.Sx Model.Obj Spec.StrictReader.
Local Open Scope string_scope.

Definition rule_name (r : rule) : String.string :=
  match r with
  | R_header => "header" | R_binary_comment => "binary-comment" | R_eof_marker => "eof-marker"
  | R_startxref_target => "startxref-target" | R_xref_keyword => "xref-keyword"
  | R_subsection => "subsection-header" | R_entry20 => "entry-20-bytes" | R_trailer => "trailer"
  | R_xstream_dict => "xref-stream-dict" | R_xstream_filter => "xref-stream-filter"
  | R_xstream_W => "xref-stream-W" | R_xstream_Index => "xref-stream-Index"
  | R_xstream_Length => "xref-stream-Length" | R_xstream_entry => "xref-stream-entry-type"
  | R_entry_offset => "entry-offset" | R_object_syntax => "object-syntax"
  | R_stream_length => "stream-Length" | R_generation => "generation" | R_size => "Size"
  | R_prev => "Prev" | R_dup_entry => "duplicate-entry" | R_gap => "unaccounted-bytes"
  | R_overlap => "overlapping-spans" | R_fuel => "fuel"
  end.

Definition run (x : sx) : sx :=
  match (match x with SL (_ :: fs) => option_map (@concat byte) (omap as_bytes fs) | _ => None end) with
  | None => sx_id "badcase"
  | Some file =>
    match strict_load file with
    | SOk d =>
      SL [sx_id "ok"; sx_bytes (s_version d); objmap_to_sx (s_objects d); dict_to_sx (s_trailer d);
          sx_N (s_revisions d); sx_bool (s_stream d)]
    | SErr r p => SL [sx_id "err"; sx_id (rule_name r); sx_N p]
    end
  end.

Definition run_line : bytes -> bytes := run_line_with run.
