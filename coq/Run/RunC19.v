(* RunC19.v -- runner for C19.
   case  ::= (case <cfg> <doc> <prev> <full> <cut> (chunks n...) <job> [<pad>])
     cfg            : (cfg table|stream plain|inc <max_id> (d trailer...) (ids n...) <top>) -- xref format, and the
                      state of the document object before the save: max_id, trailer, numbers of the objects written,
                      largest object number (plain) or `-` (incremental)
     doc            : read by the harness only
     prev           : the previous bytes of an incremental save (`x` = none for a plain one); `full` begins with them
     full           : the implementation's complete output for this document (perfect sink), as one atom or as
                      (f x.. x.. ...), the concatenation of short atoms
     pad            : read by the harness only (large streams it adds to doc)
     cut            : number of bytes written before the save path mutates the document
     chunks         : cyclic list of buffer sizes; the model presents `full` to the sink as this
                      sequence of write_all calls (cut at `cut` as well)
     job ::= (one call|pos (script r...))            -> (res <rc> <delivered> (state max_id trailer) <resave gives the same bytes>)
           | (sweep (script r...) <hard> lo hi step) -> (sweep (<rc> <delivered length> <max_id> <Size> <resave same>) ...)
             for p = lo, lo+step, ... <= hi: the positional sink that follows the soft script for
             its first p bytes and then answers <hard>
           | (path <target> (sizes n...))            -> (pres <rc> <file content> (state max_id trailer) <resave same>)
                                                       or (pres <rc> <file content> (state ?) ?), see state_known
             Document::save(path) / IncrementalDocument::save(path) (Model/SinkBuf.v, capacity 8192); `sizes` = the
             write_all buffers the implementation really issues for this document (measured by the harness with a
             recording sink), so that WHEN the BufWriter flushes -- and with it whether the mutation point is reached
             before the failure surfaces -- is the implementation's own
             target ::= file            a healthy file
                      | dir             the path is a directory: File::create fails (IsADirectory)
                      | full            /dev/full: every write fails with StorageFull
                      | (limit p)       a file that takes p bytes, then fails every write with FileTooLarge (RLIMIT_FSIZE)
           | (psweep (sizes n...) (at p...))         -> (psweep (<rc> <file length> <max_id> <Size> <resave same>) ...)
             target (limit p) for each listed p
           | (onelen call|pos (script r...))         -> (reslen (<rc> <delivered length> <max_id> <Size> <resave same>))
             `one` for big outputs: lengths instead of bytes (the harness checks directly that the delivered bytes are a prefix
             of `full`, so result + length determine them)
           | (sweepat (script r...) (tails (t r...) ...) (at p...))
                                                     -> (sweepat (<rc> <delivered length> <max_id> <Size> <resave same>) ...)
             for every listed p (outer) and every tail (inner): the positional sink that follows the soft script for its
             first p bytes and then gives the answers of the tail
           | (perfect)                               -> (perfect ok)     a sink that takes everything: the save succeeds
     r  ::= (a k) | i | z | (f kind) | (rep n r) | (st r)        rc ::= ok | (err kind)
            (rep n r) = r n times (n <= 4000); (st r) = the hard answer r at this and every later call: a save stops at
            the first hard answer (write_all returns, `?` propagates), so STICKY copies stand for "for ever"  *)
From LV Require Import Base.Bytes Base.Sx Model.Obj Model.Sink Model.SaveState Model.SinkBuf.

Local Open Scope string_scope.
Definition kinds : list (String.string * ekind) :=
  [("other", EOther); ("brokenpipe", EBrokenPipe); ("denied", EPermissionDenied); ("wouldblock", EWouldBlock);
   ("timedout", ETimedOut); ("writezero", EWriteZero); ("eof", EUnexpectedEof); ("oom", EOutOfMemory);
   ("invaliddata", EInvalidData); ("storagefull", EStorageFull); ("isadir", EIsADirectory); ("filetoolarge", EFileTooLarge)].
Local Close Scope string_scope.

Definition ekind_eqb (a b : ekind) : bool :=
  match a, b with
  | EOther, EOther | EBrokenPipe, EBrokenPipe | EPermissionDenied, EPermissionDenied | EWouldBlock, EWouldBlock
  | ETimedOut, ETimedOut | EWriteZero, EWriteZero | EUnexpectedEof, EUnexpectedEof | EOutOfMemory, EOutOfMemory
  | EInvalidData, EInvalidData | EStorageFull, EStorageFull | EIsADirectory, EIsADirectory
  | EFileTooLarge, EFileTooLarge => true
  | _, _ => false
  end.

Fixpoint kind_of_sx_in (l : list (String.string * ekind)) (x : sx) : option ekind :=
  match l with
  | [] => None
  | (n, e) :: l' => if is_id x n then Some e else kind_of_sx_in l' x
  end.
Definition kind_of_sx := kind_of_sx_in kinds.
Fixpoint kind_to_sx_in (l : list (String.string * ekind)) (e : ekind) : sx :=
  match l with
  | [] => sx_id "?"
  | (n, e') :: l' => if ekind_eqb e e' then sx_id n else kind_to_sx_in l' e
  end.
Definition kind_to_sx := kind_to_sx_in kinds.

Definition resp_of_sx (x : sx) : option resp :=
  match x with
  | SA _ => if is_id x "i" then Some Interrupted else if is_id x "z" then Some Zero else None
  | SL [t; v] =>
    if is_id t "a" then option_map Accept (as_N v)
    else if is_id t "f" then option_map Fail (kind_of_sx v) else None
  | _ => None
  end.
Definition is_hard (r : resp) : bool := match hard_kind r with Some _ => true | None => false end.
Definition STICKY : nat := 64.
Definition REP_MAX : N := 4000.
(* one script item -> the answers it stands for (mirrored by resps_of in harness/src/bin/c19.rs) *)
Definition resps_of_sx (x : sx) : option script :=
  match x with
  | SL [t; n; v] =>
    if is_id t "rep" then
      do n <- as_N n; do r <- resp_of_sx v;
      if (n <=? REP_MAX)%N then Some (repeat r (N.to_nat n)) else None
    else None
  | SL [t; v] =>
    if is_id t "st" then
      do r <- resp_of_sx v; if is_hard r then Some (repeat r STICKY) else None
    else option_map (fun r => [r]) (resp_of_sx x)
  | _ => option_map (fun r => [r]) (resp_of_sx x)
  end.
Definition items_of_sx (l : list sx) : option script := option_map (@concat resp) (omap resps_of_sx l).
Definition script_of_sx (x : sx) : option script :=
  match x with SL (t :: l) => if is_id t "script" then items_of_sx l else None | _ => None end.

Definition rc_to_sx (r : wres) : sx :=
  match r with WOk => sx_id "ok" | WErr e => SL [sx_id "err"; kind_to_sx e] end.

(* the soft script cut down to quota p (glue for sweeps; mirrored in harness/src/bin/c19.rs) *)
Fixpoint cut_quota (s : script) (p : N) : script :=
  if (p =? 0)%N then [] else
  match s with
  | [] => []
  | Accept k :: s' => if (k <? p)%N then Accept k :: cut_quota s' (p - k) else [Accept p]
  | r :: s' => r :: cut_quota s' p
  end.

Definition small (n : N) : nat := N.to_nat (N.min n 1000000).

(* (firstn m full, skipn m full) without a stack frame per byte: outputs of 300 000 bytes are cut here *)
Fixpoint split_rev (n : nat) (l acc : bytes) : bytes * bytes :=
  match n, l with
  | S n', x :: l' => split_rev n' l' (x :: acc)
  | _, _ => (acc, l)
  end.
Definition cut_at (full : bytes) (cut : N) : bytes * bytes :=
  let m := N.to_nat (N.min cut (N.of_nat (length full))) in
  let '(ra, b) := split_rev m full [] in (rev_append ra [], b).
Definition chunked (sizes : list nat) (b : bytes) : list bytes := chunk_by (length b + length sizes) sizes sizes b.

Fixpoint positions (n : nat) (lo step : N) : list N :=
  match n with O => [] | S n' => lo :: positions n' (lo + step)%N step end.

Definition state_to_sx (st : sstate) : sx := SL [sx_id "state"; sx_N (s_max_id st); dict_to_sx (s_trailer st)].
Definition size_of (st : sstate) : Z :=
  match dict_get (s_trailer st) K_Size with Some (OInt z) => z | _ => (-1)%Z end.
(* does a re-save of the document left behind produce the reference bytes again?  table: always
   (SinkProofs/SaveStateProofs.resave_table_same_calls); stream: only if the mutation point was not reached *)
Definition resave_same (mode : xmode) (st st' : sstate) : bool :=
  match mode with XTable => true | XStream => (s_max_id st =? s_max_id st')%N end.

Record cfg := { c_mode : xmode; c_inc : bool; c_state : sstate; c_ids : list N; c_top : option N }.
(* top: the largest object number of a plain document, `-` for an incremental one (SaveState.raise_max_id) *)
Definition cfg_of_sx (x : sx) : option cfg :=
  match x with
  | SL [t; m; k; mx; tr; SL (ti :: ids); top] =>
    if is_id t "cfg" && is_id ti "ids" then
      do mx <- as_N mx; do tr <- dict_of_sx tr; do ids <- omap as_N ids;
      do top <- (if is_id top "-" then Some None else option_map Some (as_N top));
      Some {| c_mode := if is_id m "stream" then XStream else XTable; c_inc := is_id k "inc";
              c_state := {| s_max_id := mx; s_trailer := tr |}; c_ids := ids; c_top := top |}
    else None
  | _ => None
  end.
(* the state a re-save starts from is compared after the raise every plain save begins with *)
Definition c_raised (c : cfg) : sstate := raise_max_id (c_top c) (c_state c).

Definition tail_of_sx (x : sx) : option script :=
  match x with SL (t :: l) => if is_id t "t" then items_of_sx l else None | _ => None end.

(* [iprev] = Some prev for IncrementalDocument::save_to: the previous bytes, handed to the sink around the counter in ONE
   write_all before [pre] ([save_inc_with]; the state printed is new_document's, the previous bytes stay by construction);
   None for Document::save_to ([save_with]) *)
Definition run_job (c : cfg) (iprev : option bytes) (pre post : list bytes) (job : sx) : option sx :=
  let go := fun (positional : bool) (s : script) =>
    let wa := if positional then qwrite_all else write_all in
    match iprev with
    | Some p =>
      let '(r, d, st') := save_inc_with wa (c_mode c) (c_ids c) pre post {| is_prev := p; is_new := c_state c |} s in
      (r, d, is_new st')
    | None => save_with wa (c_mode c) (c_ids c) (c_top c) pre post (c_state c) s
    end in
  let row := fun (res : wres * bytes * sstate) =>
    let '(r, d, st') := res in
    SL [rc_to_sx r; sx_N (N.of_nat (length d)); sx_N (s_max_id st'); sx_Z (size_of st');
        sx_bool (resave_same (c_mode c) (c_raised c) (raise_max_id (c_top c) st'))] in
  match job with
  | SL [t] => if is_id t "perfect" then Some (SL [sx_id "perfect"; sx_id "ok"]) else None
  | SL [t; sem; sc] =>
    if is_id t "one" then
      do s <- script_of_sx sc;
      let '(r, d, st') := go (is_id sem "pos") s in
      Some (SL [sx_id "res"; rc_to_sx r; sx_bytes d; state_to_sx st'; sx_bool (resave_same (c_mode c) (c_raised c) (raise_max_id (c_top c) st'))])
    else if is_id t "onelen" then
      do s <- script_of_sx sc;
      Some (SL [sx_id "reslen"; row (go (is_id sem "pos") s)])
    else None
  | SL [t; sc; SL (tg :: tails); SL (ta :: ps)] =>
    if is_id t "sweepat" && is_id tg "tails" && is_id ta "at" then
      do s <- script_of_sx sc;
      do tails <- omap tail_of_sx tails;
      do ps <- omap as_N ps;
      Some (SL (sx_id "sweepat" ::
                flat_map (fun p => let pre_s := cut_quota s p in map (fun tl => row (go true (pre_s ++ tl))) tails) ps))
    else None
  | SL [t; sc; hard; lo; hi; step] =>
    if is_id t "sweep" then
      do s <- script_of_sx sc;
      do h <- resps_of_sx hard;
      do lo <- as_N lo; do hi <- as_N hi; do step <- as_N step;
      if (step =? 0)%N || (hi <? lo)%N then None else
      let n := S (small ((hi - lo) / step)) in
      Some (SL (sx_id "sweep" ::
                map (fun p => row (go true (cut_quota s p ++ h))) (positions n lo step)))
    else None
  | _ => None
  end.

(* ---- save(path) ---- *)
(* cut b into consecutive buffers of the given sizes; returns the unused sizes (a size that straddles the
   end of b is split) *)
Fixpoint chop (sizes : list nat) (b : bytes) : list bytes * list nat :=
  match sizes with
  | [] => (match b with [] => [] | _ => [b] end, [])
  | n :: rest =>
    match b with
    | [] => ([], sizes)
    | _ => let h := firstn n b in
           let m := length h in
           if (m <? n)%nat then ([b], (n - m)%nat :: rest)
           else let '(l, r) := chop rest (skipn n b) in (h :: l, r)
    end
  end.

(* long byte strings come as a list of short atoms, (f x.. x.. ...): the shared parser reverses every atom with
   the quadratic List.rev *)
Definition bytes_of_parts (x : sx) : option bytes :=
  match x with
  | SA _ => as_bytes x
  | SL (t :: l) => if is_id t "f" then option_map (@concat byte) (omap as_bytes l) else None
  | SL [] => None
  end.

(* the device behind each target: File::create's verdict and the file's script (positional reading) *)
Definition device_of (target : sx) : option (option ekind * script) :=
  match target with
  | SA _ =>
    if is_id target "file" then Some (None, [])
    else if is_id target "dir" then Some (Some EIsADirectory, [])
    else if is_id target "full" then Some (None, repeat (Fail EStorageFull) 64)
    else None
  | SL [t; p] =>
    if is_id t "limit" then
      do p <- as_N p;
      Some (None, (if (p =? 0)%N then [] else [Accept p]) ++ repeat (Fail EFileTooLarge) 64)
    else None
  | _ => None
  end.

Definition sizes_of_sx (x : sx) : option (list nat) :=
  match x with SL (t :: l) => if is_id t "sizes" then option_map (map small) (omap as_N l) else None | _ => None end.

Definition run_path (c : cfg) (full : bytes) (cut : N) (sizes : list nat) (target : sx) : option (wres * bytes * sstate) :=
  do dv <- device_of target;
  let '(a, b) := cut_at full cut in
  let '(pre, rest) := chop sizes a in
  let '(post, _) := chop rest b in
  Some (save_path_with qwrite_all DEFAULT_BUF_SIZE (c_mode c) (c_ids c) (c_top c) pre post (c_state c) (fst dv) (snd dv)).

(* the document state after save(path) is a function of the observable outcome -- not of the buffer capacity and the
   call boundaries -- when the save succeeded, when the file could not be created, or when the file holds at least the
   bytes written before the mutation point (Props C19_save_path_residue); otherwise it is printed as `?` on both sides
   (and the harness checks directly that it is one of the two states the theorem allows) *)
Definition state_known (target : sx) (cut : N) (r : wres) (f : bytes) : bool :=
  match r with
  | WOk => true
  | WErr _ => is_id target "dir" || (cut <=? N.of_nat (length f))%N
  end.
Definition q := sx_id "?".

Definition run_path_job (c : cfg) (full : bytes) (cut : N) (job : sx) : option sx :=
  match job with
  | SL [t; a1; a2] =>
    if is_id t "path" then
      do sizes <- sizes_of_sx a2;
      do res <- run_path c full cut sizes a1;
      let '(r, f, st') := res in
      if state_known a1 cut r f then
        Some (SL [sx_id "pres"; rc_to_sx r; sx_bytes f; state_to_sx st'; sx_bool (resave_same (c_mode c) (c_raised c) (raise_max_id (c_top c) st'))])
      else Some (SL [sx_id "pres"; rc_to_sx r; sx_bytes f; SL [sx_id "state"; q]; q])
    else if is_id t "psweep" then
      do sizes <- sizes_of_sx a1;
      match a2 with
      | SL (ta :: ps) =>
        if is_id ta "at" then
          do ps <- omap as_N ps;
          do rows <- omap (fun p =>
                             do res <- run_path c full cut sizes (SL [sx_id "limit"; sx_N p]);
                             let '(r, f, st') := res in
                             if state_known (sx_id "limit") cut r f then
                               Some (SL [rc_to_sx r; sx_N (N.of_nat (length f)); sx_N (s_max_id st'); sx_Z (size_of st');
                                         sx_bool (resave_same (c_mode c) (c_raised c) (raise_max_id (c_top c) st'))])
                             else Some (SL [rc_to_sx r; sx_N (N.of_nat (length f)); q; q; q])) ps;
          Some (SL (sx_id "psweep" :: rows))
        else None
      | _ => None
      end
    else None
  | _ => None
  end.

Definition is_path_job (job : sx) : bool :=
  match job with SL (t :: _) => is_id t "path" || is_id t "psweep" | _ => false end.

Definition run (x : sx) : sx :=
  match x with
  | SL (t :: cf :: _doc :: prev :: full :: cut :: SL (tc :: sizes) :: job :: _pad) =>
    if is_id t "case" && is_id tc "chunks" then
      match cfg_of_sx cf, bytes_of_parts full, as_N cut, omap as_N sizes with
      | Some c, Some full, Some cut, Some sizes =>
        if is_path_job job then
          match run_path_job c full cut job with Some r => r | None => sx_id "badcase" end
        else
        let '(a, b) := cut_at full cut in
        let sz := map small sizes in
        if c_inc c then
          (* the complete output of an incremental save begins with the previous bytes *)
          match as_bytes prev with
          | Some p =>
            let '(p', a') := cut_at a (N.of_nat (length p)) in
            if bytes_eqb p p' then
              match run_job c (Some p) (chunked sz a') (chunked sz b) job with
              | Some r => r
              | None => sx_id "badcase"
              end
            else sx_id "badcase"
          | None => sx_id "badcase"
          end
        else
        match run_job c None (chunked sz a) (chunked sz b) job with
        | Some r => r
        | None => sx_id "badcase"
        end
      | _, _, _, _ => sx_id "badcase"
      end
    else sx_id "badcase"
  | _ => sx_id "badcase"
  end.

Definition run_line : bytes -> bytes := run_line_with run.
