From Coq Require Extraction ExtrOcamlBasic.
From LV Require Import Base.Bytes Run.RunC04.
Extraction Language OCaml.
Extraction "runmod_c04.ml" run_line N_of_byte byte_of_N.
