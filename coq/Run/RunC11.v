(* RunC11.v -- runner for C11.  Case:
     (case <doc> (ops <op>...) (orc (tag xIN xOUT)...))
   op ::= (new) | (add <obj>) | (set (i g) <obj>) | (del (i g)) | (rmannot (i g)) | (prune)
        | (delpages n...) | (renumber) | (compress) | (decompress) | (ccs (i g) xC) | (cpc (i g) xC) | (apc (i g) xC)
        | (atpc (i g) (op xOP operand...)...) | (gocr (i g)) | (addx (i g) xNAME (i g)) | (addgs (i g) xNAME (i g))
        | (content (i g)) | (save table|stream)
        | (bm (t cp...) fmt (c xR xG xB) (i g) parent|none) | (outline)
   Result: (trace (<out> <dump-or-=>)...) -- one entry per operation: what the call returned and the
   canonical dump of the Document after it ("=" when the dump equals the previous one);
   dump ::= <doc> while no bookmark was ever added, else (st <doc> (bm max_bookmark_id (roots ...) (tbl (id (i g) (children...))...)))
   out ::= unit | (id (i g)) | (obj none) | (obj <obj>) | (ids (i g)...) | ok | err | panic | fuel | hang
         | (okobj <obj>) | (bytes none) | (bytes xHEX) | (num n) | (root none) | (root (i g))
   The oracle table is the one of RunC09.v (tags f / l0 / l1 / z). *)
From LV Require Import Base.Bytes Base.Sx Model.Obj Model.DocQ Model.PageTree Model.Traverse Model.Edit
  Model.Writer Run.RunC09 Run.RunC14.
From LV Require Model.Outline.

Definition oracles_of (tbl : orc) : oracles :=
  {| Edit.o_inflate := RunC09.o_inflate tbl; Edit.o_lzw := RunC09.o_lzw tbl; Edit.o_deflate := RunC09.o_deflate tbl |}.

Definition eop_of_sx (x : sx) : option op :=
  match x with
  | SL (SA tag :: args) =>
    if bytes_eqb tag (bs "new") then Some NewObjectId
    else if bytes_eqb tag (bs "add") then
      match args with [o] => option_map AddObject (obj_of_sx o) | _ => None end
    else if bytes_eqb tag (bs "set") then
      match args with
      | [i; o] => match oid_of_sx i, obj_of_sx o with Some i, Some o => Some (SetObject i o) | _, _ => None end
      | _ => None
      end
    else if bytes_eqb tag (bs "del") then
      match args with [i] => option_map DeleteObject (oid_of_sx i) | _ => None end
    else if bytes_eqb tag (bs "rmannot") then
      match args with [i] => option_map RemoveAnnot (oid_of_sx i) | _ => None end
    else if bytes_eqb tag (bs "prune") then Some PruneObjects
    else if bytes_eqb tag (bs "delpages") then option_map DeletePages (omap as_N args)
    else if bytes_eqb tag (bs "renumber") then Some RenumberObjects
    else if bytes_eqb tag (bs "compress") then Some Compress
    else if bytes_eqb tag (bs "decompress") then Some Decompress
    else if bytes_eqb tag (bs "ccs") then
      match args with
      | [i; c] => match oid_of_sx i, as_bytes c with Some i, Some c => Some (ChangeContentStream i c) | _, _ => None end
      | _ => None
      end
    else if bytes_eqb tag (bs "cpc") then
      match args with
      | [i; c] => match oid_of_sx i, as_bytes c with Some i, Some c => Some (ChangePageContent i c) | _, _ => None end
      | _ => None
      end
    else if bytes_eqb tag (bs "apc") then
      match args with
      | [i; c] => match oid_of_sx i, as_bytes c with Some i, Some c => Some (AddPageContents i c) | _, _ => None end
      | _ => None
      end
    else if bytes_eqb tag (bs "atpc") then
      match args with
      | i :: os => match oid_of_sx i, omap RunC14.op_of_sx os with Some i, Some os => Some (AddToPageContent i os) | _, _ => None end
      | _ => None
      end
    else if bytes_eqb tag (bs "gocr") then
      match args with [i] => option_map GetOrCreateResources (oid_of_sx i) | _ => None end
    else if bytes_eqb tag (bs "addx") then
      match args with
      | [i; n; x] => match oid_of_sx i, as_bytes n, oid_of_sx x with
                     | Some i, Some n, Some x => Some (AddXObject i n x) | _, _, _ => None end
      | _ => None
      end
    else if bytes_eqb tag (bs "addgs") then
      match args with
      | [i; n; x] => match oid_of_sx i, as_bytes n, oid_of_sx x with
                     | Some i, Some n, Some x => Some (AddGraphicsState i n x) | _, _, _ => None end
      | _ => None
      end
    else if bytes_eqb tag (bs "content") then
      match args with [i] => option_map GetPageContent (oid_of_sx i) | _ => None end
    else if bytes_eqb tag (bs "save") then
      match args with
      | [m] => if is_id m "table" then Some (Save false) else if is_id m "stream" then Some (Save true) else None
      | _ => None
      end
    else None
  | _ => None
  end.

Definition sop_of_sx (x : sx) : option sop :=
  match x with
  | SL (SA tag :: args) =>
    if bytes_eqb tag (bs "bm") then
      match args with
      | [SL (_ :: cs); f; SL [_; c0; c1; c2]; pg; par] =>
        match omap as_N cs, as_N f, as_bytes c0, as_bytes c1, as_bytes c2, oid_of_sx pg,
              (if is_id par "none" then Some None else option_map Some (as_N par)) with
        | Some t, Some f, Some c0, Some c1, Some c2, Some pg, Some par => Some (SAddBookmark t f (c0, c1, c2) pg par)
        | _, _, _, _, _, _, _ => None
        end
      | _ => None
      end
    else if bytes_eqb tag (bs "outline") then Some SBuildOutline
    else option_map SDoc (eop_of_sx x)
  | _ => None
  end.

Definition out_to_sx (o : out) : sx :=
  match o with
  | OUnit => sx_id "unit"
  | OId id => SL [sx_id "id"; oid_to_sx id]
  | OObj None => SL [sx_id "obj"; sx_id "none"]
  | OObj (Some x) => SL [sx_id "obj"; obj_to_sx x]
  | OIds l => SL (sx_id "ids" :: map oid_to_sx l)
  | OOk => sx_id "ok"
  | OErr => sx_id "err"
  | OPanic => sx_id "panic"
  | OFuel => sx_id "fuel"
  | OHang => sx_id "hang"
  | OOkObj x => SL [sx_id "okobj"; obj_to_sx x]
  | OBytes None => SL [sx_id "bytes"; sx_id "none"]
  | OBytes (Some b) => SL [sx_id "bytes"; sx_bytes b]
  | ONum n => SL [sx_id "num"; sx_N n]
  | ORoot None => SL [sx_id "root"; sx_id "none"]
  | ORoot (Some id) => SL [sx_id "root"; oid_to_sx id]
  end.

Definition state_to_sx (s : state) : sx :=
  match Outline.bookmark_table s with
  | [] => doc_to_sx (Outline.base s)
  | tbl =>
    SL [sx_id "st"; doc_to_sx (Outline.base s);
        SL [sx_id "bm"; sx_N (Outline.max_bookmark_id s); SL (sx_id "roots" :: map sx_N (Outline.bookmarks s));
            SL (sx_id "tbl" :: map (fun kv => SL [sx_N (fst kv); oid_to_sx (Outline.bm_page (snd kv));
                                                  SL (map sx_N (Outline.bm_children (snd kv)))]) tbl)]]
  end.

(* harness convention: (save ..) is not run on a document whose max_id exceeds 1 000 000 (write_xref and
   create_xref_steam loop over every object number up to max_id) *)
Definition save_skipped_here (d : state) (o : sop) : bool :=
  match o with
  | SDoc (Save _) => (1000000 <? d_max_id (Outline.base d))%N
  | _ => false
  end.

Fixpoint trace (O : oracles) (d : state) (prev : bytes) (ops : list sop) : list sx :=
  match ops with
  | [] => []
  | o :: ops' =>
    if save_skipped_here d o then SL [sx_id "skipped"; SA (bs "=")] :: trace O d prev ops' else
    let '(d', r) := sstep O d o in
    let dump := state_to_sx d' in
    let txt := sx_print dump in
    SL [out_to_sx r; if bytes_eqb txt prev then SA (bs "=") else dump] :: trace O d' txt ops'
  end.

Definition run (x : sx) : sx :=
  match x with
  | SL (_ :: dx :: SL (_ :: opsx) :: rest) =>
    let tbl := match rest with ox :: _ => match orc_of_sx ox with Some t => t | None => [] end | [] => [] end in
    match doc_of_sx dx, omap sop_of_sx opsx with
    | Some d, Some ops => SL (sx_id "trace" :: trace (oracles_of tbl) (Outline.fresh_bdoc d) (sx_print (doc_to_sx d)) ops)
    | _, _ => sx_id "badcase"
    end
  | _ => sx_id "badcase"
  end.

Definition run_line : bytes -> bytes := run_line_with run.
