(* RunC18.v -- runner for C18.  Cases and result shapes: see harness/src/bin/c18.rs. *)
From LV Require Import Base.Bytes Base.Sx Model.DateTime.
Local Open Scope Z_scope.

Definition sx_res (name : String.string) (keep : bool) (r : option (civil * Z)) : sx :=
  match r with
  | None => SL [sx_id name; sx_id "err"]
  | Some (f, off) =>
    SL [sx_id name;
        SL (sx_id "ok" :: sx_Z (instant f off) ::
            (if keep then [sx_Z off; sx_Z (cy f); sx_Z (cmo f); sx_Z (cd f); sx_Z (ch f); sx_Z (cmi f); sx_Z (cs f)] else []))]
  end.

Arguments sx_res _%string_scope _ _.

Definition parse3 (s : bytes) : list sx :=
  [sx_res "chrono" false (read_chrono s); sx_res "jiff" true (read_jiff s); sx_res "time" true (read_time s)].

Definition src (name : String.string) (rep : bool) (s : option bytes) : sx :=
  if rep then
    match s with
    | Some b => SL (sx_id "src" :: sx_id name :: sx_bytes b :: parse3 b)
    | None => SL [sx_id "src"; sx_id name; sx_id "unmodelled"]
    end
  else SL [sx_id "src"; sx_id name; sx_id "unrep"].

Arguments src _%string_scope _ _.

Definition run (x : sx) : sx :=
  match x with
  | SL (SA tag :: args) =>
    if bytes_eqb tag (bs "rt") then
      match omap as_Z args with
      | Some [y; mo; d; h; mi; s; off] =>
        let f := mkCivil y mo d h mi s in
        SL (sx_id "rt" ::
            src "chrono" (rep_chrono f off) (fmt_chrono f off) ::
            src "jiff" (rep_jiff f off) (fmt_jiff f off) ::
            src "time" (rep_time f off) (fmt_time f off) ::
            (if off =? 0 then [src "chronoz" (rep_chrono f 0) (fmt_chrono_utc f); src "jiffz" (rep_jiff f 0) (fmt_jiff_utc f)]
             else []))
      | _ => sx_id "badcase"
      end
    else if bytes_eqb tag (bs "parse") then
      match args with
      | a :: _ => match as_bytes a with Some s => SL (sx_id "parse" :: parse3 s) | None => sx_id "badcase" end
      | [] => sx_id "badcase"
      end
    else sx_id "badcase"
  | _ => sx_id "badcase"
  end.

Definition run_line : bytes -> bytes := run_line_with run.
