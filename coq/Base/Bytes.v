(* Bytes.v -- byte strings, byte literals, finite sweeps over the 256 bytes.
   Shared by every model.  No axioms. *)
From Coq Require Export List NArith ZArith Bool Lia.
From Coq Require Export Init.Byte.
From Coq Require Strings.Byte Strings.String Strings.Ascii.
Export ListNotations.
Export Coq.Strings.String.StringSyntax.



Definition bytes := list byte.

Definition byte_eqb (a b : byte) : bool := N.eqb (Strings.Byte.to_N a) (Strings.Byte.to_N b).

Lemma to_N_inj a b : Strings.Byte.to_N a = Strings.Byte.to_N b -> a = b.
Proof.
  intro H. pose proof (Strings.Byte.of_to_N a) as Ha. pose proof (Strings.Byte.of_to_N b) as Hb.
  rewrite H in Ha. rewrite Ha in Hb. congruence.
Qed.

Lemma byte_eqb_eq a b : byte_eqb a b = true <-> a = b.
Proof.
  unfold byte_eqb. rewrite N.eqb_eq. split; [apply to_N_inj | congruence].
Qed.

Lemma byte_eqb_refl a : byte_eqb a a = true.
Proof. apply byte_eqb_eq; reflexivity. Qed.

Lemma byte_eqb_neq a b : byte_eqb a b = false <-> a <> b.
Proof.
  split; intro H.
  - intro E. apply byte_eqb_eq in E. congruence.
  - destruct (byte_eqb a b) eqn:E; [apply byte_eqb_eq in E; contradiction | reflexivity].
Qed.

Lemma byte_eqb_spec a b : reflect (a = b) (byte_eqb a b).
Proof.
  destruct (byte_eqb a b) eqn:E; constructor.
  - apply byte_eqb_eq; exact E.
  - apply byte_eqb_neq; exact E.
Qed.

Fixpoint bytes_eqb (a b : bytes) : bool :=
  match a, b with
  | [], [] => true
  | x :: a', y :: b' => byte_eqb x y && bytes_eqb a' b'
  | _, _ => false
  end.

Lemma bytes_eqb_eq a b : bytes_eqb a b = true <-> a = b.
Proof.
  revert b; induction a as [|x a IH]; intros [|y b]; cbn [bytes_eqb].
  - split; reflexivity.
  - split; discriminate.
  - split; discriminate.
  - rewrite andb_true_iff, byte_eqb_eq, IH. split; [intros [-> ->]; reflexivity | intro H; inversion H; auto].
Qed.

Lemma bytes_eqb_refl a : bytes_eqb a a = true.
Proof. apply bytes_eqb_eq; reflexivity. Qed.

Lemma bytes_eqb_neq a b : bytes_eqb a b = false <-> a <> b.
Proof.
  split; intro H.
  - intro E. apply bytes_eqb_eq in E. congruence.
  - destruct (bytes_eqb a b) eqn:E; [apply bytes_eqb_eq in E; contradiction | reflexivity].
Qed.

(* literals: [bs "Pages"] *)
Definition bs (s : String.string) : bytes := String.list_byte_of_string s.
Arguments bs _%string_scope.

(* byte of a small number, total (wraps like `as u8`) *)
Definition byte_of_N (n : N) : byte :=
  match Strings.Byte.of_N (n mod 256) with Some b => b | None => x00 end.

Definition N_of_byte (b : byte) : N := Strings.Byte.to_N b.

Lemma N_of_byte_lt b : (N_of_byte b < 256)%N.
Proof. unfold N_of_byte. pose proof (Strings.Byte.to_N_bounded b). lia. Qed.

Lemma byte_of_N_of_byte b : byte_of_N (N_of_byte b) = b.
Proof.
  unfold byte_of_N, N_of_byte. rewrite N.mod_small by (pose proof (Strings.Byte.to_N_bounded b); lia).
  rewrite Strings.Byte.of_to_N. reflexivity.
Qed.

Lemma N_of_byte_of_N n : (n < 256)%N -> N_of_byte (byte_of_N n) = n.
Proof.
  intro H. unfold byte_of_N, N_of_byte. rewrite N.mod_small by exact H.
  destruct (Strings.Byte.of_N n) eqn:E.
  - apply Strings.Byte.to_of_N; exact E.
  - apply Strings.Byte.of_N_None_iff in E. lia.
Qed.

(* ---------- finite sweeps ---------- *)

(* [below n p] : p holds for every k < n, computed. *)
Fixpoint below_nat (n : nat) (p : N -> bool) : bool :=
  match n with
  | O => true
  | S m => p (N.of_nat m) && below_nat m p
  end.

Lemma below_nat_spec n p : below_nat n p = true -> forall k, (k < N.of_nat n)%N -> p k = true.
Proof.
  induction n as [|m IH]; cbn [below_nat]; intros H k Hk; [lia|].
  apply andb_true_iff in H as [H1 H2].
  destruct (N.eq_dec k (N.of_nat m)) as [->|Hne]; [exact H1|].
  apply IH; [exact H2 | lia].
Qed.

Definition byte_forallb (p : byte -> bool) : bool :=
  below_nat 256 (fun k => p (byte_of_N k)).

Lemma byte_forallb_spec p : byte_forallb p = true -> forall b, p b = true.
Proof.
  intros H b. unfold byte_forallb in H.
  pose proof (below_nat_spec 256 _ H (N_of_byte b)) as H1.
  cbv beta in H1. rewrite byte_of_N_of_byte in H1. apply H1.
  pose proof (N_of_byte_lt b). lia.
Qed.

Definition byte2_forallb (p : byte -> byte -> bool) : bool :=
  byte_forallb (fun a => byte_forallb (p a)).

Lemma byte2_forallb_spec p : byte2_forallb p = true -> forall a b, p a b = true.
Proof.
  intros H a b. unfold byte2_forallb in H.
  apply (byte_forallb_spec _ (byte_forallb_spec _ H a)).
Qed.

(* membership in a byte set given as a list *)
Definition byte_in (b : byte) (l : bytes) : bool := existsb (byte_eqb b) l.

Lemma byte_in_In b l : byte_in b l = true <-> In b l.
Proof.
  unfold byte_in. rewrite existsb_exists. split.
  - intros [x [Hx E]]. apply byte_eqb_eq in E. subst. exact Hx.
  - intro H. exists b. split; [exact H | apply byte_eqb_refl].
Qed.

(* all 256 bytes as a list, for searches *)
Definition all_bytes : bytes := map (fun k => byte_of_N (N.of_nat k)) (seq 0 256).

(* list helpers used across models *)
Fixpoint prefixb (p s : bytes) : bool :=
  match p, s with
  | [], _ => true
  | x :: p', y :: s' => byte_eqb x y && prefixb p' s'
  | _ :: _, [] => false
  end.

Lemma prefixb_spec p s : prefixb p s = true <-> exists r, s = p ++ r.
Proof.
  revert s; induction p as [|x p IH]; intros s; cbn.
  - split; [intros _; exists s; reflexivity | reflexivity].
  - destruct s as [|y s]; [split; [discriminate | intros [r Hr]; discriminate]|].
    rewrite andb_true_iff, byte_eqb_eq, IH. split.
    + intros [-> [r ->]]. exists r; reflexivity.
    + intros [r Hr]. inversion Hr; subst. split; [reflexivity | exists r; reflexivity].
Qed.

Fixpoint drop {A} (n : nat) (l : list A) : list A :=
  match n, l with
  | O, _ => l
  | S m, [] => []
  | S m, _ :: l' => drop m l'
  end.

Lemma drop_skipn {A} n (l : list A) : drop n l = skipn n l.
Proof. revert l; induction n; destruct l; cbn; auto. Qed.

Arguments N.add : simpl never.
Arguments N.sub : simpl never.
Arguments N.mul : simpl never.
Arguments N.div : simpl never.
Arguments N.modulo : simpl never.
Arguments N.eqb : simpl never.
Arguments N.ltb : simpl never.
Arguments N.leb : simpl never.
