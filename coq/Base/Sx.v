(* Sx.v -- the case language shared by the generators (Python), the harness (Rust) and the
   model runners (Gallina, extracted).  One case or result per line:
     sx    ::= atom | '(' sx* ')'
     atom  ::= [^ ()]+      conventions: decimal numbers "-12", identifiers "null",
                            byte strings "x" followed by lowercase hex digits ("x" = empty)
   Everything here is executable and total; nothing is proved about it because it is part of
   the correspondence glue (trusted base item 5), not of the models. *)
From LV Require Import Base.Bytes.

Inductive sx := SA (a : bytes) | SL (l : list sx).

(* ---------- parsing ---------- *)

(* stack machine: [cur] reversed atom under construction (reversal by the linear rev_append: atoms can be 100 kB), [top] reversed items of the open list,
   [stk] enclosing lists *)
Definition flush (cur : bytes) (top : list sx) : list sx :=
  match cur with [] => top | _ => SA (rev_append cur []) :: top end.

Fixpoint sx_parse_aux (s : bytes) (cur : bytes) (top : list sx) (stk : list (list sx)) : option (list sx) :=
  match s with
  | [] => match stk with [] => Some (rev_append (flush cur top) []) | _ => None end
  | c :: s' =>
    if byte_eqb c x28 (* ( *) then sx_parse_aux s' [] [] (flush cur top :: stk)
    else if byte_eqb c x29 (* ) *) then
      match stk with
      | [] => None
      | up :: stk' => sx_parse_aux s' [] (SL (rev_append (flush cur top) []) :: up) stk'
      end
    else if byte_eqb c x20 || byte_eqb c x0a || byte_eqb c x0d || byte_eqb c x09 then
      sx_parse_aux s' [] (flush cur top) stk
    else sx_parse_aux s' (c :: cur) top stk
  end.

Definition sx_parse (s : bytes) : option (list sx) := sx_parse_aux s [] [] [].

(* ---------- printing ---------- *)

Fixpoint sx_print (x : sx) : bytes :=
  match x with
  | SA a => a
  | SL l =>
    x28 :: (fix go (l : list sx) : bytes :=
              match l with
              | [] => [x29]
              | [y] => sx_print y ++ [x29]
              | y :: l' => sx_print y ++ x20 :: go l'
              end) l
  end.

(* ---------- atoms ---------- *)

Definition digit_byte (d : N) : byte := byte_of_N (48 + d).

(* decimal digits of n, most significant first; fuel = number of bits + 1 always suffices *)
Fixpoint dec_digits (fuel : nat) (n : N) (acc : bytes) : bytes :=
  match fuel with
  | O => acc
  | S f => if (n <? 10)%N then digit_byte n :: acc
           else dec_digits f (n / 10)%N (digit_byte (n mod 10)%N :: acc)
  end.
Definition N_dec (n : N) : bytes := dec_digits (S (N.to_nat (N.log2 n))) n [].
Definition Z_dec (z : Z) : bytes :=
  match z with
  | Z0 => [x30]
  | Zpos p => N_dec (Npos p)
  | Zneg p => x2d :: N_dec (Npos p)
  end.

Definition is_digit (b : byte) : bool := (48 <=? N_of_byte b)%N && (N_of_byte b <=? 57)%N.

(* most significant digit first; None on a non-digit or empty input *)
Fixpoint dec_N_aux (s : bytes) (acc : N) : option N :=
  match s with
  | [] => Some acc
  | c :: s' => if is_digit c then dec_N_aux s' (acc * 10 + (N_of_byte c - 48))%N else None
  end.
Definition dec_N (s : bytes) : option N :=
  match s with [] => None | _ => dec_N_aux s 0%N end.
Definition dec_Z (s : bytes) : option Z :=
  match s with
  | c :: s' => if byte_eqb c x2d then option_map (fun n => Z.opp (Z.of_N n)) (dec_N s')
               else option_map Z.of_N (dec_N s)
  | [] => None
  end.

Definition hex_digit (d : N) : byte :=
  if (d <? 10)%N then byte_of_N (48 + d) else byte_of_N (87 + d).
Definition hex_val (b : byte) : option N :=
  let n := N_of_byte b in
  if (48 <=? n)%N && (n <=? 57)%N then Some (n - 48)%N
  else if (97 <=? n)%N && (n <=? 102)%N then Some (n - 87)%N
  else if (65 <=? n)%N && (n <=? 70)%N then Some (n - 55)%N
  else None.

Fixpoint hex_of_bytes (s : bytes) : bytes :=
  match s with
  | [] => []
  | b :: s' => hex_digit (N_of_byte b / 16) :: hex_digit (N_of_byte b mod 16) :: hex_of_bytes s'
  end.
Fixpoint bytes_of_hex (s : bytes) : option bytes :=
  match s with
  | [] => Some []
  | a :: b :: s' =>
    match hex_val a, hex_val b, bytes_of_hex s' with
    | Some h, Some l, Some r => Some (byte_of_N (h * 16 + l) :: r)
    | _, _, _ => None
    end
  | _ => None
  end.

(* "x<hex>" atoms *)
Definition sx_bytes (s : bytes) : sx := SA (x78 :: hex_of_bytes s).
Definition sx_N (n : N) : sx := SA (N_dec n).
Definition sx_Z (z : Z) : sx := SA (Z_dec z).
Definition sx_id (s : String.string) : sx := SA (bs s).
Arguments sx_id _%string_scope.
Definition sx_bool (b : bool) : sx := SA (if b then [x31] else [x30]).

Definition as_bytes (x : sx) : option bytes :=
  match x with SA (c :: h) => if byte_eqb c x78 then bytes_of_hex h else None | _ => None end.
Definition as_N (x : sx) : option N := match x with SA a => dec_N a | _ => None end.
Definition as_Z (x : sx) : option Z := match x with SA a => dec_Z a | _ => None end.
Definition as_bool (x : sx) : option bool :=
  match as_N x with Some 0%N => Some false | Some _ => Some true | None => None end.
Definition is_id (x : sx) (s : String.string) : bool :=
  match x with SA a => bytes_eqb a (bs s) | _ => false end.

Arguments is_id _ _%string_scope.

(* option helpers for decoders *)
Definition obind {A B} (o : option A) (f : A -> option B) : option B :=
  match o with Some a => f a | None => None end.
Notation "'do' x <- o ; k" := (obind o (fun x => k)) (at level 200, x pattern, o at level 100, k at level 200).

Fixpoint omap {A B} (f : A -> option B) (l : list A) : option (list B) :=
  match l with
  | [] => Some []
  | a :: l' => match f a, omap f l' with Some b, Some r => Some (b :: r) | _, _ => None end
  end.

(* runner protocol: a runner is [sx -> sx]; the line-level wrapper parses one sx per line *)
Definition run_line_with (run : sx -> sx) (line : bytes) : bytes :=
  match sx_parse line with
  | Some [x] => sx_print (run x)
  | _ => bs "(badline)"
  end.
