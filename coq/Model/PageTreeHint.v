(* PageTreeHint.v -- PageTreeIter::size_hint of src/document.rs, observed where a caller can observe it:
   on the fresh iterator and after every page that next() returned.

     fn size_hint(&self) -> (usize, Option<usize>) {
       let kids = self.kids.unwrap_or(&[]);
       let nb_pages = kids.iter().chain(self.stack.iter().flat_map(|k| k.iter()))
         .map(|kid| if let Ok(dict) = kid.as_reference().and_then(|id| self.doc.get_dictionary(id)) {
                      if let Ok(b"Pages") = dict.get_type() {
                        let count = dict.get_deref(b"Count", self.doc).and_then(Object::as_i64).unwrap_or(0);
                        max(0, count) as usize
                      } else { 1 }
                    } else { 1 })
         .fold(0_usize, usize::saturating_add)
         .min(self.iter_limit);
       (nb_pages, Some(self.iter_limit))
     }

   The state after next() returned Some(page) is (kids = rest of the level, stack, iter_limit) exactly as
   Model/PageTree.iter passes it to its recursive call: the Rust code pops exhausted levels lazily at the
   next call, the model in pop_nonempty, also at the next call.  The state after next() returned None
   is not observed (the model merges the pops, see Model/PageTree.v).  Definitions only. *)
From LV Require Import Base.Bytes Base.Sx Model.Obj Model.DocQ Model.PageTree Gen.Consts.
Local Open Scope N_scope.

Definition USIZE_MAX : N := 18446744073709551615.
Definition sat_add (a b : N) : N := N.min (a + b) USIZE_MAX.

(* the closure inside .map(..) *)
Definition kid_count (m : objmap) (kid : obj) : N :=
  match kid with
  | ORef i g =>
    match get_dictionary m (i, g) with
    | Some d =>
      match get_type d with
      | Some t =>
        if bytes_eqb t K_Pages then
          match get_deref m d K_Count with
          | Some (OInt c) => Z.to_N (Z.max 0 c)
          | _ => 0
          end
        else 1
      | None => 1
      end
    | None => 1
    end
  | _ => 1
  end.

(* the model keeps the stack top first, the Vec is iterated bottom first *)
Definition pending (kids : list obj) (stack : list (list obj)) : list obj := kids ++ concat (rev stack).

Definition hint (m : objmap) (limit : nat) (kids : list obj) (stack : list (list obj)) : N * N :=
  (N.min (fold_left sat_add (map (kid_count m) (pending kids stack)) 0) (N.of_nat limit), N.of_nat limit).

(* Model/PageTree.iter, recording the hint of the state left behind by every yielded page *)
Fixpoint iter_hints (limit : nat) (m : objmap) (kids : list obj) (stack : list (list obj)) : list (oid * (N * N)) :=
  match limit with
  | O => []
  | S l =>
    match pop_nonempty kids stack with
    | None => []
    | Some (kid, rest, st) =>
      match kid with
      | ORef i g =>
        match node_type m (i, g) with
        | NPage => ((i, g), hint m l rest st) :: iter_hints l m rest st
        | NPages => if (N.of_nat (length st) <? PAGE_TREE_DEPTH_LIMIT)%N
                    then iter_hints l m (kids_of m (i, g)) (push_rest rest st)
                    else iter_hints l m rest st
        | NOther => iter_hints l m rest st
        end
      | _ => iter_hints l m rest st
      end
    end
  end.

(* PageTreeIter::new, size_hint, then next / size_hint alternately until None *)
Definition page_hints (d : doc) : (N * N) * list (oid * (N * N)) :=
  let m := d_objects d in
  let n := length m in
  match catalog d with
  | Some cat =>
    match dict_get cat K_Pages with
    | Some (ORef i g) => (hint m n (kids_of m (i, g)) [], iter_hints n m (kids_of m (i, g)) [])
    | _ => (hint m n [] [], [])
    end
  | None => (hint m n [] [], [])
  end.
