(* A85.v -- Stream::decode_ascii85 of src/object.rs (after the repairs c049d3a: checked_add, and efed7db:
   NUL is skipped like the other white-space characters), branch for branch.  Definitions only.

   Rust:
     let input_no_eod = if input.len() >= 2 && input ends with b"~>" { input without it } else { input };
     for &ch in input_no_eod {
       if ch == b'z' { if count != 0 { return Err(Ascii85) }  output += [0,0,0,0]; continue }
       if ch.is_ascii_whitespace() || ch == b'\0' { continue }
       if !(b'!'..=b'u').contains(&ch) { break }
       buffer = buffer.checked_mul(85)?;  buffer = buffer.checked_add(ch - b'!')?;  count += 1;
       if count == 5 { output += buffer.to_be_bytes(); buffer = 0; count = 0 }
     }
     if count > 0 { for _ in count..5 { buffer = buffer.checked_mul(85)?; buffer = buffer.checked_add(84)? }
                    output += buffer.to_be_bytes()[..count-1] }
   [buffer] is a u32: the checked operations fail above 2^32-1. *)
From LV Require Import Base.Bytes Gen.Filters.

(* outcome of the filter functions: error classes as the harness canonicalises them *)
Inductive err := EDictKey | EType | EUnimpl | EA85 | EIoEof | EIoData | EIoOther.
Inductive res (A : Type) :=
| Ok (a : A)
| Err (e : err)
| Panic        (* arithmetic overflow / index out of bounds (overflow checks are on) *)
| Fuel.        (* fuelled recursion ran out; excluded in every theorem statement *)
Arguments Ok {A} a.
Arguments Err {A} e.
Arguments Panic {A}.
Arguments Fuel {A}.

Definition rbind {A B} (r : res A) (f : A -> res B) : res B :=
  match r with Ok a => f a | Err e => Err e | Panic => Panic | Fuel => Fuel end.

(* output produced before the recursive call; dropped when the rest fails (a Result carries no output) *)
Definition emit (pre : bytes) (r : res bytes) : res bytes :=
  match r with Ok o => Ok (pre ++ o) | Err e => Err e | Panic => Panic | Fuel => Fuel end.

Definition U32_MAX : N := 4294967295.

Definition checked_mul_u32 (a b : N) : option N :=
  let r := (a * b)%N in if (r <=? U32_MAX)%N then Some r else None.
Definition checked_add_u32 (a b : N) : option N :=
  let r := (a + b)%N in if (r <=? U32_MAX)%N then Some r else None.

(* u32::to_be_bytes *)
Definition be_bytes (v : N) : bytes :=
  [byte_of_N (v / 16777216); byte_of_N (v / 65536); byte_of_N (v / 256); byte_of_N v].

(* u8::is_ascii_whitespace (Rust std): space, \t, \n, form feed, \r *)
Definition is_ascii_ws (b : byte) : bool := byte_in b [x20; x09; x0a; x0c; x0d].

(* the characters the loop skips: is_ascii_whitespace() || ch == b'\0' *)
Definition is_skipped (b : byte) : bool := is_ascii_ws b || byte_eqb b A85_WS_EXTRA.

Definition in_digit_range (b : byte) : bool :=
  (N_of_byte A85_LO <=? N_of_byte b)%N && (N_of_byte b <=? N_of_byte A85_HI)%N.

(* Some l' when l = l' ++ EOD *)
Fixpoint strip_suffix (suf l : bytes) : option bytes :=
  if bytes_eqb l suf then Some []
  else match l with
       | [] => None
       | x :: l' => option_map (cons x) (strip_suffix suf l')
       end.

Definition strip_eod (input : bytes) : bytes :=
  match strip_suffix A85_EOD input with Some l => l | None => input end.

(* one accumulation step: buffer*85 + d *)
Definition accum (buffer d : N) : option N :=
  match checked_mul_u32 buffer A85_BASE with
  | None => None
  | Some b => checked_add_u32 b d
  end.

(* the padding loop `for _ in count..5` run k times *)
Fixpoint pad (buffer : N) (k : nat) : option N :=
  match k with
  | O => Some buffer
  | S k' => match accum buffer A85_PAD with None => None | Some b => pad b k' end
  end.

Definition finish (buffer : N) (count : nat) : res bytes :=
  match count with
  | O => Ok []
  | _ => match pad buffer (A85_GROUP - count) with
         | None => Err EA85
         | Some b => Ok (firstn (count - 1) (be_bytes b))
         end
  end.

Fixpoint loop (input : bytes) (buffer : N) (count : nat) : res bytes :=
  match input with
  | [] => finish buffer count
  | ch :: input' =>
    if byte_eqb ch A85_Z then
      match count with
      | O => emit [x00; x00; x00; x00] (loop input' buffer count)
      | _ => Err EA85
      end
    else if is_skipped ch then loop input' buffer count
    else if negb (in_digit_range ch) then finish buffer count          (* break *)
    else match accum buffer (N_of_byte ch - N_of_byte A85_LO) with
         | None => Err EA85
         | Some b =>
           if Nat.eqb (S count) A85_GROUP then emit (be_bytes b) (loop input' 0%N O)
           else loop input' b (S count)
         end
  end.

Definition decode (input : bytes) : res bytes := loop (strip_eod input) 0%N O.
