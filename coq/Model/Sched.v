(* Sched.v -- C08: the object-loading phase of Reader::read (src/reader.rs) and of
   ObjectStream::new (src/object_stream.rs) under an arbitrary thread schedule.
   Definitions only.

   What the Rust does (reader.rs, after xref and trailer are read):
     - one task per `XrefEntry::Normal` of `reference_table.entries` (a BTreeMap, so the tasks are
       listed by ascending xref key); with the `rayon` feature the tasks run on a thread pool
       (`par_iter().filter_map(..).collect()`), without it they run in key order;
     - a task reads the indirect object at the entry's offset.  It returns `Some((id, object))` or
       `None`; besides that it may append, while holding a `Mutex`,
         * to `object_streams` : one pair (xref key of the entry, members of the object stream)  -- one atomic block,
         * to `zero_length_streams` : the id of a stream whose content is still empty;
     - afterwards, on one thread: the task results are collected into a BTreeMap in entry order
       (rayon's `collect` keeps the order of the source, later duplicates replace earlier ones),
       the blocks of `object_streams` are sorted by xref key and merged "only add, never replace" -- first the
       members that the cross-reference table places in exactly that container (Compressed{container}), then the rest --,
       and for every id in `zero_length_streams` the stream body is read from the buffer.
   A schedule is therefore: how the entry range was cut into jobs, the order in which the blocks
   reached `object_streams`, and the order in which ids reached `zero_length_streams`.

   For a file whose trailer has Encrypt the tasks leave the object streams alone; the load ends with Document::decrypt_raw, which
   decrypts every object and then expands the object streams itself -- a second only-add merge, on one thread: see the part
   "encrypted files" below ([finish], [load_full_seq], [load_full_par]).

   The last loop adds a member only when no object of its NUMBER is present (61ef95a, C07).
   `merge_pinned` is the merge as it was before commits f28e935 "fix: object streams are merged in
   cross-reference order" and 44beb46 (blocks flattened in completion order, no regard for the container
   the xref names); it is kept for the refutation of the property on that code and for the conditional theorem. *)
From Coq Require Import Permutation.
From LV Require Import Base.Bytes Base.Sx Model.Obj Model.DocQ.

Definition member := (oid * obj)%type.
(* an object of Document.objects during loading, with Stream::start_position (None for non-streams) *)
Definition xobj := (obj * option N)%type.
Definition xmap := list (oid * xobj).

(* ---- BTreeMap<ObjectId, V> as a sorted association list (the code of Obj.lookup / Obj.insert, any value type) ---- *)
Fixpoint plookup {V} (m : list (oid * V)) (id : oid) : option V :=
  match m with
  | [] => None
  | (i, v) :: m' => if oid_eqb i id then Some v else plookup m' id
  end.
Fixpoint pinsert {V} (m : list (oid * V)) (id : oid) (v : V) : list (oid * V) :=
  match m with
  | [] => [(id, v)]
  | (i, v') :: m' =>
    if oid_eqb i id then (i, v) :: m'
    else if oid_ltb id i then (id, v) :: (i, v') :: m'
    else (i, v') :: pinsert m' id v
  end.
(* `iter.collect::<BTreeMap<_,_>>()` : insert in order, a later pair with the same key replaces the earlier one *)
Definition collect {V} (l : list (oid * V)) : list (oid * V) :=
  fold_left (fun m r => pinsert m (fst r) (snd r)) l [].
(* `map.entry(id).or_insert(v)` *)
Definition or_insert {V} (m : list (oid * V)) (id : oid) (v : V) : list (oid * V) :=
  match plookup m id with Some _ => m | None => pinsert m id v end.
(* in-place mutation through `get_mut(id)` *)
Definition update {V} (m : list (oid * V)) (id : oid) (f : V -> V) : list (oid * V) :=
  map (fun e => if oid_eqb (fst e) id then (fst e, f (snd e)) else e) m.

Definition strip (m : xmap) : objmap := map (fun e => (fst e, fst (snd e))) m.

(* ---- what one task sees ---- *)
(* result of `read_object(offset, None, ..)` for one Normal entry *)
Inductive parsed :=
| PFailed                                           (* Err: logged, the task returns None *)
| PObj (id : oid) (o : obj)                         (* any object that is not a stream *)
| PStm (id : oid) (d : dict) (content : bytes) (start : option N)
       (members : option (list member)).            (* a stream; [members] = outcome of ObjectStream::new on it:
                                                       None = Err, Some l = the (id, object) pairs that its
                                                       filter_map yields, in index order *)

Record entry := mkEntry { e_key : N; e_off : N; e_parsed : parsed }.

Record file := mkFile {
  f_buf : bytes;            (* the buffer from "%PDF-" on *)
  f_version : bytes;
  f_mark : bytes;
  f_trailer : dict;
  f_max_id : N;
  f_encrypted : bool;       (* trailer has Encrypt *)
  f_entries : list entry;   (* the Normal entries, ascending xref key *)
  f_compressed : list (N * N);   (* the Compressed entries: (object number, container) *)
}.

Definition block := (N * list member)%type.     (* (xref key of the container's entry, its members) *)

Record outcome := mkOutcome {
  o_res : option (oid * xobj);    (* value returned by entries_filter_map *)
  o_block : option block;         (* pushed to object_streams under its lock *)
  o_zero : option oid;            (* pushed to zero_length_streams under its lock *)
}.

Definition K_ObjStm := Eval cbv in bs "ObjStm".

(* ObjectStream { objects }: the filter_map results collected into a BTreeMap *)
Definition objstm_objects (ms : list member) : list member := collect ms.

(* entries_filter_map, filter_func = None *)
Definition run_task (enc : bool) (e : entry) : outcome :=
  match e_parsed e with
  | PFailed => mkOutcome None None None
  | PObj id o => mkOutcome (Some (id, (o, None))) None None
  | PStm id d c start ms =>
    if has_type d K_ObjStm && negb enc then
      match ms with
      | None => mkOutcome None None None                       (* `ObjectStream::new(stream).ok()?` *)
      | Some ms => mkOutcome (Some (id, (OStream d c, start))) (Some (e_key e, objstm_objects ms)) None
      end
    else
      match c with
      | [] => mkOutcome (Some (id, (OStream d c, start))) None (Some id)
      | _ => mkOutcome (Some (id, (OStream d c, start))) None None
      end
  end.

Definition opt_list {A} (o : option A) : list A := match o with Some a => [a] | None => [] end.
Definition results (os : list outcome) : list (oid * xobj) := flat_map (fun o => opt_list (o_res o)) os.
Definition blocks_of (os : list outcome) : list block := flat_map (fun o => opt_list (o_block o)) os.
Definition zeros_of (os : list outcome) : list oid := flat_map (fun o => opt_list (o_zero o)) os.

Definition outcomes (f : file) : list outcome := map (run_task (f_encrypted f)) (f_entries f).

(* ---- rayon: the source range is cut into contiguous jobs, each job maps its part in order,
        `collect` concatenates the parts in source order ---- *)
Fixpoint split_chunks {A} (ns : list nat) (l : list A) : list (list A) :=
  match ns with
  | [] => [l]
  | n :: ns' => firstn n l :: split_chunks ns' (skipn n l)
  end.

Definition par_results (chunks : list nat) (enc : bool) (es : list entry) : list (oid * xobj) :=
  concat (map (fun job => results (map (run_task enc) job)) (split_chunks chunks es)).

(* the same inside one object stream: `numbers.par_chunks(2).filter_map(..).collect()` *)
Definition par_objstm_objects (chunks : list nat) (ms : list member) : list member :=
  collect (concat (split_chunks chunks ms)).

(* ---- the merge of object_streams ---- *)
Fixpoint merge_members (m : xmap) (ms : list member) : xmap :=
  match ms with
  | [] => m
  | (i, o) :: ms' => merge_members (or_insert m i (o, None)) ms'
  end.

(* Vec::sort_by_key (stable) on the xref key *)
Fixpoint insert_block (b : block) (l : list block) : list block :=
  match l with
  | [] => [b]
  | c :: l' => if (fst b <=? fst c)%N then b :: l else c :: insert_block b l'
  end.
Definition sort_blocks (l : list block) : list block := fold_right insert_block [] l.

(* reference_table.get(num) == Some(Compressed { container == key, .. }) *)
Fixpoint xref_container (xc : list (N * N)) (num : N) : option N :=
  match xc with
  | [] => None
  | (n, c) :: xc' => if (n =? num)%N then Some c else xref_container xc' num
  end.
Definition named (xc : list (N * N)) (key : N) (m : member) : bool :=
  match xref_container xc (fst (fst m)) with Some c => (c =? key)%N | None => false end.

(* `objects.range((num, 0)..=(num, u16::MAX)).next().is_none()` : no object of that number, whatever generation *)
Definition has_number {V} (m : list (oid * V)) (num : N) : bool :=
  existsb (fun e => (fst (fst e) =? num)%N) m.
(* the final loop (since 61ef95a): a remaining member is inserted only when its number is not present yet *)
Fixpoint merge_rest (m : xmap) (ms : list member) : xmap :=
  match ms with
  | [] => m
  | (i, o) :: ms' => merge_rest (if has_number m (fst i) then m else pinsert m i (o, None)) ms'
  end.

(* sort by key; pass A (or_insert): the members the xref places in their own container; pass B: the remaining members *)
Definition merge (xc : list (N * N)) (bl : list block) (base : xmap) : xmap :=
  let sb := sort_blocks bl in
  merge_rest
    (merge_members base (flat_map (fun b => filter (named xc (fst b)) (snd b)) sb))
    (flat_map (fun b => filter (fun m => negb (named xc (fst b) m)) (snd b)) sb).

(* before the repair: `object_streams.extend(members)` per task, merged in completion order *)
Definition merge_pinned (bl : list block) (base : xmap) : xmap :=
  merge_members base (flat_map snd bl).

(* ---- the zero-length pass: Reader::read_stream_content ---- *)
Definition slice (buf : bytes) (start len : nat) : bytes := firstn len (skipn start buf).

(* get_stream_length: dict.get("Length"), Document::dereference, as_i64 *)
Definition stream_length (m : objmap) (d : dict) : option Z :=
  match dict_get d K_Length with
  | None => None
  | Some v => match dereference m v with Some (_, OInt z) => Some z | _ => None end
  end.

(* what read_stream_content makes of the object it reaches ([m] = the objects before the call) *)
Definition fixed (buf : bytes) (m : objmap) (x : xobj) : xobj :=
  match x with
  | (OStream d c, Some start) =>
    match stream_length m d with
    | Some len =>
      if (len <? 0)%Z then x
      else if (N.of_nat (length buf) <? start + Z.to_N len)%N then x
      else (OStream (dict_set d K_Length (OInt len)) (slice buf (N.to_nat start) (Z.to_nat len)), Some start)
    | None => x
    end
  | _ => x
  end.

(* `get_object(id)` / `get_object_mut(id)` follow references: the object touched is the last id of the chain *)
Definition fix_stream (buf : bytes) (m : xmap) (id : oid) : xmap :=
  match lookup (strip m) id with
  | None => m
  | Some o =>
    match dereference (strip m) o with
    | None => m
    | Some (rid, _) => update m (match rid with Some r => r | None => id end) (fixed buf (strip m))
    end
  end.

Definition zero_pass (buf : bytes) (zl : list oid) (m : xmap) : xmap := fold_left (fix_stream buf) zl m.

(* ---- whole load ---- *)
Definition load_tail (f : file) (rs : list (oid * xobj)) (bl : list block) (zl : list oid) : doc :=
  {| d_version := f_version f; d_binary_mark := f_mark f; d_trailer := f_trailer f;
     d_objects := strip (zero_pass (f_buf f) zl (merge (f_compressed f) bl (collect rs)));
     d_max_id := f_max_id f |}.

Definition load_tail_pinned (f : file) (rs : list (oid * xobj)) (bl : list block) (zl : list oid) : doc :=
  {| d_version := f_version f; d_binary_mark := f_mark f; d_trailer := f_trailer f;
     d_objects := strip (zero_pass (f_buf f) zl (merge_pinned bl (collect rs)));
     d_max_id := f_max_id f |}.

(* without the rayon feature: one thread, entries in key order *)
Definition load_seq (f : file) : doc :=
  load_tail f (results (outcomes f)) (blocks_of (outcomes f)) (zeros_of (outcomes f)).
Definition load_seq_pinned (f : file) : doc :=
  load_tail_pinned f (results (outcomes f)) (blocks_of (outcomes f)) (zeros_of (outcomes f)).

(* a schedule of the parallel phase *)
Record sched := mkSched {
  s_chunks : list nat;        (* how rayon cut the entry range into jobs (any cut; which worker ran which job is irrelevant
                                 to the values, it only shows in the two orders below) *)
  s_blocks : list block;      (* object_streams as the threads left it *)
  s_zeros : list oid;         (* zero_length_streams as the threads left it *)
}.

(* every task ran exactly once and its appends were atomic *)
Definition sched_valid (f : file) (s : sched) : Prop :=
  Permutation (s_blocks s) (blocks_of (outcomes f)) /\ Permutation (s_zeros s) (zeros_of (outcomes f)).

Definition load_par (s : sched) (f : file) : doc :=
  load_tail f (par_results (s_chunks s) (f_encrypted f) (f_entries f)) (s_blocks s) (s_zeros s).
Definition load_par_pinned (s : sched) (f : file) : doc :=
  load_tail_pinned f (par_results (s_chunks s) (f_encrypted f) (f_entries f)) (s_blocks s) (s_zeros s).

(* the reference table is a BTreeMap: keys strictly ascending *)
Fixpoint ascending (l : list N) : Prop :=
  match l with
  | [] => True
  | a :: l' => Forall (fun b => (a < b)%N) l' /\ ascending l'
  end.
Definition file_wf (f : file) : Prop := ascending (map e_key (f_entries f)).

(* the hypothesis of the conditional theorem for the pinned merge: the same object number never has two bodies *)
Definition blocks_agree (bl : list block) : Prop :=
  forall b1 b2 i o1 o2, In b1 bl -> In b2 bl -> In (i, o1) (snd b1) -> In (i, o2) (snd b2) -> o1 = o2.

(* ================= encrypted files: the second "only add, never replace" merge =================
   Reader::read ends with
       if document.authenticate_password("").is_ok() { document.decrypt("")?; }
   For a file whose trailer has Encrypt the tasks above leave the object streams alone ([run_task] with enc = true), so the
   members appear only here, in Document::decrypt_raw (src/document.rs), on ONE thread:
     - every object except the encryption dictionary (trailer Encrypt, when it is a reference) goes through
       encryption::decrypt_object, in the order of the objects map; the first Err ends the load with Err;
     - then, again in the order of the objects map (a BTreeMap<(number, generation)>), every stream of Type ObjStm is handed
       to ObjectStream::new; on Ok the pair (object NUMBER of the stream, its members) is appended to a vector, on Err nothing;
     - pass A over that vector: the members that the cross-reference table places in exactly that container
       (Compressed{container == number of the stream}) -> entry(id).or_insert; pass B: the remaining members, added only
       when no object of their number is present (the two passes of the reader, since /repo 959d50f; there is no sort: the
       vector is in map order);
     - trailer.remove("Encrypt") (IndexMap::swap_remove), the encryption dictionary object is removed.
   What decrypt_object and ObjectStream::new compute is data here, like [parsed] for the tasks: the theorems hold for every
   pair of functions ([c_dec] is C05's subject, [c_objstm] C02's).  ObjectStream::new also decompresses the stream in place;
   the object streams of the generated encrypted files carry no Filter, the stream object is left as it is. *)
Definition K_Encrypt := Eval cbv in bs "Encrypt".

Record crypt := mkCrypt {
  c_opens : bool;                                       (* authenticate_password("") is Ok (then decrypt("") authenticates
                                                           and decodes the state by the same computation) *)
  c_dec : oid -> obj -> option obj;                     (* decrypt_object(&state, id, obj): None = Err *)
  c_objstm : dict -> bytes -> option (list member);     (* ObjectStream::new on a decrypted stream: None = Err,
                                                           Some l = the pairs its filter_map yields, in index order *)
}.

(* `for (&id, obj) in self.objects.iter_mut() { if Some(id) == encryption_obj_id { continue; } decrypt_object(..)?; }` *)
Fixpoint decrypt_all (c : crypt) (eid : option oid) (m : objmap) : option objmap :=
  match m with
  | [] => Some []
  | (id, o) :: m' =>
    match (if match eid with Some e => oid_eqb id e | None => false end then Some o else c_dec c id o) with
    | None => None
    | Some o' => match decrypt_all c eid m' with None => None | Some r => Some ((id, o') :: r) end
    end
  end.

(* one object of the map: the block it contributes (keyed by the object number of the stream) *)
Definition expand_block (c : crypt) (e : oid * obj) : list block :=
  match snd e with
  | OStream d ct =>
    if has_type d K_ObjStm then
      match c_objstm c d ct with
      | Some ms => [(fst (fst e), objstm_objects ms)]
      | None => []
      end
    else []
  | _ => []
  end.
Definition expand_blocks (c : crypt) (m : objmap) : list block := flat_map (expand_block c) m.

(* the two passes over blocks taken in the given order ([merge xc bl base] is [merge_in_order xc (sort_blocks bl) base]) *)
Definition merge_in_order (xc : list (N * N)) (sb : list block) (base : xmap) : xmap :=
  merge_rest
    (merge_members base (flat_map (fun b => filter (named xc (fst b)) (snd b)) sb))
    (flat_map (fun b => filter (fun m => negb (named xc (fst b) m)) (snd b)) sb).

Definition unstrip (m : objmap) : xmap := map (fun e => (fst e, (snd e, None))) m.

(* result of Document::load_mem *)
Inductive lres :=
| LDoc (d : doc)
| LErr.                (* `document.decrypt("")?` failed *)

(* Document::decrypt_raw after its authentication *)
Definition decrypt_doc (c : crypt) (xc : list (N * N)) (d : doc) : lres :=
  let eid := match dict_get (d_trailer d) K_Encrypt with Some (ORef i g) => Some (i, g) | _ => None end in
  match decrypt_all c eid (d_objects d) with
  | None => LErr
  | Some m =>
    let m' := strip (merge_in_order xc (expand_blocks c m) (unstrip m)) in
    LDoc {| d_version := d_version d; d_binary_mark := d_binary_mark d;
            d_trailer := dict_swap_remove (d_trailer d) K_Encrypt;
            d_objects := match eid with Some id => remove m' id | None => m' end;
            d_max_id := d_max_id d |}
  end.

(* the end of Reader::read *)
Definition finish (c : crypt) (f : file) (d : doc) : lres :=
  if c_opens c then decrypt_doc c (f_compressed f) d else LDoc d.

Definition load_full_seq (c : crypt) (f : file) : lres := finish c f (load_seq f).
Definition load_full_par (c : crypt) (s : sched) (f : file) : lres := finish c f (load_par s f).

(* the expansion as it was before /repo 959d50f: members of all object streams in map order, entry(id).or_insert,
   no regard for the cross-reference table nor for other generations of the number *)
Definition decrypt_doc_old (c : crypt) (d : doc) : lres :=
  let eid := match dict_get (d_trailer d) K_Encrypt with Some (ORef i g) => Some (i, g) | _ => None end in
  match decrypt_all c eid (d_objects d) with
  | None => LErr
  | Some m =>
    let m' := strip (merge_members (unstrip m) (flat_map snd (expand_blocks c m))) in
    LDoc {| d_version := d_version d; d_binary_mark := d_binary_mark d;
            d_trailer := dict_swap_remove (d_trailer d) K_Encrypt;
            d_objects := match eid with Some id => remove m' id | None => m' end;
            d_max_id := d_max_id d |}
  end.

(* ---- selecting a permutation by indices (used by the runner to enumerate schedules) ---- *)
Definition permute {A} (p : list nat) (l : list A) : list A :=
  flat_map (fun i => opt_list (nth_error l i)) p.

(* all permutations of a list, lexicographic in the positions *)
Fixpoint remove_nth {A} (n : nat) (l : list A) : list A :=
  match n, l with
  | _, [] => []
  | O, _ :: l' => l'
  | S n', a :: l' => a :: remove_nth n' l'
  end.
Fixpoint perms_fuel {A} (fuel : nat) (l : list A) : list (list A) :=
  match fuel with
  | O => [[]]
  | S fuel' =>
    match l with
    | [] => [[]]
    | _ => flat_map (fun i => match nth_error l i with
                              | Some a => map (cons a) (perms_fuel fuel' (remove_nth i l))
                              | None => []
                              end) (seq 0 (length l))
    end
  end.
Definition perms {A} (l : list A) : list (list A) := perms_fuel (length l) l.
