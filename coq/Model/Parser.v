(* Parser.v -- the nom grammar of src/parser/mod.rs for direct objects and content streams,
   with nom's semantics: ordered choice [alt] (first alternative that does not return Error),
   [many0]/[fold_many0] (stop at the first Error, propagate Failure), [cut] (Error -> Failure).
   Results:  POk value rest | PErr (nom::Err::Error) | PFail (nom::Err::Failure) | POut (model
   fuel exhausted; never a Rust outcome -- theorems exclude it, the runner reports it).
   Mutual recursion object <-> array <-> dictionary <-> nested literal string is by fuel; each
   recursive call or loop iteration consumes one unit and at least one input byte, so
   fuel = length input + 1 always suffices (Proofs/ParserFuel.v). *)
From LV Require Import Base.Bytes Base.Sx Model.Obj Model.Writer Gen.Lex.

Inductive pres (A : Type) :=
| POk (a : A) (rest : bytes)
| PErr
| PFail
| PPanic              (* a Rust panic (overflow check, index, unwrap) *)
| POut.
Arguments POk {A} a rest.
Arguments PErr {A}.
Arguments PFail {A}.
Arguments PPanic {A}.
Arguments POut {A}.

Definition pbind {A B} (r : pres A) (f : A -> bytes -> pres B) : pres B :=
  match r with POk a rest => f a rest | PErr => PErr | PFail => PFail | PPanic => PPanic | POut => POut end.
Definition pmap {A B} (f : A -> B) (r : pres A) : pres B :=
  match r with POk a rest => POk (f a) rest | PErr => PErr | PFail => PFail | PPanic => PPanic | POut => POut end.

(* alt: try q when p returns Error (q is a thunk so that extraction stays lazy) *)
Definition palt {A} (p : pres A) (q : unit -> pres A) : pres A := match p with PErr => q tt | _ => p end.

Local Open Scope N_scope.

(* ---------- byte classes ---------- *)
Definition is_whitespace (c : byte) : bool := byte_in c WHITESPACE.
Definition is_delimiter (c : byte) : bool := byte_in c DELIMITER.
Definition is_regular (c : byte) : bool := negb (is_whitespace c) && negb (is_delimiter c).
Definition is_direct_literal (c : byte) : bool := negb (byte_in c LITERAL_SPECIAL).
Definition is_content_space (c : byte) : bool := byte_in c CONTENT_SPACE.
Definition is_comment_end (c : byte) : bool := byte_in c COMMENT_END.
Definition is_oct_digit (c : byte) : bool := (48 <=? N_of_byte c) && (N_of_byte c <=? 55).
Definition is_alpha (c : byte) : bool :=
  let n := N_of_byte c in ((65 <=? n) && (n <=? 90)) || ((97 <=? n) && (n <=? 122)).
Definition is_operator_char (c : byte) : bool := is_alpha c || byte_in c OPERATOR_EXTRA.

(* tag *)
Definition ptag (t s : bytes) : pres unit :=
  if prefixb t s then POk tt (drop (length t) s) else PErr.

(* eol = alt("\r\n", "\n", "\r") *)
Definition eol (s : bytes) : pres unit :=
  match s with
  | x0d :: x0a :: r => POk tt r
  | x0a :: r => POk tt r
  | x0d :: r => POk tt r
  | _ => PErr
  end.

(* take_while *)
Fixpoint take_while (p : byte -> bool) (s : bytes) : bytes * bytes :=
  match s with
  | c :: t => if p c then let '(a, r) := take_while p t in (c :: a, r) else ([], s)
  | [] => ([], [])
  end.
Fixpoint skip_while (p : byte -> bool) (s : bytes) : bytes :=
  match s with
  | c :: t => if p c then skip_while p t else s
  | [] => []
  end.

(* comment = "%" take_while(not CR/LF) eol *)
Definition comment (s : bytes) : pres unit :=
  match s with
  | x25 :: t => eol (skip_while (fun c => negb (is_comment_end c)) t)
  | _ => PErr
  end.

Definition white_space (s : bytes) : bytes := skip_while is_whitespace s.

(* space = fold_many0(alt(take_while1(is_whitespace), comment)).
   Structural version: [cstart = Some s0] while inside a comment that began at s0; a comment that
   reaches the end of input without EOL does not match, so the result is s0 (the input from '%').
   A CR LF after a comment: the LF is white-space, consumed by the next iteration anyway. *)
Fixpoint space_aux (s : bytes) (cstart : option bytes) : bytes :=
  match s with
  | [] => match cstart with Some s0 => s0 | None => [] end
  | c :: t =>
    match cstart with
    | None => if is_whitespace c then space_aux t None
              else if byte_eqb c x25 then space_aux t (Some s)
              else s
    | Some s0 => if is_comment_end c then space_aux t None else space_aux t cstart
    end
  end.
Definition space (s : bytes) : bytes := space_aux s None.

(* many0(comment), many0_count(comment): comments must follow each other immediately *)
Fixpoint many0_comment_aux (s : bytes) (cstart : option bytes) : bytes :=
  match s with
  | [] => match cstart with Some s0 => s0 | None => [] end
  | c :: t =>
    match cstart with
    | None => if byte_eqb c x25 then many0_comment_aux t (Some s) else s
    | Some s0 =>
      if byte_eqb c x0a then many0_comment_aux t None
      else if byte_eqb c x0d then
        match t with
        | c1 :: _ =>
          if byte_eqb c1 x0a
          then many0_comment_aux t (Some s0)   (* CR LF: the next step sees LF in comment mode and ends it *)
          else many0_comment_aux t None
        | [] => many0_comment_aux t None
        end
      else many0_comment_aux t cstart
    end
  end.
Definition many0_comment (s : bytes) : bytes := many0_comment_aux s None.

(* ---------- numbers ---------- *)
Definition i64_min : Z := (- 9223372036854775808)%Z.
Definition i64_max : Z := 9223372036854775807%Z.

(* sign: Some true = '-', Some false = '+' *)
Definition opt_sign (s : bytes) : option bool * bytes :=
  match s with
  | x2d :: t => (Some true, t)
  | x2b :: t => (Some false, t)
  | _ => (None, s)
  end.

(* integer = pair(opt(one_of("+-")), digit1) then i64::from_str *)
Definition integer (s : bytes) : pres Z :=
  let '(sg, t) := opt_sign s in
  let '(ds, r) := take_while is_dec_digit t in
  match ds with
  | [] => PErr
  | _ =>
    let v := Z.of_N (digits_val ds) in
    let z := match sg with Some true => Z.opp v | _ => v end in
    if ((i64_min <=? z) && (z <=? i64_max))%Z then POk z r else PErr
  end.

(* real = opt(sign) alt(digit1 "." digit0 | "." digit1); the value is kept as the matched text
   (DESIGN 3: f32::from_str / Display are Rust-std behaviour; the comparison glue canonicalises
   real texts to f32 bit patterns) *)
Definition real (s : bytes) : pres bytes :=
  let '(sg, t) := opt_sign s in
  let sgb := match sg with Some true => [x2d] | Some false => [x2b] | None => [] end in
  let '(ds, r) := take_while is_dec_digit t in
  match ds, r with
  | _ :: _, c :: r' =>
    if byte_eqb c x2e then
      let '(fs, r'') := take_while is_dec_digit r' in POk (sgb ++ ds ++ x2e :: fs) r''
    else PErr
  | [], c :: r' =>
    if byte_eqb c x2e then
      let '(fs, r'') := take_while is_dec_digit r' in
      match fs with [] => PErr | _ => POk (sgb ++ x2e :: fs) r'' end
    else PErr
  | _, [] => PErr
  end.

(* f32 range (DESIGN 3, float assumptions): the [real] parser keeps the matched text; f32::from_str
   rounds a decimal value to an INFINITE f32 exactly when it is at least f32::MAX + half an ulp
   = 2^128 - 2^103 (round to nearest, ties to even; the significand of f32::MAX is odd).  The value is
   integer part + fraction with 0 <= fraction < 1 and the bound is an integer, so only the integer
   digits matter.  Validated on the crate by the (real ...) cases of props/c14.py. *)
Definition real_int_val (t : bytes) : N :=
  let '(_, t1) := opt_sign t in digits_val (fst (take_while is_dec_digit t1)).
Definition F32_INF_FROM : N := 340282356779733661637539395458142568448.
Definition real_overflow (t : bytes) : bool := F32_INF_FROM <=? real_int_val t.

(* unsigned_int::<T>: digit1 then T::from_str, T = u32 / u16 / usize by [maxv] *)
Definition unsigned_int (maxv : N) (s : bytes) : pres N :=
  let '(ds, r) := take_while is_dec_digit s in
  match ds with
  | [] => PErr
  | _ => let v := digits_val ds in if v <=? maxv then POk v r else PErr
  end.
Definition u32_max : N := 4294967295.
Definition u16_max : N := 65535.
Definition usize_max : N := 18446744073709551615.

(* reference = object_id "R" ; object_id = u32 space u16 space *)
Definition object_id (s : bytes) : pres oid :=
  pbind (unsigned_int u32_max s) (fun i r =>
  pbind (unsigned_int u16_max (space r)) (fun g r' => POk (i, g) (space r'))).
Definition reference (s : bytes) : pres obj :=
  pbind (object_id s) (fun id r => pbind (ptag [x52] r) (fun _ r' => POk (ORef (fst id) (snd id)) r')).

(* ---------- names ---------- *)
Definition is_hex_digit (c : byte) : bool :=
  match hex_val c with Some _ => true | None => false end.

(* name = "/" many0(alt("#" hex_char, regular byte other than '#')) *)
Fixpoint name_body (s : bytes) : bytes * bytes :=
  match s with
  | [] => ([], [])
  | c :: t =>
    if byte_eqb c x23 then
      match t with
      | a :: b :: t2 =>
        match hex_val a, hex_val b with
        | Some h, Some l => let '(n, r) := name_body t2 in (byte_of_N (h * 16 + l) :: n, r)
        | _, _ => ([], s)
        end
      | _ => ([], s)
      end
    else if is_regular c then let '(n, r) := name_body t in (c :: n, r)
    else ([], s)
  end.
Definition name (s : bytes) : pres bytes :=
  match s with
  | c :: t => if byte_eqb c x2f then let '(n, r) := name_body t in POk n r else PErr
  | [] => PErr
  end.

(* ---------- strings ---------- *)
(* oct_char: 1..3 octal digits, u16 value truncated to u8 *)
Definition oct_char (s : bytes) : option (byte * bytes) :=
  match s with
  | a :: t =>
    if is_oct_digit a then
      let va := N_of_byte a - 48 in
      match t with
      | b :: t' =>
        if is_oct_digit b then
          let vb := va * 8 + (N_of_byte b - 48) in
          match t' with
          | c :: t'' =>
            if is_oct_digit c then Some (byte_of_N (vb * 8 + (N_of_byte c - 48)), t'')
            else Some (byte_of_N vb, t')
          | [] => Some (byte_of_N vb, t')
          end
        else Some (byte_of_N va, t)
      | [] => Some (byte_of_N va, t)
      end
    else None
  | [] => None
  end.

Fixpoint assoc_byte (l : list (byte * byte)) (c : byte) : option byte :=
  match l with
  | [] => None
  | (k, v) :: l' => if byte_eqb k c then Some v else assoc_byte l' c
  end.

(* escape_sequence, after the backslash: alt(oct, eol -> None, letters, take(1)) *)
Definition escape_after_backslash (s : bytes) : option (option byte * bytes) :=
  match oct_char s with
  | Some (b, r) => Some (Some b, r)
  | None =>
    match eol s with
    | POk _ r => Some (None, r)
    | _ =>
      match s with
      | c :: t => match assoc_byte ESCAPE_LETTERS c with
                  | Some v => Some (Some v, t)
                  | None => Some (Some c, t)
                  end
      | [] => None
      end
    end
  end.

(* inner_literal_string(depth) = fold_many0(alt(direct run, escape, eol, nested(depth))).
   Returns the accumulated bytes and the remaining input (fold_many0 never fails here: every
   alternative consumes input, no alternative returns Failure).  [None] = out of fuel. *)
Fixpoint inner_literal (fuel : nat) (depth : nat) (s : bytes) : option (bytes * bytes) :=
  match fuel with
  | O => None
  | S f =>
    match s with
    | [] => Some ([], [])
    | c :: t =>
      if is_direct_literal c then
        (* take_while1 consumes the maximal run; consuming it byte by byte in the fold gives
           the same accumulated output *)
        match inner_literal f depth t with
        | Some (out, r) => Some (c :: out, r)
        | None => None
        end
      else if byte_eqb c x5c then
        match escape_after_backslash t with
        | Some (e, r) =>
          match inner_literal f depth r with
          | Some (out, r') => Some (match e with Some b => b :: out | None => out end, r')
          | None => None
          end
        | None => Some ([], s)
        end
      else if byte_eqb c x0d then
        match t with
        | c1 :: t' =>
          if byte_eqb c1 x0a then
            match inner_literal f depth t' with
            | Some (out, r) => Some (x0d :: x0a :: out, r) | None => None end
          else
            match inner_literal f depth t with
            | Some (out, r) => Some (x0d :: out, r) | None => None end
        | [] =>
          match inner_literal f depth t with
          | Some (out, r) => Some (x0d :: out, r) | None => None end
        end
      else if byte_eqb c x0a then
        match inner_literal f depth t with
        | Some (out, r) => Some (x0a :: out, r) | None => None end
      else if byte_eqb c x28 then
        match depth with
        | O => Some ([], s)                       (* nested_literal_string(0) fails *)
        | S d =>
          match inner_literal f d t with
          | Some (nested, c2 :: r) =>
            if byte_eqb c2 x29 then
              match inner_literal f depth r with
              | Some (out, r') => Some (x28 :: nested ++ x29 :: out, r')
              | None => None
              end
            else Some ([], s)                     (* no closing parenthesis: nested fails *)
          | Some (_, []) => Some ([], s)
          | None => None
          end
        end
      else (* ')' *) Some ([], s)
    end
  end.

Definition literal_string (fuel : nat) (s : bytes) : pres bytes :=
  match s with
  | c :: t =>
    if byte_eqb c x28 then
      match inner_literal fuel (N.to_nat MAX_BRACKET) t with
      | Some (out, c2 :: r) => if byte_eqb c2 x29 then POk out r else PErr
      | Some (_, []) => PErr
      | None => POut
      end
    else PErr
  | [] => PErr
  end.

(* hexadecimal_string = "<" fold_many0(preceded(white_space, hex_digit)) white_space ">" *)
Fixpoint hex_body (s : bytes) (pending : option N) : bytes * bytes :=
  (* returns decoded bytes and rest (positioned after trailing white space) *)
  match s with
  | [] => (match pending with Some h => [byte_of_N (h * 16)] | None => [] end, [])
  | c :: t =>
    if is_whitespace c then hex_body t pending
    else match hex_val c with
         | Some v =>
           match pending with
           | None => hex_body t (Some v)
           | Some h => let '(out, r) := hex_body t None in (byte_of_N (h * 16 + v) :: out, r)
           end
         | None => (match pending with Some h => [byte_of_N (h * 16)] | None => [] end, s)
         end
  end.
Definition hexadecimal_string (s : bytes) : pres bytes :=
  match s with
  | c :: t =>
    if byte_eqb c x3c then
      let '(out, r) := hex_body t None in
      match r with
      | c2 :: r' => if byte_eqb c2 x3e then POk out r' else PErr
      | [] => PErr
      end
    else PErr
  | [] => PErr
  end.

(* ---------- direct objects ---------- *)
(* token_end = not(one regular byte): a keyword is a whole token, it ends at white space, at a
   delimiter or at the end of the input (since the repair of finding C14-keyword-operator) *)
Definition token_end (s : bytes) : bool :=
  match s with c :: _ => negb (is_regular c) | [] => true end.
(* terminated(tag(t), token_end) *)
Definition pkeyword (t s : bytes) : pres unit :=
  match ptag t s with
  | POk _ r => if token_end r then POk tt r else PErr
  | e => e
  end.
Definition boolean (s : bytes) : pres obj :=
  palt (pmap (fun _ => OBool true) (pkeyword (bs "true") s))
       (fun _ => pmap (fun _ => OBool false) (pkeyword (bs "false") s)).
Definition null (s : bytes) : pres obj := pmap (fun _ => ONull) (pkeyword (bs "null") s).

Definition in_i64 (z : Z) : bool := ((i64_min <=? z) && (z <=? i64_max))%Z.

(* The recursive structure, parametric in the parser [elem] for nested values (which is
   _direct_objects one fuel level down).  [n] bounds the number of loop iterations. *)
Section Elem.
  Variable elem : bytes -> pres obj.

  (* many0(_direct_object); _direct_object = terminated(_direct_objects, space).
     Every alternative of _direct_objects consumes input, so many0's no-progress error cannot
     occur and is not modelled. *)
  Fixpoint many0_direct (n : nat) (s : bytes) : pres (list obj) :=
    match n with
    | O => POut
    | S n' =>
      match elem s with
      | POk o r => pmap (cons o) (many0_direct n' (space r))
      | PErr => POk [] s
      | PFail => PFail
      | PPanic => PPanic
      | POut => POut
      end
    end.

  (* inner_dictionary = fold_many0(pair(terminated(name, space), _direct_object)) with dict.set *)
  Fixpoint inner_dictionary (n : nat) (s : bytes) (acc : dict) : pres dict :=
    match n with
    | O => POut
    | S n' =>
      match name s with
      | POk k r =>
        match elem (space r) with
        | POk v r' => inner_dictionary n' (space r') (dict_set acc k v)
        | PErr => POk acc s
        | PFail => PFail
        | PPanic => PPanic
        | POut => POut
        end
      | _ => POk acc s
      end
    end.

  (* array = "[" space many0(_direct_object) "]" *)
  Definition array_p (n : nat) (s : bytes) : pres (list obj) :=
    match s with
    | x5b :: t => pbind (many0_direct n (space t)) (fun l r => pbind (ptag [x5d] r) (fun _ r' => POk l r'))
    | _ => PErr
    end.

  (* dictionary = "<<" space inner_dictionary ">>" *)
  Definition dictionary_p (n : nat) (s : bytes) : pres dict :=
    match s with
    | x3c :: x3c :: t =>
      pbind (inner_dictionary n (space t) []) (fun d r => pbind (ptag [x3e; x3e] r) (fun _ r' => POk d r'))
    | _ => PErr
    end.

  (* the ordered choice of _direct_objects_at ([allow_ref] = true) and of the content-stream
     [operand] ([allow_ref] = false: same list without [reference]).
     [cont] = false is depth 0 of array(input, depth) / dictionary_at(input, depth): both
     container alternatives return Error (too_deep) *)
  Definition object_alts_c (cont : bool) (allow_ref : bool) (n : nat) (s : bytes) : pres obj :=
    palt (null s) (fun _ =>
    palt (boolean s) (fun _ =>
    palt (if allow_ref then reference s else PErr) (fun _ =>
    palt (pmap OReal (real s)) (fun _ =>
    palt (pmap OInt (integer s)) (fun _ =>
    palt (pmap OName (name s)) (fun _ =>
    palt (pmap (fun t => OStr t false) (literal_string n s)) (fun _ =>
    palt (pmap (fun t => OStr t true) (hexadecimal_string s)) (fun _ =>
    palt (if cont then pmap OArr (array_p n s) else PErr) (fun _ =>
    if cont then pmap ODict (dictionary_p n s) else PErr))))))))).
  Definition object_alts := object_alts_c true.
End Elem.

(* arrays and dictionaries nest at most MAX_NESTING levels: [depth] is the number of container
   levels still allowed; the elements of a container are parsed one level down *)
Definition depth_ok (depth : nat) : bool := match depth with O => false | S _ => true end.

Fixpoint direct_objects_at (fuel : nat) (depth : nat) (s : bytes) : pres obj :=
  match fuel with
  | O => POut
  | S f => object_alts_c (direct_objects_at f (pred depth)) (depth_ok depth) true f s
  end.

Definition MAX_DEPTH : nat := N.to_nat MAX_NESTING.

(* _direct_objects = _direct_objects_at(MAX_NESTING) *)
Definition direct_objects (fuel : nat) (s : bytes) : pres obj := direct_objects_at fuel MAX_DEPTH s.

Definition direct_object (fuel : nat) (s : bytes) : pres obj :=
  pbind (direct_objects fuel s) (fun o r => POk o (space r)).

(* the fuel every entry point uses *)
Definition fuel_for (s : bytes) : nat := S (S (length s)).

(* parser::direct_object (public): strip_nom(_direct_object) *)
Definition parse_direct_object (s : bytes) : option obj :=
  match direct_object (fuel_for s) s with POk o _ => Some o | _ => None end.

(* standalone dictionary / array at a given fuel *)
Definition dictionary (fuel : nat) (s : bytes) : pres dict :=
  match fuel with
  | O => POut
  | S f => if depth_ok MAX_DEPTH then dictionary_p (direct_objects_at f (pred MAX_DEPTH)) f s else PErr
  end.

(* ---------- content streams ---------- *)
Definition content_space (s : bytes) : bytes := skip_while is_content_space s.

Definition operator (s : bytes) : pres bytes :=
  let '(op, r) := take_while is_operator_char s in
  match op with [] => PErr | _ => POk op r end.

(* operand = terminated(alt(... without reference ...), content_space); its array and dictionary
   alternatives start at depth MAX_NESTING *)
Definition operand (fuel : nat) (s : bytes) : pres obj :=
  match fuel with
  | O => POut
  | S f => pbind (object_alts_c (direct_objects_at f (pred MAX_DEPTH)) (depth_ok MAX_DEPTH) false f s)
                 (fun o r => POk o (content_space r))
  end.

Fixpoint many0_operand (fuel : nat) (n : nat) (s : bytes) : pres (list obj) :=
  match n with
  | O => POut
  | S n' =>
    match operand fuel s with
    | POk o r => pmap (cons o) (many0_operand fuel n' r)
    | PErr => POk [] s
    | PFail => PFail
    | PPanic => PPanic
    | POut => POut
    end
  end.

(* checked usize arithmetic (the harness is built with overflow checks) *)
Definition usize_mul (a b : N) : option N := let r := a * b in if r <=? usize_max then Some r else None.
Definition usize_add (a b : N) : option N := let r := a + b in if r <=? usize_max then Some r else None.
(* i64 as usize *)
Definition as_usize (z : Z) : N := Z.to_N (z mod 18446744073709551616)%Z.

Fixpoint take_n (n : nat) (s : bytes) : option (bytes * bytes) :=
  match n, s with
  | O, _ => Some ([], s)
  | S n', c :: t => match take_n n' t with Some (a, r) => Some (c :: a, r) | None => None end
  | S _, [] => None
  end.

Definition get_abbr (d : dict) (a k : bytes) : option obj :=
  match dict_get d a with Some v => Some v | None => dict_get d k end.

Inductive ids_res := IdsOk (content rest : bytes) | IdsErr | IdsPanic.

(* image_data_stream: dictionary look-ups, colour space, checked geometry (an overflow is an
   error since the repair of the C04 defect), take(length) *)
Definition image_data_stream (s : bytes) (d : dict) : ids_res :=
  match get_abbr d (bs "W") (bs "Width"), get_abbr d (bs "H") (bs "Height"),
        get_abbr d (bs "BPC") (bs "BitsPerComponent") with
  | Some (OInt w), Some (OInt h), Some (OInt bpc) =>
    match get_abbr d (bs "CS") (bs "ColorSpace") with
    | Some (OName cs) =>
      let nc :=
        if bytes_eqb cs (bs "DeviceGray") || bytes_eqb cs (bs "Gray") then Some 1
        else if bytes_eqb cs (bs "DeviceRGB") || bytes_eqb cs (bs "RGB") then Some 3
        else if bytes_eqb cs (bs "DeviceRGBA") || bytes_eqb cs (bs "RGBA") then Some 4
        else if bytes_eqb cs (bs "DeviceCMYK") || bytes_eqb cs (bs "CMYK") then Some 4
        else None in
      match nc with
      | None => IdsErr
      | Some nc =>
        match usize_mul nc (as_usize bpc) with
        | None => IdsErr
        | Some a =>
          match usize_mul (as_usize w) a with
          | None => IdsErr
          | Some b =>
            match usize_add b 7 with
            | None => IdsErr
            | Some c =>
              match usize_mul (as_usize h) (c / 8) with
              | None => IdsErr
              | Some len =>
                match get_abbr d (bs "F") (bs "Filter") with
                | Some _ => IdsErr
                | None =>
                  if N.of_nat (length s) <? len then IdsErr
                  else match take_n (N.to_nat len) s with
                       | Some (c, r) => IdsOk c r
                       | None => IdsErr
                       end
                end
              end
            end
          end
        end
      end
    | _ => IdsErr
    end
  | _, _, _ => IdsErr
  end.

(* Stream::new(dict, content): sets Length *)
Definition stream_new (d : dict) (c : bytes) : obj :=
  OStream (dict_set d K_Length (OInt (Z.of_nat (length c)))) c.

(* what follows ID: opt(alt(eol, " ", "\t")) -- ONE white-space character (CR LF counts as one);
   the next byte is the first byte of the image data even if it is white space itself (since the
   repair of finding C14-image-leading-space; before: content_space, i.e. all white space) *)
Definition id_sep (s : bytes) : bytes :=
  match eol s with
  | POk _ r => r
  | _ => match s with x20 :: r => r | x09 :: r => r | _ => s end
  end.

(* inline_image = preceded((tag "BI", token_end, content_space), cut(inline_image_impl)) *)
Definition inline_image (fuel : nat) (s : bytes) : pres (list obj * bytes) :=
  match pkeyword (bs "BI") s with
  | POk _ r =>
    match fuel with
    | O => POut
    | S f =>
      (* cut: every Error below becomes Failure *)
      (* inner_dictionary = inner_dictionary_at(MAX_NESTING - 1) *)
      match inner_dictionary (direct_objects_at f (pred MAX_DEPTH)) f (content_space r) [] with
      | POk d r1 =>
        match ptag (bs "ID") r1 with
        | POk _ r2 =>
          match image_data_stream (id_sep r2) d with
          | IdsOk c r3 =>
            match ptag (bs "EI") (content_space r3) with
            | POk _ r4 => POk ([stream_new d c], bs "BI") (content_space r4)
            | _ => PFail
            end
          | IdsErr => PFail
          | IdsPanic => PPanic
          end
        | _ => PFail
        end
      | PErr => PFail
      | PFail => PFail
      | PPanic => PPanic
      | POut => POut
      end
    end
  | _ => PErr
  end.

(* operation = preceded(many0(comment), alt(inline_image, terminated(pair(many0(operand), operator), content_space))) *)
Definition operation_p (fuel : nat) (s : bytes) : pres operation :=
  let s := many0_comment s in
  palt (pmap (fun p => {| op_operator := snd p; op_operands := fst p |}) (inline_image fuel s)) (fun _ =>
  pbind (many0_operand fuel fuel s) (fun ops r =>
  pbind (operator r) (fun op r' =>
  POk {| op_operator := op; op_operands := ops |} (content_space r')))).

(* _content = preceded(content_space, many0(operation)) ; content = strip_nom (rest ignored) *)
Fixpoint many0_operation (fuel : nat) (n : nat) (s : bytes) : pres (list operation) :=
  match n with
  | O => POut
  | S n' =>
    match operation_p fuel s with
    | POk o r => pmap (cons o) (many0_operation fuel n' r)
    | PErr => POk [] s
    | PFail => PFail
    | PPanic => PPanic
    | POut => POut
    end
  end.

Inductive decode_res := DecOk (ops : list operation) | DecErr | DecPanic | DecOut.

Definition decode_content (s : bytes) : decode_res :=
  let fuel := fuel_for s in
  match many0_operation fuel fuel (content_space s) with
  | POk ops _ => DecOk ops
  | PErr | PFail => DecErr
  | PPanic => DecPanic
  | POut => DecOut
  end.
