(* LoaderExt.v -- Reader::read with the features Model/Loader.v leaves out ([LUnmodelled] there):
     - a stream whose Length is an indirect reference: Reader::get_object while the stream is parsed (the chain
       of references cut off by `already_seen` and MAX_LENGTH_CHAIN, Reader::get_offset = a Normal entry of the
       same generation), Stream::with_position when the length cannot be had, and the pass over the streams
       with empty content after everything is loaded (read_stream_content: Document::dereference of Length over
       the LOADED objects, which is how a length kept in an object stream is found; set_content also rewrites
       the Length entry);
     - object streams: ObjectStream::new (C02's Model/ObjStm.v) on every stream typed ObjStm, the containers
       taken in cross-reference order, the members the table places in a container first, then the others,
       never replacing an object that is already there (or_insert);
     - filtered cross-reference streams and object streams through the parameter [decompress]
       (Stream::decompress: Some (dict', content') on Ok) -- [can_decompress d] says whether the instance covers
       the filters of the stream with dictionary d; if not the answer is [LUnmodelled].
   Still [LUnmodelled]: Encrypt in the trailer.
   Definitions only; Loader.v is unchanged and [load_ext] agrees with [Loader.load] wherever that is not
   [LUnmodelled] (tied by correspondence in props/c01.py: every case is run through both). *)
From LV Require Import Base.Bytes Base.Sx Model.Obj Model.Writer Model.Parser Model.Xref Model.ObjStm Model.Utf
  Model.Loader Gen.Lex Gen.SaveFmt Gen.Consts.

Local Open Scope N_scope.

(* outcome of looking for a stream length *)
Inductive lenres := LnOk (z : Z) | LnNone | LnPanic | LnOut.

(* parsed indirect object; [pos] = Stream.start_position (absolute, in the buffer after the %PDF- offset) *)
Inductive iresx := IxOk (id : oid) (o : obj) (pos : option N) | IxErr | IxPanic | IxOut.
Inductive sresx := SxOk (o : obj) (pos : option N) (rest : bytes) | SxErr | SxFail | SxPanic | SxOut.

(* parser::stream on input [s], a suffix of [buf]; [lenref id] = reader.get_object(id, already_seen).
   with_position(dict, input.len() - i.len()), shifted by _indirect_object and indirect_object to an absolute
   position: the place of [r4] in the buffer. *)
Definition stream_px (fuel : nat) (buf s : bytes) (lenref : oid -> lenres) : sresx :=
  match dictionary fuel s with
  | POk d r =>
    match ptag (bs "stream") (space r) with
    | POk _ r2 =>
      match eol (skip_while is_space_tab r2) with
      | POk _ r4 =>
        let len := match dict_get d K_Length with
                   | Some (ORef i g) =>
                     match lenref (i, g) with
                     | LnOk z => LnOk z
                     | r => r
                     end
                   | Some (OInt z) => LnOk z
                   | _ => LnNone
                   end in
        match len with
        | LnOk z =>
          if (z <? 0)%Z then SxFail
          else
            match take_N (Z.to_N z) r4 with
            | Some (data, r5) =>
              let r6 := match eol r5 with POk _ r => r | _ => r5 end in
              match ptag (bs "endstream") r6 with
              | POk _ r7 => SxOk (stream_new d data) None r7
              | _ => SxErr
              end
            | None => SxErr
            end
        | LnNone => SxOk (OStream d []) (Some (Loader.blen buf - Loader.blen r4)) r4
        | LnPanic => SxPanic
        | LnOut => SxOut
        end
      | _ => SxErr
      end
    | _ => SxErr
    end
  | PErr => SxErr
  | PFail => SxFail
  | PPanic => SxPanic
  | POut => SxOut
  end.

(* parser::_indirect_object *)
Definition indirect_with (buf s : bytes) (expected : option oid) (lenref : oid -> lenres) : iresx :=
  let fuel := fuel_for s in
  match object_id (space s) with
  | POk id r =>
    match ptag (bs "obj") r with
    | POk _ r1 =>
      let r2 := space r1 in
      if match expected with Some e => negb (oid_eqb e id) | None => false end then IxErr
      else
        match stream_px fuel buf r2 lenref with
        | SxOk o pos _ => IxOk id o pos
        | SxErr =>
          match direct_objects fuel r2 with
          | POk o _ => IxOk id o None
          | PErr | PFail => IxErr
          | PPanic => IxPanic
          | POut => IxOut
          end
        | SxFail => IxErr
        | SxPanic => IxPanic
        | SxOut => IxOut
        end
    | _ => IxErr
    end
  | _ => IxErr
  end.

(* Reader::get_offset: a Normal entry whose generation is the one asked for *)
Definition get_offset (x : xmap) (id : oid) : option N :=
  match xget x (fst id) with
  | Some (XNormal off g) => if g =? snd id then Some off else None
  | _ => None
  end.

(* Reader::get_object(id, already_seen) followed by as_i64, [seen] = already_seen before the call.
   Every error (cycle, chain too long, no entry, offset beyond the buffer, parse error, id mismatch, not an
   integer) leaves the stream without a length.  A nested call happens only with |seen| + 1 <= MAX_LENGTH_CHAIN,
   so [chain] = MAX_LENGTH_CHAIN + 1 is never exhausted. *)
Fixpoint get_length (chain : nat) (buf : bytes) (x : xmap) (seen : list oid) (id : oid) : lenres :=
  if existsb (oid_eqb id) seen then LnNone
  else if (MAX_LENGTH_CHAIN <? S (length seen))%nat then LnNone
  else
    match get_offset x id with
    | None => LnNone
    | Some off =>
      if Loader.blen buf <? off then LnNone
      else
        match chain with
        | O => LnOut
        | S c =>
          match indirect_with buf (from off buf) (Some id) (get_length c buf x (id :: seen)) with
          | IxOk _ (OInt z) _ => LnOk z
          | IxOk _ _ _ => LnNone
          | IxErr => LnNone
          | IxPanic => LnPanic
          | IxOut => LnOut
          end
        end
    end.

(* read_object(offset, expected, &mut HashSet::new()) with the cross-reference table [x] of the reader *)
Definition indirect_x (buf : bytes) (x : xmap) (s : bytes) (expected : option oid) : iresx :=
  indirect_with buf s expected (get_length (S MAX_LENGTH_CHAIN) buf x []).

(* start positions of the streams whose body was not read, by identifier *)
Definition posmap := list (oid * N).
Fixpoint pos_remove (p : posmap) (id : oid) : posmap :=
  match p with
  | [] => []
  | (i, v) :: p' => if oid_eqb i id then pos_remove p' id else (i, v) :: pos_remove p' id
  end.
Definition pos_set (p : posmap) (id : oid) (v : option N) : posmap :=
  match v with Some n => (id, n) :: pos_remove p id | None => pos_remove p id end.
Fixpoint pos_get (p : posmap) (id : oid) : option N :=
  match p with
  | [] => None
  | (i, v) :: p' => if oid_eqb i id then Some v else pos_get p' id
  end.

Record rstate := {
  r_objs : objmap;                  (* document.objects *)
  r_pos : posmap;
  r_ostm : list (N * objmap);       (* object_streams: (entry number of the container, its members) *)
  r_zero : list oid;                (* zero_length_streams *)
}.

(* Document::dereference: follows references through the loaded objects; None = ObjectNotFound / ReferenceLimit *)
Fixpoint deref (fuel : nat) (m : objmap) (o : obj) (n : N) : option obj :=
  match o with
  | ORef i g =>
    match fuel with
    | O => None
    | S f =>
      match lookup m (i, g) with
      | None => None
      | Some o' => if DEREF_LIMIT <? n + 1 then None else deref f m o' (n + 1)
      end
    end
  | _ => Some o
  end.
Definition dereference (m : objmap) (o : obj) : option obj := deref (S (S (N.to_nat DEREF_LIMIT))) m o 0.
(* the same walk, also returning the identifier of the last reference followed ([id] when there was none) *)
Fixpoint deref_id (fuel : nat) (m : objmap) (id : oid) (o : obj) (n : N) : option (oid * obj) :=
  match o with
  | ORef i g =>
    match fuel with
    | O => None
    | S f =>
      match lookup m (i, g) with
      | None => None
      | Some o' => if DEREF_LIMIT <? n + 1 then None else deref_id f m (i, g) o' (n + 1)
      end
    end
  | _ => Some (id, o)
  end.
Definition dereference_id (m : objmap) (id : oid) (o : obj) : option (oid * obj) :=
  deref_id (S (S (N.to_nat DEREF_LIMIT))) m id o 0.

(* entry(id).or_insert(o) *)
Definition or_insert (m : objmap) (id : oid) (o : obj) : objmap :=
  match lookup m id with Some _ => m | None => insert m id o end.

Section Ext.
  (* Stream::decompress on (dict, content): Some (dict', content') on Ok, None on Err *)
  Variable decompress : dict -> bytes -> option (dict * bytes).
  (* the instance covers the filters named in this dictionary *)
  Variable can_decompress : dict -> bool.

  Definition filters_modelled (d : dict) : bool := negb (dict_has d K_Filter) || can_decompress d.

  (* parser::xref_and_trailer on &buffer[start..]; reader.document.reference_table is still empty while the
     cross-reference sections are read: a cross-reference stream with an indirect Length has no content *)
  Definition xref_and_trailer_x (buf : bytes) (start : N) : lstep (xref * dict) :=
    let s := from start buf in
    match xref_and_trailer_table s with
    | XNoMatch =>
      match indirect_x buf [] s None with
      | IxOk _ (OStream d c) _ =>
        if filters_modelled d then of_xres (decode_xref_stream decompress d c) else SUnm
      | IxOk _ _ _ => SErr LeInvalidXref
      | IxErr => SErr LeTrailer
      | IxPanic => SPanic
      | IxOut => SOut
      end
    | r => of_xres r
    end.

  (* Reader::merge_xref_stream, see Loader.merge_xref_stream *)
  Definition merge_xref_stream_x (buf : bytes) (x : xref) (start : option obj) : lstep xref :=
    match start with
    | Some (OInt q) =>
      if (q <? 0)%Z || (Loader.blen buf <? Z.to_N q) then SErr LeStreamStart
      else
        match xref_and_trailer_x buf (Z.to_N q) with
        | SOk (sx, _) => SOk (xref_merge x sx)
        | SErr e => SErr e
        | SPanic => SPanic
        | SOut => SOut
        | SUnm => SUnm
        end
    | _ => SOk x
    end.

  Fixpoint prev_loop_x (fuel : nat) (buf : bytes) (x : xref) (t : dict) (prev : option obj) (seen : list Z)
    : lstep (xref * dict) :=
    match prev with
    | Some (OInt p) =>
      if existsb (Z.eqb p) seen then SOk (x, t)
      else
        match fuel with
        | O => SOut
        | S f =>
          if (p <? 0)%Z || (Loader.blen buf <? Z.to_N p) then SErr LePrevStart
          else
            match merge_xref_stream_x buf x (dict_get t K_XRefStm) with
            | SOk x1 =>
              let t1 := dict_swap_remove t K_XRefStm in
              match xref_and_trailer_x buf (Z.to_N p) with
              | SOk (px, pt) =>
                match merge_xref_stream_x buf px (dict_get pt K_XRefStm) with
                | SOk px1 => prev_loop_x f buf (xref_merge x1 px1) t1 (dict_get pt K_Prev) (p :: seen)
                | SErr e => SErr e
                | SPanic => SPanic
                | SOut => SOut
                | SUnm => SUnm
                end
              | SErr e => SErr e
              | SPanic => SPanic
              | SOut => SOut
              | SUnm => SUnm
              end
            | SErr e => SErr e
            | SPanic => SPanic
            | SOut => SOut
            | SUnm => SUnm
            end
        end
    | _ => SOk (x, t)
    end.

  (* entries_filter_map over reference_table.entries (not encrypted), collected into the objects map (a later
     entry with the same parsed identifier replaces an earlier one) *)
  Fixpoint read_entries_x (buf : bytes) (x : xmap) (es : xmap) (st : rstate) : lstep rstate :=
    match es with
    | [] => SOk st
    | (k, XNormal off _) :: es' =>
      if Loader.blen buf <? off then read_entries_x buf x es' st                (* Error::InvalidOffset *)
      else
        match indirect_x buf x (from off buf) None with
        | IxOk id (OStream d c) pos =>
          if has_type d K_ObjStm then
            if filters_modelled d then
              match objstm_new decompress d c with
              | ((d', c'), OsOk members) =>
                read_entries_x buf x es'
                  {| r_objs := insert (r_objs st) id (OStream d' c'); r_pos := pos_set (r_pos st) id pos;
                     r_ostm := r_ostm st ++ [(k, members)]; r_zero := r_zero st |}
              | (_, OsErr _) => read_entries_x buf x es' st               (* ObjectStream::new(..).ok()? : entry dropped *)
              end
            else SUnm
          else
            read_entries_x buf x es'
              {| r_objs := insert (r_objs st) id (OStream d c); r_pos := pos_set (r_pos st) id pos;
                 r_ostm := r_ostm st;
                 r_zero := match c with [] => r_zero st ++ [id] | _ => r_zero st end |}
        | IxOk id o _ =>
          read_entries_x buf x es'
            {| r_objs := insert (r_objs st) id o; r_pos := pos_set (r_pos st) id None;
               r_ostm := r_ostm st; r_zero := r_zero st |}
        | IxErr => read_entries_x buf x es' st                              (* "Object load error", entry dropped *)
        | IxPanic => SPanic
        | IxOut => SOut
        end
    | _ :: es' => read_entries_x buf x es' st
    end.

  (* the members the cross-reference table places in this very container *)
  Definition is_named (x : xmap) (entry_id : N) (id : oid) : bool :=
    match xget x (fst id) with
    | Some (XCompressed c _) => c =? entry_id
    | _ => false
    end.

  Definition merge_members (m : objmap) (members : objmap) : objmap :=
    fold_left (fun acc io => or_insert acc (fst io) (snd io)) members m.

  (* pass B (since /repo 61ef95a): a member is inserted only when no object of that NUMBER is present yet,
     under whatever generation:  objects.range((id.0, 0)..=(id.0, u16::MAX)).next().is_none() *)
  Definition number_present (m : objmap) (n : N) : bool := existsb (fun io => fst (fst io) =? n) m.
  Definition add_new_number (m : objmap) (id : oid) (o : obj) : objmap :=
    if number_present m (fst id) then m else insert m id o.
  Definition merge_rest (m : objmap) (members : objmap) : objmap :=
    fold_left (fun acc io => add_new_number acc (fst io) (snd io)) members m.

  (* object_streams sorted by entry number (the entries are visited in that order); first the named members of
     every container (or_insert), then the others (one generation per object number) *)
  Definition merge_object_streams (x : xmap) (m : objmap) (ostm : list (N * objmap)) : objmap :=
    let m1 := fold_left (fun acc eo => merge_members acc (filter (fun io => is_named x (fst eo) (fst io)) (snd eo))) ostm m in
    fold_left (fun acc eo => merge_rest acc (filter (fun io => negb (is_named x (fst eo) (fst io))) (snd eo))) ostm m1.

  (* read_stream_content(object_id); errors are ignored (`let _ =`).  get_stream_length looks the identifier up with
     Document::get_object and get_object_mut finds the stream to change with the same dereferencing: when the
     identifier (by now) names a reference, the stream referred to is the one whose Length, start position and
     content are used. *)
  Definition read_stream_content (buf : bytes) (m : objmap) (p : posmap) (id : oid) : objmap :=
    match lookup m id with
    | Some o =>
      match dereference_id m id o with
      | Some (tid, OStream d c) =>
        match dict_get d K_Length with
        | Some v =>
          match dereference m v with
          | Some (OInt len) =>
            match pos_get p tid with
            | Some start =>
              if (len <? 0)%Z then m
              else
                let e := start + Z.to_N len in
                if Loader.blen buf <? e then m
                else
                  let content := firstn (Z.to_nat len) (from start buf) in
                  insert m tid (OStream (dict_set d K_Length (OInt (Z.of_nat (length content)))) content)
            | None => m
            end
          | _ => m
          end
        | None => m
        end
      | _ => m
      end
    | None => m
    end.

  Definition zero_pass (buf : bytes) (m : objmap) (p : posmap) (zs : list oid) : objmap :=
    fold_left (fun acc id => read_stream_content buf acc p id) zs m.

  Definition load_ext (buf0 : bytes) : lres :=
    let buf := from (pdf_offset buf0) buf0 in
    match header buf with
    | None => LErr LeHeader
    | Some version =>
      let mark := read_binary_mark buf in
      match get_xref_start buf with
      | None => LErr LeXrefStart
      | Some xs =>
        match xref_and_trailer_x buf xs with
        | SOk (x0, t0) =>
          match prev_loop_x (S (S (length buf))) buf x0 (dict_swap_remove t0 K_Prev) (dict_get t0 K_Prev) [] with
          | SOk (x, t) =>
            if u32_max <=? xref_max_id x then LErr LeInvalidXref
            else if dict_has t Loader.K_Encrypt then LUnmodelled
            else
              match read_entries_x buf (x_entries x) (x_entries x)
                      {| r_objs := []; r_pos := []; r_ostm := []; r_zero := [] |} with
              | SOk st =>
                let m := merge_object_streams (x_entries x) (r_objs st) (r_ostm st) in
                LOk {| d_version := version; d_binary_mark := mark; d_trailer := t;
                       d_objects := zero_pass buf m (r_pos st) (r_zero st); d_max_id := xref_max_id x |} (x_type x)
              | SErr e => LErr e
              | SPanic => LPanic
              | SOut => LOut
              | SUnm => LUnmodelled
              end
          | SErr e => LErr e
          | SPanic => LPanic
          | SOut => LOut
          | SUnm => LUnmodelled
          end
        | SErr e => LErr e
        | SPanic => LPanic
        | SOut => LOut
        | SUnm => LUnmodelled
        end
      end
    end.
End Ext.

(* the instance without any filter model: Stream::decompress fails on a stream that has no Filter
   (filters() = Err DictKey), and a stream with a Filter is answered [LUnmodelled] *)
Definition load_plain : bytes -> lres := load_ext (fun _ _ => None) (fun _ => false).
