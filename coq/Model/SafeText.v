(* SafeText.v -- C04 layer over text decoding:
     decode_text_string                       (src/common_data_structures/mod.rs)
     bytes_to_string for a one-byte table     (src/encodings/mod.rs, the `expect` on from_utf16)
     ToUnicodeCMap::get / get_or_replacement_char and the UnicodeMapEncoding loop of
     Encoding::bytes_to_string                (src/encodings/cmap.rs, src/encodings/mod.rs; after d86d85f / 6b1c0d3 /
                                               bfae0fe)
   with the panic sites explicit: slices `s[2..]` / `s[3..]`, the table index `encoding[byte as usize]`, the
   `expect` on from_utf16, `(code_len - 1) as usize` and the index into the four range maps, the u32 subtraction
   `code - stored.first_code`, `bytes_in_considered_code += 1` on a u8, `considered_source_code * 256 + byte` on a u32.
   The values come from the existing models (Model/Utf.v, OneByte.v, TextString.v, CMap.v); what is computed here is
   the number of characters / UTF-16 units, plus steps and allocation requests.  Definitions only. *)
From LV Require Import Base.Bytes Model.Utf Model.Obj Model.OneByte Model.TextString Model.RangeMap Model.CMap
     Gen.Tables Gen.CMapC Model.Safe.
Local Open Scope N_scope.

Definition blen (l : bytes) : N := N.of_nat (length l).
Definition nlen {A} (l : list A) : N := N.of_nat (length l).

(* encoding[byte as usize] on a [Option<u16>; 256] *)
Definition stable_cell (t : table) (b : byte) : M (option N) := idx t (N_of_byte b).

Fixpoint sbytes_to_units (t : table) (bs : bytes) : M (list N) :=
  match bs with
  | [] => ret []
  | b :: bs' =>
    c <- stable_cell t b ;;
    r <- sbytes_to_units t bs' ;;
    ret (match c with Some u => u :: r | None => r end)
  end.

(* bytes_to_string(encoding, bytes): collect::<Vec<u16>>() then String::from_utf16(..).expect(..) *)
Definition sbytes_to_string (t : table) (bs : bytes) : M N :=
  tick (blen bs) ;;;
  us <- sbytes_to_units t bs ;;
  request (2 * nlen us) ;;;
  s <- unwrap (utf16_decode us) ;;                    (* .expect("decoded string should only contain valid UTF16") *)
  request (3 * nlen us) ;;;                            (* the String: at most 3 UTF-8 bytes per BMP unit *)
  ret (nlen s).

(* decode_text_string on the bytes of a string object; the result is the number of characters *)
Definition stext_string (s : bytes) : M N :=
  if prefixb DEC_MARK_UTF16 s then
    r <- slice_from s (N.of_nat DEC_SKIP_UTF16) ;;      (* &s[2..] *)
    tick (blen r) ;;;
    request (blen r + 1) ;;;                             (* Vec<u16> of ceil(len/2) units *)
    match utf16_decode (units_of_be r) with
    | Some t => request (2 * blen r) ;;; ret (nlen t)    (* UTF-8 of n units: at most 3n/.. <= 2 * bytes *)
    | None => fail
    end
  else if prefixb DEC_MARK_UTF8 s then
    r <- slice_from s (N.of_nat DEC_SKIP_UTF8) ;;       (* s[3..].to_vec() *)
    tick (blen r) ;;;
    request (blen r) ;;;
    match utf8_decode r with
    | Some t => ret (nlen t)
    | None => fail
    end
  else sbytes_to_string TEXT_STRING_ENCODING s.

(* ---------------- ToUnicode CMap ---------------- *)

(* self.bf_ranges[(code_len - 1) as usize] *)
Definition ssel (cm : cmap) (len : N) : M (rmap (V:=stored)) :=
  i <- ck_sub len 1 ;;
  idx [m1 cm; m2 cm; m3 cm; m4 cm] i.

Definition sget (cm : cmap) (code len : N) : M (option (list N)) :=
  if bad_len len then ret None
  else
    m <- ssel cm len ;;
    match rm_value m code with
    | None => ret None
    | Some st =>
      match tgt st with
      | HexString v =>
        request (2 * nlen v) ;;;                                         (* vec.clone() *)
        match rev v with
        | [] => ret (Some [])
        | l :: r =>
          off <- ck_sub code (first_code st) ;;                          (* code - stored.first_code *)
          ret (Some (rev r ++ [(l + as_u16 off) mod two16]))             (* wrapping_add *)
        end
      | UTF16CodePoint o => request 2 ;;; ret (Some [as_u16 (wrapping_add32 code o)])
      | ArrayOfHexStrings vs =>
        off <- ck_sub code (first_code st) ;;
        match nth_N vs off with
        | Some v => request (2 * nlen v) ;;; ret (Some v)                 (* .cloned() *)
        | None => ret None
        end
      end
    end.

Definition sgorc (cm : cmap) (code len : N) : M (list N) :=
  g <- sget cm code len ;;
  match g with Some v => ret v | None => request 2 ;;; ret [REPLACEMENT_CHAR] end.

(* the loop of Encoding::bytes_to_string; [n] = bytes_in_considered_code (u8), [code] = considered_source_code (u32),
   [outlen] = output_bytes.len() in units *)
Fixpoint sunits_loop (cm : cmap) (bs : bytes) (n code outlen : N) : M N :=
  match bs with
  | [] =>
    if 0 <? n then
      v <- sgorc cm code n ;;
      request (2 * (outlen + nlen v)) ;;; ret (outlen + nlen v)
    else ret outlen
  | b :: bs' =>
    tick 1 ;;;
    st <- (if n =? 4 then
             v <- sgorc cm code 4 ;;
             request (2 * (outlen + nlen v)) ;;; ret (0, 0, outlen + nlen v)
           else ret (n, code, outlen)) ;;
    let '(n0, c0, o0) := st in
    n1 <- ck_add 255 n0 1 ;;                                             (* bytes_in_considered_code += 1 *)
    c256 <- ck_mul U32_MAX c0 256 ;;                                     (* considered_source_code * 256 *)
    c1 <- ck_add U32_MAX c256 (N_of_byte b) ;;                           (* + *byte as u32 *)
    g <- sget cm c1 n1 ;;
    match g with
    | Some v => request (2 * (o0 + nlen v)) ;;; sunits_loop cm bs' 0 0 (o0 + nlen v)
    | None => sunits_loop cm bs' n1 c1 o0
    end
  end.

(* units -> bytes -> encoding_rs decode_without_bom_handling (third party, total): 2 bytes per unit, then at most
   3 UTF-8 bytes per unit *)
Definition scmap_text (cm : cmap) (bs : bytes) : M N :=
  units <- sunits_loop cm bs 0 0 0 ;;
  request (2 * units) ;;; request (3 * units) ;;;
  ret units.

(* every stored definition starts at or before the codes it covers (what makes `code - first_code` safe), and no
   stored target is longer than [w] units *)
Definition entry_ok (e : N * N * stored) : Prop := first_code (snd e) <= fst (fst e).
Definition rmap_ok (m : rmap (V:=stored)) : Prop := Forall entry_ok m.
Definition cmap_ok (cm : cmap) : Prop := rmap_ok (m1 cm) /\ rmap_ok (m2 cm) /\ rmap_ok (m3 cm) /\ rmap_ok (m4 cm).

Definition target_width (t : target) : N :=
  match t with
  | HexString v => nlen v
  | UTF16CodePoint _ => 1
  | ArrayOfHexStrings vs => fold_right (fun v acc => N.max (nlen v) acc) 0 vs
  end.
Definition rmap_width (w : N) (m : rmap (V:=stored)) : Prop := Forall (fun e => target_width (tgt (snd e)) <= w) m.
Definition cmap_width (w : N) (cm : cmap) : Prop :=
  rmap_width w (m1 cm) /\ rmap_width w (m2 cm) /\ rmap_width w (m3 cm) /\ rmap_width w (m4 cm).
