(* Renumber.v -- Document::renumber_objects / renumber_objects_with / renumber_bookmarks /
   update_bookmark_pages of src/processor.rs and Document::add_bookmark of src/bookmarks.rs.
   Written from the Rust source, branch for branch.  Definitions only.

   u32 arithmetic: `new_id += 1` and `new_id - 1` are checked (the harness is built with overflow
   checks on): leaving 0..2^32-1 is the outcome [Panic].  The page counter `i: i32` (`i += 1` once per
   distinct page, checked) is modelled by [renumber_objects_with_i32] at the end: more than i32::MAX
   distinct pages is the outcome [Panic], before anything is changed; page_iter yields at most one id
   per object (its iter_limit), so this needs 2^31 objects (Proofs/RenumberProofsMerge.v).  The recursion of update_bookmark_pages over `children` has no
   cycle guard in Rust: running out of [depth] is the outcome [StackOverflow]. *)
From LV Require Import Base.Bytes Base.Sx Model.Obj Model.DocQ Model.PageTree Model.Traverse.

Definition U32_MAX : N := 4294967295.

(* ---- bookmarks (only the fields renumbering reads or writes) ---- *)
Record bookmark := { bm_children : list N; bm_page : oid }.
Definition bmtable := list (N * bookmark).           (* HashMap<u32, Bookmark>: unique keys *)

Record rdoc := {
  base : doc;
  max_bookmark_id : N;
  bookmarks : list N;                                (* Document.bookmarks: the roots *)
  bm_table : bmtable;
}.

Fixpoint bm_get (t : bmtable) (id : N) : option bookmark :=
  match t with
  | [] => None
  | (k, b) :: t' => if (k =? id)%N then Some b else bm_get t' id
  end.
(* HashMap::insert *)
Fixpoint bm_put (t : bmtable) (id : N) (b : bookmark) : bmtable :=
  match t with
  | [] => [(id, b)]
  | (k, b') :: t' => if (k =? id)%N then (k, b) :: t' else (k, b') :: bm_put t' id b
  end.

(* Document::add_bookmark *)
Definition add_bookmark (d : rdoc) (page : oid) (parent : option N) : rdoc :=
  let id := (max_bookmark_id d + 1)%N in
  let b := {| bm_children := []; bm_page := page |} in
  match parent with
  | Some p =>
    let t1 := match bm_get (bm_table d) p with
              | Some pb => bm_put (bm_table d) p {| bm_children := bm_children pb ++ [id]; bm_page := bm_page pb |}
              | None => bm_table d
              end in
    {| base := base d; max_bookmark_id := id; bookmarks := bookmarks d; bm_table := bm_put t1 id b |}
  | None =>
    {| base := base d; max_bookmark_id := id; bookmarks := bookmarks d ++ [id]; bm_table := bm_put (bm_table d) id b |}
  end.

(* Document::update_bookmark_pages: for id in bookmarks { entry missing => return;
   if page == old { page = new }; if !children.is_empty() { recurse } } *)
Fixpoint update_bookmark_pages (depth : nat) (old new : oid) (ids : list N) (t : bmtable) {struct depth}
  : option bmtable :=
  match depth with
  | O => None
  | S dp =>
    (fix go (ids : list N) (t : bmtable) {struct ids} : option bmtable :=
       match ids with
       | [] => Some t
       | id :: rest =>
         match bm_get t id with
         | None => Some t
         | Some b =>
           let t1 := if oid_eqb (bm_page b) old
                     then bm_put t id {| bm_children := bm_children b; bm_page := new |} else t in
           match (match bm_children b with
                  | [] => Some t1
                  | cs => update_bookmark_pages dp old new cs t1
                  end) with
           | None => None
           | Some t2 => go rest t2
           end
         end
       end) ids t
  end.

(* Document::renumber_bookmarks (public; no longer called by renumber_objects_with) *)
Definition renumber_bookmarks (old new : oid) (roots : list N) (t : bmtable) : option bmtable :=
  match roots with
  | [] => Some t
  | _ => update_bookmark_pages (S (length t)) old new roots t
  end.

(* Document::renumber_bookmarks_with: every entry of the table, looked up once in `replace` *)
Definition renumber_bookmarks_with (f : oid -> oid) (t : bmtable) : bmtable :=
  map (fun kb => (fst kb, {| bm_children := bm_children (snd kb); bm_page := f (bm_page (snd kb)) |})) t.

(* ---- `replace: BTreeMap<ObjectId, ObjectId>` ---- *)
Definition rmap := list (oid * oid).
Fixpoint rlookup (r : rmap) (id : oid) : option oid :=
  match r with
  | [] => None
  | (a, b) :: r' => if oid_eqb a id then Some b else rlookup r' id
  end.
(* the action: if replace.contains_key(id) { *id = replace[id] } *)
Definition rename_of (r : rmap) (id : oid) : oid :=
  match rlookup r id with Some n => n | None => id end.

(* ---- stable sort of (index, id) pairs by id: Vec::sort_by is stable ---- *)
Definition oid_leb (a b : oid) : bool := negb (oid_ltb b a).
Fixpoint ins_by_id (x : N * oid) (l : list (N * oid)) : list (N * oid) :=
  match l with
  | [] => [x]
  | y :: l' => if oid_leb (snd x) (snd y) then x :: l else y :: ins_by_id x l'
  end.
Definition sort_by_id (l : list (N * oid)) : list (N * oid) := fold_right ins_by_id [] l.

(* page_order.iter().any(|a| { i += 1; a.0 != i }) *)
Fixpoint needs_ordering_from (i : N) (l : list (N * oid)) : bool :=
  match l with
  | [] => false
  | a :: l' => negb (fst a =? i)%N || needs_ordering_from (i + 1) l'
  end.

(* Vec::dedup-free removal of repeated ids keeping the first occurrence
   (`seen.insert(id)` filter in the repaired page-order pass) *)
Fixpoint dedup_oids (seen : list oid) (l : list oid) : list oid :=
  match l with
  | [] => []
  | x :: l' => if mem_oid x seen then dedup_oids seen l' else x :: dedup_oids (x :: seen) l'
  end.

(* for (old, new) in pages.iter().zip(page_order) {
     if let Some(object) = self.objects.remove(&old.1) { objects.insert(new.1, object); replace.insert(old.1, new.1); } } *)
Fixpoint page_moves (pairs : list (oid * oid)) (m collected : objmap) (r : rmap) : objmap * objmap * rmap :=
  match pairs with
  | [] => (m, collected, r)
  | (old, new) :: ps =>
    match lookup m old with
    | Some o => page_moves ps (remove m old) (insert collected new o) ((old, new) :: r)
    | None => page_moves ps m collected r
    end
  end.

Definition insert_all (collected m : objmap) : objmap :=
  fold_left (fun acc io => insert acc (fst io) (snd io)) collected m.

Inductive outcome := Done (d : rdoc) | Panic | StackOverflow | OutOfFuel.

Definition with_objects (d : doc) (tr : dict) (m : objmap) (mx : N) : doc :=
  {| d_version := d_version d; d_binary_mark := d_binary_mark d; d_trailer := tr; d_objects := m; d_max_id := mx |}.

(* the first half of renumber_objects_with: returns the document after the page-order pass *)
Definition page_order_pass (d : rdoc) : option rdoc :=
  let pages := dedup_oids [] (page_iter (base d)) in
  let numbered := number_from 1 pages in                 (* (i, id), i from 1, in page order *)
  let page_order := sort_by_id numbered in               (* sorted by id, stable *)
  if needs_ordering_from 1 page_order then
    let pairs := combine pages (map snd page_order) in   (* pages sorted back by index = numbered *)
    let '(m1, collected, r) := page_moves pairs (d_objects (base d)) [] [] in
    let m2 := insert_all collected m1 in
    let f := rename_of r in
    let t' := renumber_bookmarks_with f (bm_table d) in
    match traverse_objects f (trav_fuel (d_trailer (base d)) m2) (d_trailer (base d)) m2 with
    | Some (tr', m3, _) =>
      Some {| base := with_objects (base d) tr' m3 (d_max_id (base d));
              max_bookmark_id := max_bookmark_id d; bookmarks := bookmarks d; bm_table := t' |}
    | None => None
    end
  else Some d.

(* for id in ids { let new_id = next.expect(..); if id.0 != new_id { replace.insert(id, (new_id, id.1)) }
                   last_id = new_id; next = new_id.checked_add(1) }
   returns None when an object number above u32::MAX would be needed (the `expect` panics) *)
Fixpoint dense_replace (ids : list oid) (next : option N) (last : N) : option (rmap * N) :=
  match ids with
  | [] => Some ([], last)
  | id :: ids' =>
    match next with
    | None => None
    | Some new_id =>
      match dense_replace ids' (if (new_id <? U32_MAX)%N then Some (new_id + 1)%N else None) new_id with
      | None => None
      | Some (r, l) => Some (if (fst id =? new_id)%N then r else (id, (new_id, snd id)) :: r, l)
      end
    end
  end.

(* for (old, new) in &replace { if let Some(object) = self.objects.remove(old) { objects.insert(new, object) } } *)
Fixpoint dense_moves (r : rmap) (m collected : objmap) : objmap * objmap :=
  match r with
  | [] => (m, collected)
  | (old, new) :: r' =>
    match lookup m old with
    | Some o => dense_moves r' (remove m old) (insert collected new o)
    | None => dense_moves r' m collected
    end
  end.

(* the action of the dense pass (since the repair of C10/dangling-in-range):
     if let Some(new) = replace.get(id) { *id = *new } else if ids.binary_search(id).is_err() { *object = Object::Null }
   [None] = the reference is overwritten with Null.  `ids` are the keys before the pass, sorted. *)
Definition dense_action (r : rmap) (ids : list oid) (id : oid) : option oid :=
  match rlookup r id with
  | Some n => Some n
  | None => if mem_oid id ids then Some id else None
  end.

(* let no_page = match ids.first() { Some(&(_, 0)) if starting_id == 0 => (0, 1), _ => (0, 0) }; *)
Definition no_page (start : N) (ids : list oid) : oid :=
  match ids with
  | (_, g) :: _ => if ((g =? 0) && (start =? 0))%N then (0, 1)%N else (0, 0)%N
  | [] => (0, 0)%N
  end.

(* for bookmark in bookmark_table.values_mut() {
     if let Some(new) = replace.get(&bookmark.page) { bookmark.page = *new }
     else if ids.binary_search(&bookmark.page).is_err() { bookmark.page = no_page } } *)
Definition dense_bookmark (r : rmap) (ids : list oid) (np : oid) (p : oid) : oid :=
  match rlookup r p with
  | Some n => n
  | None => if mem_oid p ids then p else np
  end.

Definition dense_pass (start : N) (d : rdoc) : outcome :=
  let m := d_objects (base d) in
  let ids := map fst m in                                  (* keys().collect(); sort_unstable(): already sorted *)
  match dense_replace ids (Some start) (if (start =? 0)%N then 0 else start - 1)%N with
  | None => Panic
  | Some (r, last) =>
    let '(m1, collected) := dense_moves r m [] in
    let t' := renumber_bookmarks_with (dense_bookmark r ids (no_page start ids)) (bm_table d) in
    let m2 := insert_all collected m1 in
    let f := dense_action r ids in
    match traverse_objects_o f (trav_fuel (d_trailer (base d)) m2) (d_trailer (base d)) m2 with
    | Some (tr', m3, _) =>
      Done {| base := with_objects (base d) tr' m3 last;
              max_bookmark_id := max_bookmark_id d; bookmarks := bookmarks d; bm_table := t' |}
    | None => OutOfFuel
    end
  end.

Definition renumber_objects_with (start : N) (d : rdoc) : outcome :=
  match page_order_pass d with
  | Some d1 => dense_pass start d1
  | None => OutOfFuel
  end.

Definition renumber_objects (d : rdoc) : outcome := renumber_objects_with 1 d.

(* ---- the page counter: let mut i = 0 (i32); page_iter().filter(seen).map(|id| { i += 1; (i, id) }) ----
   `i += 1` overflows (panic, overflow checks on) when the 2^31-th distinct page is numbered; the second
   counter (`needs_ordering`) counts the same pages and stops early, so it adds no case.  The panic happens
   while `page_order` is collected, before the document is touched. *)
Definition I32_MAX : N := 2147483647.
Definition page_counter_ok (d : rdoc) : bool :=
  (N.of_nat (length (dedup_oids [] (page_iter (base d)))) <=? I32_MAX)%N.
Definition renumber_objects_with_i32 (start : N) (d : rdoc) : outcome :=
  if page_counter_ok d then renumber_objects_with start d else Panic.
