(* Obj.v -- the PDF object data model of src/object.rs (Object, Dictionary, Stream, ObjectId)
   and the document record of src/document.rs, plus their encoding in the case language.
   Definitions only (models contain no proofs). *)
From LV Require Import Base.Bytes Base.Sx.

Inductive obj :=
| ONull
| OBool (b : bool)
| OInt (z : Z)
| OReal (r : bytes)              (* the decimal string Rust prints for the f32 (DESIGN 3) *)
| OName (n : bytes)
| OStr (s : bytes) (hex : bool)  (* StringFormat::Hexadecimal <-> hex = true *)
| OArr (l : list obj)
| ODict (d : list (bytes * obj)) (* IndexMap: insertion order, unique keys *)
| OStream (d : list (bytes * obj)) (content : bytes)
| ORef (id : N) (gen : N).

Definition dict := list (bytes * obj).
Definition oid := (N * N)%type.

Definition oid_eqb (a b : oid) : bool := (fst a =? fst b)%N && (snd a =? snd b)%N.
Definition oid_ltb (a b : oid) : bool :=
  (fst a <? fst b)%N || ((fst a =? fst b)%N && (snd a <? snd b)%N).

Lemma oid_eqb_eq a b : oid_eqb a b = true <-> a = b.
Proof.
  destruct a as [a1 a2], b as [b1 b2]; unfold oid_eqb; cbn [fst snd].
  rewrite andb_true_iff, !N.eqb_eq. split; [intros [-> ->]; reflexivity | intro H; inversion H; auto].
Qed.

(* ---- Dictionary (IndexMap semantics) ---- *)
Fixpoint dict_get (d : dict) (k : bytes) : option obj :=
  match d with
  | [] => None
  | (k', v) :: d' => if bytes_eqb k' k then Some v else dict_get d' k
  end.

Definition dict_has (d : dict) (k : bytes) : bool :=
  match dict_get d k with Some _ => true | None => false end.

(* IndexMap::insert: replace in place, else append *)
Fixpoint dict_set (d : dict) (k : bytes) (v : obj) : dict :=
  match d with
  | [] => [(k, v)]
  | (k', v') :: d' => if bytes_eqb k' k then (k', v) :: d' else (k', v') :: dict_set d' k v
  end.

(* IndexMap::swap_remove: the last entry takes the removed entry's place *)
Fixpoint dict_remove_plain (d : dict) (k : bytes) : dict :=
  match d with
  | [] => []
  | (k', v') :: d' => if bytes_eqb k' k then d' else (k', v') :: dict_remove_plain d' k
  end.
Definition dict_swap_remove (d : dict) (k : bytes) : dict :=
  if dict_has d k then
    match rev d with
    | [] => []
    | (kl, vl) :: _ =>
      if bytes_eqb kl k then removelast d
      else (fix go (d : dict) : dict :=
              match d with
              | [] => []
              | (k', v') :: d' => if bytes_eqb k' k then (kl, vl) :: removelast d' else (k', v') :: go d'
              end) d
    end
  else d.

(* ---- objects map: association list sorted by id (BTreeMap) ---- *)
Definition objmap := list (oid * obj).
Fixpoint lookup (m : objmap) (id : oid) : option obj :=
  match m with
  | [] => None
  | (i, o) :: m' => if oid_eqb i id then Some o else lookup m' id
  end.
Fixpoint insert (m : objmap) (id : oid) (o : obj) : objmap :=
  match m with
  | [] => [(id, o)]
  | (i, o') :: m' =>
    if oid_eqb i id then (i, o) :: m'
    else if oid_ltb id i then (id, o) :: (i, o') :: m'
    else (i, o') :: insert m' id o
  end.
Fixpoint remove (m : objmap) (id : oid) : objmap :=
  match m with
  | [] => []
  | (i, o') :: m' => if oid_eqb i id then m' else (i, o') :: remove m' id
  end.

(* ---- names used by the models ---- *)
Definition K_Type := Eval cbv in bs "Type".
Definition K_Linearized := Eval cbv in bs "Linearized".
Definition K_Pages := Eval cbv in bs "Pages".
Definition K_Page := Eval cbv in bs "Page".
Definition K_Kids := Eval cbv in bs "Kids".
Definition K_Root := Eval cbv in bs "Root".
Definition K_Count := Eval cbv in bs "Count".
Definition K_Parent := Eval cbv in bs "Parent".
Definition K_Length := Eval cbv in bs "Length".
Definition K_Filter := Eval cbv in bs "Filter".
Definition K_DecodeParms := Eval cbv in bs "DecodeParms".

(* Dictionary::get_type : Type as a name, else "Linearized" when that key exists *)
Definition get_type (d : dict) : option bytes :=
  match dict_get d K_Type with
  | Some (OName n) => Some n
  | _ => if dict_has d K_Linearized then Some K_Linearized else None
  end.

(* Dictionary::has_type *)
Definition has_type (d : dict) (t : bytes) : bool :=
  match dict_get d K_Type with Some (OName n) => bytes_eqb n t | _ => false end.

(* ---- document ---- *)
Record doc := {
  d_version : bytes;
  d_binary_mark : bytes;
  d_trailer : dict;
  d_objects : objmap;
  d_max_id : N;
}.

(* ---- case-language encoding of objects ----
   null | (b 0/1) | (i z) | (r xHEX) | (n xHEX) | (s xHEX) | (h xHEX) | (a o ...) | (d (xKEY o) ...)
   | (st (d ...) xHEX) | (ref id gen)  *)
Fixpoint obj_to_sx (o : obj) : sx :=
  match o with
  | ONull => sx_id "null"
  | OBool b => SL [sx_id "b"; sx_bool b]
  | OInt z => SL [sx_id "i"; sx_Z z]
  | OReal r => SL [sx_id "r"; sx_bytes r]
  | OName n => SL [sx_id "n"; sx_bytes n]
  | OStr s false => SL [sx_id "s"; sx_bytes s]
  | OStr s true => SL [sx_id "h"; sx_bytes s]
  | OArr l => SL (sx_id "a" :: map obj_to_sx l)
  | ODict d => SL (sx_id "d" :: map (fun kv => SL [sx_bytes (fst kv); obj_to_sx (snd kv)]) d)
  | OStream d c =>
    SL [sx_id "st"; SL (sx_id "d" :: map (fun kv => SL [sx_bytes (fst kv); obj_to_sx (snd kv)]) d); sx_bytes c]
  | ORef i g => SL [sx_id "ref"; sx_N i; sx_N g]
  end.

Definition dict_to_sx (d : dict) : sx :=
  SL (sx_id "d" :: map (fun kv => SL [sx_bytes (fst kv); obj_to_sx (snd kv)]) d).

Fixpoint obj_of_sx (x : sx) : option obj :=
  match x with
  | SA a => if bytes_eqb a (bs "null") then Some ONull else None
  | SL (SA tag :: args) =>
    let entries :=
      (fix go (l : list sx) : option dict :=
         match l with
         | [] => Some []
         | SL [k; v] :: l' =>
           match as_bytes k, obj_of_sx v, go l' with
           | Some k, Some v, Some r => Some ((k, v) :: r)
           | _, _, _ => None
           end
         | _ => None
         end) in
    if bytes_eqb tag (bs "b") then match args with [v] => option_map OBool (as_bool v) | _ => None end
    else if bytes_eqb tag (bs "i") then match args with [v] => option_map OInt (as_Z v) | _ => None end
    else if bytes_eqb tag (bs "r") then match args with [v] => option_map OReal (as_bytes v) | _ => None end
    else if bytes_eqb tag (bs "n") then match args with [v] => option_map OName (as_bytes v) | _ => None end
    else if bytes_eqb tag (bs "s") then match args with [v] => option_map (fun s => OStr s false) (as_bytes v) | _ => None end
    else if bytes_eqb tag (bs "h") then match args with [v] => option_map (fun s => OStr s true) (as_bytes v) | _ => None end
    else if bytes_eqb tag (bs "a") then
      option_map OArr ((fix go (l : list sx) : option (list obj) :=
                          match l with
                          | [] => Some []
                          | y :: l' => match obj_of_sx y, go l' with
                                       | Some o, Some r => Some (o :: r) | _, _ => None end
                          end) args)
    else if bytes_eqb tag (bs "d") then option_map ODict (entries args)
    else if bytes_eqb tag (bs "st") then
      match args with
      | [SL (SA _ :: es); c] =>
        match entries es, as_bytes c with Some d, Some c => Some (OStream d c) | _, _ => None end
      | _ => None
      end
    else if bytes_eqb tag (bs "ref") then
      match args with [i; g] => match as_N i, as_N g with Some i, Some g => Some (ORef i g) | _, _ => None end
      | _ => None end
    else None
  | _ => None
  end.

Definition dict_of_sx (x : sx) : option dict :=
  match obj_of_sx x with Some (ODict d) => Some d | _ => None end.

Definition oid_to_sx (id : oid) : sx := SL [sx_N (fst id); sx_N (snd id)].
Definition oid_of_sx (x : sx) : option oid :=
  match x with SL [i; g] => match as_N i, as_N g with Some i, Some g => Some (i, g) | _, _ => None end
  | _ => None end.

(* (objs ((id gen) obj) ...) ; inserted in order (later wins), result sorted *)
Definition objmap_of_sx (l : list sx) : option objmap :=
  fold_left (fun acc x =>
    match acc, x with
    | Some m, SL [id; o] => match oid_of_sx id, obj_of_sx o with
                           | Some id, Some o => Some (insert m id o) | _, _ => None end
    | _, _ => None
    end) l (Some []).
Definition objmap_to_sx (m : objmap) : sx :=
  SL (sx_id "objs" :: map (fun io => SL [oid_to_sx (fst io); obj_to_sx (snd io)]) m).

(* (doc xVERSION xMARK (d trailer...) (objs ...) maxid) *)
Definition doc_of_sx (x : sx) : option doc :=
  match x with
  | SL [tag; v; bm; tr; SL (_ :: os); mx] =>
    if is_id tag "doc" then
      match as_bytes v, as_bytes bm, dict_of_sx tr, objmap_of_sx os, as_N mx with
      | Some v, Some bm, Some tr, Some os, Some mx =>
        Some {| d_version := v; d_binary_mark := bm; d_trailer := tr; d_objects := os; d_max_id := mx |}
      | _, _, _, _, _ => None
      end
    else None
  | _ => None
  end.
Definition doc_to_sx (d : doc) : sx :=
  SL [sx_id "doc"; sx_bytes (d_version d); sx_bytes (d_binary_mark d); dict_to_sx (d_trailer d);
      objmap_to_sx (d_objects d); sx_N (d_max_id d)].
