(* ObjStm.v -- src/object_stream.rs : ObjectStream::new, branch for branch.  Definitions only.

   Rust:
     let _ = stream.decompress();                              // errors ignored, success replaces dict/content
     if stream.content.is_empty() { return Ok(empty) }
     first_offset = dict.get(First).and_then(as_i64)? .try_into::<usize>() .map_err(NumericCast)?
     index_block  = content.get(..first_offset) .ok_or(InvalidOffset)?
     numbers_str  = str::from_utf8(index_block) .map_err(InvalidObjectStream)?
     numbers      = numbers_str.split(|c| c.is_whitespace() || c == '\0').filter(non-empty).map(|n| u32::from_str(n).ok())
     len          = numbers.len() / 2 * 2
     n            = dict.get(N).and_then(as_i64)?              // only used for a warning, but must exist
     for each pair (id?, off?) of numbers[..len]:
        id = chunk[0]?; offset = first_offset + chunk[1]? as usize;
        if offset >= content.len() { skip }
        if spent > content.len() * MAX_MEMBER_OVERLAP { skip }  // see below
        rest = content[offset..]; parsed = parser::direct_object_len(rest)
        spent += match parsed { Some((_, n)) => n, None => rest.len() }
        object = parsed?.0                                     // a parse error skips the pair
        ((id, 0), object)
     collected into a BTreeMap (a later pair with the same id replaces an earlier one)
     if spent > content.len() * MAX_MEMBER_OVERLAP { Err(InvalidObjectStream) }     // ObjectStream::new around `members`

   The overlap limit (repair of C04-objstm-shared-offsets): every member is charged the bytes its object spans (white
   space after it included), or everything after its offset when no object starts there; `spent` is the sum (an
   AtomicUsize: the pairs run on rayon workers).  A member is skipped once the sum is above the limit -- which is not
   observable: the sum only grows, so it ends above the limit exactly when the sum over ALL pairs is above it, and then
   the result is the error whatever was skipped.  The model therefore charges every pair and tests the total; the
   skipping matters for the cost only (Model/SafeObjStm.v).  (`fetch_add` wraps at 2^64: with the skipping the running
   sum stays below limit + workers * |content|, so it does not wrap for contents below 2^60 bytes.)

   Rust-std behaviour modelled exactly because it decides the result:
   * str::from_utf8 (Model/Utf.v utf8_decode: well-formed UTF-8, no surrogates, no overlong forms);
   * char::is_whitespace: the Unicode White_Space property (U+0009-000D, 0020, 0085, 00A0, 1680, 2000-200A,
     2028, 2029, 202F, 205F, 3000); the index is split at these and at NUL (repaired: NUL is PDF white-space),
     empty pieces are dropped;
   * u32::from_str: an optional '+', then one or more ASCII digits, value at most 2^32-1
     (a '-' is an invalid digit for an unsigned type; "+" alone and "" are errors). *)
From LV Require Import Base.Bytes Base.Sx Model.Obj Model.Writer Model.Parser Model.Utf Gen.Lex Gen.ObjStmC.

Local Open Scope N_scope.

Definition K_First := Eval cbv in bs "First".
Definition K_N := Eval cbv in bs "N".
Definition K_ObjStm := Eval cbv in bs "ObjStm".

(* char::is_whitespace *)
Definition rust_is_whitespace (c : N) : bool :=
  ((9 <=? c) && (c <=? 13)) || (c =? 32) || (c =? 0x85) || (c =? 0xA0) || (c =? 0x1680) ||
  ((0x2000 <=? c) && (c <=? 0x200A)) || (c =? 0x2028) || (c =? 0x2029) || (c =? 0x202F) ||
  (c =? 0x205F) || (c =? 0x3000).

(* the separator predicate of the split *)
Definition index_separator (c : N) : bool := rust_is_whitespace c || (c =? 0).

(* the split on code points, empty pieces dropped: [cur] is the piece under construction, reversed *)
Fixpoint split_ws_aux (s : list N) (cur : list N) : list (list N) :=
  match s with
  | [] => match cur with [] => [] | _ => [rev cur] end
  | c :: t =>
    if index_separator c then
      match cur with [] => split_ws_aux t [] | _ => rev cur :: split_ws_aux t [] end
    else split_ws_aux t (c :: cur)
  end.
Definition split_whitespace (s : list N) : list (list N) := split_ws_aux s [].

(* u32::from_str(..).ok() *)
Fixpoint digits_cp (s : list N) (acc : N) : option N :=
  match s with
  | [] => Some acc
  | c :: t => if (48 <=? c) && (c <=? 57) then digits_cp t (acc * 10 + (c - 48)) else None
  end.
Definition u32_from_str (s : list N) : option N :=
  let ds := match s with 43 :: t => t | _ => s end in
  match ds with
  | [] => None
  | _ => match digits_cp ds 0 with
         | Some v => if v <=? u32_max then Some v else None
         | None => None
         end
  end.

Inductive oserr :=
| OeDictKey            (* First or N missing *)
| OeObjectType         (* First or N not an integer *)
| OeNumericCast        (* First negative *)
| OeInvalidOffset      (* First beyond the content *)
| OeInvalidObjectStream. (* index block is not UTF-8; the members overlap beyond the limit *)
Inductive osres (A : Type) := OsOk (a : A) | OsErr (e : oserr).
Arguments OsOk {A} a.
Arguments OsErr {A} e.

(* pairs of numbers[..len]; a trailing odd number is dropped *)
Fixpoint pairs_of {A} (l : list A) : list (A * A) :=
  match l with
  | a :: b :: l' => (a, b) :: pairs_of l'
  | _ => []
  end.

(* the closure chunks_filter_map *)
Definition objstm_entry (content : bytes) (first : N) (p : option N * option N) : option (oid * obj) :=
  match p with
  | (Some id, Some off) =>
    let offset := first + off in
    if N.of_nat (length content) <=? offset then None
    else match parse_direct_object (drop (N.to_nat offset) content) with
         | Some o => Some ((id, 0), o)
         | None => None
         end
  | _ => None
  end.

(* parser::direct_object_len: the object and the number of bytes it spans (the white space after it included) *)
Definition parse_direct_object_len (s : bytes) : option (obj * N) :=
  match direct_object (fuel_for s) s with
  | POk o r => Some (o, N.of_nat (length s - length r))
  | _ => None
  end.

(* what the closure adds to `spent` for one pair *)
Definition objstm_charge (content : bytes) (first : N) (p : option N * option N) : N :=
  match p with
  | (Some _, Some off) =>
    let offset := first + off in
    if N.of_nat (length content) <=? offset then 0
    else let rest := drop (N.to_nat offset) content in
         match parse_direct_object_len rest with
         | Some (_, n) => n
         | None => N.of_nat (length rest)
         end
  | _ => 0
  end.

Definition objstm_spent (content : bytes) (first : N) (ps : list (option N * option N)) : N :=
  fold_left (fun a p => a + objstm_charge content first p) ps 0.

Definition objstm_limit (content : bytes) : N := N.of_nat (length content) * MAX_MEMBER_OVERLAP.

Definition get_i64 (d : dict) (k : bytes) : osres Z :=
  match dict_get d k with
  | None => OsErr OeDictKey
  | Some (OInt z) => OsOk z
  | Some _ => OsErr OeObjectType
  end.

(* ObjectStream::new after the decompression attempt *)
Definition objstm_plain (d : dict) (content : bytes) : osres objmap :=
  match content with
  | [] => OsOk []
  | _ =>
    match get_i64 d K_First with
    | OsErr e => OsErr e
    | OsOk f =>
      if (f <? 0)%Z then OsErr OeNumericCast
      else
        let first := Z.to_N f in
        if N.of_nat (length content) <? first then OsErr OeInvalidOffset
        else
          match utf8_decode (firstn (N.to_nat first) content) with
          | None => OsErr OeInvalidObjectStream
          | Some cps =>
            let numbers := map u32_from_str (split_whitespace cps) in
            match get_i64 d K_N with
            | OsErr e => OsErr e
            | OsOk _ =>
              if objstm_limit content <? objstm_spent content first (pairs_of numbers) then OsErr OeInvalidObjectStream
              else
              OsOk (fold_left (fun m p => match objstm_entry content first p with
                                          | Some (id, o) => insert m id o
                                          | None => m
                                          end) (pairs_of numbers) [])
            end
          end
    end
  end.

Section Decompress.
  (* Stream::decompress on (dict, content): Some (dict', content') on Ok, None on Err *)
  Variable decompress : dict -> bytes -> option (dict * bytes).

  (* returns the stream as ObjectStream::new leaves it (it is a &mut: the loader stores the
     decompressed container in Document.objects) and the expanded objects *)
  Definition objstm_new (d : dict) (content : bytes) : (dict * bytes) * osres objmap :=
    let dc := match decompress d content with Some p => p | None => (d, content) end in
    (dc, objstm_plain (fst dc) (snd dc)).
End Decompress.

Definition oserr_to_sx (e : oserr) : sx :=
  match e with
  | OeDictKey => sx_id "DictKey"
  | OeObjectType => sx_id "ObjectType"
  | OeNumericCast => sx_id "NumericCast"
  | OeInvalidOffset => sx_id "InvalidOffset"
  | OeInvalidObjectStream => sx_id "InvalidObjectStream"
  end.
