(* DocQ.v -- the basic read-only accessors of src/document.rs used by every graph-level model:
   Document::dereference / get_object / get_dictionary / catalog, Dictionary::get_deref. *)
From LV Require Import Base.Bytes Base.Sx Model.Obj Gen.Consts.

(* Document::dereference.  Rust: loop { if not a reference: return; look the id up (error if
   absent); nb_deref += 1; if nb_deref > DEREF_LIMIT: error }.  So hop number k (1-based)
   succeeds iff the target exists and k <= DEREF_LIMIT.  [fuel] = hops still allowed. *)
Fixpoint deref_aux (m : objmap) (fuel : nat) (last : option oid) (o : obj) : option (option oid * obj) :=
  match o with
  | ORef i g =>
    match lookup m (i, g) with
    | None => None                                    (* Error::ObjectNotFound *)
    | Some o' => match fuel with
                 | O => None                          (* Error::ReferenceLimit *)
                 | S f => deref_aux m f (Some (i, g)) o'
                 end
    end
  | _ => Some (last, o)
  end.

Definition dereference (m : objmap) (o : obj) : option (option oid * obj) :=
  deref_aux m (N.to_nat DEREF_LIMIT) None o.

Definition get_object (m : objmap) (id : oid) : option obj :=
  match lookup m id with
  | None => None
  | Some o => option_map snd (dereference m o)
  end.

Definition get_dictionary (m : objmap) (id : oid) : option dict :=
  match get_object m id with Some (ODict d) => Some d | _ => None end.

Definition get_deref (m : objmap) (d : dict) (k : bytes) : option obj :=
  match dict_get d k with
  | None => None
  | Some o => option_map snd (dereference m o)
  end.

(* Document::catalog: trailer.Root must be a reference to (something dereferencing to) a dictionary *)
Definition catalog (d : doc) : option dict :=
  match dict_get (d_trailer d) K_Root with
  | Some (ORef i g) => get_dictionary (d_objects d) (i, g)
  | _ => None
  end.
