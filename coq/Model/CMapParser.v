(* CMapParser.v -- model of src/parser/cmap_parser.rs (the nom grammar of ToUnicode CMap
   streams) written from the Rust source, combinator for combinator.

   nom semantics kept: Error (recoverable: `alt` tries the next branch, `many*` stop and keep what
   they have) versus Failure (create_code_len_err: aborts everything); many1 / fold_many1 need one
   element; many_m_n / fold_many_m_n stop at their maximum; separated_list1 gives back the
   separator when the element after it fails.  All element parsers consume at least one byte,
   so nom's "infinite loop" guards can never fire and are not modelled.

   Two simplifications, both on what is consumed, not on what is produced:
   * fold_many0(alt((space, tab, eol, comment))) is one structural pass: eol = "\r\n"|"\n"|"\r",
     and consuming "\r\n" as one item or as "\r" then "\n" ends at the same place; a comment
     that meets the end of input without an end of line does not match, and the loop stops in
     front of its '%' (the [pending] argument).
   * /CIDSystemInfo takes a PDF dictionary (`dictionary` | `dict_dup` of src/parser/mod.rs), i.e.
     the whole PDF object grammar, whose value is thrown away.  Modelled for values that are
     names, integers and literal strings without parentheses/backslashes inside; anything else
     gives the explicit outcome PUnmodelled (never equal to an implementation outcome).
   Loops whose step consumes a variable number of bytes carry fuel = length of the input + 1
   (one round per consumed byte and the last round, which sees the element fail and stops: on an
   EMPTY rest that last round still has to run -- separated_list1 at the end of a truncated stream
   returns what it has, and the `]` after it is what fails); running out is the explicit outcome
   POutOfFuel, which Proofs/CMapParserProofs.v shows is never produced.  Definitions only. *)
From LV Require Import Base.Bytes Model.CMap Gen.CMapC.

Inductive pres (A : Type) :=
| POk (a : A) (rest : bytes)
| PErr
| PFail
| PUnmodelled
| POutOfFuel.
Arguments POk {A}. Arguments PErr {A}. Arguments PFail {A}. Arguments PUnmodelled {A}. Arguments POutOfFuel {A}.

Definition pbind {A B} (p : pres A) (f : A -> bytes -> pres B) : pres B :=
  match p with
  | POk a r => f a r
  | PErr => PErr | PFail => PFail | PUnmodelled => PUnmodelled | POutOfFuel => POutOfFuel
  end.
Notation "'let*' ( x , r ) := p 'in' k" := (pbind p (fun x r => k))
  (at level 200, x pattern, r pattern, p at level 100, k at level 200).

(* ---------- bytes ---------- *)
Definition beq (b : byte) (c : byte) : bool := byte_eqb b c.
Definition is_sp (c : byte) := beq c x20.
Definition is_tab (c : byte) := beq c x09.
Definition is_cr (c : byte) := beq c x0d.
Definition is_lf (c : byte) := beq c x0a.
Definition is_dig (c : byte) : bool := (48 <=? N_of_byte c)%N && (N_of_byte c <=? 57)%N.
Definition hexv (c : byte) : option N :=
  let n := N_of_byte c in
  if (48 <=? n)%N && (n <=? 57)%N then Some (n - 48)%N
  else if (97 <=? n)%N && (n <=? 102)%N then Some (n - 87)%N
  else if (65 <=? n)%N && (n <=? 70)%N then Some (n - 55)%N
  else None.

(* tag *)
Fixpoint strip (t s : bytes) : option bytes :=
  match t, s with
  | [], _ => Some s
  | x :: t', y :: s' => if byte_eqb x y then strip t' s' else None
  | _ :: _, [] => None
  end.
Definition tag (t : bytes) (s : bytes) : pres unit :=
  match strip t s with Some r => POk tt r | None => PErr end.

(* space0 / space1 : (" " | "\t")* / + *)
Fixpoint space0 (s : bytes) : bytes :=
  match s with
  | c :: s' => if is_sp c || is_tab c then space0 s' else s
  | [] => []
  end.
Definition space1 (s : bytes) : pres unit :=
  match s with
  | c :: s' => if is_sp c || is_tab c then POk tt (space0 s') else PErr
  | [] => PErr
  end.

(* white space with comments; [ws] = the one-byte white-space items, [pending] = where a comment
   in progress began *)
Fixpoint skip_ws (ws : byte -> bool) (s : bytes) (pending : option bytes) : bytes :=
  match s with
  | [] => match pending with Some start => start | None => [] end
  | c :: s' =>
    match pending with
    | Some _ => if is_cr c || is_lf c then skip_ws ws s' None else skip_ws ws s' pending
    | None => if ws c then skip_ws ws s' None
              else if beq c x25 then skip_ws ws s' (Some s)
              else s
    end
  end.

Definition cmap_ws (c : byte) : bool := is_sp c || is_tab c || is_cr c || is_lf c.
Definition multispace0 (s : bytes) : bytes := skip_ws cmap_ws s None.
Definition multispace1 (s : bytes) : pres unit :=
  let r := multispace0 s in
  if (length r <? length s)%nat then POk tt r else PErr.

(* src/parser/mod.rs `space` : (is_whitespace+ | comment)* *)
Definition pdf_ws (c : byte) : bool := is_sp c || is_tab c || is_lf c || is_cr c || beq c x00 || beq c x0c.
Definition pdf_space (s : bytes) : bytes := skip_ws pdf_ws s None.

(* digit1 *)
Fixpoint digit0 (s : bytes) : bytes :=
  match s with
  | c :: s' => if is_dig c then digit0 s' else s
  | [] => []
  end.
Definition digit1 (s : bytes) : pres unit :=
  match s with
  | c :: s' => if is_dig c then POk tt (digit0 s') else PErr
  | [] => PErr
  end.

(* hex_char : two hex digits -> u8 *)
Definition hex_char (s : bytes) : pres N :=
  match s with
  | a :: b :: r =>
    match hexv a, hexv b with
    | Some h, Some l => POk (h * 16 + l)%N r
    | _, _ => PErr
    end
  | _ => PErr
  end.

(* many_m_n(0, cnt, hex_char) *)
Fixpoint hex_chars (cnt : nat) (s : bytes) : list N * bytes :=
  match cnt with
  | O => ([], s)
  | S c =>
    match hex_char s with
    | POk v r => let '(vs, r') := hex_chars c r in (v :: vs, r')
    | _ => ([], s)
    end
  end.

(* the sum of 256^i * byte over the reversed bytes *)
Definition code_of_bytes (vs : list N) : N := fold_left (fun acc v => acc * 256 + v)%N vs 0%N.

Definition source_code (s : bytes) : pres (N * N) :=
  let* (_, r) := tag [x3c] s in
  match hex_chars (N.to_nat CMAP_SRC_MAX_BYTES) r with
  | ([], _) => PErr
  | (vs, r') =>
    let* (_, r'') := tag [x3e] r' in
    POk (code_of_bytes vs, N.of_nat (length vs)) r''
  end.

Definition hex_u16 (s : bytes) : pres N :=
  let* (h1, r) := hex_char s in
  let* (h2, r') := hex_char r in
  POk (h1 * 256 + h2)%N r'.

(* many_m_n(0, cnt, terminated(hex_u16, multispace0)) *)
Fixpoint target_units (cnt : nat) (s : bytes) : list N * bytes :=
  match cnt with
  | O => ([], s)
  | S c =>
    match hex_u16 s with
    | POk u r => let '(us, r') := target_units c (multispace0 r) in (u :: us, r')
    | _ => ([], s)
    end
  end.

Definition target_string (s : bytes) : pres (list N) :=
  let* (_, r) := tag [x3c] s in
  match target_units (N.to_nat CMAP_TARGET_MAX_UNITS) r with
  | ([], _) => PErr
  | (us, r') => let* (_, r'') := tag [x3e] r' in POk us r''
  end.

Definition code_range_pair (s : bytes) : pres (N * N * N) :=
  let* (a, r) := source_code s in
  let* (b, r') := source_code (space0 r) in
  if (snd a =? snd b)%N then POk (fst a, fst b, snd a) r' else PFail.

(* separated_list1(multispace0, target_string), after the first element (fix: commit 2c2ca77: the
   strings of an array need no white space between them and the array may run over lines).  The
   separator never fails; an element that fails gives the separator back.  target_string consumes,
   so nom's guard "separator and element consumed nothing" can not fire. *)
Fixpoint target_list_rest (fuel : nat) (s : bytes) : pres (list (list N)) :=
  match fuel with
  | O => POutOfFuel
  | S f =>
    match target_string (multispace0 s) with
    | POk v r' => let* (vs, r'') := target_list_rest f r' in POk (v :: vs) r''
    | PErr => POk [] s
    | PFail => PFail | PUnmodelled => PUnmodelled | POutOfFuel => POutOfFuel
    end
  end.

Definition range_target_array (s : bytes) : pres (list (list N)) :=
  let* (_, r) := tag [x5b] s in
  let* (v, r1) := target_string (multispace0 r) in
  let* (vs, r2) := target_list_rest (S (length r1)) r1 in
  let* (_, r3) := tag [x5d] (multispace0 r2) in
  POk (v :: vs) r3.

Definition bf_range_line (s : bytes) : pres ((N * N * N) * list (list N)) :=
  let* (rg, r) := code_range_pair (space0 s) in
  let r0 := space0 r in
  let* (dst, r1) := (match target_string r0 with
                     | POk v r' => POk [v] r'
                     | PErr => range_target_array r0
                     | PFail => PFail | PUnmodelled => PUnmodelled | POutOfFuel => POutOfFuel
                     end) in
  let* (_, r2) := multispace1 r1 in
  POk (rg, dst) r2.

Definition bf_char_line (s : bytes) : pres ((N * N) * list N) :=
  let* (c, r) := source_code (space0 s) in
  let* (t, r1) := target_string (space0 r) in
  let* (_, r2) := multispace1 r1 in
  POk (c, t) r2.

Definition cs_range_line (s : bytes) : pres (N * N * N) :=
  let* (rg, r) := code_range_pair (space0 s) in
  let* (_, r1) := multispace1 r in
  POk rg r1.

(* many0 / many1 over an element parser *)
Fixpoint many0 {A} (p : bytes -> pres A) (fuel : nat) (s : bytes) : pres (list A) :=
  match fuel with
  | O => POutOfFuel
  | S f =>
    match p s with
    | POk a r => let* (l, r') := many0 p f r in POk (a :: l) r'
    | PErr => POk [] s
    | PFail => PFail | PUnmodelled => PUnmodelled | POutOfFuel => POutOfFuel
    end
  end.
Definition many1 {A} (p : bytes -> pres A) (s : bytes) : pres (list A) :=
  let* (a, r) := p s in
  let* (l, r') := many0 p (S (length r)) r in
  POk (a :: l) r'.

Definition T_begincodespacerange := Eval cbv in bs "begincodespacerange".
Definition T_endcodespacerange := Eval cbv in bs "endcodespacerange".
Definition T_beginbfchar := Eval cbv in bs "beginbfchar".
Definition T_endbfchar := Eval cbv in bs "endbfchar".
Definition T_beginbfrange := Eval cbv in bs "beginbfrange".
Definition T_endbfrange := Eval cbv in bs "endbfrange".

Definition section_of {A} (tbegin tend : bytes) (line : bytes -> pres A) (s : bytes) : pres (list A) :=
  let* (_, r0) := digit1 s in
  let* (_, r1) := space1 r0 in
  let* (_, r2) := tag tbegin r1 in
  let* (_, r3) := multispace1 r2 in
  let* (l, r4) := many1 line r3 in
  let* (_, r5) := tag tend r4 in
  let* (_, r6) := multispace1 r5 in
  POk l r6.

Definition alt {A} (p q : bytes -> pres A) (s : bytes) : pres A :=
  match p s with
  | PErr => q s
  | x => x
  end.

Definition pmap {A B} (f : A -> B) (p : bytes -> pres A) (s : bytes) : pres B :=
  let* (a, r) := p s in POk (f a) r.

Definition cmap_section (s : bytes) : pres csection :=
  alt (pmap CsRange (section_of T_begincodespacerange T_endcodespacerange cs_range_line))
    (alt (pmap BfChar (section_of T_beginbfchar T_endbfchar bf_char_line))
         (pmap BfRange (section_of T_beginbfrange T_endbfrange bf_range_line))) s.

Definition cmap_codespace_and_mappings (s : bytes) : pres (list csection) := many1 cmap_section s.

(* ---------- metadata ---------- *)
Definition pdf_delim (c : byte) : bool :=
  beq c x28 || beq c x29 || beq c x3c || beq c x3e || beq c x5b || beq c x5d || beq c x7b || beq c x7d || beq c x2f || beq c x25.
Definition is_regular (c : byte) : bool := negb (pdf_ws c) && negb (pdf_delim c).

(* many0(alt(("#" hex_char), regular byte other than '#')) : only the extent matters *)
Fixpoint name_body (fuel : nat) (s : bytes) : pres unit :=
  match fuel with
  | O => POutOfFuel
  | S f =>
    match s with
    | c :: s' =>
      if beq c x23 then
        match hex_char s' with
        | POk _ r => name_body f r
        | _ => POk tt s
        end
      else if is_regular c then name_body f s'
      else POk tt s
    | [] => POk tt s
    end
  end.
Definition name (s : bytes) : pres unit :=
  let* (_, r) := tag [x2f] s in name_body (S (length r)) r.

Definition T_def := Eval cbv in bs "def".
Definition T_CMapName := Eval cbv in bs "/CMapName".
Definition T_CMapType := Eval cbv in bs "/CMapType".
Definition T_CIDSystemInfo := Eval cbv in bs "/CIDSystemInfo".

Definition cmap_name (s : bytes) : pres unit :=
  let* (_, r) := tag T_CMapName s in
  let* (_, r1) := name (space0 r) in
  let* (_, r2) := space1 r1 in
  let* (_, r3) := tag T_def r2 in
  multispace1 r3.

Definition cmap_type (s : bytes) : pres unit :=
  let* (_, r) := tag T_CMapType s in
  let* (_, r1) := space1 r in
  let* (_, r2) := digit1 r1 in
  let* (_, r3) := space1 r2 in
  let* (_, r4) := tag T_def r3 in
  multispace1 r4.

(* restricted _direct_object : name | integer | plain literal string, then `space` *)
Fixpoint plain_string_body (s : bytes) : pres unit :=
  match s with
  | [] => PErr
  | c :: s' =>
    if beq c x29 then POk tt s'
    else if beq c x28 || beq c x5c then PUnmodelled
    else plain_string_body s'
  end.

Definition simple_value (s : bytes) : pres unit :=
  match s with
  | c :: s' =>
    if beq c x2f then let* (_, r) := name s in POk tt (pdf_space r)
    else if beq c x28 then let* (_, r) := plain_string_body s' in POk tt (pdf_space r)
    else if is_dig c then
      let r := digit0 s' in
      if (9 <? length s - length r)%nat then PUnmodelled                 (* may overflow i64 / u32 *)
      else match r with
           | d :: _ => if beq d x2e then PUnmodelled                       (* a real *)
                       else match pdf_space r with
                            | e :: _ => if is_dig e then PUnmodelled   (* may be a reference *)
                                        else POk tt (pdf_space r)
                            | [] => POk tt []
                            end
           | [] => POk tt []
           end
    else PUnmodelled
  | [] => PErr
  end.

(* fold_many0(pair(terminated(name, space), _direct_object) [then `tail`]) : extent only *)
Fixpoint dict_entries (tail : bytes -> pres unit) (fuel : nat) (s : bytes) : pres unit :=
  match fuel with
  | O => POutOfFuel
  | S f =>
    match name s with
    | POk _ r =>
      match simple_value (pdf_space r) with
      | POk _ r1 =>
        match tail r1 with
        | POk _ r2 => dict_entries tail f r2
        | PErr => POk tt s
        | PFail => PFail | PUnmodelled => PUnmodelled | POutOfFuel => POutOfFuel
        end
      | PErr => POk tt s
      | PFail => PFail | PUnmodelled => PUnmodelled | POutOfFuel => POutOfFuel
      end
    | PErr => POk tt s
    | PFail => PFail | PUnmodelled => PUnmodelled | POutOfFuel => POutOfFuel
    end
  end.

Definition T_dict := Eval cbv in bs "dict".
Definition T_dup := Eval cbv in bs "dup".
Definition T_begin := Eval cbv in bs "begin".
Definition T_end := Eval cbv in bs "end".

Definition dictionary (s : bytes) : pres unit :=
  let* (_, r) := tag [x3c; x3c] s in
  let* (_, r1) := dict_entries (fun x => POk tt x) (S (length r)) (pdf_space r) in
  tag [x3e; x3e] r1.

Definition dict_dup (s : bytes) : pres unit :=
  let* (_, r0) := digit1 s in
  let* (_, r1) := space1 r0 in
  let* (_, r2) := tag T_dict r1 in
  let* (_, r3) := space1 r2 in
  let* (_, r4) := tag T_dup r3 in
  let* (_, r5) := space1 r4 in
  let* (_, r6) := tag T_begin r5 in
  let* (_, r7) := multispace1 r6 in
  let* (_, r8) := dict_entries (fun x => let* (_, y) := tag T_def x in multispace1 y) (S (length r7)) r7 in
  tag T_end r8.

Definition cid_system_info (s : bytes) : pres unit :=
  let* (_, r) := tag T_CIDSystemInfo s in
  let* (_, r1) := alt dictionary dict_dup (multispace0 r) in
  let* (_, r2) := multispace1 r1 in
  let* (_, r3) := tag T_def r2 in
  multispace1 r3.

Definition metadata_item (s : bytes) : pres unit := alt cid_system_info (alt cmap_name cmap_type) s.

(* fold_many_m_n(0, cnt, metadata_item) *)
Fixpoint metadata_upto (cnt : nat) (s : bytes) : pres unit :=
  match cnt with
  | O => POk tt s
  | S c =>
    match metadata_item s with
    | POk _ r => metadata_upto c r
    | PErr => POk tt s
    | PFail => PFail | PUnmodelled => PUnmodelled | POutOfFuel => POutOfFuel
    end
  end.
Definition cmap_metadata (s : bytes) : pres unit :=
  let* (_, r) := metadata_item s in metadata_upto (N.to_nat CMAP_META_MAX - 1) r.

(* ---------- frame ---------- *)
Definition T_CIDInit := Eval cbv in bs "/CIDInit".
Definition T_ProcSet := Eval cbv in bs "/ProcSet".
Definition T_Procset := Eval cbv in bs "/Procset".
Definition T_findresource := Eval cbv in bs "findresource".
Definition T_begincmap := Eval cbv in bs "begincmap".
Definition T_endcmap := Eval cbv in bs "endcmap".
Definition T_CMapNameBare := Eval cbv in bs "CMapName".
Definition T_currentdict := Eval cbv in bs "currentdict".
Definition T_CMap := Eval cbv in bs "/CMap".
Definition T_defineresource := Eval cbv in bs "defineresource".
Definition T_pop := Eval cbv in bs "pop".

Definition cidinit_procset (s : bytes) : pres unit :=
  let* (_, r1) := tag T_CIDInit (multispace0 s) in
  let* (_, r2) := alt (tag T_ProcSet) (tag T_Procset) (space0 r1) in
  let* (_, r3) := space1 r2 in
  let* (_, r4) := tag T_findresource r3 in
  let* (_, r5) := space1 r4 in
  let* (_, r6) := tag T_begin r5 in
  multispace1 r6.

Definition cmap_end (s : bytes) : pres unit :=
  let* (_, r0) := tag T_endcmap s in
  let* (_, r1) := multispace1 r0 in
  let* (_, r2) := tag T_CMapNameBare r1 in
  let* (_, r3) := space1 r2 in
  let* (_, r4) := tag T_currentdict r3 in
  let* (_, r5) := space1 r4 in
  let* (_, r6) := tag T_CMap r5 in
  let* (_, r7) := space1 r6 in
  let* (_, r8) := tag T_defineresource r7 in
  let* (_, r9) := space1 r8 in
  let* (_, r10) := tag T_pop r9 in
  multispace1 r10.

Definition cmap_data (s : bytes) : pres (list csection) :=
  let* (_, r0) := tag T_begincmap s in
  let* (_, r1) := multispace1 r0 in
  let* (_, r2) := cmap_metadata r1 in
  let* (secs, r3) := cmap_codespace_and_mappings r2 in
  let* (_, r4) := cmap_end r3 in
  POk secs r4.

Definition cmap_resource_dictionary (s : bytes) : pres (list csection) :=
  let* (_, r0) := digit1 s in
  let* (_, r1) := space1 r0 in
  let* (_, r2) := tag T_dict r1 in
  let* (_, r3) := space1 r2 in
  let* (_, r4) := tag T_begin r3 in
  let* (_, r5) := multispace1 r4 in
  let* (secs, r6) := cmap_data r5 in
  let* (_, r7) := tag T_end r6 in
  let* (_, r8) := multispace1 r7 in
  POk secs r8.

Definition cmap_stream (s : bytes) : pres (list csection) :=
  let* (_, r0) := cidinit_procset s in
  let* (secs, r1) := cmap_resource_dictionary r0 in
  let* (_, r2) := tag T_end r1 in
  POk secs (multispace0 r2).

(* ToUnicodeCMap::parse *)
Inductive parse_res := ParseOk (cm : cmap) | ParseErrParse | ParseErrRange | ParseUnmodelled | ParseOutOfFuel.

Definition cmap_parse (s : bytes) : parse_res :=
  match cmap_stream s with
  | POk secs _ =>
    match from_sections secs with
    | FsOk cm => ParseOk cm
    | FsInvalidCodeRange => ParseErrRange
    end
  | PErr | PFail => ParseErrParse
  | PUnmodelled => ParseUnmodelled
  | POutOfFuel => ParseOutOfFuel
  end.
