(* Handler.v -- model of lopdf's standard security handler, written from the Rust source branch
   for branch:
     src/encryption.rs                  EncryptionState::{try_from, decode, encode, get_*_filter},
                                        encrypt_object, decrypt_object, Permissions::p_value
     src/encryption/algorithms.rs       PasswordAlgorithm::try_from(&Document) and Algorithms 2, 2.A, 2.B, 3-13
     src/encryption/crypt_filters.rs    Identity / V2 / AESV2 / AESV3 filters
     src/document.rs                    get_encrypted, is_encrypted, get_crypt_filters, authenticate_raw_*,
                                        encrypt, decrypt_raw
   Definitions only.

   Third-party code is a parameter: [prims] bundles MD5, SHA-256/384/512 and the AES block functions
   (key -> 16-byte block -> 16-byte block, key of 16 or 32 bytes).  Model/Crypto/Concrete.v instantiates it
   with the executable Gallina implementations; theorems quantify over [prims] and assume only what they
   use (e.g. [p_aes_dec k (p_aes_enc k b) = b]).  Fixed-size array copies in the Rust code
   ([copy_from_slice], [key.into()]) that would panic if a hash had the wrong size are not modelled: the
   sizes are properties of the hash functions, not of lopdf.
   Randomness ([rand::rng()]) is an explicit input: a list of byte strings consumed in the order of the
   draws; each draw is padded with zeros / truncated to the size drawn ([fit]).
   Password preparation (PDFDocEncoding for R <= 4, SASLprep for R >= 5) is outside the model: every
   password here is the prepared byte string (the checks generate printable ASCII, on which both
   preparations are the identity, and exercise other passwords on the implementation only).
   Outcomes: [Ok], [Err class], [Panic] (assert! in Rc4::new, arithmetic overflow).
   decrypt_raw's last pass -- ObjectStream::new on every decrypted stream of Type ObjStm, the objects found added
   under the numbers that are still free -- is [objstm_pass], over Model/ObjStm.v (index parsing, direct-object
   parser) and the parameter [p_decompress]. *)
From LV Require Import Base.Bytes Base.Sx Model.Obj Model.DocQ Gen.Crypto
  Model.Crypto.Word Model.Crypto.RC4 Model.Crypto.PKCS5.
(* ObjectStream::new (property C08's model), used by decrypt_raw's object-stream pass; referred to by qualified
   names only *)
From LV Require Model.ObjStm.
Local Open Scope N_scope.

Record prims := {
  p_md5 : bytes -> bytes;
  p_sha256 : bytes -> bytes;
  p_sha384 : bytes -> bytes;
  p_sha512 : bytes -> bytes;
  p_aes_enc : bytes -> bytes -> bytes;
  p_aes_dec : bytes -> bytes -> bytes;
  (* Stream::decompress on (dict, content): Some (dict', content') on Ok (Filter and DecodeParms removed, Length
     set), None on Err.  lopdf's filter plumbing over flate2 / weezl (modelled for property C09 in
     Model/StreamFilt.v); a parameter here: decrypt_raw calls it through ObjectStream::new on every stream of Type
     ObjStm, and the theorems hold whatever it does *)
  p_decompress : dict -> bytes -> option (dict * bytes);
}.

(* error classes: lopdf::Error variants (E_) and DecryptionError variants (D_) *)
Inductive err :=
| E_NotEncrypted | E_AlreadyEncrypted | E_DictKey | E_ObjectType | E_TryFromInt
| E_UnsupportedSecurityHandler
| D_MissingEncryptDictionary | D_MissingVersion | D_MissingRevision | D_MissingOwnerPassword
| D_MissingUserPassword | D_MissingPermissions | D_MissingFileID
| D_InvalidHashLength | D_InvalidKeyLength | D_InvalidCipherTextLength | D_InvalidVersion
| D_InvalidRevision | D_InvalidType | D_IncorrectPassword
| D_UnsupportedVersion | D_UnsupportedRevision | D_Padding.

Inductive res (A : Type) := Ok (a : A) | Err (e : err) | Panic.
Arguments Ok {A} a.
Arguments Err {A} e.
Arguments Panic {A}.

Definition rbind {A B} (r : res A) (f : A -> res B) : res B :=
  match r with Ok a => f a | Err e => Err e | Panic => Panic end.
Notation "'rlet' x := r 'in' k" := (rbind r (fun x => k))
  (at level 200, x pattern, r at level 100, k at level 200).

(* ---------- names ---------- *)
Definition K_Encrypt := Eval cbv in bs "Encrypt".
Definition K_V := Eval cbv in bs "V".
Definition K_R := Eval cbv in bs "R".
Definition K_O := Eval cbv in bs "O".
Definition K_U := Eval cbv in bs "U".
Definition K_OE := Eval cbv in bs "OE".
Definition K_UE := Eval cbv in bs "UE".
Definition K_P := Eval cbv in bs "P".
Definition K_Perms := Eval cbv in bs "Perms".
Definition K_EncryptMetadata := Eval cbv in bs "EncryptMetadata".
Definition K_CF := Eval cbv in bs "CF".
Definition K_StmF := Eval cbv in bs "StmF".
Definition K_StrF := Eval cbv in bs "StrF".
Definition K_EFF := Eval cbv in bs "EFF".
Definition K_CFM := Eval cbv in bs "CFM".
Definition K_ID := Eval cbv in bs "ID".
Definition K_Name := Eval cbv in bs "Name".
Definition N_Standard := Eval cbv in bs "Standard".
Definition N_CryptFilter := Eval cbv in bs "CryptFilter".
Definition N_V2 := Eval cbv in bs "V2".
Definition N_AESV2 := Eval cbv in bs "AESV2".
Definition N_AESV3 := Eval cbv in bs "AESV3".
Definition N_Identity := Eval cbv in bs "Identity".
Definition N_None := Eval cbv in bs "None".
Definition N_XRef := Eval cbv in bs "XRef".
Definition N_Metadata := Eval cbv in bs "Metadata".
Definition N_Crypt := Eval cbv in bs "Crypt".
Definition N_ObjStm := Eval cbv in bs "ObjStm".
Definition N_EmbeddedFile := Eval cbv in bs "EmbeddedFile".

(* ---------- crypt filters ---------- *)
Inductive cfm := CF_Identity | CF_RC4 | CF_AESV2 | CF_AESV3.

Definition cfm_method (f : cfm) : bytes :=
  match f with CF_Identity => N_None | CF_RC4 => N_V2 | CF_AESV2 => N_AESV2 | CF_AESV3 => N_AESV3 end.

(* BTreeMap<Vec<u8>, _>: association list sorted by the lexicographic order of the keys *)
Fixpoint bytes_ltb (a b : bytes) : bool :=
  match a, b with
  | [], [] => false
  | [], _ :: _ => true
  | _ :: _, [] => false
  | x :: a', y :: b' =>
    (N_of_byte x <? N_of_byte y) || ((N_of_byte x =? N_of_byte y) && bytes_ltb a' b')
  end.
Definition cfmap := list (bytes * cfm).
Fixpoint bt_insert (m : cfmap) (k : bytes) (v : cfm) : cfmap :=
  match m with
  | [] => [(k, v)]
  | (k', v') :: m' =>
    if bytes_eqb k' k then (k', v) :: m'
    else if bytes_ltb k k' then (k, v) :: (k', v') :: m'
    else (k', v') :: bt_insert m' k v
  end.
Fixpoint bt_get (m : cfmap) (k : bytes) : option cfm :=
  match m with
  | [] => None
  | (k', v) :: m' => if bytes_eqb k' k then Some v else bt_get m' k
  end.

(* u32 object number: low 3 bytes; u16 generation: 2 bytes; both low-order first *)
Definition id_bytes (id : oid) : bytes := N_to_le 3 (fst id) ++ N_to_le 2 (snd id).

Definition obj_key_len (key : bytes) : nat := Nat.min (length key + 5) 16.

(* CryptFilter::compute_key *)
Definition cf_compute_key (P : prims) (f : cfm) (key : bytes) (id : oid) : bytes :=
  match f with
  | CF_Identity => key
  | CF_RC4 => firstn (obj_key_len key) (p_md5 P (key ++ id_bytes id))
  | CF_AESV2 => firstn (obj_key_len key) (p_md5 P (key ++ id_bytes id ++ AES_SALT))
  | CF_AESV3 => key
  end.

Definition rc4r (key data : bytes) : res bytes :=
  match rc4 key data with Some c => Ok c | None => Panic end.

(* Aes*CryptFilter::encrypt after the key-length test: IV || CBC(PKCS#5(plaintext)) *)
Definition aes_cbc_encrypt (P : prims) (key iv pt : bytes) : bytes :=
  iv ++ cbc_encrypt_padded (p_aes_enc P key) iv pt.

(* Aes*CryptFilter::decrypt after the key-length test *)
Definition aes_cbc_decrypt (P : prims) (key ct : bytes) : res bytes :=
  if negb (Nat.eqb (Nat.modulo (length ct) 16) 0) then Err D_InvalidCipherTextLength
  else if Nat.eqb (length ct) 0 || Nat.eqb (length ct) 16 then Ok []
  else match cbc_decrypt_padded (p_aes_dec P key) (firstn 16 ct) (skipn 16 ct) with
       | Some pt => Ok pt
       | None => Err D_Padding
       end.

Definition take_iv (ivs : list bytes) : bytes * list bytes :=
  match ivs with [] => (zeros 16, []) | iv :: r => (fit 16 iv, r) end.

(* CryptFilter::encrypt; consumes one IV for the AES filters (drawn after the key-length test) *)
Definition cf_encrypt (P : prims) (f : cfm) (key pt : bytes) (ivs : list bytes) : res (bytes * list bytes) :=
  match f with
  | CF_Identity => Ok (pt, ivs)
  | CF_RC4 => rlet c := rc4r key pt in Ok (c, ivs)
  | CF_AESV2 =>
    if negb (Nat.eqb (length key) 16) then Err D_InvalidKeyLength
    else let '(iv, ivs') := take_iv ivs in Ok (aes_cbc_encrypt P key iv pt, ivs')
  | CF_AESV3 =>
    if negb (Nat.eqb (length key) 32) then Err D_InvalidKeyLength
    else let '(iv, ivs') := take_iv ivs in Ok (aes_cbc_encrypt P key iv pt, ivs')
  end.

(* CryptFilter::decrypt *)
Definition cf_decrypt (P : prims) (f : cfm) (key ct : bytes) : res bytes :=
  match f with
  | CF_Identity => Ok ct
  | CF_RC4 => rc4r key ct
  | CF_AESV2 => if negb (Nat.eqb (length key) 16) then Err D_InvalidKeyLength else aes_cbc_decrypt P key ct
  | CF_AESV3 => if negb (Nat.eqb (length key) 32) then Err D_InvalidKeyLength else aes_cbc_decrypt P key ct
  end.

(* ---------- Permissions ---------- *)
(* Permissions::from_bits_truncate(P as u64) *)
Definition perms_of_Z (z : Z) : N := N.land (Z.to_N (Z.modulo z 18446744073709551616)) PERM_FLAGS.
(* Permissions::p_value *)
Definition p_value (bits : N) : N := N.lor bits P_RESERVED.
(* p_value as i64 *)
Definition p_value_i64 (bits : N) : Z :=
  let v := p_value bits in
  if 9223372036854775808 <=? v then (Z.of_N v - 18446744073709551616)%Z else Z.of_N v.

(* ---------- PasswordAlgorithm ---------- *)
Record palg := {
  pa_encrypt_metadata : bool;
  pa_length : option N;
  pa_version : Z;
  pa_revision : Z;
  pa_O : bytes;
  pa_OE : bytes;
  pa_U : bytes;
  pa_UE : bytes;
  pa_perms : N;
  pa_perms_enc : bytes;
}.

(* Document::get_encrypted / is_encrypted: the value of Encrypt is the encryption dictionary itself or a
   reference to it *)
Definition get_encrypted (d : doc) : option dict :=
  match dict_get (d_trailer d) K_Encrypt with
  | Some (ORef i g) => get_dictionary (d_objects d) (i, g)
  | Some (ODict e) => Some e
  | _ => None
  end.
Definition is_encrypted (d : doc) : bool :=
  match get_encrypted d with Some _ => true | None => false end.

Definition opt_str (o : option obj) : bytes :=
  match o with Some (OStr s _) => s | _ => [] end.

Definition len_is (s : bytes) (n : nat) : bool := Nat.eqb (length s) n.

(* impl TryFrom<&Document> for PasswordAlgorithm *)
Definition palg_of_doc (d : doc) : res palg :=
  match get_encrypted d with
  | None => Err D_MissingEncryptDictionary
  | Some e =>
    rlet em := match dict_get e K_EncryptMetadata with
               | None => Ok true
               | Some (OBool b) => Ok b
               | Some _ => Err D_InvalidType
               end in
    rlet length := match dict_get e K_Length with
                   | None => Ok None
                   | Some (OInt z) => if (z <? 0)%Z then Err E_TryFromInt else Ok (Some (Z.to_N z))
                   | Some _ => Err E_ObjectType
                   end in
    rlet version := match dict_get e K_V with
                    | None => Err D_MissingVersion
                    | Some (OInt z) => Ok z
                    | Some _ => Err D_InvalidType
                    end in
    rlet _ := (if (version =? 0)%Z then Err D_InvalidVersion
               else if (version =? 1)%Z || (version =? 2)%Z then Ok tt
               else if (version =? 3)%Z then Err D_InvalidVersion
               else if (version =? 4)%Z || (version =? 5)%Z then Ok tt
               else Err D_UnsupportedVersion) in
    rlet _ := match length with
              | Some _ => if (version <? 2)%Z then Err D_InvalidKeyLength else Ok tt
              | None => Ok tt
              end in
    (* V 5: the key is always 256 bits, the Length entry is ignored *)
    let length := if (version =? 5)%Z then None else length in
    rlet _ := match length with
              | Some l => if negb (l mod 8 =? 0) || negb ((KEYLEN_MIN <=? l) && (l <=? KEYLEN_MAX))
                          then Err D_InvalidKeyLength else Ok tt
              | None => Ok tt
              end in
    rlet revision := match dict_get e K_R with
                     | None => Err D_MissingRevision
                     | Some (OInt z) => Ok z
                     | Some _ => Err D_InvalidType
                     end in
    rlet ov := match dict_get e K_O with
               | None => Err D_MissingOwnerPassword
               | Some (OStr s _) => Ok s
               | Some _ => Err D_InvalidType
               end in
    if (revision <=? 4)%Z && negb (len_is ov 32) then Err D_InvalidHashLength
    else if (5 <=? revision)%Z && negb (len_is ov 48) then Err D_InvalidHashLength
    else
    let oe := opt_str (dict_get e K_OE) in
    if (5 <=? revision)%Z && negb (len_is oe 32) then Err D_InvalidCipherTextLength
    else
    rlet uv := match dict_get e K_U with
               | None => Err D_MissingUserPassword
               | Some (OStr s _) => Ok s
               | Some _ => Err D_InvalidType
               end in
    if (revision <=? 4)%Z && negb (len_is uv 32) then Err D_InvalidHashLength
    else if (5 <=? revision)%Z && negb (len_is uv 48) then Err D_InvalidHashLength
    else
    let ue := opt_str (dict_get e K_UE) in
    if (5 <=? revision)%Z && negb (len_is ue 32) then Err D_InvalidCipherTextLength
    else
    rlet pv := match dict_get e K_P with
               | None => Err D_MissingPermissions
               | Some (OInt z) => Ok z
               | Some _ => Err D_InvalidType
               end in
    let pe := opt_str (dict_get e K_Perms) in
    if (5 <=? revision)%Z && negb (len_is pe 16) then Err D_InvalidCipherTextLength
    else
    Ok {| pa_encrypt_metadata := em; pa_length := length; pa_version := version; pa_revision := revision;
          pa_O := ov; pa_OE := oe; pa_U := uv; pa_UE := ue; pa_perms := perms_of_Z pv; pa_perms_enc := pe |}
  end.

(* PasswordAlgorithm::sanitize_password: the preparation itself is outside the model (identity on the
   prepared byte string); the revision dispatch is kept *)
Definition sanitize_password (a : palg) (pw : bytes) : res bytes :=
  if (2 <=? pa_revision a)%Z && (pa_revision a <=? 6)%Z then Ok pw else Err D_UnsupportedRevision.

(* "pad or truncate to exactly 32 bytes" as the code writes it: password[..len] ++ PAD_BYTES[..32 - len] *)
Definition pad_pw (pw : bytes) : bytes :=
  let n := N.to_nat PW_PAD_LEN in
  let len := Nat.min (length pw) n in
  firstn len pw ++ firstn (Nat.sub n len) PAD_BYTES.

(* n = if revision >= 3 { length.unwrap_or(40) / 8 } else { 5 } *)
Definition key_n (a : palg) : N :=
  if (3 <=? pa_revision a)%Z then (match pa_length a with Some l => l | None => 40 end) / 8 else 5.

(* trailer /ID [ (first) ... ] *)
Definition file_id_0 (d : doc) : res bytes :=
  match dict_get (d_trailer d) K_ID with
  | None => Err D_MissingFileID
  | Some (OArr (OStr s _ :: _)) => Ok s
  | Some _ => Err D_InvalidType
  end.

(* Algorithm 2: compute_file_encryption_key_r4 *)
Definition compute_fek_r4 (P : prims) (a : palg) (d : doc) (pw : bytes) : res bytes :=
  rlet id0 := file_id_0 d in
  let n := key_n a in
  if 16 <? n then Err D_InvalidKeyLength
  else
    let h0 := p_md5 P (pad_pw pw ++ pa_O a ++ N_to_le 4 (p_value (pa_perms a)) ++ id0
                       ++ (if (4 <=? pa_revision a)%Z && negb (pa_encrypt_metadata a)
                           then [xff; xff; xff; xff] else [])) in
    let h := if (3 <=? pa_revision a)%Z
             then iter (N.to_nat MD5_ITER) (fun h => p_md5 P (firstn (N.to_nat n) h)) h0 else h0 in
    Ok (firstn (N.to_nat n) h).

Definition xor_key (key : bytes) (c : N) : bytes := map (fun b => bxor b (byte_lo c)) key.

(* result = Rc4::new(key ^ c).encrypt(result) for each counter c in order *)
Fixpoint rc4_chain (key : bytes) (cs : list N) (data : bytes) : res bytes :=
  match cs with
  | [] => Ok data
  | c :: cs' => rlet d := rc4r (xor_key key c) data in rc4_chain key cs' d
  end.
Definition counters_up : list N := map N.of_nat (seq 1 (N.to_nat RC4_ITER)).
Definition counters_down : list N := rev counters_up.

(* the MD5 chain shared by Algorithms 3 and 7: hash of the padded password, 50 more rounds for R >= 3 *)
Definition owner_hash (P : prims) (a : palg) (pw : bytes) : bytes :=
  let h0 := p_md5 P (pad_pw pw) in
  if (3 <=? pa_revision a)%Z then iter (N.to_nat MD5_ITER) (p_md5 P) h0 else h0.

(* Algorithm 3: compute_hashed_owner_password_r4 (the owner password is always supplied by try_from) *)
Definition owner_value_r4 (P : prims) (a : palg) (owner user : bytes) : res bytes :=
  let h := owner_hash P a owner in
  let n := key_n a in
  if 16 <? n then Err D_InvalidKeyLength
  else
    let key := firstn (N.to_nat n) h in
    rlet r := rc4r key (pad_pw user) in
    if (3 <=? pa_revision a)%Z then rc4_chain key counters_up r else Ok r.

(* Algorithm 4: compute_hashed_user_password_r2 *)
Definition user_value_r2 (P : prims) (a : palg) (d : doc) (user : bytes) : res bytes :=
  rlet k := compute_fek_r4 P a d user in rc4r k PAD_BYTES.

(* Algorithm 5: compute_hashed_user_password_r3_r4; [rnd] = the 16 bytes of arbitrary padding *)
Definition user_value_r3 (P : prims) (a : palg) (d : doc) (user : bytes) (rnd : bytes) : res bytes :=
  rlet k := compute_fek_r4 P a d user in
  rlet id0 := file_id_0 d in
  let h := p_md5 P (PAD_BYTES ++ id0) in
  rlet r := rc4r k h in
  rlet r := rc4_chain k counters_up r in
  Ok (firstn 16 (fit 32 r) ++ fit 16 rnd).

(* Algorithm 6: authenticate_user_password_r4 *)
Definition auth_user_r4 (P : prims) (a : palg) (d : doc) (pw : bytes) : res unit :=
  let r := pa_revision a in
  rlet hashed := (if (r =? 2)%Z then user_value_r2 P a d pw
                  else if (r =? 3)%Z || (r =? 4)%Z then user_value_r3 P a d pw []
                  else Err D_InvalidRevision) in
  let len := if (r =? 3)%Z || (r =? 4)%Z then 16%nat else length hashed in
  if Nat.ltb (length (pa_U a)) len then Err D_InvalidHashLength
  else if bytes_eqb (firstn len hashed) (firstn len (pa_U a)) then Ok tt
  else Err D_IncorrectPassword.

(* Algorithm 7 steps a-c: the user password recovered from /O with a purported owner password *)
Definition recover_user_r4 (P : prims) (a : palg) (owner : bytes) : res bytes :=
  let h := owner_hash P a owner in
  let n := key_n a in
  if 16 <? n then Err D_InvalidKeyLength
  else
    let key := firstn (N.to_nat n) h in
    rlet r := (if (3 <=? pa_revision a)%Z then rc4_chain key counters_down (pa_O a) else Ok (pa_O a)) in
    rc4r key r.

(* Algorithm 7: authenticate_owner_password_r4 *)
Definition auth_owner_r4 (P : prims) (a : palg) (d : doc) (pw : bytes) : res unit :=
  rlet u := recover_user_r4 P a pw in auth_user_r4 P a d u.

(* ---------- revisions 5 and 6 ---------- *)
Definition sum_bytes (l : bytes) : N := fold_left (fun acc b => acc + N_of_byte b) l 0.

(* Algorithm 2.B rounds.  The loop ends at the latest in round 287 (the last byte of E is at most
   255 = 287 - 32); [fuel] = 288 is never exhausted, the fuel-0 value is unreachable. *)
Fixpoint hash_rounds (P : prims) (pw uk : bytes) (fuel : nat) (round : N) (k : bytes) : bytes :=
  match fuel with
  | O => k
  | S f =>
    let k1 := concat (repeat (pw ++ k ++ uk) 64) in
    let e := cbc_encrypt_nopad (p_aes_enc P (firstn 16 k)) (firstn 16 (skipn 16 k)) k1 in
    let k' := match sum_bytes (firstn 16 e) mod 3 with
              | 0 => p_sha256 P e
              | 1 => p_sha384 P e
              | _ => p_sha512 P e
              end in
    if (HASH_MIN_ROUNDS <=? round) && (N_of_byte (last e x00) <=? round - HASH_ROUND_OFFSET) then k'
    else hash_rounds P pw uk f (round + 1) k'
  end.

(* Algorithm 2.B: compute_hash; [uk] = the 48-byte user key or [] *)
Definition compute_hash (P : prims) (a : palg) (pw salt uk : bytes) : bytes :=
  let k := p_sha256 P (pw ++ salt ++ uk) in
  if (pa_revision a =? 5)%Z then k
  else firstn 32 (hash_rounds P pw uk 288 1 k).

Definition slice (l : bytes) (from n : nat) : bytes := firstn n (skipn from l).

Definition trunc_pw (pw : bytes) : bytes := firstn (N.to_nat PW_TRUNC) pw.

(* Algorithm 13: validate_permissions *)
Definition validate_permissions (P : prims) (a : palg) (fek : bytes) : res unit :=
  let b := p_aes_dec P fek (pa_perms_enc a) in
  if negb (bytes_eqb (slice b 9 3) (bs "adb")) then Err D_IncorrectPassword
  else if negb (bytes_eqb (firstn 3 b) (firstn 3 (N_to_le 8 (p_value (pa_perms a))))) then Err D_IncorrectPassword
  else if negb (byte_eqb (nth 8 b x00) (if pa_encrypt_metadata a then "T"%byte else "F"%byte))
       then Err D_IncorrectPassword
  else Ok tt.

(* Algorithm 2.A: compute_file_encryption_key_r6 *)
Definition compute_fek_r6 (P : prims) (a : palg) (pw0 : bytes) : res bytes :=
  let pw := trunc_pw pw0 in
  let O := pa_O a in
  let U := pa_U a in
  if bytes_eqb (compute_hash P a pw (slice O 32 8) U) (firstn 32 O) then
    let key := compute_hash P a pw (slice O 40 8) U in
    Ok (cbc_decrypt_nopad (p_aes_dec P key) (zeros 16) (pa_OE a))
  else if bytes_eqb (compute_hash P a pw (slice U 32 8) []) (firstn 32 U) then
    let key := compute_hash P a pw (slice U 40 8) [] in
    let ue := cbc_decrypt_nopad (p_aes_dec P key) (zeros 16) (pa_UE a) in
    rlet _ := validate_permissions P a ue in
    Ok ue
  else Err D_IncorrectPassword.

(* Algorithm 8: compute_hashed_user_password_r6 -> (U, UE); [rnd] = validation salt ++ key salt *)
Definition user_value_r6 (P : prims) (a : palg) (fek pw0 rnd : bytes) : bytes * bytes :=
  let pw := trunc_pw pw0 in
  let r := fit 16 rnd in
  let u := compute_hash P a pw (firstn 8 r) [] ++ r in
  let key := compute_hash P a pw (skipn 8 r) [] in
  (u, cbc_encrypt_nopad (p_aes_enc P key) (zeros 16) fek).

(* Algorithm 9: compute_hashed_owner_password_r6 -> (O, OE); uses the U value already stored in [a] *)
Definition owner_value_r6 (P : prims) (a : palg) (fek pw0 rnd : bytes) : bytes * bytes :=
  let pw := trunc_pw pw0 in
  let r := fit 16 rnd in
  let o := compute_hash P a pw (firstn 8 r) (pa_U a) ++ r in
  let key := compute_hash P a pw (skipn 8 r) (pa_U a) in
  (o, cbc_encrypt_nopad (p_aes_enc P key) (zeros 16) fek).

(* Algorithm 10: compute_permissions; [rnd] = the 4 ignored bytes *)
Definition perms_plain (a : palg) (rnd : bytes) : bytes :=
  N_to_le 8 (p_value (pa_perms a)) ++ [if pa_encrypt_metadata a then "T"%byte else "F"%byte]
  ++ bs "adb" ++ fit 4 rnd.
Definition perms_r6 (P : prims) (a : palg) (fek rnd : bytes) : bytes :=
  p_aes_enc P fek (perms_plain a rnd).

(* Algorithm 11 / 12 *)
Definition auth_user_r6 (P : prims) (a : palg) (pw0 : bytes) : res unit :=
  let pw := trunc_pw pw0 in
  if bytes_eqb (compute_hash P a pw (slice (pa_U a) 32 8) []) (firstn 32 (pa_U a)) then Ok tt
  else Err D_IncorrectPassword.
Definition auth_owner_r6 (P : prims) (a : palg) (pw0 : bytes) : res unit :=
  let pw := trunc_pw pw0 in
  if bytes_eqb (compute_hash P a pw (slice (pa_O a) 32 8) (pa_U a)) (firstn 32 (pa_O a)) then Ok tt
  else Err D_IncorrectPassword.

Definition rev_2_4 (a : palg) : bool := (2 <=? pa_revision a)%Z && (pa_revision a <=? 4)%Z.
Definition rev_5_6 (a : palg) : bool := (5 <=? pa_revision a)%Z && (pa_revision a <=? 6)%Z.

(* PasswordAlgorithm::authenticate_user_password / authenticate_owner_password *)
Definition auth_user (P : prims) (a : palg) (d : doc) (pw : bytes) : res unit :=
  if rev_2_4 a then auth_user_r4 P a d pw
  else if rev_5_6 a then auth_user_r6 P a pw
  else Err D_UnsupportedRevision.
Definition auth_owner (P : prims) (a : palg) (d : doc) (pw : bytes) : res unit :=
  if rev_2_4 a then auth_owner_r4 P a d pw
  else if rev_5_6 a then auth_owner_r6 P a pw
  else Err D_UnsupportedRevision.

(* PasswordAlgorithm::compute_file_encryption_key.  Revisions 2-4 (after the repair of the owner
   path): Algorithm 2 takes the USER password; a password that does not authenticate as the user
   password but whose Algorithm-7 recovery does is the owner password, and the key is derived from
   the recovered user password. *)
Definition compute_fek (P : prims) (a : palg) (d : doc) (pw : bytes) : res bytes :=
  if rev_2_4 a then
    match auth_user_r4 P a d pw with
    | Ok _ => compute_fek_r4 P a d pw
    | Panic => Panic
    | Err _ =>
      match recover_user_r4 P a pw with
      | Panic => Panic
      | Err _ => compute_fek_r4 P a d pw
      | Ok u =>
        match auth_user_r4 P a d u with
        | Ok _ => compute_fek_r4 P a d u
        | Panic => Panic
        | Err _ => compute_fek_r4 P a d pw
        end
      end
    end
  else if rev_5_6 a then compute_fek_r6 P a pw
  else Err D_UnsupportedRevision.

(* ---------- EncryptionState ---------- *)
Record estate := {
  es_version : Z;
  es_revision : Z;
  es_key_length : option N;
  es_encrypt_metadata : bool;
  es_crypt_filters : cfmap;
  es_key : bytes;
  es_stmf : bytes;
  es_strf : bytes;
  es_eff : option bytes;          (* embedded_file_filter: the EFF entry, read by decode only *)
  es_O : bytes;
  es_OE : bytes;
  es_U : bytes;
  es_UE : bytes;
  es_perms : N;
  es_perms_enc : bytes;
}.

(* EncryptionVersion (the borrowed document is a separate argument of [try_from_version]) *)
Inductive eversion :=
| EV1 (owner user : bytes) (perms : N)
| EV2 (owner user : bytes) (key_length : N) (perms : N)
| EV4 (em : bool) (cfs : cfmap) (stmf strf : bytes) (owner user : bytes) (perms : N)
| ER5 (em : bool) (cfs : cfmap) (fek : bytes) (stmf strf : bytes) (owner user : bytes) (perms : N)
| EV5 (em : bool) (cfs : cfmap) (fek : bytes) (stmf strf : bytes) (owner user : bytes) (perms : N).

Definition palg0 (em : bool) (len : option N) (v r : Z) (perms : N) : palg :=
  {| pa_encrypt_metadata := em; pa_length := len; pa_version := v; pa_revision := r;
     pa_O := []; pa_OE := []; pa_U := []; pa_UE := []; pa_perms := perms; pa_perms_enc := [] |}.
Definition with_O (a : palg) (o : bytes) : palg :=
  {| pa_encrypt_metadata := pa_encrypt_metadata a; pa_length := pa_length a; pa_version := pa_version a;
     pa_revision := pa_revision a; pa_O := o; pa_OE := pa_OE a; pa_U := pa_U a; pa_UE := pa_UE a;
     pa_perms := pa_perms a; pa_perms_enc := pa_perms_enc a |}.
Definition with_U (a : palg) (u ue : bytes) : palg :=
  {| pa_encrypt_metadata := pa_encrypt_metadata a; pa_length := pa_length a; pa_version := pa_version a;
     pa_revision := pa_revision a; pa_O := pa_O a; pa_OE := pa_OE a; pa_U := u; pa_UE := ue;
     pa_perms := pa_perms a; pa_perms_enc := pa_perms_enc a |}.

Definition draw (rnd : list bytes) (k : nat) : bytes := nth k rnd [].

(* V1 / V2 / V4: O (Algorithm 3; an empty owner password means "none": the user password is used), then U
   (Algorithm 4 or 5, computed with O in place), then the key *)
Definition try_from_r4 (P : prims) (d : doc) (a0 : palg) (owner user : bytes) (rnd : list bytes)
           (cfs : cfmap) (stmf strf : bytes) : res estate :=
  rlet o := owner_value_r4 P a0 (match owner with [] => user | _ => owner end) user in
  let a := with_O a0 o in
  rlet u := (if (pa_revision a =? 2)%Z then user_value_r2 P a d user
             else user_value_r3 P a d user (draw rnd 0)) in
  rlet k := compute_fek_r4 P a d user in
  Ok {| es_version := pa_version a; es_revision := pa_revision a; es_key_length := pa_length a;
        es_encrypt_metadata := pa_encrypt_metadata a; es_crypt_filters := cfs; es_key := k;
        es_stmf := stmf; es_strf := strf; es_eff := None; es_O := o; es_OE := []; es_U := u; es_UE := [];
        es_perms := pa_perms a; es_perms_enc := [] |}.

(* R5 / V5: U, UE (Algorithm 8), then O, OE (Algorithm 9), then Perms (Algorithm 10) *)
Definition try_from_r6 (P : prims) (a0 : palg) (fek owner user : bytes) (rnd : list bytes)
           (cfs : cfmap) (stmf strf : bytes) : res estate :=
  if negb (len_is fek 32) then Err D_InvalidKeyLength
  else
    let '(u, ue) := user_value_r6 P a0 fek user (draw rnd 0) in
    let a := with_U a0 u ue in
    let '(o, oe) := owner_value_r6 P a fek owner (draw rnd 1) in
    let pe := perms_r6 P a fek (draw rnd 2) in
    Ok {| es_version := pa_version a; es_revision := pa_revision a; es_key_length := pa_length a;
          es_encrypt_metadata := pa_encrypt_metadata a; es_crypt_filters := cfs; es_key := fek;
          es_stmf := stmf; es_strf := strf; es_eff := None; es_O := o; es_OE := oe; es_U := u; es_UE := ue;
          es_perms := pa_perms a; es_perms_enc := pe |}.

(* impl TryFrom<EncryptionVersion> for EncryptionState *)
Definition try_from_version (P : prims) (d : doc) (v : eversion) (rnd : list bytes) : res estate :=
  match v with
  | EV1 owner user perms => try_from_r4 P d (palg0 true None 1 2 perms) owner user rnd [] [] []
  | EV2 owner user kl perms => try_from_r4 P d (palg0 true (Some kl) 2 3 perms) owner user rnd [] [] []
  | EV4 em cfs stmf strf owner user perms =>
    try_from_r4 P d (palg0 em (Some 128) 4 4 perms) owner user rnd cfs stmf strf
  | ER5 em cfs fek stmf strf owner user perms =>
    try_from_r6 P (palg0 em None 5 5 perms) fek owner user rnd cfs stmf strf
  | EV5 em cfs fek stmf strf owner user perms =>
    try_from_r6 P (palg0 em None 5 6 perms) fek owner user rnd cfs stmf strf
  end.

(* EncryptionState::encode *)
Definition encode (st : estate) : dict :=
  let e := dict_set [] K_Filter (OName N_Standard) in
  let e := dict_set e K_V (OInt (es_version st)) in
  let e := dict_set e K_R (OInt (es_revision st)) in
  let e := match es_key_length st with Some l => dict_set e K_Length (OInt (Z.of_N l)) | None => e end in
  let e := if (4 <=? es_version st)%Z then dict_set e K_EncryptMetadata (OBool (es_encrypt_metadata st)) else e in
  let e := dict_set e K_O (OStr (es_O st) false) in
  let e := dict_set e K_U (OStr (es_U st) false) in
  let e := dict_set e K_P (OInt (p_value_i64 (es_perms st))) in
  let e := if (4 <=? es_revision st)%Z then
             let filters := fold_left (fun fs nf =>
                              dict_set fs (fst nf)
                                (ODict (dict_set (dict_set [] K_Type (OName N_CryptFilter)) K_CFM
                                                 (OName (cfm_method (snd nf))))))
                              (es_crypt_filters st) [] in
             let e := dict_set e K_CF (ODict filters) in
             let e := dict_set e K_StmF (OName (es_stmf st)) in
             let e := dict_set e K_StrF (OName (es_strf st)) in
             match es_eff st with Some n => dict_set e K_EFF (OName n) | None => e end
           else e in
  if (5 <=? es_revision st)%Z then
    let e := dict_set e K_OE (OStr (es_OE st) false) in
    let e := dict_set e K_UE (OStr (es_UE st) false) in
    dict_set e K_Perms (OStr (es_perms_enc st) false)
  else e.

(* Document::get_crypt_filters *)
Definition get_crypt_filters (d : doc) : cfmap :=
  match get_encrypted d with
  | None => []
  | Some e =>
    match dict_get e K_CF with
    | Some (ODict filters) =>
      fold_left (fun m nf =>
        match snd nf with
        | ODict f =>
          if dict_has f K_Type && negb (has_type f N_CryptFilter) then m
          else match dict_get f K_CFM with
               | Some (OName n) =>
                 if bytes_eqb n N_V2 then bt_insert m (fst nf) CF_RC4
                 else if bytes_eqb n N_AESV2 then bt_insert m (fst nf) CF_AESV2
                 else if bytes_eqb n N_AESV3 then bt_insert m (fst nf) CF_AESV3
                 else if bytes_eqb n N_None || bytes_eqb n N_Identity then bt_insert m (fst nf) CF_Identity
                 else m
               | _ => bt_insert m (fst nf) CF_Identity
               end
        | _ => m
        end) filters []
    | _ => []
    end
  end.

(* EncryptionState::decode *)
Definition decode (P : prims) (d : doc) (pw : bytes) : res estate :=
  match get_encrypted d with
  | None => Err E_NotEncrypted
  | Some e =>
    match dict_get e K_Filter with
    | Some (OName f) =>
      if negb (bytes_eqb f N_Standard) then Err E_UnsupportedSecurityHandler
      else
        rlet a := palg_of_doc d in
        rlet k := compute_fek P a d pw in
        let cfs := if (pa_version a <? 4)%Z then [] else get_crypt_filters d in
        let v45 := (pa_version a =? 4)%Z || (pa_version a =? 5)%Z in
        let stmf := if v45 then match dict_get e K_StmF with Some (OName n) => n | _ => N_Identity end else [] in
        let strf := if v45 then match dict_get e K_StrF with Some (OName n) => n | _ => N_Identity end else [] in
        let eff := if v45 then match dict_get e K_EFF with Some (OName n) => Some n | _ => None end else None in
        Ok {| es_version := pa_version a; es_revision := pa_revision a; es_key_length := pa_length a;
              es_encrypt_metadata := pa_encrypt_metadata a; es_crypt_filters := cfs; es_key := k;
              es_stmf := stmf; es_strf := strf; es_eff := eff; es_O := pa_O a; es_OE := pa_OE a; es_U := pa_U a;
              es_UE := pa_UE a; es_perms := pa_perms a; es_perms_enc := pa_perms_enc a |}
    | _ => Err E_DictKey
    end
  end.

(* get_crypt_filter: the predefined name Identity, else the CF entry, else (unknown name) RC4 *)
Definition get_crypt_filter (st : estate) (name : bytes) : cfm :=
  if bytes_eqb name N_Identity then CF_Identity
  else match bt_get (es_crypt_filters st) name with Some f => f | None => CF_RC4 end.
Definition stream_filter (st : estate) : cfm := get_crypt_filter st (es_stmf st).
Definition string_filter (st : estate) : cfm := get_crypt_filter st (es_strf st).
(* get_embedded_file_filter: the filter EFF names, the stream filter if there is no EFF entry *)
Definition embedded_file_filter (st : estate) : cfm :=
  match es_eff st with Some n => get_crypt_filter st n | None => stream_filter st end.

(* ---------- encrypt_object / decrypt_object ---------- *)
Definition is_xref_stream (o : obj) : bool :=
  match o with OStream d _ => has_type d N_XRef | _ => false end.
Definition is_metadata_stream (o : obj) : bool :=
  match o with OStream d _ => has_type d N_Metadata | _ => false end.
(* the two early returns shared by encrypt_object and decrypt_object: cross-reference streams, and the
   metadata STREAM when EncryptMetadata is false *)
Definition skip_object (st : estate) (o : obj) : bool :=
  is_xref_stream o || (is_metadata_stream o && negb (es_encrypt_metadata st)).

(* Stream::filters *)
Definition stream_filters (d : dict) : option (list bytes) :=
  match dict_get d K_Filter with
  | Some (OName n) => Some [n]
  | Some (OArr l) => omap (fun o => match o with OName n => Some n | _ => None end) l
  | _ => None
  end.

(* filters.iter().position(|filter| *filter == b"Crypt") *)
Fixpoint position (n : bytes) (l : list bytes) : option nat :=
  match l with
  | [] => None
  | x :: r => if bytes_eqb x n then Some 0%nat else option_map S (position n r)
  end.

(* get_override_crypt_filter: a stream whose Filter lists Crypt always has one.  Its decode parameters are the
   DecodeParms entry, or -- DecodeParms being an array -- the element at the position Crypt has among the
   filters; whatever is missing or ill-typed on the way to their Name, and an unknown name, give Identity *)
Definition override_filter (st : estate) (o : obj) : option cfm :=
  match o with
  | OStream d _ =>
    match stream_filters d with
    | Some fs =>
      match position N_Crypt fs with
      | Some k =>
        let params := match dict_get d K_DecodeParms with
                      | Some (OArr ps) => nth_error ps k
                      | other => other
                      end in
        Some (match params with
              | Some (ODict dp) =>
                match dict_get dp K_Name with
                | Some (OName n) => match bt_get (es_crypt_filters st) n with Some f => f | None => CF_Identity end
                | _ => CF_Identity
                end
              | _ => CF_Identity
              end)
      | None => None
      end
    | None => None
    end
  | _ => None
  end.

(* the crypt filter of a stream: its own (Crypt filter), else the one of the embedded file streams for a
   stream of Type EmbeddedFile, else the stream filter *)
Definition stream_cf (st : estate) (o : obj) : cfm :=
  match override_filter st o with
  | Some f => f
  | None =>
    match o with
    | OStream d _ => if has_type d N_EmbeddedFile then embedded_file_filter st else stream_filter st
    | _ => stream_filter st
    end
  end.

(* Stream::set_content *)
Definition set_content (d : dict) (c : bytes) : obj :=
  OStream (dict_set d K_Length (OInt (Z.of_nat (length c)))) c.

Fixpoint encrypt_object (P : prims) (st : estate) (id : oid) (o : obj) (ivs : list bytes)
  : res (obj * list bytes) :=
  if skip_object st o then Ok (o, ivs)
  else
    match o with
    | OArr l =>
      rlet r := (fix go (l : list obj) (ivs : list bytes) : res (list obj * list bytes) :=
                   match l with
                   | [] => Ok ([], ivs)
                   | x :: l' =>
                     rlet r1 := encrypt_object P st id x ivs in
                     rlet r2 := go l' (snd r1) in
                     Ok (fst r1 :: fst r2, snd r2)
                   end) l ivs in
      Ok (OArr (fst r), snd r)
    | ODict d =>
      rlet r := (fix go (d : dict) (ivs : list bytes) : res (dict * list bytes) :=
                   match d with
                   | [] => Ok ([], ivs)
                   | (k, x) :: d' =>
                     rlet r1 := encrypt_object P st id x ivs in
                     rlet r2 := go d' (snd r1) in
                     Ok ((k, fst r1) :: fst r2, snd r2)
                   end) d ivs in
      Ok (ODict (fst r), snd r)
    | OStr s h =>
      let f := string_filter st in
      rlet r := cf_encrypt P f (cf_compute_key P f (es_key st) id) s ivs in
      Ok (OStr (fst r) h, snd r)
    | OStream d c =>
      let f := stream_cf st o in
      (* first every value of the stream dictionary, in order, then the content *)
      rlet rd := (fix go (d : dict) (ivs : list bytes) : res (dict * list bytes) :=
                    match d with
                    | [] => Ok ([], ivs)
                    | (k, x) :: d' =>
                      rlet r1 := encrypt_object P st id x ivs in
                      rlet r2 := go d' (snd r1) in
                      Ok ((k, fst r1) :: fst r2, snd r2)
                    end) d ivs in
      rlet r := cf_encrypt P f (cf_compute_key P f (es_key st) id) c (snd rd) in
      Ok (set_content (fst rd) (fst r), snd r)
    | _ => Ok (o, ivs)
    end.

Fixpoint decrypt_object (P : prims) (st : estate) (id : oid) (o : obj) : res obj :=
  if skip_object st o then Ok o
  else
    match o with
    | OArr l =>
      rlet l' := (fix go (l : list obj) : res (list obj) :=
                    match l with
                    | [] => Ok []
                    | x :: l' =>
                      rlet x' := decrypt_object P st id x in
                      rlet r := go l' in
                      Ok (x' :: r)
                    end) l in
      Ok (OArr l')
    | ODict d =>
      rlet d' := (fix go (d : dict) : res dict :=
                    match d with
                    | [] => Ok []
                    | (k, x) :: d' =>
                      rlet x' := decrypt_object P st id x in
                      rlet r := go d' in
                      Ok ((k, x') :: r)
                    end) d in
      Ok (ODict d')
    | OStr s h =>
      let f := string_filter st in
      rlet p := cf_decrypt P f (cf_compute_key P f (es_key st) id) s in
      Ok (OStr p h)
    | OStream d c =>
      let f := stream_cf st o in
      rlet d' := (fix go (d : dict) : res dict :=
                    match d with
                    | [] => Ok []
                    | (k, x) :: d' =>
                      rlet x' := decrypt_object P st id x in
                      rlet r := go d' in
                      Ok ((k, x') :: r)
                    end) d in
      rlet p := cf_decrypt P f (cf_compute_key P f (es_key st) id) c in
      Ok (set_content d' p)
    | _ => Ok o
    end.

(* ---------- Document::encrypt / decrypt ---------- *)
Fixpoint encrypt_objects (P : prims) (st : estate) (m : objmap) (ivs : list bytes) : res (objmap * list bytes) :=
  match m with
  | [] => Ok ([], ivs)
  | (id, o) :: m' =>
    rlet r1 := encrypt_object P st id o ivs in
    rlet r2 := encrypt_objects P st m' (snd r1) in
    Ok ((id, fst r1) :: fst r2, snd r2)
  end.

Fixpoint decrypt_objects (P : prims) (st : estate) (skip : option oid) (m : objmap) : res objmap :=
  match m with
  | [] => Ok []
  | (id, o) :: m' =>
    rlet o' := (if (match skip with Some s => oid_eqb id s | None => false end) then Ok o
                else decrypt_object P st id o) in
    rlet r := decrypt_objects P st skip m' in
    Ok ((id, o') :: r)
  end.

(* outcome of an operation on [&mut Document]:
   [DOk d' x]      Ok(()) with the document now d' (x: extra observable result);
   [DErr e]        Err(e) raised before anything was written: the document is unchanged;
   [DErrMid e]     Err(e) raised inside the loop over the objects: the document is left partly
                   processed (that intermediate state is not modelled and not compared);
   [DPanic]. *)
Inductive dres (X : Type) :=
| DOk (d : doc) (x : X) | DErr (e : err) | DErrMid (e : err) | DPanic.
Arguments DOk {X} d x.
Arguments DErr {X} e.
Arguments DErrMid {X} e.
Arguments DPanic {X}.

Definition u32_max : N := 4294967295.

(* Document::encrypt (add_object: max_id += 1 overflows at u32::MAX -- overflow checks are on) *)
Definition doc_encrypt (P : prims) (st : estate) (d : doc) (ivs : list bytes) : dres unit :=
  if is_encrypted d then DErr E_AlreadyEncrypted
  else
    let e := encode st in
    match encrypt_objects P st (d_objects d) ivs with
    | Err er => DErrMid er
    | Panic => DPanic
    | Ok r =>
      if d_max_id d =? u32_max then DPanic
      else
        let id := (d_max_id d + 1, 0) in
        DOk {| d_version := d_version d; d_binary_mark := d_binary_mark d;
               d_trailer := dict_set (d_trailer d) K_Encrypt (ORef (fst id) (snd id));
               d_objects := insert (fst r) id (ODict e);
               d_max_id := d_max_id d + 1 |} tt
    end.

(* Document::authenticate_raw_password: Result::or evaluates both sides *)
Definition authenticate_raw_password (P : prims) (d : doc) (pw : bytes) : res unit :=
  if negb (is_encrypted d) then Err E_NotEncrypted
  else
    rlet a := palg_of_doc d in
    match auth_owner P a d pw, auth_user P a d pw with
    | Panic, _ => Panic
    | _, Panic => Panic
    | Ok _, _ => Ok tt
    | Err _, r => r
    end.
Definition authenticate_raw_owner_password (P : prims) (d : doc) (pw : bytes) : res unit :=
  if negb (is_encrypted d) then Err E_NotEncrypted
  else rlet a := palg_of_doc d in auth_owner P a d pw.
Definition authenticate_raw_user_password (P : prims) (d : doc) (pw : bytes) : res unit :=
  if negb (is_encrypted d) then Err E_NotEncrypted
  else rlet a := palg_of_doc d in auth_user P a d pw.

Definition has_objstm (m : objmap) : bool :=
  existsb (fun io => match snd io with OStream d _ => has_type d N_ObjStm | _ => false end) m.

(* decrypt_raw's object-stream pass ("Add the objects from the object streams now that they have been decrypted, by
   the rules the reader applies to a file that is not encrypted", since repo 959d50f):
     for (id, object) in self.objects.iter_mut() {
         stream of Type ObjStm?  ObjectStream::new(stream): the stream is decompressed IN PLACE (errors ignored),
         its index and objects are parsed; on Ok the block (id.0, members) is pushed, on Err nothing is
     }
     pass A, per block in that order: the members the cross-reference table places in THIS container
       (reference_table.get(num) == Some(Compressed { container == id.0 })): self.objects.entry(id).or_insert(entry)
     pass B, the remaining members of all blocks in order: inserted only when no object of that NUMBER is present,
       under whatever generation (objects.range((num, 0)..=(num, u16::MAX)) is empty)
   The loader does the same at load time for a document that is not encrypted; for an encrypted file it leaves the
   object streams alone, so this pass is where their members appear.
   Document.reference_table is not a component of [doc]: [xr num] = the container the table gives for [num] in a
   Compressed entry.  [fun _ => None] is a document whose table has no such entry: every document built in memory and
   every file lopdf wrote (its writer never emits them). *)
Fixpoint objstm_scan (P : prims) (m : objmap) : objmap * list (N * objmap) :=
  match m with
  | [] => ([], [])
  | (id, o) :: m' =>
    let r := objstm_scan P m' in
    match o with
    | OStream d c =>
      if has_type d N_ObjStm then
        let n := ObjStm.objstm_new (p_decompress P) d c in
        ((id, OStream (fst (fst n)) (snd (fst n))) :: fst r,
         match snd n with ObjStm.OsOk objs => (fst id, objs) :: snd r | ObjStm.OsErr _ => snd r end)
      else ((id, o) :: fst r, snd r)
    | _ => ((id, o) :: fst r, snd r)
    end
  end.
Definition or_insert (m : objmap) (e : oid * obj) : objmap :=
  match lookup m (fst e) with Some _ => m | None => insert m (fst e) (snd e) end.
Definition xref_names (xr : N -> option N) (container : N) (e : oid * obj) : bool :=
  match xr (fst (fst e)) with Some c => c =? container | None => false end.
Definition has_number (m : objmap) (num : N) : bool := existsb (fun io => fst (fst io) =? num) m.
Definition add_rest (m : objmap) (e : oid * obj) : objmap :=
  if has_number m (fst (fst e)) then m else insert m (fst e) (snd e).
Definition objstm_merge (xr : N -> option N) (blocks : list (N * objmap)) (m : objmap) : objmap :=
  fold_left add_rest
    (flat_map (fun b => filter (fun e => negb (xref_names xr (fst b) e)) (snd b)) blocks)
    (fold_left or_insert (flat_map (fun b => filter (xref_names xr (fst b)) (snd b)) blocks) m).
Definition objstm_pass (P : prims) (xr : N -> option N) (m : objmap) : objmap :=
  let r := objstm_scan P m in objstm_merge xr (snd r) (fst r).

(* Document::decrypt_raw; the extra result is the EncryptionState stored in the document; [xr]: see objstm_scan *)
Definition doc_decrypt_raw_x (P : prims) (xr : N -> option N) (d : doc) (pw : bytes) : dres estate :=
  if negb (is_encrypted d) then DErr E_NotEncrypted
  else
    match authenticate_raw_password P d pw with
    | Err e => DErr e
    | Panic => DPanic
    | Ok _ =>
      (* the id of the encryption dictionary if it is an indirect object: skipped, and removed at the end *)
      let eid := match dict_get (d_trailer d) K_Encrypt with Some (ORef i g) => Some (i, g) | _ => None end in
      match decode P d pw with
      | Err e => DErr e
      | Panic => DPanic
      | Ok st =>
        match decrypt_objects P st eid (d_objects d) with
        | Err e => DErrMid e
        | Panic => DPanic
        | Ok objs =>
          let objs := objstm_pass P xr objs in
          DOk {| d_version := d_version d; d_binary_mark := d_binary_mark d;
                 d_trailer := dict_swap_remove (d_trailer d) K_Encrypt;
                 d_objects := (match eid with Some id => remove objs id | None => objs end);
                 d_max_id := d_max_id d |} st
        end
      end
    end.

(* a document whose cross-reference table has no Compressed entries (built in memory, or written by lopdf) *)
Definition doc_decrypt_raw (P : prims) (d : doc) (pw : bytes) : dres estate := doc_decrypt_raw_x P (fun _ => None) d pw.

(* Document::decrypt (password already prepared) *)
Definition doc_decrypt_x (P : prims) (xr : N -> option N) (d : doc) (pw : bytes) : dres estate :=
  if negb (is_encrypted d) then DErr E_NotEncrypted
  else
    match palg_of_doc d with
    | Err e => DErr e
    | Panic => DPanic
    | Ok a =>
      match sanitize_password a pw with
      | Err e => DErr e
      | Panic => DPanic
      | Ok pw' => doc_decrypt_raw_x P xr d pw'
      end
    end.
Definition doc_decrypt (P : prims) (d : doc) (pw : bytes) : dres estate := doc_decrypt_x P (fun _ => None) d pw.

(* the IVs an encrypted object carries, in the order encrypt_object drew them (used by the
   correspondence runner to replay the implementation's random choices) *)
Definition is_aes (f : cfm) : bool := match f with CF_AESV2 | CF_AESV3 => true | _ => false end.
Fixpoint collect_ivs (st : estate) (o : obj) : list bytes :=
  if skip_object st o then []
  else
    match o with
    | OArr l => flat_map (collect_ivs st) l
    | ODict d => flat_map (fun kv => collect_ivs st (snd kv)) d
    | OStr s _ => if is_aes (string_filter st) then [firstn 16 s] else []
    | OStream d c => flat_map (fun kv => collect_ivs st (snd kv)) d
                     ++ (if is_aes (stream_cf st o) then [firstn 16 c] else [])
    | _ => []
    end.
