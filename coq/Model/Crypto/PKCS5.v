(* PKCS5.v -- model of src/encryption/pkcs5.rs (lopdf's own padding) as it is driven by the
   `cipher` crate's encrypt_padded_mut / decrypt_padded_mut, plus CBC / ECB chaining over an
   arbitrary 16-byte block function (the block cipher itself is a parameter: third-party code).
   Definitions only. *)
From LV Require Import Base.Bytes Model.Crypto.Word.
Local Open Scope N_scope.

(* encrypt_padded_mut::<Pkcs5>(buf, msg_len): the block holding position msg_len is filled from
   pos = msg_len % 16 with n = 16 - pos (raw_pad); a message that is a multiple of 16 gets a
   whole block of 0x10. *)
Definition pkcs5_pad (m : bytes) : bytes :=
  let n := Nat.sub 16 (Nat.modulo (length m) 16) in
  m ++ repeat (byte_lo (N.of_nat n)) n.

(* Pkcs5::unpad(block, strict = true) on the last 16-byte block *)
Definition pkcs5_unpad_block (blk : bytes) : option bytes :=
  let bs := length blk in
  let nb := nth (Nat.sub bs 1) blk x00 in
  let n := N.to_nat (N_of_byte nb) in
  if Nat.eqb n 0 || Nat.ltb bs n then None
  else
    let s := Nat.sub bs n in
    (* strict: block[s..bs-1] must all equal n *)
    if forallb (fun v => byte_eqb v nb) (firstn (Nat.sub (Nat.sub bs 1) s) (skipn s blk))
    then Some (firstn s blk) else None.

(* unpad_blocks for a Reversible padding: no block at all is an error *)
Definition pkcs5_unpad (data : bytes) : option bytes :=
  let len := length data in
  if Nat.eqb len 0 then None
  else
    let body := Nat.sub len 16 in
    match pkcs5_unpad_block (skipn body data) with
    | None => None
    | Some t => Some (firstn body data ++ t)
    end.

(* CBC over whole blocks.  [E] / [D] are the block functions for a fixed key. *)
Fixpoint cbc_enc (E : bytes -> bytes) (iv : bytes) (blocks : list bytes) : list bytes :=
  match blocks with
  | [] => []
  | b :: rest => let c := E (xor_bytes b iv) in c :: cbc_enc E c rest
  end.
Fixpoint cbc_dec (D : bytes -> bytes) (iv : bytes) (blocks : list bytes) : list bytes :=
  match blocks with
  | [] => []
  | c :: rest => xor_bytes (D c) iv :: cbc_dec D c rest
  end.

(* chunks_exact(16): a trailing partial block is left untouched (copied through) *)
Definition exact_blocks (data : bytes) : list bytes * bytes :=
  let n := Nat.mul (Nat.div (length data) 16) 16 in
  (chunks16 (firstn n data), skipn n data).

Definition cbc_encrypt_nopad (E : bytes -> bytes) (iv data : bytes) : bytes :=
  let '(blocks, tail) := exact_blocks data in concat (cbc_enc E iv blocks) ++ tail.
Definition cbc_decrypt_nopad (D : bytes -> bytes) (iv data : bytes) : bytes :=
  let '(blocks, tail) := exact_blocks data in concat (cbc_dec D iv blocks) ++ tail.

(* Aes*CbcEnc::new(key, iv).encrypt_padded_mut::<Pkcs5>(..) / decrypt_padded_mut *)
Definition cbc_encrypt_padded (E : bytes -> bytes) (iv m : bytes) : bytes :=
  concat (cbc_enc E iv (chunks16 (pkcs5_pad m))).
Definition cbc_decrypt_padded (D : bytes -> bytes) (iv c : bytes) : option bytes :=
  if negb (Nat.eqb (Nat.modulo (length c) 16) 0) then None
  else pkcs5_unpad (concat (cbc_dec D iv (chunks16 c))).
