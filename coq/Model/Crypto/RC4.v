(* RC4.v -- model of src/encryption/rc4.rs (lopdf's own RC4), branch for branch.
   [Rc4::new] asserts 1 <= key.len() <= 256: the model returns [None] for the panic.
   The permutation is a list of 256 bytes; u8 arithmetic wraps ([N.land _ 255]). *)
From LV Require Import Base.Bytes Model.Crypto.Word.
Local Open Scope N_scope.

Definition sget (st : bytes) (i : N) : byte := nth (N.to_nat i) st x00.

Fixpoint sset (st : bytes) (i : nat) (v : byte) : bytes :=
  match st with
  | [] => []
  | x :: r => match i with O => v :: r | S k => x :: sset r k v end
  end.

(* slice::swap(i, j) *)
Definition sswap (st : bytes) (i j : N) : bytes :=
  let a := sget st i in
  let b := sget st j in
  sset (sset st (N.to_nat i) b) (N.to_nat j) a.

(* for (i, v) in initial_state.iter_mut().enumerate() { *v = i as u8 } *)
Definition rc4_identity : bytes := map (fun k => byte_lo (N.of_nat k)) (seq 0 256).

(* for i in 0..256 { j = j.wrapping_add(state[i]).wrapping_add(key[i % key.len()]); state.swap(i, j) } *)
Fixpoint rc4_ksa (n : nat) (i j : N) (key : bytes) (klen : N) (st : bytes) : bytes :=
  match n with
  | O => st
  | S m =>
    let j' := N.land (j + N_of_byte (sget st i) + N_of_byte (sget key (i mod klen))) 255 in
    rc4_ksa m (i + 1) j' key klen (sswap st i j')
  end.

Definition rc4_new (key : bytes) : option bytes :=
  let klen := N.of_nat (length key) in
  if (klen =? 0) || (256 <? klen) then None          (* assert! fails: panic *)
  else Some (rc4_ksa 256 0 0 key klen rc4_identity).

(* apply_keystream: the loop body, once per input byte *)
Fixpoint rc4_apply (st : bytes) (i j : N) (input : bytes) : bytes :=
  match input with
  | [] => []
  | b :: rest =>
    let i' := N.land (i + 1) 255 in
    let j' := N.land (j + N_of_byte (sget st i')) 255 in
    let st' := sswap st i' j' in
    let kb := sget st' (N.land (N_of_byte (sget st' i') + N_of_byte (sget st' j')) 255) in
    bxor b kb :: rc4_apply st' i' j' rest
  end.

(* Rc4::decrypt / Rc4::encrypt (the same function) on an initialised cipher *)
Definition rc4_decrypt (st : bytes) (input : bytes) : bytes := rc4_apply st 0 0 input.
Definition rc4_encrypt (st : bytes) (input : bytes) : bytes := rc4_decrypt st input.

(* Rc4::new(key).encrypt(data); None = the constructor panicked *)
Definition rc4 (key data : bytes) : option bytes :=
  match rc4_new key with None => None | Some st => Some (rc4_encrypt st data) end.

(* the two vectors of the crate's own test (rc4_works), plus RFC 6229's first 16 bytes for the
   40-bit key 0x0102030405 *)
Example rc4_vec1 : rc4 (bs "Key") (bs "Plaintext")
  = Some [xbb; xf3; x16; xe8; xd9; x40; xaf; x0a; xd3].
Proof. vm_compute. reflexivity. Qed.
Example rc4_vec2 : rc4 (bs "Wiki") (bs "pedia") = Some [x10; x21; xbf; x04; x20].
Proof. vm_compute. reflexivity. Qed.
Example rc4_vec3 : rc4 [x01; x02; x03; x04; x05] (zeros 16)
  = Some [xb2; x39; x63; x05; xf0; x3d; xc0; x27; xcc; xc3; x52; x4a; x0a; x11; x18; xa8].
Proof. vm_compute. reflexivity. Qed.
