(* SHA2.v -- SHA-256, SHA-384, SHA-512 written from FIPS 180-4, executable.  Stand in for the
   `sha2` crate (third-party code); anchored by the NIST example vectors below and
   differential-tested through lopdf (R5/R6 password hashes) on every run of the C05/C06 checks.
   Definitions + test vectors only. *)
From LV Require Import Base.Bytes Model.Crypto.Word.
Local Open Scope N_scope.

(* FIPS 180-4 4.2.2: first 32 bits of the fractional parts of the cube roots of the first 64 primes *)
Definition sha256_K : list N :=
  [1116352408; 1899447441; 3049323471; 3921009573; 961987163; 1508970993; 2453635748; 2870763221;
   3624381080; 310598401; 607225278; 1426881987; 1925078388; 2162078206; 2614888103; 3248222580;
   3835390401; 4022224774; 264347078; 604807628; 770255983; 1249150122; 1555081692; 1996064986;
   2554220882; 2821834349; 2952996808; 3210313671; 3336571891; 3584528711; 113926993; 338241895;
   666307205; 773529912; 1294757372; 1396182291; 1695183700; 1986661051; 2177026350; 2456956037;
   2730485921; 2820302411; 3259730800; 3345764771; 3516065817; 3600352804; 4094571909; 275423344;
   430227734; 506948616; 659060556; 883997877; 958139571; 1322822218; 1537002063; 1747873779;
   1955562222; 2024104815; 2227730452; 2361852424; 2428436474; 2756734187; 3204031479; 3329325298].

(* 5.3.3: square roots of the first 8 primes *)
Definition sha256_H0 : list N :=
  [1779033703; 3144134277; 1013904242; 2773480762; 1359893119; 2600822924; 528734635; 1541459225].

(* 4.2.3 *)
Definition sha512_K : list N :=
  [4794697086780616226; 8158064640168781261; 13096744586834688815; 16840607885511220156;
   4131703408338449720; 6480981068601479193; 10538285296894168987; 12329834152419229976;
   15566598209576043074; 1334009975649890238; 2608012711638119052; 6128411473006802146;
   8268148722764581231; 9286055187155687089; 11230858885718282805; 13951009754708518548;
   16472876342353939154; 17275323862435702243; 1135362057144423861; 2597628984639134821;
   3308224258029322869; 5365058923640841347; 6679025012923562964; 8573033837759648693;
   10970295158949994411; 12119686244451234320; 12683024718118986047; 13788192230050041572;
   14330467153632333762; 15395433587784984357; 489312712824947311; 1452737877330783856;
   2861767655752347644; 3322285676063803686; 5560940570517711597; 5996557281743188959;
   7280758554555802590; 8532644243296465576; 9350256976987008742; 10552545826968843579;
   11727347734174303076; 12113106623233404929; 14000437183269869457; 14369950271660146224;
   15101387698204529176; 15463397548674623760; 17586052441742319658; 1182934255886127544;
   1847814050463011016; 2177327727835720531; 2830643537854262169; 3796741975233480872;
   4115178125766777443; 5681478168544905931; 6601373596472566643; 7507060721942968483;
   8399075790359081724; 8693463985226723168; 9568029438360202098; 10144078919501101548;
   10430055236837252648; 11840083180663258601; 13761210420658862357; 14299343276471374635;
   14566680578165727644; 15097957966210449927; 16922976911328602910; 17689382322260857208;
   500013540394364858; 748580250866718886; 1242879168328830382; 1977374033974150939;
   2944078676154940804; 3659926193048069267; 4368137639120453308; 4836135668995329356;
   5532061633213252278; 6448918945643986474; 6902733635092675308; 7801388544844847127].

(* 5.3.5 *)
Definition sha512_H0 : list N :=
  [7640891576956012808; 13503953896175478587; 4354685564936845355; 11912009170470909681;
   5840696475078001361; 11170449401992604703; 2270897969802886507; 6620516959819538809].

(* 5.3.4: square roots of the 9th..16th primes *)
Definition sha384_H0 : list N :=
  [14680500436340154072; 7105036623409894663; 10473403895298186519; 1526699215303891257;
   7436329637833083697; 10282925794625328401; 15784041429090275239; 5167115440072839076].

(* 5.1.1 / 5.1.2: 0x80, zeros, message bit length big endian in [lenbytes] bytes; total a multiple of [blk] *)
Definition sha_pad (blk lenbytes : nat) (m : bytes) : bytes :=
  let len := length m in
  let r := Nat.modulo (len + 1) blk in
  let room := Nat.sub blk lenbytes in
  let z := if Nat.leb r room then Nat.sub room r else Nat.sub (blk + room) r in
  m ++ x80 :: zeros z ++ N_to_be lenbytes (8 * N.of_nat len).

(* Words are lists of 4-bit digits, least significant first (Word.v): 8 digits for SHA-256, 16 for
   SHA-512/384.  Ch and Maj are written in their usual three / four operation forms,
   Ch = z xor (x and (y xor z)), Maj = (x and y) or (z and (x or y)) -- bitwise identities of the FIPS
   formulas.  Rotation / shift amounts n are given as (q, r) with n = 4q + r. *)
Definition Ch (x y z : word) := wxor z (wand x (wxor y z)).
Definition Maj (x y z : word) := wor (wand x y) (wand z (wor x y)).
Definition wadd5 (a b c d e : word) := wadd (wadd (wadd a b) (wadd c d)) e.

(* ---------- SHA-256 ---------- *)
Definition s256_S0 (x : word) := wxor (wrotr x 0 2) (wxor (wrotr x 3 1) (wrotr x 5 2)).     (* 2, 13, 22 *)
Definition s256_S1 (x : word) := wxor (wrotr x 1 2) (wxor (wrotr x 2 3) (wrotr x 6 1)).     (* 6, 11, 25 *)
Definition s256_s0 (x : word) := wxor (wrotr x 1 3) (wxor (wrotr x 4 2) (wshr x 0 3)).      (* 7, 18, >>3 *)
Definition s256_s1 (x : word) := wxor (wrotr x 4 1) (wxor (wrotr x 4 3) (wshr x 2 2)).      (* 17, 19, >>10 *)

(* message schedule, newest word first: W[t] = s1(W[t-2]) + W[t-7] + s0(W[t-15]) + W[t-16] *)
Fixpoint sha_sched (s0 s1 : word -> word) (n : nat) (wr : list word) : list word :=
  match n with
  | O => wr
  | S k =>
    let w := wadd (wadd (s1 (nth 1 wr [])) (nth 6 wr [])) (wadd (s0 (nth 14 wr [])) (nth 15 wr [])) in
    sha_sched s0 s1 k (w :: wr)
  end.

Definition sha_round (S0 S1 : word -> word) (st : list word) (kw : word * word) : list word :=
  match st with
  | [a; b; c; d; e; f; g; h] =>
    let t1 := wadd5 h (S1 e) (Ch e f g) (fst kw) (snd kw) in
    let t2 := wadd (S0 a) (Maj a b c) in
    [wadd t1 t2; a; b; c; wadd d t1; e; f; g]
  | _ => st
  end.

Fixpoint map2w (a b : list word) : list word :=
  match a, b with x :: a', y :: b' => wadd x y :: map2w a' b' | _, _ => [] end.

Definition sha256_Kw : list word := map (word_of_N 8) sha256_K.
Definition sha256_H0w : list word := map (word_of_N 8) sha256_H0.

Definition s256_block (st : list word) (blk : bytes) : list word :=
  let w16 := map word_of_be (chunks_of 4 blk) in
  let w := rev (sha_sched s256_s0 s256_s1 48 (rev w16)) in
  map2w st (fold_left (sha_round s256_S0 s256_S1) (combine sha256_Kw w) st).

Definition sha256 (m : bytes) : bytes :=
  flat_map be_of_word (fold_left s256_block (chunks_of 64 (sha_pad 64 8 m)) sha256_H0w).

(* ---------- SHA-512 / SHA-384 ---------- *)
Definition s512_S0 (x : word) := wxor (wrotr x 7 0) (wxor (wrotr x 8 2) (wrotr x 9 3)).     (* 28, 34, 39 *)
Definition s512_S1 (x : word) := wxor (wrotr x 3 2) (wxor (wrotr x 4 2) (wrotr x 10 1)).    (* 14, 18, 41 *)
Definition s512_s0 (x : word) := wxor (wrotr x 0 1) (wxor (wrotr x 2 0) (wshr x 1 3)).      (* 1, 8, >>7 *)
Definition s512_s1 (x : word) := wxor (wrotr x 4 3) (wxor (wrotr x 15 1) (wshr x 1 2)).     (* 19, 61, >>6 *)

Definition sha512_Kw : list word := map (word_of_N 16) sha512_K.
Definition sha512_H0w : list word := map (word_of_N 16) sha512_H0.
Definition sha384_H0w : list word := map (word_of_N 16) sha384_H0.

Definition s512_block (st : list word) (blk : bytes) : list word :=
  let w16 := map word_of_be (chunks_of 8 blk) in
  let w := rev (sha_sched s512_s0 s512_s1 64 (rev w16)) in
  map2w st (fold_left (sha_round s512_S0 s512_S1) (combine sha512_Kw w) st).

Definition sha512_core (h0 : list word) (m : bytes) : bytes :=
  flat_map be_of_word (fold_left s512_block (chunks_of 128 (sha_pad 128 16 m)) h0).

Definition sha512 (m : bytes) : bytes := sha512_core sha512_H0w m.
Definition sha384 (m : bytes) : bytes := firstn 48 (sha512_core sha384_H0w m).

(* NIST example vectors (FIPS 180-4 examples / SHAVS): "abc", the empty message, and the two-block messages *)
Example sha256_abc : sha256 (bs "abc")
  = hex "ba7816bf8f01cfea414140de5dae2223b00361a396177a9cb410ff61f20015ad".
Proof. vm_compute. reflexivity. Qed.
Example sha256_empty : sha256 []
  = hex "e3b0c44298fc1c149afbf4c8996fb92427ae41e4649b934ca495991b7852b855".
Proof. vm_compute. reflexivity. Qed.
Example sha256_two_blocks : sha256 (bs "abcdbcdecdefdefgefghfghighijhijkijkljklmklmnlmnomnopnopq")
  = hex "248d6a61d20638b8e5c026930c3e6039a33ce45964ff2167f6ecedd419db06c1".
Proof. vm_compute. reflexivity. Qed.
Example sha384_abc : sha384 (bs "abc")
  = hex "cb00753f45a35e8bb5a03d699ac65007272c32ab0eded1631a8b605a43ff5bed8086072ba1e7cc2358baeca134c825a7".
Proof. vm_compute. reflexivity. Qed.
Example sha384_two_blocks :
  sha384 (bs "abcdefghbcdefghicdefghijdefghijkefghijklfghijklmghijklmnhijklmnoijklmnopjklmnopqklmnopqrlmnopqrsmnopqrstnopqrstu")
  = hex "09330c33f71147e83d192fc782cd1b4753111b173b3b05d22fa08086e3b0f712fcc7c71a557e2db966c3e9fa91746039".
Proof. vm_compute. reflexivity. Qed.
Example sha512_abc : sha512 (bs "abc")
  = hex "ddaf35a193617abacc417349ae20413112e6fa4e89a97ea20a9eeee64b55d39a2192992a274fc1a836ba3c23a3feebbd454d4423643ce80e2a9ac94fa54ca49f".
Proof. vm_compute. reflexivity. Qed.
Example sha512_empty : sha512 []
  = hex "cf83e1357eefb8bdf1542850d66d8007d620e4050b5715dc83f4a921d36ce9ce47d0d13c5d85f2b0ff8318d2877eec2f63b931bd47417a81a538327af927da3e".
Proof. vm_compute. reflexivity. Qed.
Example sha512_two_blocks :
  sha512 (bs "abcdefghbcdefghicdefghijdefghijkefghijklfghijklmghijklmnhijklmnoijklmnopjklmnopqklmnopqrlmnopqrsmnopqrstnopqrstu")
  = hex "8e959b75dae313da8cf4f72814fc143f8f7779c6eb9f7fa17299aeadb6889018501d289e4900f7e4331b99dec4b5433ac7d329eeb6dd26545e96e55b874be909".
Proof. vm_compute. reflexivity. Qed.
