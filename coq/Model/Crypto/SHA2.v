(* SHA2.v -- SHA-256, SHA-384, SHA-512 written from FIPS 180-4, executable.  Stand in for the
   `sha2` crate (third-party code); anchored by the NIST example vectors below and
   differential-tested through lopdf (R5/R6 password hashes) on every run of the C05/C06 checks.
   Definitions + test vectors only. *)
From LV Require Import Base.Bytes Model.Crypto.Word.
Local Open Scope N_scope.

(* FIPS 180-4 4.2.2: first 32 bits of the fractional parts of the cube roots of the first 64 primes *)
Definition sha256_K : list N :=
  [1116352408; 1899447441; 3049323471; 3921009573; 961987163; 1508970993; 2453635748; 2870763221;
   3624381080; 310598401; 607225278; 1426881987; 1925078388; 2162078206; 2614888103; 3248222580;
   3835390401; 4022224774; 264347078; 604807628; 770255983; 1249150122; 1555081692; 1996064986;
   2554220882; 2821834349; 2952996808; 3210313671; 3336571891; 3584528711; 113926993; 338241895;
   666307205; 773529912; 1294757372; 1396182291; 1695183700; 1986661051; 2177026350; 2456956037;
   2730485921; 2820302411; 3259730800; 3345764771; 3516065817; 3600352804; 4094571909; 275423344;
   430227734; 506948616; 659060556; 883997877; 958139571; 1322822218; 1537002063; 1747873779;
   1955562222; 2024104815; 2227730452; 2361852424; 2428436474; 2756734187; 3204031479; 3329325298].

(* 5.3.3: square roots of the first 8 primes *)
Definition sha256_H0 : list N :=
  [1779033703; 3144134277; 1013904242; 2773480762; 1359893119; 2600822924; 528734635; 1541459225].

(* 4.2.3 *)
Definition sha512_K : list N :=
  [4794697086780616226; 8158064640168781261; 13096744586834688815; 16840607885511220156;
   4131703408338449720; 6480981068601479193; 10538285296894168987; 12329834152419229976;
   15566598209576043074; 1334009975649890238; 2608012711638119052; 6128411473006802146;
   8268148722764581231; 9286055187155687089; 11230858885718282805; 13951009754708518548;
   16472876342353939154; 17275323862435702243; 1135362057144423861; 2597628984639134821;
   3308224258029322869; 5365058923640841347; 6679025012923562964; 8573033837759648693;
   10970295158949994411; 12119686244451234320; 12683024718118986047; 13788192230050041572;
   14330467153632333762; 15395433587784984357; 489312712824947311; 1452737877330783856;
   2861767655752347644; 3322285676063803686; 5560940570517711597; 5996557281743188959;
   7280758554555802590; 8532644243296465576; 9350256976987008742; 10552545826968843579;
   11727347734174303076; 12113106623233404929; 14000437183269869457; 14369950271660146224;
   15101387698204529176; 15463397548674623760; 17586052441742319658; 1182934255886127544;
   1847814050463011016; 2177327727835720531; 2830643537854262169; 3796741975233480872;
   4115178125766777443; 5681478168544905931; 6601373596472566643; 7507060721942968483;
   8399075790359081724; 8693463985226723168; 9568029438360202098; 10144078919501101548;
   10430055236837252648; 11840083180663258601; 13761210420658862357; 14299343276471374635;
   14566680578165727644; 15097957966210449927; 16922976911328602910; 17689382322260857208;
   500013540394364858; 748580250866718886; 1242879168328830382; 1977374033974150939;
   2944078676154940804; 3659926193048069267; 4368137639120453308; 4836135668995329356;
   5532061633213252278; 6448918945643986474; 6902733635092675308; 7801388544844847127].

(* 5.3.5 *)
Definition sha512_H0 : list N :=
  [7640891576956012808; 13503953896175478587; 4354685564936845355; 11912009170470909681;
   5840696475078001361; 11170449401992604703; 2270897969802886507; 6620516959819538809].

(* 5.3.4: square roots of the 9th..16th primes *)
Definition sha384_H0 : list N :=
  [14680500436340154072; 7105036623409894663; 10473403895298186519; 1526699215303891257;
   7436329637833083697; 10282925794625328401; 15784041429090275239; 5167115440072839076].

(* 5.1.1 / 5.1.2: 0x80, zeros, message bit length big endian in [lenbytes] bytes; total a multiple of [blk] *)
Definition sha_pad (blk lenbytes : nat) (m : bytes) : bytes :=
  let len := length m in
  let r := Nat.modulo (len + 1) blk in
  let room := Nat.sub blk lenbytes in
  let z := if Nat.leb r room then Nat.sub room r else Nat.sub (blk + room) r in
  m ++ x80 :: zeros z ++ N_to_be lenbytes (8 * N.of_nat len).

Definition shr (x n : N) : N := N.shiftr x n.

(* ---------- SHA-256 ---------- *)
(* Ch and Maj in their usual three / four operation forms: Ch = z xor (x and (y xor z)),
   Maj = (x and y) or (z and (x or y)) -- bitwise identities of the FIPS formulas.  Every word handled
   here is below 2^32 (outputs of [add32] / [be_to_N] of 4 bytes), so rotations use [rr32], which needs
   no final reduction.  Several additions are reduced once ([w32] of the sum). *)
Definition rr32 (x n : N) : N := N.lor (N.shiftr x n) (N.shiftl (N.land x (N.ones n)) (32 - n)).
Definition s256_Ch (x y z : N) := N.lxor z (N.land x (N.lxor y z)).
Definition s256_Maj (x y z : N) := N.lor (N.land x y) (N.land z (N.lor x y)).
Definition s256_S0 (x : N) := N.lxor (rr32 x 2) (N.lxor (rr32 x 13) (rr32 x 22)).
Definition s256_S1 (x : N) := N.lxor (rr32 x 6) (N.lxor (rr32 x 11) (rr32 x 25)).
Definition s256_s0 (x : N) := N.lxor (rr32 x 7) (N.lxor (rr32 x 18) (shr x 3)).
Definition s256_s1 (x : N) := N.lxor (rr32 x 17) (N.lxor (rr32 x 19) (shr x 10)).

(* message schedule, newest word first: W[t] = s1(W[t-2]) + W[t-7] + s0(W[t-15]) + W[t-16] *)
Fixpoint s256_sched (n : nat) (wr : list N) : list N :=
  match n with
  | O => wr
  | S k =>
    let w := w32 (s256_s1 (nth 1 wr 0) + nth 6 wr 0 + s256_s0 (nth 14 wr 0) + nth 15 wr 0) in
    s256_sched k (w :: wr)
  end.

Definition s256_round (st : list N) (kw : N * N) : list N :=
  match st with
  | [a; b; c; d; e; f; g; h] =>
    let t1 := h + s256_S1 e + s256_Ch e f g + fst kw + snd kw in
    let t2 := s256_S0 a + s256_Maj a b c in
    [w32 (t1 + t2); a; b; c; w32 (d + t1); e; f; g]
  | _ => st
  end.

Fixpoint map2_add (add : N -> N -> N) (a b : list N) : list N :=
  match a, b with x :: a', y :: b' => add x y :: map2_add add a' b' | _, _ => [] end.

Definition s256_block (st : list N) (blk : bytes) : list N :=
  let w16 := map be_to_N (chunks_of 4 blk) in
  let w := rev (s256_sched 48 (rev w16)) in
  map2_add add32 st (fold_left s256_round (combine sha256_K w) st).

Definition sha256 (m : bytes) : bytes :=
  flat_map (N_to_be 4) (fold_left s256_block (chunks_of 64 (sha_pad 64 8 m)) sha256_H0).

(* ---------- SHA-512 / SHA-384 ---------- *)
Definition rr64 (x n : N) : N := N.lor (N.shiftr x n) (N.shiftl (N.land x (N.ones n)) (64 - n)).
Definition s512_Ch (x y z : N) := N.lxor z (N.land x (N.lxor y z)).
Definition s512_Maj (x y z : N) := N.lor (N.land x y) (N.land z (N.lor x y)).
Definition s512_S0 (x : N) := N.lxor (rr64 x 28) (N.lxor (rr64 x 34) (rr64 x 39)).
Definition s512_S1 (x : N) := N.lxor (rr64 x 14) (N.lxor (rr64 x 18) (rr64 x 41)).
Definition s512_s0 (x : N) := N.lxor (rr64 x 1) (N.lxor (rr64 x 8) (shr x 7)).
Definition s512_s1 (x : N) := N.lxor (rr64 x 19) (N.lxor (rr64 x 61) (shr x 6)).

Fixpoint s512_sched (n : nat) (wr : list N) : list N :=
  match n with
  | O => wr
  | S k =>
    let w := w64 (s512_s1 (nth 1 wr 0) + nth 6 wr 0 + s512_s0 (nth 14 wr 0) + nth 15 wr 0) in
    s512_sched k (w :: wr)
  end.

Definition s512_round (st : list N) (kw : N * N) : list N :=
  match st with
  | [a; b; c; d; e; f; g; h] =>
    let t1 := h + s512_S1 e + s512_Ch e f g + fst kw + snd kw in
    let t2 := s512_S0 a + s512_Maj a b c in
    [w64 (t1 + t2); a; b; c; w64 (d + t1); e; f; g]
  | _ => st
  end.

Definition s512_block (st : list N) (blk : bytes) : list N :=
  let w16 := map be_to_N (chunks_of 8 blk) in
  let w := rev (s512_sched 64 (rev w16)) in
  map2_add add64 st (fold_left s512_round (combine sha512_K w) st).

Definition sha512_core (h0 : list N) (m : bytes) : bytes :=
  flat_map (N_to_be 8) (fold_left s512_block (chunks_of 128 (sha_pad 128 16 m)) h0).

Definition sha512 (m : bytes) : bytes := sha512_core sha512_H0 m.
Definition sha384 (m : bytes) : bytes := firstn 48 (sha512_core sha384_H0 m).

(* NIST example vectors (FIPS 180-4 examples / SHAVS): "abc", the empty message, and the two-block messages *)
Example sha256_abc : sha256 (bs "abc")
  = hex "ba7816bf8f01cfea414140de5dae2223b00361a396177a9cb410ff61f20015ad".
Proof. vm_compute. reflexivity. Qed.
Example sha256_empty : sha256 []
  = hex "e3b0c44298fc1c149afbf4c8996fb92427ae41e4649b934ca495991b7852b855".
Proof. vm_compute. reflexivity. Qed.
Example sha256_two_blocks : sha256 (bs "abcdbcdecdefdefgefghfghighijhijkijkljklmklmnlmnomnopnopq")
  = hex "248d6a61d20638b8e5c026930c3e6039a33ce45964ff2167f6ecedd419db06c1".
Proof. vm_compute. reflexivity. Qed.
Example sha384_abc : sha384 (bs "abc")
  = hex "cb00753f45a35e8bb5a03d699ac65007272c32ab0eded1631a8b605a43ff5bed8086072ba1e7cc2358baeca134c825a7".
Proof. vm_compute. reflexivity. Qed.
Example sha384_two_blocks :
  sha384 (bs "abcdefghbcdefghicdefghijdefghijkefghijklfghijklmghijklmnhijklmnoijklmnopjklmnopqklmnopqrlmnopqrsmnopqrstnopqrstu")
  = hex "09330c33f71147e83d192fc782cd1b4753111b173b3b05d22fa08086e3b0f712fcc7c71a557e2db966c3e9fa91746039".
Proof. vm_compute. reflexivity. Qed.
Example sha512_abc : sha512 (bs "abc")
  = hex "ddaf35a193617abacc417349ae20413112e6fa4e89a97ea20a9eeee64b55d39a2192992a274fc1a836ba3c23a3feebbd454d4423643ce80e2a9ac94fa54ca49f".
Proof. vm_compute. reflexivity. Qed.
Example sha512_empty : sha512 []
  = hex "cf83e1357eefb8bdf1542850d66d8007d620e4050b5715dc83f4a921d36ce9ce47d0d13c5d85f2b0ff8318d2877eec2f63b931bd47417a81a538327af927da3e".
Proof. vm_compute. reflexivity. Qed.
Example sha512_two_blocks :
  sha512 (bs "abcdefghbcdefghicdefghijdefghijkefghijklfghijklmghijklmnhijklmnoijklmnopjklmnopqklmnopqrlmnopqrsmnopqrstnopqrstu")
  = hex "8e959b75dae313da8cf4f72814fc143f8f7779c6eb9f7fa17299aeadb6889018501d289e4900f7e4331b99dec4b5433ac7d329eeb6dd26545e96e55b874be909".
Proof. vm_compute. reflexivity. Qed.
